#!/usr/bin/env python3
"""seedsweep.py [-j N] [Cxx ...]: re-run every stored seed (seeded/<id>/patch.diff) against the quick
check of its property (or the check named in meta.json `check_with`) at /repo's current HEAD, each in
its own scratch worktree (VERIF_REPO), N at a time; records the outcome in meta.json `last_sweep`
and prints one line per seed.  A seed marked `obsolete` is skipped."""
import sys, os, json, glob, subprocess, re, hashlib, shutil, time
from concurrent.futures import ThreadPoolExecutor
ROOT = os.path.dirname(os.path.abspath(__file__))
args = sys.argv[1:]
jobs = 3
if args[:1] == ["-j"]:
    jobs = int(args[1]); args = args[2:]
head = subprocess.check_output(["git", "-C", "/repo", "rev-parse", "--short", "HEAD"]).decode().strip()


def one(d):
    sid = os.path.basename(d.rstrip("/"))
    mp = os.path.join(d, "meta.json")
    m = json.load(open(mp))
    if m.get("obsolete"):
        return sid, "obsolete", ""
    prop = m.get("check_with") or m["property"]
    wt = "/tmp/alt-sweep-%s-%d" % (sid, os.getpid())
    subprocess.call(["git", "-C", "/repo", "worktree", "add", "--detach", wt, "HEAD"], stdout=subprocess.DEVNULL, stderr=subprocess.DEVNULL)
    alt = os.path.join(ROOT, "work", "alt-" + hashlib.sha1(wt.encode()).hexdigest()[:10])
    try:
        if subprocess.call(["git", "-C", wt, "apply", os.path.join(d, "patch.diff")], stderr=subprocess.DEVNULL) != 0:
            res, sig = "does-not-apply", ""
        else:
            p = subprocess.run([os.path.join(ROOT, "check"), prop], cwd=ROOT, stdout=subprocess.PIPE, stderr=subprocess.STDOUT,
                               env=dict(os.environ, VERIF_REPO=wt))
            out = p.stdout.decode()
            v = [l for l in out.split("\n") if l.startswith("VIOLATION")]
            sig = ""
            if v:
                rp = re.search(r"replay=(\S+)", v[0])
                if rp and os.path.exists(rp.group(1)):
                    try: sig = json.load(open(rp.group(1))).get("signature", "")
                    except Exception: pass
                res = "no-failing-input-found" if "no-failing-input-found" in v[0] else "violation"
            else:
                res = "MISSED" if p.returncode == 0 else "check-error"
    finally:
        subprocess.call(["git", "-C", "/repo", "worktree", "remove", "--force", wt], stdout=subprocess.DEVNULL, stderr=subprocess.DEVNULL)
        shutil.rmtree(alt, ignore_errors=True)
    m["last_sweep"] = dict(repo_head=head, check=prop, result=res, signature=sig, at=time.strftime("%Y-%m-%dT%H:%MZ", time.gmtime()))
    json.dump(m, open(mp, "w"), indent=1)
    return sid, res, sig


dirs = sorted(glob.glob(os.path.join(ROOT, "seeded", "*", "")))
if args:
    dirs = [d for d in dirs if os.path.basename(d.rstrip("/")).split("-")[0] in args]
with ThreadPoolExecutor(max_workers=jobs) as ex:
    for sid, res, sig in ex.map(one, dirs):
        print("%-8s %-24s %s" % (sid, res, sig), flush=True)
