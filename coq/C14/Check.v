(* C14 - executable checks on OBSERVED frames/events of the real handleTCP, and the
   model run used for the correspondence. *)
From HT Require Import Common.Bytes C14.Model.
Open Scope Z_scope.

Inductive op :=
| OSeg (g : seg) (fresh : N * Z * Z)   (* inject a segment; fresh = (key, iss, ipid) if it creates a State *)
| OReader (k : N).                     (* the reader goroutine of connection k ran (read, close, report) *)

(* event of the generic reader: addresses, ports, payload *)
Record ev := mkEv { e_sip : ip; e_dip : ip; e_sport : Z; e_dport : Z; e_payload : bytes }.

Record sobs := mkSObs { so_frames : list bytes; so_ev : option ev }.

(* the harness gives every peer the hardware address 02:00:<ip> in the ARP cache *)
Definition mac_of (a : ip) : bytes := [2; 0]%N ++ a.

Record case := mkCase {
  c_id : N;
  c_smac : bytes;
  c_me : ip;
  c_hops : list (ip * bytes);   (* peers reached through a gateway: the hardware address of the next hop
                                   (first route containing the peer, as configured by the harness) *)
  c_ops : list op;
  c_obs : list sobs
}.

(* hardware address a frame for peer [a] must carry: the peer's own (it has an ARP entry) unless
   the case routes it through a gateway *)
Definition hop (hops : list (ip * bytes)) (a : ip) : bytes :=
  match find (fun h => eqb_bytes (fst h) a) hops with
  | Some (_, m) => m
  | None => mac_of a
  end.

(* ---- model run ---- *)
Fixpoint run (hops : list (ip * bytes)) (me : ip) (smac : bytes) (t : table) (ops : list op) : list sobs :=
  match ops with
  | [] => []
  | OSeg g fr :: r =>
      let res := handle_tcp (fun a => ip_eqb a me) t fr g in
      mkSObs (map (fun o => frame_bytes (hop hops (o_dip o)) smac o) (r_out res)) None :: run hops me smac (r_tbl res) r
  | OReader k :: r =>
      match reader_step t k with
      | Some (t', o, payload, c) =>
          mkSObs [frame_bytes (hop hops (o_dip o)) smac o] (Some (mkEv (c_sip c) (c_dip c) (c_sport c) (c_dport c) payload))
            :: run hops me smac t' r
      | None => mkSObs [] None :: run hops me smac t r
      end
  end.

Fixpoint list_eqb {A} (e : A -> A -> bool) (a b : list A) : bool :=
  match a, b with
  | [], [] => true
  | x :: a', y :: b' => e x y && list_eqb e a' b'
  | _, _ => false
  end.

Definition ev_eqb (a b : ev) : bool :=
  ip_eqb (e_sip a) (e_sip b) && ip_eqb (e_dip a) (e_dip b) && (e_sport a =? e_sport b) &&
  (e_dport a =? e_dport b) && eqb_bytes (e_payload a) (e_payload b).

Definition sobs_eqb (a b : sobs) : bool :=
  list_eqb eqb_bytes (so_frames a) (so_frames b) &&
  match so_ev a, so_ev b with
  | Some x, Some y => ev_eqb x y
  | None, None => true
  | _, _ => false
  end.

Definition model_obs (c : case) : list sobs := run (c_hops c) (c_me c) (c_smac c) [] (c_ops c).

Definition mismatches (cs : list case) : list N :=
  map c_id (filter (fun c => negb (list_eqb sobs_eqb (model_obs c) (c_obs c))) cs).

(* ---- property-level checks on the observed frames (no model) ---- *)
(* decoded view of an emitted frame: 14 eth + 20 ip + 20 tcp + payload *)
Record fview := mkFV {
  f_ok : bool;                  (* long enough, IPv4/TCP, IHL 5, data offset 5 *)
  f_sip : ip; f_dip : ip; f_sport : Z; f_dport : Z; f_seq : Z; f_ack : Z; f_flags : Z;
  f_ipsum_ok : bool; f_tcpsum_ok : bool; f_dmac : bytes; f_plen : Z
}.

Definition sl (l : bytes) (a b : nat) : bytes := firstn (b - a) (skipn a l).

Definition view (fr : bytes) : fview :=
  let iph := sl fr 14 34 in
  let tcp := skipn 34 fr in
  let sip := sl fr 26 30 in let dip := sl fr 30 34 in
  mkFV ((54 <=? zlen fr) && eqb_bytes (sl fr 12 15) [8; 0; 69]%N && eqb_bytes (sl fr 23 24) [6]%N
          && eqb_bytes (sl fr 46 47) [80]%N
          && (be_val (sl fr 16 18) =? zlen fr - 14))
       sip dip (be_val (sl fr 34 36)) (be_val (sl fr 36 38)) (be_val (sl fr 38 42)) (be_val (sl fr 42 46))
       (be_val (sl fr 47 48))
       (verify_sum iph =? 65535)
       (fold3 (pseudo_sum sip dip (zlen tcp) + sum_words tcp) =? 65535)
       (sl fr 0 6) (zlen tcp - 20).

Definition SIG_CHECKSUM := 1%N.
Definition SIG_ADDRESS := 2%N.
Definition SIG_SYNACK := 3%N.
Definition SIG_ACKNUM := 4%N.
Definition SIG_EVENT := 5%N.
Definition SIG_MALFORMED := 6%N.
Definition SIG_MODEL := 7%N.       (* differs from the model in a way none of the above names *)
Definition SIG_FIN := 8%N.         (* the FIN of an established connection got no acknowledgement *)
Definition SIG_DATA := 9%N.        (* data on an established connection got no acknowledgement of its last byte *)
Definition SIG_NOEVENT := 10%N.    (* an established connection that pushed data or closed was never reported *)

(* every frame emitted in answer to segment g *)
Definition frame_sig (hops : list (ip * bytes)) (g : seg) (fr : bytes) : N :=
  let v := view fr in
  if negb (f_ok v) then SIG_MALFORMED
  else if negb (f_ipsum_ok v && f_tcpsum_ok v) then SIG_CHECKSUM
  else if negb (ip_eqb (f_sip v) (g_dip g) && ip_eqb (f_dip v) (g_sip g) &&
                (f_sport v =? g_dport g) && (f_dport v =? g_sport g) && eqb_bytes (f_dmac v) (hop hops (g_sip g)))
       then SIG_ADDRESS
  else if hasf (g_flags g) SYN && negb (hasf (g_flags g) ACK) then
         (if (f_flags v =? SYN + ACK) && (f_ack v =? u32 (g_seq g + 1)) then 0 else SIG_SYNACK)
  else if hasf (f_flags v) ACK && negb (hasf (g_flags g) SYN) then
         (* in-order traffic: whatever is acknowledged is the end of this segment (+1 for FIN) *)
         (if (f_ack v =? u32 (g_seq g + zlen (g_payload g)))
             || (hasf (g_flags g) FIN && (f_ack v =? u32 (g_seq g + zlen (g_payload g) + 1)))
          then 0 else SIG_ACKNUM)
  else 0%N.

Fixpoint first_nz (l : list N) : N :=
  match l with [] => 0 | x :: r => if (x =? 0)%N then first_nz r else x end%N.

Definition reader_frame_sig (fr : bytes) : N :=
  let v := view fr in
  if negb (f_ok v) then SIG_MALFORMED
  else if negb (f_ipsum_ok v && f_tcpsum_ok v) then SIG_CHECKSUM else 0%N.

(* stream sent so far on the connection the event names: the payload must be a prefix of it *)
Fixpoint is_prefix (p b : bytes) : bool :=
  match p, b with
  | [], _ => true
  | x :: p', y :: b' => (x =? y)%N && is_prefix p' b'
  | _ :: _, [] => false
  end.

Definition stream_of (ops : list op) (e : ev) : bytes :=
  flat_map (fun o => match o with
                     | OSeg g _ => if ip_eqb (g_sip g) (e_sip e) && (g_sport g =? e_sport e) && (g_dport g =? e_dport e)
                                   then g_payload g else []
                     | _ => []
                     end) ops.

(* Evidence, taken from the observed exchange alone, that the connection a segment belongs to is
   established and still open in the client's direction: its SYN was answered by one SYN-ACK
   with sequence number q (q = ISS + 1 mod 2^32; q = 0 and q = 2^32 - 1 are the two server ISS
   values of the recorded comparison oddity), the client then acknowledged q + 1 in a segment
   without SYN/RST/FIN, and it has sent no RST and no FIN since. *)
Inductive cstate := CNone | CSyn (q : Z) | CEst | CDead.

Definition same_conn (g h : seg) : bool :=
  ip_eqb (g_sip g) (g_sip h) && ip_eqb (g_dip g) (g_dip h) && (g_sport g =? g_sport h) && (g_dport g =? g_dport h).

Definition cstep (g : seg) (st : cstate) (x : op * sobs) : cstate :=
  match x with
  | (OSeg h _, so) =>
      if same_conn g h then
        if hasf (g_flags h) SYN && negb (hasf (g_flags h) ACK) then
          match so_frames so with
          | [fr] => let v := view fr in
                    if f_ok v && (f_flags v =? SYN + ACK) then CSyn (f_seq v) else CDead
          | _ => CDead
          end
        else if hasf (g_flags h) RST || hasf (g_flags h) FIN || hasf (g_flags h) SYN then CDead
        else match st with
             | CSyn q => if hasf (g_flags h) ACK && (g_ack h =? u32 (q + 1)) && (0 <? q) && (q <? 4294967295)
                         then CEst else CDead
             | s => s
             end
      else st
  | _ => st
  end.

Definition fin_due (seen : list (op * sobs)) (g : seg) : bool :=
  hasf (g_flags g) FIN && hasf (g_flags g) ACK && negb (hasf (g_flags g) SYN) && negb (hasf (g_flags g) RST) &&
  match fold_left (cstep g) seen CNone with CEst => true | _ => false end.

Definition fin_answered (g : seg) (so : sobs) : bool :=
  existsb (fun fr => let v := view fr in
                     f_ok v && hasf (f_flags v) ACK && (f_ack v =? u32 (g_seq g + zlen (g_payload g) + 1)))
          (so_frames so).

(* in-order data on an established connection (the client has sent neither FIN nor RST) is
   acknowledged up to its last byte, whatever the listener's own half of the connection does *)
Definition data_due (seen : list (op * sobs)) (g : seg) : bool :=
  negb (eqb_bytes (g_payload g) []) && hasf (g_flags g) ACK && negb (hasf (g_flags g) SYN) &&
  negb (hasf (g_flags g) RST) &&
  match fold_left (cstep g) seen CNone with CEst => true | _ => false end.

Definition data_answered (g : seg) (so : sobs) : bool :=
  existsb (fun fr => let v := view fr in
                     f_ok v && hasf (f_flags v) ACK &&
                     ((f_ack v =? u32 (g_seq g + zlen (g_payload g))) ||
                      (hasf (g_flags g) FIN && (f_ack v =? u32 (g_seq g + zlen (g_payload g) + 1)))))
          (so_frames so).

(* the generic reader reports a connection once its client pushed data or closed: an event
   naming exactly this connection exists among the observations (earlier or later) *)
Definition names (e : ev) (g : seg) : bool :=
  ip_eqb (e_sip e) (g_sip g) && ip_eqb (e_dip e) (g_dip g) && (e_sport e =? g_sport g) && (e_dport e =? g_dport g).

Definition reported (g : seg) (obs : list sobs) : bool :=
  existsb (fun so => match so_ev so with Some e => names e g | None => false end) obs.

Definition report_due (seen : list (op * sobs)) (g : seg) : bool :=
  (hasf (g_flags g) PSH || hasf (g_flags g) FIN) && hasf (g_flags g) ACK && negb (hasf (g_flags g) SYN) &&
  negb (hasf (g_flags g) RST) && negb (decoded_port (g_dport g)) &&
  match fold_left (cstep g) seen CNone with CEst => true | _ => false end.

Fixpoint ops_sig (hops : list (ip * bytes)) (seen : list (op * sobs)) (ops : list op) (obs : list sobs) : N :=
  match ops, obs with
  | [], [] => 0
  | OSeg g fr :: r, so :: ro =>
      let s := first_nz (map (frame_sig hops g) (so_frames so)) in
      let s := if (s =? 0)%N then
                 (if hasf (g_flags g) SYN && negb (hasf (g_flags g) ACK) && negb (Nat.eqb (length (so_frames so)) 1)
                  then SIG_SYNACK else 0) else s in
      let s := if (s =? 0)%N then (if fin_due seen g && negb (fin_answered g so) then SIG_FIN else 0) else s in
      let s := if (s =? 0)%N then (if data_due seen g && negb (data_answered g so) then SIG_DATA else 0) else s in
      let s := if (s =? 0)%N then
                 (if report_due seen g && negb (reported g (map snd seen) || reported g ro) then SIG_NOEVENT else 0)
               else s in
      if (s =? 0)%N then ops_sig hops (seen ++ [(OSeg g fr, so)]) r ro else s
  | OReader k :: r, so :: ro =>
      let s := first_nz (map reader_frame_sig (so_frames so)) in
      let s := if (s =? 0)%N then
                 match so_ev so with
                 | Some e => if is_prefix (e_payload e) (stream_of (map fst seen) e) then 0 else SIG_EVENT
                 | None => 0
                 end else s in
      if (s =? 0)%N then ops_sig hops (seen ++ [(OReader k, so)]) r ro else s
  | _, _ => SIG_MALFORMED
  end%N.

Definition case_sig (c : case) : N :=
  let s := ops_sig (c_hops c) [] (c_ops c) (c_obs c) in
  if (s =? 0)%N then
    (if list_eqb sobs_eqb (model_obs c) (c_obs c) then 0 else SIG_MODEL)
  else s.

Definition violations (cs : list case) : list (N * N) :=
  flat_map (fun c => let s := ops_sig (c_hops c) [] (c_ops c) (c_obs c) in
                     if (s =? 0)%N then [] else [(c_id c, s)]) cs.

(* tags: number of frames the model expects (non-trivial if > 0) *)
Definition tags (cs : list case) : list (N * N) :=
  map (fun c => (c_id c, N.of_nat (length (flat_map so_frames (model_obs c))))) cs.
