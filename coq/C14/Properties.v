(* C14 - property theorems. *)
From HT Require Import Common.Bytes C14.Model C14.ProofsSum C14.Proofs C14.ProofsRsp.
From HT Require C14.Check C14.CheckRsp.
Open Scope Z_scope.

(* every emitted frame carries a correct IPv4 header checksum and TCP checksum *)
Theorem C14_ip_checksum_verifies : forall o, wf_out o -> verify_sum (ip_bytes o) = 65535.
Proof. exact ip_checksum_verifies. Qed.

Theorem C14_tcp_checksum_verifies : forall o, wf_out o ->
  fold3 (pseudo_sum (o_sip o) (o_dip o) (zlen (tcp_bytes o)) + sum_words (tcp_bytes o)) = 65535.
Proof. exact tcp_checksum_verifies. Qed.

(* the folding loops of the code compute the ones'-complement sum: a sum plus its checksum folds to 0xffff *)
Theorem C14_checksum_algebra : forall s, 0 <= s < 4294901760 -> fold3 (s + cksum_of_sum s) = 65535.
Proof. exact cksum_verifies. Qed.

(* every emitted segment is addressed back to the sender with the State's counters *)
Theorem C14_addressed_back : forall c f p,
  let o := fst (send c f p) in
  o_sip o = c_dip c /\ o_dip o = c_sip c /\ o_sport o = c_dport c /\ o_dport o = c_sport c /\
  o_seq o = c_nxt c /\ o_ack o = c_rcv c /\ o_flags o = f /\ o_payload o = p.
Proof. exact send_addressed. Qed.

(* a SYN is answered by exactly one SYN-ACK acknowledging ISN+1 (mod 2^32), for every ISN,
   port pair and table *)
Theorem C14_synack_acks_isn_plus_1 : forall isme t k iss id g,
  isme (g_dip g) = true -> g_sport g <> 22 -> g_dport g <> 22 ->
  hasf (g_flags g) SYN = true -> hasf (g_flags g) ACK = false ->
  r_out (handle_tcp isme t (k, iss, id) g) =
    [mkOut (g_dip g) (g_sip g) (g_dport g) (g_sport g) (u32 (iss + 1)) (u32 (g_seq g + 1)) (SYN + ACK) id []].
Proof. exact syn_answer. Qed.

(* established on the client's ACK (server ISS below 2^32 - 2: the code compares without wrap-around) *)
Theorem C14_established_on_ack : forall t c g,
  after_syn c -> c_iss c + 2 < 4294967296 ->
  hasf (g_flags g) SYN = false -> hasf (g_flags g) RST = false -> hasf (g_flags g) ACK = true ->
  hasf (g_flags g) FIN = false ->
  g_ack g = u32 (u32 (c_iss c + 1) + 1) -> g_payload g = [] ->
  r_started (handle_conn t c g) = Some (c_key c) /\ r_out (handle_conn t c g) = [].
Proof. exact established_on_ack. Qed.

(* observation (server ISS is drawn by the implementation, outside the property's quantifier):
   for the top two ISS values the plain comparison rejects the client's ACK *)
Theorem C14_established_wrap_refuted :
  exists c g t, after_syn c /\ hasf (g_flags g) ACK = true /\ g_ack g = u32 (u32 (c_iss c + 1) + 1) /\
                r_started (handle_conn t c g) = None.
Proof. exact established_wrap_refuted. Qed.

(* a data segment in ESTABLISHED is acknowledged by one ACK carrying RCV.NXT + its length (mod 2^32) *)
Theorem C14_data_acked : forall t c g,
  c_st c = Estab -> plain_data g -> g_payload g <> [] ->
  exists c', r_tbl (handle_conn t c g) = tput t c' /\
    c_st c' = Estab /\ c_key c' = c_key c /\
    c_rcv c' = u32 (c_rcv c + zlen (g_payload g)) /\ c_nxt c' = c_nxt c /\
    c_ring c' = ring_write (c_ring c) (g_payload g) /\
    r_out (handle_conn t c g) =
      [mkOut (c_dip c) (c_sip c) (c_dport c) (c_sport c) (c_nxt c) (u32 (c_rcv c + zlen (g_payload g))) ACK (c_id c) []].
Proof. exact data_acked. Qed.

(* all in-order segmentations: after k segments exactly the bytes received so far are acknowledged *)
Theorem C14_acks_track_bytes : forall ps c tmpl s,
  c_st c = Estab -> 0 <= c_rcv c < 4294967296 -> Forall (fun p => p <> []) ps ->
  c_st (fst (run_conn c (stream_segs tmpl s ps))) = Estab /\
  c_rcv (fst (run_conn c (stream_segs tmpl s ps))) = u32 (c_rcv c + total_len ps) /\
  length (snd (run_conn c (stream_segs tmpl s ps))) = length ps /\
  (forall i o, nth_error (snd (run_conn c (stream_segs tmpl s ps))) i = Some o ->
     o_flags o = ACK /\ o_ack o = u32 (c_rcv c + total_len (firstn (S i) ps))).
Proof. exact acks_track_bytes. Qed.

(* a FIN in ESTABLISHED is answered by FIN|ACK acknowledging seq+1, and wakes the reader *)
Theorem C14_fin_answered : forall t c g,
  c_st c = Estab ->
  hasf (g_flags g) SYN = false -> hasf (g_flags g) RST = false -> hasf (g_flags g) ACK = true ->
  hasf (g_flags g) FIN = true -> g_payload g = [] ->
  r_out (handle_conn t c g) =
    [mkOut (c_dip c) (c_sip c) (c_dport c) (c_sport c) (c_nxt c) (u32 (g_seq g + 1)) (FIN + ACK) (c_id c) []]
  /\ r_flush (handle_conn t c g) = Some (c_key c).
Proof. exact fin_answered. Qed.

(* ... and in every state in which the client's direction is still open - ESTABLISHED, or
   FIN-WAIT-1/2 after the listener closed first, whether or not the client has acknowledged the
   listener's FIN - a FIN, with or without data, draws an acknowledgement of the data and the
   FIN (mod 2^32), addressed back to the sender *)
Theorem C14_fin_acknowledged_while_client_open : forall t c g,
  client_open (c_st c) = true ->
  hasf (g_flags g) SYN = false -> hasf (g_flags g) RST = false -> hasf (g_flags g) ACK = true ->
  hasf (g_flags g) FIN = true ->
  exists o, In o (r_out (handle_conn t c g)) /\ acks_fin c g o.
Proof. exact fin_acked_while_open. Qed.

Example C14_fin_after_close_example :
  let c := mkConn 1 FinWait2 100 103 103 4294967295 7 [10;0;0;1]%N 4000 [127;0;0;1]%N 5555 [] false in
  let g := mkSeg [10;0;0;1]%N [127;0;0;1]%N 4000 5555 4294967295 103 (FIN + ACK + PSH) [1;2;3]%N in
  map (fun o => (o_flags o, o_ack o)) (r_out (handle_conn [Some c] c g)) = [(ACK, 2); (ACK, 3)].
Proof. vm_compute. reflexivity. Qed.

(* the receive ring is the first 4096 bytes of the accepted stream; the reported payload is
   the first 2048 bytes of the ring, i.e. a prefix of the client's stream *)
Theorem C14_ring_tracks_stream : forall ps c tmpl s S0,
  c_st c = Estab -> Forall (fun p => p <> []) ps -> c_ring c = firstn CAPn S0 ->
  c_ring (fst (run_conn c (stream_segs tmpl s ps))) = firstn CAPn (S0 ++ concat ps).
Proof. exact ring_tracks_stream. Qed.

Theorem C14_event_payload_prefix : forall t k t' o payload c,
  reader_step t k = Some (t', o, payload, c) ->
  payload = firstn READ_MAX (c_ring c) /\ o_flags o = FIN + ACK /\
  o_sip o = c_dip c /\ o_dip o = c_sip c /\ o_sport o = c_dport c /\ o_dport o = c_sport c.
Proof. exact reader_payload. Qed.

(* connections do not disturb each other: handling a segment for one State leaves every other
   State untouched, and what is sent depends only on that State and the segment *)
Theorem C14_other_states_untouched : forall t c g k,
  k <> c_key c -> find_key (r_tbl (handle_conn t c g)) k = find_key t k.
Proof. exact handle_conn_other. Qed.

Theorem C14_output_independent_of_table : forall t t' c g,
  r_out (handle_conn t c g) = r_out (handle_conn t' c g).
Proof. exact handle_conn_out_indep. Qed.

Theorem C14_lookup_exact : forall t c g,
  In (Some c) t -> matches c (g_sip g) (g_dip g) (g_sport g) (g_dport g) = true ->
  no_other_match t (c_key c) g ->
  exists c', tget t (g_sip g) (g_dip g) (g_sport g) (g_dport g) = Some c' /\ c_key c' = c_key c.
Proof. exact tget_exact. Qed.

(* the lookup is NOT exact in general: port values shared between a peer's connections confuse it *)
Theorem C14_get_confusable_refuted :
  exists t g c, tget t (g_sip g) (g_dip g) (g_sport g) (g_dport g) = Some c /\
                (c_sport c <> g_sport g \/ c_dport c <> g_dport g).
Proof. exact get_confusable_refuted. Qed.

(* non-vacuity: a reachable ESTABLISHED state near the wrap-around acknowledges across 2^32 *)
Example C14_wraparound_example :
  let c := mkConn 1 Estab 100 102 102 4294967290 7 [10;0;0;1]%N 4000 [127;0;0;1]%N 5555 [] true in
  let tmpl := mkSeg [10;0;0;1]%N [127;0;0;1]%N 4000 5555 0 102 ACK [] in
  map o_ack (snd (run_conn c (stream_segs tmpl 4294967290 [[1;2;3]%N; [4;5;6;7]%N]))) = [4294967293; 1].
Proof. vm_compute. reflexivity. Qed.


(* ---- segments that carry payload of the listener's own (decoded ports whose decoder writes) ---- *)

(* the checksum routine's contract for EVERY segment: any length from 18 bytes on (a TCP segment has
   at least 20), odd or even - an odd last byte is the high byte of a word padded virtually -, any
   addresses, any byte values, no bound on the sum: storing the complement of the ones'-complement
   sum over pseudo header + segment (checksum field skipped) makes the whole verify to 0xffff *)
Theorem C14_any_segment_checksum_verifies : forall src dst data,
  18 <= zlen data ->
  ocfold (segment_verify_sum src dst (fill_checksum (occk (segment_sum0 src dst data)) data)) = 65535.
Proof. exact any_segment_verifies. Qed.

(* ... and nothing but bytes 16..17 of the segment changes, its length included *)
Theorem C14_checksum_store_only_field : forall ck data,
  18 <= zlen data ->
  firstn 16 (fill_checksum ck data) = firstn 16 data /\
  skipn 18 (fill_checksum ck data) = skipn 18 data /\
  firstn 2 (skipn 16 (fill_checksum ck data)) = be_enc 2 ck.
Proof. exact fill_only_field. Qed.

(* the code's uint32 accumulator and fold loops compute that ones'-complement sum on the whole
   uint32 range ... *)
Theorem C14_fold_is_ones_complement : forall s, 0 <= s < 4294967296 -> fold3 s = ocfold s.
Proof. exact fold3_ocfold. Qed.

(* ... so updateTCPChecksum stores the right checksum into every segment an IPv4 packet can
   carry (20-byte IPv4 header + at most 65515 bytes), of odd and even length alike *)
Theorem C14_update_checksum_verifies : forall src dst data,
  wf_addr src -> wf_addr dst -> wf_bytes data = true -> 18 <= zlen data <= 65515 ->
  fold3 (segment_verify_sum src dst (update_tcp_checksum src dst data)) = 65535.
Proof. exact update_checksum_verifies. Qed.

Theorem C14_update_checksum_is_ones_complement : forall src dst data,
  wf_addr src -> wf_addr dst -> wf_bytes data = true -> 18 <= zlen data <= 65515 ->
  update_tcp_checksum src dst data = fill_checksum (occk (segment_sum0 src dst data)) data.
Proof. exact update_checksum_is_ones_complement. Qed.

(* every emitted segment of the model is header ++ payload run through that routine *)
Theorem C14_emitted_segment_uses_update_checksum : forall o,
  tcp_bytes o = update_tcp_checksum (o_sip o) (o_dip o) (tcp_header_nock o ++ o_payload o).
Proof. exact tcp_bytes_is_update. Qed.

(* the listener's writes (Socket.Write -> State.write), for every list of writes: the i-th data
   segment carries the i-th chunk, PSH|ACK, sequence number = SND.NXT + bytes already sent
   (mod 2^32), acknowledges RCV.NXT, is addressed back; nothing else of the State moves *)
Theorem C14_writes_count_bytes_sent : forall ws c,
  0 <= c_nxt c < 4294967296 ->
  same_peer c (snd (conn_writes c ws)) /\
  c_nxt (snd (conn_writes c ws)) = u32 (c_nxt c + total_len ws) /\
  length (fst (conn_writes c ws)) = length ws /\
  (forall i o, nth_error (fst (conn_writes c ws)) i = Some o ->
     exists w, nth_error ws i = Some w /\ data_out c (u32 (c_nxt c + total_len (firstn i ws))) w o).
Proof. exact conn_writes_spec. Qed.

(* a decoder that writes and closes: its data segments, then one FIN|ACK right behind the last
   byte; FIN-WAIT-1 *)
Theorem C14_decoder_answer_then_fin : forall t k ws c,
  find_key t k = Some c -> 0 <= c_nxt c < 4294967296 ->
  exists t' os o c',
    decoder_step t k ws = Some (t', os ++ [o]) /\ t' = tput t c' /\
    os = fst (conn_writes (set_ring c []) ws) /\
    o_flags o = FIN + ACK /\ o_payload o = [] /\ o_seq o = u32 (c_nxt c + total_len ws) /\ o_ack o = c_rcv c /\
    o_sip o = c_dip c /\ o_dip o = c_sip c /\ o_sport o = c_dport c /\ o_dport o = c_sport c /\
    c_st c' = FinWait1 /\ c_nxt c' = u32 (c_nxt c + total_len ws + 1) /\ c_rcv c' = c_rcv c /\ c_key c' = c_key c.
Proof. exact decoder_step_frames. Qed.

(* non-vacuity: the 69-byte (odd) segment that answers an HTTP request on port 80 near the
   sequence wrap, and a 70-byte (even) one; both verify, the wire frame passes the observation
   check - and the same frame with the checksum field left at zero is flagged *)
Definition ex_reply : bytes := [72;84;84;80;47;48;46;48;32;48;48;48;32;115;116;97;116;117;115;32;99;111;100;101;32;48;13;10;67;111;110;116;101;110;116;45;76;101;110;103;116;104;58;32;48;13;10;13;10]%N.
Definition ex_out (p : bytes) : out :=
  mkOut [127;0;0;1]%N [10;9;0;9]%N 80 42001 4294967290 0 (PSH + ACK) 7 p.
Definition ex_seg : seg := mkSeg [10;9;0;9]%N [127;0;0;1]%N 42001 80 4294967264 4294967290 (PSH + ACK) (repeat 71%N 32).
Definition ex_frame (p : bytes) : bytes := CheckRsp.wire [0;0;0;0;0;0]%N (ex_out p).
Definition ex_zeroed (fr : bytes) : bytes := firstn 50 fr ++ [0;0]%N ++ skipn 52 fr.

Example C14_reply_segment_example :
  zlen (tcp_bytes (ex_out ex_reply)) = 69 /\ zlen (tcp_bytes (ex_out (ex_reply ++ [33]%N))) = 70 /\
  fold3 (segment_verify_sum [127;0;0;1]%N [10;9;0;9]%N (tcp_bytes (ex_out ex_reply))) = 65535 /\
  fold3 (segment_verify_sum [127;0;0;1]%N [10;9;0;9]%N (tcp_bytes (ex_out (ex_reply ++ [33]%N)))) = 65535 /\
  fst (CheckRsp.frame_sig ex_seg (CheckRsp.mkJ (Some 4294967290) 0 []) (ex_frame ex_reply)) = 0%N /\
  fst (CheckRsp.frame_sig ex_seg (CheckRsp.mkJ (Some 4294967290) 0 []) (ex_zeroed (ex_frame ex_reply))) = CheckRsp.SIG_TCPSUM /\
  fst (CheckRsp.frame_sig ex_seg (CheckRsp.mkJ (Some 4294967290) 0 []) (ex_zeroed (ex_frame (ex_reply ++ [33]%N)))) = CheckRsp.SIG_TCPSUM.
Proof. vm_compute. repeat split; reflexivity. Qed.

(* a single write (Socket.Write; the verif hook VerifCanary.Write): for EVERY length, zero included,
   exactly one PSH|ACK segment carrying the bytes at SND.NXT, acknowledging RCV.NXT, addressed back;
   SND.NXT advances by the length (mod 2^32) and nothing else of the State moves.  (The code does not
   cut a long write to any segment size: the model says so, the property does not ask for it.) *)
Theorem C14_one_write_one_segment : forall t k w c,
  find_key t k = Some c ->
  exists o c',
    write_step t k w = Some (tput t c', o) /\
    data_out c (c_nxt c) w o /\
    c_nxt c' = u32 (c_nxt c + zlen w) /\ c_rcv c' = c_rcv c /\ c_st c' = c_st c /\ c_key c' = c_key c /\
    c_una c' = c_una c /\ c_ring c' = c_ring c.
Proof. exact write_step_frame. Qed.

Example C14_write_lengths_example :
  let c := mkConn 1 Estab 4294967000 4294967001 4294967001 77 7 [10;0;0;1]%N 4000 [127;0;0;1]%N 5555 [] true in
  map (fun w => match write_step [Some c] 1 w with
                | Some (_, o) => (zlen (tcp_bytes o), o_seq o,
                                  fold3 (segment_verify_sum (o_sip o) (o_dip o) (tcp_bytes o)))
                | None => (0, 0, 0)
                end) [[]; [255]%N; repeat 255%N 1461]
  = [(20, 4294967001, 65535); (21, 4294967001, 65535); (1481, 4294967001, 65535)] /\
  map o_seq (fst (conn_writes c [repeat 0%N 200; [1;2;3]%N; []; repeat 255%N 100])) = [4294967001; 4294967201; 4294967204; 4294967204] /\
  c_nxt (snd (conn_writes c [repeat 0%N 200; [1;2;3]%N; []; repeat 255%N 100])) = 8.
Proof. vm_compute. repeat split; reflexivity. Qed.

(* non-vacuity of the contract's hypotheses and of the sum being unbounded: a segment of 131101
   bytes (odd), whose sum no uint32 could hold, still verifies *)
Definition ex_big : bytes := repeat 255%N (N.to_nat 131101).
Definition ex_ones : ip := [255;255;255;255]%N.
Example C14_any_length_example :
  18 <= zlen ex_big /\ 4294967296 < segment_sum0 ex_ones ex_ones ex_big /\
  ocfold (segment_verify_sum ex_ones ex_ones (fill_checksum (occk (segment_sum0 ex_ones ex_ones ex_big)) ex_big)) = 65535.
Proof. split; [vm_compute; discriminate|split; vm_compute; reflexivity]. Qed.

Print Assumptions C14_ip_checksum_verifies.
Print Assumptions C14_tcp_checksum_verifies.
Print Assumptions C14_checksum_algebra.
Print Assumptions C14_addressed_back.
Print Assumptions C14_synack_acks_isn_plus_1.
Print Assumptions C14_established_on_ack.
Print Assumptions C14_established_wrap_refuted.
Print Assumptions C14_data_acked.
Print Assumptions C14_acks_track_bytes.
Print Assumptions C14_fin_answered.
Print Assumptions C14_ring_tracks_stream.
Print Assumptions C14_event_payload_prefix.
Print Assumptions C14_other_states_untouched.
Print Assumptions C14_output_independent_of_table.
Print Assumptions C14_lookup_exact.
Print Assumptions C14_get_confusable_refuted.
Print Assumptions C14_fin_acknowledged_while_client_open.
Print Assumptions C14_any_segment_checksum_verifies.
Print Assumptions C14_checksum_store_only_field.
Print Assumptions C14_fold_is_ones_complement.
Print Assumptions C14_update_checksum_verifies.
Print Assumptions C14_update_checksum_is_ones_complement.
Print Assumptions C14_emitted_segment_uses_update_checksum.
Print Assumptions C14_writes_count_bytes_sent.
Print Assumptions C14_decoder_answer_then_fin.
Print Assumptions C14_one_write_one_segment.
