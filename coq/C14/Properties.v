(* C14 - property theorems. *)
From HT Require Import Common.Bytes C14.Model C14.ProofsSum C14.Proofs.
Open Scope Z_scope.

(* every emitted frame carries a correct IPv4 header checksum and TCP checksum *)
Theorem C14_ip_checksum_verifies : forall o, wf_out o -> verify_sum (ip_bytes o) = 65535.
Proof. exact ip_checksum_verifies. Qed.

Theorem C14_tcp_checksum_verifies : forall o, wf_out o ->
  fold3 (pseudo_sum (o_sip o) (o_dip o) (zlen (tcp_bytes o)) + sum_words (tcp_bytes o)) = 65535.
Proof. exact tcp_checksum_verifies. Qed.

(* the folding loops of the code compute the ones'-complement sum: a sum plus its checksum folds to 0xffff *)
Theorem C14_checksum_algebra : forall s, 0 <= s < 4294901760 -> fold3 (s + cksum_of_sum s) = 65535.
Proof. exact cksum_verifies. Qed.

(* every emitted segment is addressed back to the sender with the State's counters *)
Theorem C14_addressed_back : forall c f p,
  let o := fst (send c f p) in
  o_sip o = c_dip c /\ o_dip o = c_sip c /\ o_sport o = c_dport c /\ o_dport o = c_sport c /\
  o_seq o = c_nxt c /\ o_ack o = c_rcv c /\ o_flags o = f /\ o_payload o = p.
Proof. exact send_addressed. Qed.

(* a SYN is answered by exactly one SYN-ACK acknowledging ISN+1 (mod 2^32), for every ISN,
   port pair and table *)
Theorem C14_synack_acks_isn_plus_1 : forall isme t k iss id g,
  isme (g_dip g) = true -> g_sport g <> 22 -> g_dport g <> 22 ->
  hasf (g_flags g) SYN = true -> hasf (g_flags g) ACK = false ->
  r_out (handle_tcp isme t (k, iss, id) g) =
    [mkOut (g_dip g) (g_sip g) (g_dport g) (g_sport g) (u32 (iss + 1)) (u32 (g_seq g + 1)) (SYN + ACK) id []].
Proof. exact syn_answer. Qed.

(* established on the client's ACK (server ISS below 2^32 - 2: the code compares without wrap-around) *)
Theorem C14_established_on_ack : forall t c g,
  after_syn c -> c_iss c + 2 < 4294967296 ->
  hasf (g_flags g) SYN = false -> hasf (g_flags g) RST = false -> hasf (g_flags g) ACK = true ->
  hasf (g_flags g) FIN = false ->
  g_ack g = u32 (u32 (c_iss c + 1) + 1) -> g_payload g = [] ->
  r_started (handle_conn t c g) = Some (c_key c) /\ r_out (handle_conn t c g) = [].
Proof. exact established_on_ack. Qed.

(* observation (server ISS is drawn by the implementation, outside the property's quantifier):
   for the top two ISS values the plain comparison rejects the client's ACK *)
Theorem C14_established_wrap_refuted :
  exists c g t, after_syn c /\ hasf (g_flags g) ACK = true /\ g_ack g = u32 (u32 (c_iss c + 1) + 1) /\
                r_started (handle_conn t c g) = None.
Proof. exact established_wrap_refuted. Qed.

(* a data segment in ESTABLISHED is acknowledged by one ACK carrying RCV.NXT + its length (mod 2^32) *)
Theorem C14_data_acked : forall t c g,
  c_st c = Estab -> plain_data g -> g_payload g <> [] ->
  exists c', r_tbl (handle_conn t c g) = tput t c' /\
    c_st c' = Estab /\ c_key c' = c_key c /\
    c_rcv c' = u32 (c_rcv c + zlen (g_payload g)) /\ c_nxt c' = c_nxt c /\
    c_ring c' = ring_write (c_ring c) (g_payload g) /\
    r_out (handle_conn t c g) =
      [mkOut (c_dip c) (c_sip c) (c_dport c) (c_sport c) (c_nxt c) (u32 (c_rcv c + zlen (g_payload g))) ACK (c_id c) []].
Proof. exact data_acked. Qed.

(* all in-order segmentations: after k segments exactly the bytes received so far are acknowledged *)
Theorem C14_acks_track_bytes : forall ps c tmpl s,
  c_st c = Estab -> 0 <= c_rcv c < 4294967296 -> Forall (fun p => p <> []) ps ->
  c_st (fst (run_conn c (stream_segs tmpl s ps))) = Estab /\
  c_rcv (fst (run_conn c (stream_segs tmpl s ps))) = u32 (c_rcv c + total_len ps) /\
  length (snd (run_conn c (stream_segs tmpl s ps))) = length ps /\
  (forall i o, nth_error (snd (run_conn c (stream_segs tmpl s ps))) i = Some o ->
     o_flags o = ACK /\ o_ack o = u32 (c_rcv c + total_len (firstn (S i) ps))).
Proof. exact acks_track_bytes. Qed.

(* a FIN in ESTABLISHED is answered by FIN|ACK acknowledging seq+1, and wakes the reader *)
Theorem C14_fin_answered : forall t c g,
  c_st c = Estab ->
  hasf (g_flags g) SYN = false -> hasf (g_flags g) RST = false -> hasf (g_flags g) ACK = true ->
  hasf (g_flags g) FIN = true -> g_payload g = [] ->
  r_out (handle_conn t c g) =
    [mkOut (c_dip c) (c_sip c) (c_dport c) (c_sport c) (c_nxt c) (u32 (g_seq g + 1)) (FIN + ACK) (c_id c) []]
  /\ r_flush (handle_conn t c g) = Some (c_key c).
Proof. exact fin_answered. Qed.

(* ... and in every state in which the client's direction is still open - ESTABLISHED, or
   FIN-WAIT-1/2 after the listener closed first, whether or not the client has acknowledged the
   listener's FIN - a FIN, with or without data, draws an acknowledgement of the data and the
   FIN (mod 2^32), addressed back to the sender *)
Theorem C14_fin_acknowledged_while_client_open : forall t c g,
  client_open (c_st c) = true ->
  hasf (g_flags g) SYN = false -> hasf (g_flags g) RST = false -> hasf (g_flags g) ACK = true ->
  hasf (g_flags g) FIN = true ->
  exists o, In o (r_out (handle_conn t c g)) /\ acks_fin c g o.
Proof. exact fin_acked_while_open. Qed.

Example C14_fin_after_close_example :
  let c := mkConn 1 FinWait2 100 103 103 4294967295 7 [10;0;0;1]%N 4000 [127;0;0;1]%N 5555 [] false in
  let g := mkSeg [10;0;0;1]%N [127;0;0;1]%N 4000 5555 4294967295 103 (FIN + ACK + PSH) [1;2;3]%N in
  map (fun o => (o_flags o, o_ack o)) (r_out (handle_conn [Some c] c g)) = [(ACK, 2); (ACK, 3)].
Proof. vm_compute. reflexivity. Qed.

(* the receive ring is the first 4096 bytes of the accepted stream; the reported payload is
   the first 2048 bytes of the ring, i.e. a prefix of the client's stream *)
Theorem C14_ring_tracks_stream : forall ps c tmpl s S0,
  c_st c = Estab -> Forall (fun p => p <> []) ps -> c_ring c = firstn CAPn S0 ->
  c_ring (fst (run_conn c (stream_segs tmpl s ps))) = firstn CAPn (S0 ++ concat ps).
Proof. exact ring_tracks_stream. Qed.

Theorem C14_event_payload_prefix : forall t k t' o payload c,
  reader_step t k = Some (t', o, payload, c) ->
  payload = firstn READ_MAX (c_ring c) /\ o_flags o = FIN + ACK /\
  o_sip o = c_dip c /\ o_dip o = c_sip c /\ o_sport o = c_dport c /\ o_dport o = c_sport c.
Proof. exact reader_payload. Qed.

(* connections do not disturb each other: handling a segment for one State leaves every other
   State untouched, and what is sent depends only on that State and the segment *)
Theorem C14_other_states_untouched : forall t c g k,
  k <> c_key c -> find_key (r_tbl (handle_conn t c g)) k = find_key t k.
Proof. exact handle_conn_other. Qed.

Theorem C14_output_independent_of_table : forall t t' c g,
  r_out (handle_conn t c g) = r_out (handle_conn t' c g).
Proof. exact handle_conn_out_indep. Qed.

Theorem C14_lookup_exact : forall t c g,
  In (Some c) t -> matches c (g_sip g) (g_dip g) (g_sport g) (g_dport g) = true ->
  no_other_match t (c_key c) g ->
  exists c', tget t (g_sip g) (g_dip g) (g_sport g) (g_dport g) = Some c' /\ c_key c' = c_key c.
Proof. exact tget_exact. Qed.

(* the lookup is NOT exact in general: port values shared between a peer's connections confuse it *)
Theorem C14_get_confusable_refuted :
  exists t g c, tget t (g_sip g) (g_dip g) (g_sport g) (g_dport g) = Some c /\
                (c_sport c <> g_sport g \/ c_dport c <> g_dport g).
Proof. exact get_confusable_refuted. Qed.

(* non-vacuity: a reachable ESTABLISHED state near the wrap-around acknowledges across 2^32 *)
Example C14_wraparound_example :
  let c := mkConn 1 Estab 100 102 102 4294967290 7 [10;0;0;1]%N 4000 [127;0;0;1]%N 5555 [] true in
  let tmpl := mkSeg [10;0;0;1]%N [127;0;0;1]%N 4000 5555 0 102 ACK [] in
  map o_ack (snd (run_conn c (stream_segs tmpl 4294967290 [[1;2;3]%N; [4;5;6;7]%N]))) = [4294967293; 1].
Proof. vm_compute. reflexivity. Qed.

Print Assumptions C14_ip_checksum_verifies.
Print Assumptions C14_tcp_checksum_verifies.
Print Assumptions C14_checksum_algebra.
Print Assumptions C14_addressed_back.
Print Assumptions C14_synack_acks_isn_plus_1.
Print Assumptions C14_established_on_ack.
Print Assumptions C14_established_wrap_refuted.
Print Assumptions C14_data_acked.
Print Assumptions C14_acks_track_bytes.
Print Assumptions C14_fin_answered.
Print Assumptions C14_ring_tracks_stream.
Print Assumptions C14_event_payload_prefix.
Print Assumptions C14_other_states_untouched.
Print Assumptions C14_output_independent_of_table.
Print Assumptions C14_lookup_exact.
Print Assumptions C14_get_confusable_refuted.
Print Assumptions C14_fin_acknowledged_while_client_open.
