(* C14 - decoded destination ports (23, 80, 443, 139, 445, 1433, 6379, 9200): the
   per-port decoders are not modelled; the property's event clause is judged on the
   observation alone: the connection is reported in an event carrying the client's
   addresses and ports; for the raw-payload decoders its payload is a prefix of the
   client's stream that contains the first pushed segment (up to 2048 bytes). *)
From HT Require Import Common.Bytes.
Open Scope Z_scope.

Record dev := mkDev { d_sip : bytes; d_dip : bytes; d_sport : Z; d_dport : Z; d_haspayload : bool; d_payload : bytes }.

Record case := mkCase {
  c_id : N;
  c_sip : bytes; c_dip : bytes; c_sport : Z; c_dport : Z;
  c_first : bytes;          (* first pushed segment *)
  c_stream : bytes;         (* everything the client sent, in order *)
  c_http : bool;            (* destination port is decoded as an HTTP request (no payload field) *)
  c_events : list dev       (* events naming a TCP connection observed during the scenario *)
}.

Fixpoint is_prefix (p b : bytes) : bool :=
  match p, b with
  | [], _ => true
  | x :: p', y :: b' => (x =? y)%N && is_prefix p' b'
  | _ :: _, [] => false
  end.

Definition SIG_NO_EVENT := 1%N.        (* the connection is not reported at all *)
Definition SIG_WRONG_ADDR := 2%N.      (* an event carries other addresses / ports *)
Definition SIG_PAYLOAD := 3%N.         (* payload not a prefix of the stream, or shorter than the first pushed segment *)

Definition mine (c : case) (e : dev) : bool :=
  eqb_bytes (d_sip e) (c_sip c) && eqb_bytes (d_dip e) (c_dip c) && (d_sport e =? c_sport c) && (d_dport e =? c_dport c).

Definition payload_ok (c : case) (e : dev) : bool :=
  d_haspayload e && is_prefix (d_payload e) (c_stream c)
  && (Z.min (zlen (c_first c)) 2048 <=? zlen (d_payload e)).

Definition case_sig (c : case) : N :=
  match c_events c with
  | [] => SIG_NO_EVENT
  | evs =>
      if negb (forallb (mine c) evs) then SIG_WRONG_ADDR
      else if c_http c then 0%N
      else if forallb (payload_ok c) evs then 0%N else SIG_PAYLOAD
  end.

Definition violations (cs : list case) : list (N * N) :=
  flat_map (fun c => let s := case_sig c in if (s =? 0)%N then [] else [(c_id c, s)]) cs.
(* no model for the decoders: nothing to disagree with *)
Definition mismatches (cs : list case) : list N := [].
Definition tags (cs : list case) : list (N * N) := map (fun c => (c_id c, 1%N)) cs.
