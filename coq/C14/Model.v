(* C14 - model of the raw listener's TCP machine: handleTCP, send, updateTCPChecksum
   (listener/canary/canary_linux.go), State/StateTable (state.go), Socket (socket.go),
   tcp/ipv4/ethernet Marshal.  Executable definitions only.
   uint32 arithmetic is explicit [mod 2^32]; comparisons are the PLAIN unsigned ones the
   code uses. *)
From HT Require Import Common.Bytes.
Open Scope Z_scope.

Definition u32 (x : Z) : Z := x mod 4294967296.
Definition u16 (x : Z) : Z := x mod 65536.

Definition FIN := 1.  Definition SYN := 2.  Definition RST := 4.
Definition PSH := 8.  Definition ACK := 16.
Definition hasf (fl b : Z) : bool := Z.land fl b =? b.

Inductive sstate := Listen | SynRcvd | Estab | FinWait1 | FinWait2 | Closing | TimeWait | CloseWait | Closed.
Definition sstate_eqb (a b : sstate) : bool :=
  match a, b with
  | Listen, Listen | SynRcvd, SynRcvd | Estab, Estab | FinWait1, FinWait1 | FinWait2, FinWait2
  | Closing, Closing | TimeWait, TimeWait | CloseWait, CloseWait | Closed, Closed => true
  | _, _ => false
  end.

Definition ip := bytes.  (* 4 bytes *)

Record conn := mkConn {
  c_key : N;                 (* identity of the State object (creation counter) *)
  c_st : sstate;
  c_iss : Z; c_una : Z; c_nxt : Z; c_rcv : Z;
  c_id : Z;                  (* IPv4 identification counter, uint32 *)
  c_sip : ip; c_sport : Z; c_dip : ip; c_dport : Z;
  c_ring : bytes;            (* socket receive ring (capacity 4096) *)
  c_reader : bool            (* per-connection reader goroutine started and not finished *)
}.

Definition set_st (c : conn) (s : sstate) : conn :=
  mkConn (c_key c) s (c_iss c) (c_una c) (c_nxt c) (c_rcv c) (c_id c) (c_sip c) (c_sport c) (c_dip c) (c_dport c) (c_ring c) (c_reader c).
Definition set_seq (c : conn) (una nxt rcv : Z) : conn :=
  mkConn (c_key c) (c_st c) (c_iss c) una nxt rcv (c_id c) (c_sip c) (c_sport c) (c_dip c) (c_dport c) (c_ring c) (c_reader c).
Definition set_id (c : conn) (id : Z) : conn :=
  mkConn (c_key c) (c_st c) (c_iss c) (c_una c) (c_nxt c) (c_rcv c) id (c_sip c) (c_sport c) (c_dip c) (c_dport c) (c_ring c) (c_reader c).
Definition set_ring (c : conn) (r : bytes) : conn :=
  mkConn (c_key c) (c_st c) (c_iss c) (c_una c) (c_nxt c) (c_rcv c) (c_id c) (c_sip c) (c_sport c) (c_dip c) (c_dport c) r (c_reader c).
Definition set_reader (c : conn) (b : bool) : conn :=
  mkConn (c_key c) (c_st c) (c_iss c) (c_una c) (c_nxt c) (c_rcv c) (c_id c) (c_sip c) (c_sport c) (c_dip c) (c_dport c) (c_ring c) b.

(* an inbound TCP segment after parsing *)
Record seg := mkSeg {
  g_sip : ip; g_dip : ip; g_sport : Z; g_dport : Z;
  g_seq : Z; g_ack : Z; g_flags : Z; g_payload : bytes
}.

(* a segment the listener emits (send) *)
Record out := mkOut {
  o_sip : ip; o_dip : ip; o_sport : Z; o_dport : Z;
  o_seq : Z; o_ack : Z; o_flags : Z; o_ipid : Z; o_payload : bytes
}.

(* send(state, payload, flags): header fields from the state; state.ID++ *)
Definition send (c : conn) (flags : Z) (payload : bytes) : out * conn :=
  (mkOut (c_dip c) (c_sip c) (c_dport c) (c_sport c) (c_nxt c) (c_rcv c) flags (c_id c) payload,
   set_id c (u32 (c_id c + 1))).

(* ---- state table ---- *)
Definition table := list (option conn).

Definition ip_eqb := eqb_bytes.

(* StateTable.Get: the literal either-direction matching *)
Definition matches (c : conn) (sip dip : ip) (sport dport : Z) : bool :=
  negb (negb (c_sport c =? sport) && negb (c_dport c =? sport)) &&
  negb (negb (c_dport c =? dport) && negb (c_sport c =? dport)) &&
  negb (negb (ip_eqb (c_sip c) sip) && negb (ip_eqb (c_dip c) sip)) &&
  negb (negb (ip_eqb (c_dip c) dip) && negb (ip_eqb (c_sip c) dip)).

Fixpoint tget (t : table) (sip dip : ip) (sport dport : Z) : option conn :=
  match t with
  | [] => None
  | None :: r => tget r sip dip sport dport
  | Some c :: r => if matches c sip dip sport dport then Some c else tget r sip dip sport dport
  end.

(* StateTable.Add: first free or TIME-WAIT slot (the table never fills up here) *)
Fixpoint tadd (t : table) (c : conn) : table :=
  match t with
  | [] => [Some c]
  | None :: r => Some c :: r
  | Some c' :: r => if sstate_eqb (c_st c') TimeWait then Some c :: r else Some c' :: tadd r c
  end.

(* write back the (mutated) State object: pointer identity = key *)
Fixpoint tput (t : table) (c : conn) : table :=
  match t with
  | [] => []
  | Some c' :: r => if (c_key c' =? c_key c)%N then Some c :: r else Some c' :: tput r c
  | None :: r => None :: tput r c
  end.

Fixpoint tremove (t : table) (k : N) : table :=
  match t with
  | [] => []
  | Some c' :: r => if (c_key c' =? k)%N then None :: r else Some c' :: tremove r k
  | None :: r => None :: tremove r k
  end.

Definition RING_CAP : Z := 4096.
Definition ring_write (ring p : bytes) : bytes :=
  ring ++ firstn (Z.to_nat (RING_CAP - zlen ring)) p.

(* per-port decoders exist for these destination ports; others get the generic reader *)
Definition decoded_port (p : Z) : bool :=
  existsb (Z.eqb p) [23; 80; 443; 139; 445; 1433; 6379; 9200].

(* what handling one segment produces *)
Record result := mkRes {
  r_tbl : table;
  r_out : list out;
  r_flush : option N;      (* a flush() signalled the reader of this connection *)
  r_started : option N     (* a reader goroutine was started for this connection *)
}.

Definition done (t : table) (c : conn) (outs : list out) (fl st : option N) : result :=
  mkRes (tput t c) outs fl st.

(* the tail of handleTCP once the ACK field has been accepted; [c] in state after step 12 *)
Definition data_and_fin (t : table) (c : conn) (g : seg) (started : option N) : result :=
  (* SND.UNA update *)
  let c := if (c_una c <=? g_ack g) && (g_ack g <=? c_nxt c) then set_seq c (g_ack g) (c_nxt c) (c_rcv c) else c in
  let c := match c_st c with
           | FinWait1 => set_st c FinWait2
           | _ => c
           end in
  let accept := match c_st c with Estab | FinWait1 | FinWait2 => true | _ => false end in
  let '(c, outs1, fl1) :=
    if accept then
      let c1 := set_ring c (ring_write (c_ring c) (g_payload g)) in
      let fl := if hasf (g_flags g) PSH then Some (c_key c) else None in
      let c2 := set_seq c1 (c_una c1) (c_nxt c1) (u32 (c_rcv c1 + zlen (g_payload g))) in
      if 0 <? zlen (g_payload g) then
        let '(o, c3) := send c2 ACK [] in (c3, [o], fl)
      else (c2, [], fl)
    else (c, [], None) in
  if hasf (g_flags g) FIN then
    let c := set_seq c (c_una c) (c_nxt c) (u32 (g_seq g + zlen (g_payload g))) in
    match c_st c with
    | SynRcvd | Estab =>
        let c1 := set_seq c (c_una c) (c_nxt c) (u32 (c_rcv c + 1)) in
        let '(o, c2) := send c1 (FIN + ACK) [] in
        let c3 := set_st (set_seq c2 (c_una c2) (u32 (c_nxt c2 + 1)) (c_rcv c2)) CloseWait in
        done t c3 (outs1 ++ [o]) (Some (c_key c)) started
    | FinWait1 => done t (set_st c Closing) outs1 fl1 started
    | FinWait2 =>
        let c1 := set_seq c (c_una c) (c_nxt c) (u32 (c_rcv c + 1)) in
        let '(o, c2) := send c1 ACK [] in
        done t (set_st c2 TimeWait) (outs1 ++ [o]) fl1 started
    | _ => done t c outs1 fl1 started
    end
  else done t c outs1 fl1 started.

(* handleTCP after the State has been looked up / created *)
Definition handle_conn (t : table) (c : conn) (g : seg) : result :=
  if sstate_eqb (c_st c) Listen && hasf (g_flags g) SYN then
    let c1 := set_seq c (c_iss c) (u32 (c_iss c + 1)) (u32 (g_seq g + 1)) in
    let '(o, c2) := send c1 (SYN + ACK) [] in
    let c3 := set_st (set_seq c2 (c_una c2) (u32 (c_nxt c2 + 1)) (c_rcv c2)) SynRcvd in
    done t c3 [o] None None
  else
  (* RST *)
  let rst := hasf (g_flags g) RST in
  if rst && sstate_eqb (c_st c) SynRcvd then done t (set_st c Listen) [] None None
  else if rst && (sstate_eqb (c_st c) CloseWait || sstate_eqb (c_st c) TimeWait) then
    mkRes (tremove (tput t (set_st c Closed)) (c_key c)) [] None None
  else if hasf (g_flags g) SYN then done t c [] None None
  else if negb (hasf (g_flags g) ACK) then done t c [] None None
  else
    let c := if sstate_eqb (c_st c) Closing then set_st c TimeWait else c in
    let t := if sstate_eqb (c_st c) CloseWait then tremove t (c_key c) else t in
    if sstate_eqb (c_st c) SynRcvd then
      if (c_una c <=? g_ack g) && (g_ack g <=? c_nxt c) then
        let c1 := set_reader (set_st c Estab) true in
        data_and_fin t c1 g (Some (c_key c))
      else done t c [] None None
    else data_and_fin t c g None.

(* handleTCP.  [isme]: destination is one of our addresses.  [fresh] = (key, iss, ipid)
   for a State created by this segment (rand.Uint32 draws are inputs). *)
Definition new_conn (fresh : N * Z * Z) (g : seg) : conn :=
  let '(k, iss, id) := fresh in
  mkConn k Listen iss 0 0 0 id (g_sip g) (g_sport g) (g_dip g) (g_dport g) [] false.

Definition handle_tcp (isme : ip -> bool) (t : table) (fresh : N * Z * Z) (g : seg) : result :=
  let nothing := mkRes t [] None None in
  if negb (isme (g_dip g)) then nothing
  else if (g_sport g =? 22) || (g_dport g =? 22) then nothing
  else
    if hasf (g_flags g) SYN && negb (hasf (g_flags g) ACK) then
      let c := new_conn fresh g in handle_conn (tadd t c) c g
    else
      match tget t (g_sip g) (g_dip g) (g_sport g) (g_dport g) with
      | None => nothing
      | Some c => handle_conn t c g
      end.

(* the generic per-connection reader (undecoded ports): Read up to 2048 bytes, Close
   (FIN|ACK, FIN-WAIT-1), report.  Returns the event payload. *)
Definition READ_MAX : nat := 2048.
Definition reader_step (t : table) (k : N) : option (table * out * bytes * conn) :=
  match find (fun oc => match oc with Some c => (c_key c =? k)%N | None => false end) t with
  | Some (Some c) =>
      let payload := firstn READ_MAX (c_ring c) in
      let c1 := set_ring c (skipn READ_MAX (c_ring c)) in
      let '(o, c2) := send c1 (FIN + ACK) [] in
      let c3 := set_reader (set_st (set_seq c2 (c_una c2) (u32 (c_nxt c2 + 1)) (c_rcv c2)) FinWait1) false in
      Some (tput t c3, o, payload, c)
  | _ => None
  end.

(* ---- the listener's own writes (state.go: State.write / State.close) ----
   Socket.Write(p) -> State.write(p): ONE segment PSH|ACK carrying p, then SND.NXT += len p.
   Socket.Close() -> State.close(): FIN|ACK, SND.NXT++, FIN-WAIT-1. *)
Definition conn_write (c : conn) (data : bytes) : out * conn :=
  let '(o, c1) := send c (PSH + ACK) data in
  (o, set_seq c1 (c_una c1) (u32 (c_nxt c1 + zlen data)) (c_rcv c1)).

Definition conn_close (c : conn) : out * conn :=
  let '(o, c1) := send c (FIN + ACK) [] in
  (o, set_reader (set_st (set_seq c1 (c_una c1) (u32 (c_nxt c1 + 1)) (c_rcv c1)) FinWait1) false).

(* a sequence of writes, in order *)
Fixpoint conn_writes (c : conn) (ws : list bytes) : list out * conn :=
  match ws with
  | [] => ([], c)
  | w :: r => let '(o, c1) := conn_write c w in
              let '(os, c2) := conn_writes c1 r in (o :: os, c2)
  end.

(* a per-port decoder goroutine (tcp_handlers.go) ran to its end: it emptied the receive ring,
   wrote [ws] (DecodeHTTP / DecodeElasticsearch: the serialised zero http.Response in one
   bufio flush when http.ReadRequest accepted the client's stream, nothing otherwise; every
   other decoder writes nothing) and closed.  What net/http produces is an input. *)
Definition decoder_step (t : table) (k : N) (ws : list bytes) : option (table * list out) :=
  match find (fun oc => match oc with Some c => (c_key c =? k)%N | None => false end) t with
  | Some (Some c) =>
      let '(os, c1) := conn_writes (set_ring c []) ws in
      let '(o, c2) := conn_close c1 in
      Some (tput t c2, os ++ [o])
  | _ => None
  end.

(* one write on the connection record with key k (what Socket.Write does; the verif hook
   VerifCanary.Write calls State.write the same way): no state is consulted, a write of
   length 0 still emits an (empty) PSH|ACK segment, a long one is NOT cut to any segment size *)
Definition write_step (t : table) (k : N) (data : bytes) : option (table * out) :=
  match find (fun oc => match oc with Some c => (c_key c =? k)%N | None => false end) t with
  | Some (Some c) => let '(o, c1) := conn_write c data in Some (tput t c1, o)
  | _ => None
  end.

(* ---- wire format of an emitted segment ---- *)
Definition word_hi (v : Z) : N := Z.to_N ((v / 256) mod 256).
Definition word_lo (v : Z) : N := Z.to_N (v mod 256).

Fixpoint sum_words (l : bytes) : Z :=
  match l with
  | a :: b :: r => Z.of_N a * 256 + Z.of_N b + sum_words r
  | [a] => Z.of_N a * 256
  | [] => 0
  end.

(* the canary's fold loops (both forms used in the code agree for sums < 2^32) *)
Definition fold1 (s : Z) : Z := (s / 65536) + (s mod 65536).
Definition fold3 (s : Z) : Z := fold1 (fold1 (fold1 s)).
Definition cksum_of_sum (s : Z) : Z := 65535 - fold3 s.

Definition tcp_header_nock (o : out) : bytes :=
  be_enc 2 (o_sport o) ++ be_enc 2 (o_dport o) ++ be_enc 4 (o_seq o) ++ be_enc 4 (o_ack o) ++
  [80%N; Z.to_N (o_flags o)] ++ be_enc 2 65535 ++ [0%N; 0%N] ++ [0%N; 0%N].

Definition pseudo_sum (src dst : ip) (len : Z) : Z :=
  sum_words src + sum_words dst + 6 + len.

Definition tcp_checksum (o : out) : Z :=
  let seg0 := tcp_header_nock o ++ o_payload o in
  cksum_of_sum (pseudo_sum (o_sip o) (o_dip o) (zlen seg0) + sum_words seg0).

Definition tcp_bytes (o : out) : bytes :=
  let h := tcp_header_nock o in
  firstn 16 h ++ be_enc 2 (tcp_checksum o) ++ skipn 18 h ++ o_payload o.

Definition ip_header_nock (o : out) : bytes :=
  [69%N; 0%N] ++ be_enc 2 (40 + zlen (o_payload o)) ++ be_enc 2 (o_ipid o) ++ [0%N; 0%N] ++
  [128%N; 6%N] ++ [0%N; 0%N] ++ o_sip o ++ o_dip o.

Definition ip_checksum (o : out) : Z := cksum_of_sum (sum_words (ip_header_nock o)).

Definition ip_bytes (o : out) : bytes :=
  let h := ip_header_nock o in firstn 10 h ++ be_enc 2 (ip_checksum o) ++ skipn 12 h.

(* Ethernet: destination = ARP entry of the peer, source = interface address *)
Definition frame_bytes (dmac smac : bytes) (o : out) : bytes :=
  dmac ++ smac ++ [8%N; 0%N] ++ ip_bytes o ++ tcp_bytes o.

(* ones'-complement verification sum of a byte string (what a receiver computes) *)
Definition verify_sum (l : bytes) : Z := fold3 (sum_words l).

(* updateTCPChecksum(iph, data) as a function on the marshalled segment [data] (any length, the
   loop skips the word at offset 16, an odd last byte counts as the high byte of a word whose
   low byte is zero - it is not transmitted), result stored in data[16:18] *)
Definition segment_sum0 (src dst : ip) (data : bytes) : Z :=
  pseudo_sum src dst (zlen data) + sum_words (firstn 16 data) + sum_words (skipn 18 data).

Definition fill_checksum (ck : Z) (data : bytes) : bytes :=
  firstn 16 data ++ be_enc 2 ck ++ skipn 18 data.

Definition update_tcp_checksum (src dst : ip) (data : bytes) : bytes :=
  fill_checksum (cksum_of_sum (segment_sum0 src dst data)) data.

(* what a receiver computes over pseudo header + segment as received *)
Definition segment_verify_sum (src dst : ip) (data : bytes) : Z :=
  pseudo_sum src dst (zlen data) + sum_words data.

(* the ones'-complement sum itself: the 16-bit value the end-around-carry folding converges to
   for a sum of ANY size (0 only for 0) *)
Definition ocfold (s : Z) : Z := if s =? 0 then 0 else 1 + (s - 1) mod 65535.
Definition occk (s : Z) : Z := 65535 - ocfold s.
