(* C14 - segments that carry payload of the listener's own: the checksum routine's contract for
   every segment length (odd and even), and the listener's writes. *)
From HT Require Import Common.Bytes C14.Model C14.ProofsSum C14.Proofs.
From Coq Require Import ZifyBool ZifyN ZifyNat.
Open Scope Z_scope.
Arguments u32 : simpl never.
Arguments Z.modulo : simpl never.

(* ---- the ones'-complement sum, for sums of any size ---- *)
Lemma ocfold_range s : 0 <= s -> 0 <= ocfold s <= 65535.
Proof. intros H. unfold ocfold. destruct (s =? 0) eqn:E; lia. Qed.

Lemma ocfold_facts s : 0 <= s ->
  (s = 0 /\ ocfold s = 0) \/ (0 < s /\ 1 <= ocfold s <= 65535 /\ (s - ocfold s) mod 65535 = 0).
Proof. intros H. unfold ocfold. destruct (s =? 0) eqn:E; [left|right]; lia. Qed.

(* a sum plus the complement of its folded value folds to 0xffff - no bound on the sum *)
Lemma ocfold_verifies s : 0 <= s -> ocfold (s + occk s) = 65535.
Proof.
  intros H. unfold occk. pose proof (ocfold_facts s H) as Hf.
  set (f := ocfold s) in *. clearbody f.
  unfold ocfold. destruct (s + (65535 - f) =? 0) eqn:E2; lia.
Qed.

(* the code's folding loops compute exactly this value on the whole uint32 range *)
Lemma fold3_ocfold s : 0 <= s < 4294967296 -> fold3 s = ocfold s.
Proof.
  intros H.
  pose proof (fold3_range s H) as Hr. pose proof (fold3_mod s H) as Hm. pose proof (fold3_zero s H) as Hz.
  pose proof (ocfold_facts s ltac:(lia)) as Hf.
  assert (H0 : s = 0 -> fold3 s = 0) by (intros ->; reflexivity).
  set (a := fold3 s) in *. set (b := ocfold s) in *. clearbody a b. lia.
Qed.

Lemma sum_words_nonneg l : 0 <= sum_words l.
Proof. induction l as [|x|x y l' IH] using list_pair_ind; cbn [sum_words]; lia. Qed.

Lemma pseudo_sum_nonneg src dst len : 0 <= len -> 0 <= pseudo_sum src dst len.
Proof.
  intros H. unfold pseudo_sum. pose proof (sum_words_nonneg src). pose proof (sum_words_nonneg dst). lia.
Qed.

(* ---- storing a checksum into bytes 16..17 of a segment of any length ---- *)
Lemma firstn16_length (data : bytes) : 18 <= zlen data -> length (firstn 16 data) = 16%nat.
Proof. intros H. unfold zlen in H. rewrite firstn_length. lia. Qed.

Lemma fill_length ck data : 18 <= zlen data -> zlen (fill_checksum ck data) = zlen data.
Proof.
  intros H. unfold fill_checksum. rewrite !zlen_app. unfold zlen at 1 2 3.
  rewrite firstn16_length by exact H. rewrite skipn_length. cbn [be_enc length]. unfold zlen in *. lia.
Qed.

Lemma fill_sum ck data :
  18 <= zlen data -> 0 <= ck < 65536 ->
  sum_words (fill_checksum ck data) = sum_words (firstn 16 data) + ck + sum_words (skipn 18 data).
Proof.
  intros H Hck. unfold fill_checksum.
  rewrite sum_words_app by (rewrite firstn16_length by exact H; reflexivity).
  rewrite (sum_words_app (be_enc 2 ck)) by reflexivity.
  rewrite sum_words_be2 by exact Hck. lia.
Qed.

(* only the checksum field changes *)
Lemma fill_only_field ck data :
  18 <= zlen data ->
  firstn 16 (fill_checksum ck data) = firstn 16 data /\
  skipn 18 (fill_checksum ck data) = skipn 18 data /\
  firstn 2 (skipn 16 (fill_checksum ck data)) = be_enc 2 ck.
Proof.
  intros H. unfold fill_checksum. pose proof (firstn16_length data H) as L.
  split; [|split].
  - rewrite firstn_app, L. change (16 - 16)%nat with 0%nat. rewrite firstn_O, app_nil_r, firstn_firstn.
    reflexivity.
  - assert (L2 : length (firstn 16 data ++ be_enc 2 ck) = 18%nat) by (rewrite app_length, L; reflexivity).
    rewrite app_assoc, skipn_app, L2. change (18 - 18)%nat with 0%nat.
    rewrite skipn_all2 by lia. reflexivity.
  - rewrite skipn_app, L. change (16 - 16)%nat with 0%nat.
    rewrite skipn_all2 by lia. cbn [app be_enc skipn firstn]. reflexivity.
Qed.

(* THE CONTRACT, for every segment of at least 18 bytes - any length, odd or even - and any
   addresses (no well-formedness needed): the segment with the complement of its
   ones'-complement sum stored in the checksum field verifies *)
Lemma any_segment_verifies src dst data :
  18 <= zlen data ->
  ocfold (segment_verify_sum src dst (fill_checksum (occk (segment_sum0 src dst data)) data)) = 65535.
Proof.
  intros H. unfold segment_verify_sum.
  set (S := segment_sum0 src dst data).
  assert (HS : 0 <= S).
  { unfold S, segment_sum0. pose proof (pseudo_sum_nonneg src dst (zlen data) ltac:(lia)).
    pose proof (sum_words_nonneg (firstn 16 data)). pose proof (sum_words_nonneg (skipn 18 data)). lia. }
  pose proof (ocfold_range S HS) as Hr.
  rewrite fill_length by exact H.
  rewrite fill_sum by (unfold occk; lia).
  replace (pseudo_sum src dst (zlen data) + (sum_words (firstn 16 data) + occk S + sum_words (skipn 18 data)))
    with (S + occk S) by (unfold S, segment_sum0; lia).
  apply ocfold_verifies; exact HS.
Qed.

(* the code (uint32 accumulator, fold loops): every segment an IPv4 packet can carry *)
Definition wf_addr (a : ip) : Prop := wf_bytes a = true /\ zlen a = 4.

Lemma segment_sum0_bound src dst data :
  wf_addr src -> wf_addr dst -> wf_bytes data = true -> 18 <= zlen data <= 65515 ->
  0 <= segment_sum0 src dst data < 4294901760.
Proof.
  intros [Hs Hsl] [Hd Hdl] Hw Hl. unfold segment_sum0, pseudo_sum.
  pose proof (sum_words_bound _ Hs). pose proof (sum_words_bound _ Hd).
  pose proof (sum_words_bound _ (wf_bytes_firstn 16 _ Hw)) as H1.
  pose proof (sum_words_bound _ (wf_bytes_skipn 18 _ Hw)) as H2.
  assert (zlen (firstn 16 data) = 16) by (unfold zlen; rewrite firstn16_length by lia; reflexivity).
  assert (zlen (skipn 18 data) = zlen data - 18) by (unfold zlen in *; rewrite skipn_length; lia).
  lia.
Qed.

Lemma update_checksum_verifies src dst data :
  wf_addr src -> wf_addr dst -> wf_bytes data = true -> 18 <= zlen data <= 65515 ->
  fold3 (segment_verify_sum src dst (update_tcp_checksum src dst data)) = 65535.
Proof.
  intros Hs Hd Hw Hl. unfold update_tcp_checksum, segment_verify_sum.
  pose proof (segment_sum0_bound src dst data Hs Hd Hw Hl) as Hb.
  set (S := segment_sum0 src dst data) in *.
  assert (Hck : 0 <= cksum_of_sum S < 65536).
  { unfold cksum_of_sum. pose proof (fold3_range S ltac:(lia)). lia. }
  rewrite fill_length by lia. rewrite fill_sum by (lia || exact Hck).
  replace (pseudo_sum src dst (zlen data) + (sum_words (firstn 16 data) + cksum_of_sum S + sum_words (skipn 18 data)))
    with (S + cksum_of_sum S) by (unfold S, segment_sum0; lia).
  apply cksum_verifies; exact Hb.
Qed.

(* ... and what it stores is the ones'-complement checksum *)
Lemma update_checksum_is_ones_complement src dst data :
  wf_addr src -> wf_addr dst -> wf_bytes data = true -> 18 <= zlen data <= 65515 ->
  update_tcp_checksum src dst data = fill_checksum (occk (segment_sum0 src dst data)) data.
Proof.
  intros Hs Hd Hw Hl. unfold update_tcp_checksum, cksum_of_sum, occk.
  pose proof (segment_sum0_bound src dst data Hs Hd Hw Hl) as Hb.
  rewrite fold3_ocfold by lia. reflexivity.
Qed.

(* the frames of the model are built with exactly this routine: header (checksum field zero)
   followed by the payload, whatever its length *)
Lemma tcp_bytes_is_update o :
  tcp_bytes o = update_tcp_checksum (o_sip o) (o_dip o) (tcp_header_nock o ++ o_payload o).
Proof.
  unfold tcp_bytes, update_tcp_checksum, fill_checksum, tcp_checksum, segment_sum0.
  set (p := o_payload o).
  assert (E16 : firstn 16 (tcp_header_nock o ++ p) = firstn 16 (tcp_header_nock o))
    by (unfold tcp_header_nock; cbn [be_enc app firstn]; reflexivity).
  assert (E18 : skipn 18 (tcp_header_nock o ++ p) = skipn 18 (tcp_header_nock o) ++ p)
    by (unfold tcp_header_nock; cbn [be_enc app skipn]; reflexivity).
  rewrite E16, E18.
  assert (ES : sum_words (tcp_header_nock o ++ p)
               = sum_words (firstn 16 (tcp_header_nock o)) + sum_words (skipn 18 (tcp_header_nock o) ++ p)).
  { rewrite (tcp_hdr_split o) at 1. rewrite <- !app_assoc.
    rewrite sum_words_app by apply even_firstn16.
    rewrite (sum_words_app [0%N; 0%N]) by reflexivity. cbn [sum_words]. lia. }
  rewrite ES. do 4 f_equal. lia.
Qed.

(* ---- the listener's writes: sequence numbers count the bytes already sent ---- *)
Definition same_peer (c c' : conn) : Prop :=
  c_key c' = c_key c /\ c_sip c' = c_sip c /\ c_dip c' = c_dip c /\ c_sport c' = c_sport c /\
  c_dport c' = c_dport c /\ c_rcv c' = c_rcv c /\ c_st c' = c_st c /\ c_una c' = c_una c /\ c_iss c' = c_iss c.

Definition data_out (c : conn) (seq : Z) (w : bytes) (o : out) : Prop :=
  o_payload o = w /\ o_flags o = PSH + ACK /\ o_seq o = seq /\ o_ack o = c_rcv c /\
  o_sip o = c_dip c /\ o_dip o = c_sip c /\ o_sport o = c_dport c /\ o_dport o = c_sport c.

Lemma conn_writes_spec ws : forall c,
  0 <= c_nxt c < 4294967296 ->
  same_peer c (snd (conn_writes c ws)) /\
  c_nxt (snd (conn_writes c ws)) = u32 (c_nxt c + total_len ws) /\
  length (fst (conn_writes c ws)) = length ws /\
  (forall i o, nth_error (fst (conn_writes c ws)) i = Some o ->
     exists w, nth_error ws i = Some w /\ data_out c (u32 (c_nxt c + total_len (firstn i ws))) w o).
Proof.
  induction ws as [|w r IH]; intros c Hn.
  - cbn [conn_writes fst snd total_len length]. split; [|split; [|split]].
    + unfold same_peer; repeat split.
    + rewrite Z.add_0_r, u32_small by exact Hn. reflexivity.
    + reflexivity.
    + intros i o H; destruct i; discriminate.
  - cbn [conn_writes]. unfold conn_write. cbn [send].
    set (c1 := set_seq _ _ _ _).
    assert (Hn1 : 0 <= c_nxt c1 < 4294967296) by (unfold c1; cbn [set_seq set_id c_nxt]; apply u32_range).
    specialize (IH c1 Hn1).
    destruct (conn_writes c1 r) as [os c2] eqn:E. cbn [fst snd] in *.
    destruct IH as (Hp & Hx & Hlen & Hnth).
    assert (Hnx : c_nxt c1 = u32 (c_nxt c + zlen w)) by reflexivity.
    split; [|split; [|split]].
    + unfold same_peer in *. unfold c1 in Hp. cbn in Hp. exact Hp.
    + rewrite Hx, Hnx. cbn [total_len]. rewrite u32_add_u32. f_equal. lia.
    + cbn [length]. rewrite Hlen. reflexivity.
    + intros i o H. destruct i as [|i']; cbn [nth_error] in H.
      * inversion H; subst o. exists w. split; [reflexivity|].
        unfold data_out. cbn [o_payload o_flags o_seq o_ack o_sip o_dip o_sport o_dport firstn total_len].
        rewrite Z.add_0_r, u32_small by exact Hn. repeat split.
      * destruct (Hnth i' o H) as (w' & Hw' & Hd). exists w'. split; [exact Hw'|].
        unfold data_out in *. cbn [firstn total_len]. rewrite Hnx in Hd. rewrite u32_add_u32 in Hd.
        replace (c_nxt c + (zlen w + total_len (firstn i' r))) with (c_nxt c + zlen w + total_len (firstn i' r)) by lia.
        unfold c1 in Hd. cbn in Hd. exact Hd.
Qed.

(* a decoder that writes [ws] and closes: the data segments, then ONE FIN|ACK whose sequence
   number follows the last byte; the connection is left in FIN-WAIT-1 with SND.NXT past the FIN *)
Lemma decoder_step_frames t k ws c :
  find_key t k = Some c -> 0 <= c_nxt c < 4294967296 ->
  exists t' os o c',
    decoder_step t k ws = Some (t', os ++ [o]) /\ t' = tput t c' /\
    os = fst (conn_writes (set_ring c []) ws) /\
    o_flags o = FIN + ACK /\ o_payload o = [] /\ o_seq o = u32 (c_nxt c + total_len ws) /\ o_ack o = c_rcv c /\
    o_sip o = c_dip c /\ o_dip o = c_sip c /\ o_sport o = c_dport c /\ o_dport o = c_sport c /\
    c_st c' = FinWait1 /\ c_nxt c' = u32 (c_nxt c + total_len ws + 1) /\ c_rcv c' = c_rcv c /\ c_key c' = c_key c.
Proof.
  intros Hf Hn. unfold find_key in Hf. unfold decoder_step.
  destruct (find _ t) as [[c0|]|] eqn:E; try discriminate. inversion Hf; subst c0. clear Hf.
  pose proof (conn_writes_spec ws (set_ring c []) Hn) as (Hp & Hx & _ & _).
  destruct (conn_writes (set_ring c []) ws) as [os c1] eqn:Ew. cbn [fst snd] in *.
  destruct Hp as (Pk & Ps & Pd & Psp & Pdp & Pr & Pst & Pu & Pi).
  cbn [set_ring c_key c_sip c_dip c_sport c_dport c_rcv c_st c_una c_iss c_nxt] in *.
  unfold conn_close. cbn [send].
  set (c' := set_reader (set_st (set_seq (set_id c1 (u32 (c_id c1 + 1))) (c_una (set_id c1 (u32 (c_id c1 + 1))))
                                         (u32 (c_nxt (set_id c1 (u32 (c_id c1 + 1))) + 1))
                                         (c_rcv (set_id c1 (u32 (c_id c1 + 1))))) FinWait1) false).
  exists (tput t c'), os,
         (mkOut (c_dip c1) (c_sip c1) (c_dport c1) (c_sport c1) (c_nxt c1) (c_rcv c1) (FIN + ACK) (c_id c1) []), c'.
  split; [reflexivity|]. split; [reflexivity|]. split; [reflexivity|].
  unfold c'. cbn. rewrite Hx, Ps, Pd, Psp, Pdp, Pr, Pk. rewrite u32_add_u32. repeat split.
Qed.

(* one write on a connection record (Socket.Write, the verif hook): exactly ONE segment, whatever the
   length - an empty write still emits an empty PSH|ACK, a long one is not cut into pieces *)
Lemma write_step_frame t k w c :
  find_key t k = Some c ->
  exists o c',
    write_step t k w = Some (tput t c', o) /\
    data_out c (c_nxt c) w o /\
    c_nxt c' = u32 (c_nxt c + zlen w) /\ c_rcv c' = c_rcv c /\ c_st c' = c_st c /\ c_key c' = c_key c /\
    c_una c' = c_una c /\ c_ring c' = c_ring c.
Proof.
  intros Hf. unfold find_key in Hf. unfold write_step.
  destruct (find _ t) as [[c0|]|] eqn:E; try discriminate. inversion Hf; subst c0. clear Hf.
  unfold conn_write. cbn [send].
  eexists _, _. split; [reflexivity|]. unfold data_out. cbn. repeat split.
Qed.
