(* C14 - lemmas about the TCP machine model. *)
From HT Require Import Common.Bytes C14.Model C14.ProofsSum.
From Coq Require Import ZifyBool ZifyN ZifyNat.
Open Scope Z_scope.
Arguments u32 : simpl never.
Arguments Z.modulo : simpl never.

(* every emitted segment is addressed back: source/destination swapped *)
Lemma send_addressed c f p :
  let o := fst (send c f p) in
  o_sip o = c_dip c /\ o_dip o = c_sip c /\ o_sport o = c_dport c /\ o_dport o = c_sport c /\
  o_seq o = c_nxt c /\ o_ack o = c_rcv c /\ o_flags o = f /\ o_payload o = p.
Proof. cbn. repeat split. Qed.

(* ---- SYN -> SYN-ACK acknowledging ISN+1, for every ISN ---- *)
Lemma syn_answer isme t k iss id g :
  isme (g_dip g) = true -> g_sport g <> 22 -> g_dport g <> 22 ->
  hasf (g_flags g) SYN = true -> hasf (g_flags g) ACK = false ->
  r_out (handle_tcp isme t (k, iss, id) g) =
    [mkOut (g_dip g) (g_sip g) (g_dport g) (g_sport g) (u32 (iss + 1)) (u32 (g_seq g + 1)) (SYN + ACK) id []].
Proof.
  intros Hme Hs Hd Hsyn Hack. unfold handle_tcp.
  rewrite Hme, Hsyn, Hack. cbn [negb andb].
  assert ((g_sport g =? 22) || (g_dport g =? 22) = false) as -> by lia.
  unfold handle_conn, new_conn. cbn [c_st sstate_eqb andb]. rewrite Hsyn. reflexivity.
Qed.

(* the State it leaves behind *)
Definition find_key (t : table) (k : N) : option conn :=
  match find (fun oc => match oc with Some c => (c_key c =? k)%N | None => false end) t with
  | Some (Some c) => Some c
  | _ => None
  end.

Lemma tput_find t c : 
  (exists c0, find_key t (c_key c) = Some c0) -> find_key (tput t c) (c_key c) = Some c.
Proof.
  unfold find_key. induction t as [|[c'|] r IH]; cbn [tput find]; intros [c0 H].
  - discriminate.
  - cbn [find] in H. destruct (c_key c' =? c_key c)%N eqn:E.
    + cbn [find]. rewrite N.eqb_refl. reflexivity.
    + cbn [find]. rewrite E. apply IH. eauto.
  - cbn [find] in *. apply IH; eauto.
Qed.

(* ---- established on the client's ACK ---- *)
Definition after_syn (c : conn) : Prop :=
  c_st c = SynRcvd /\ c_una c = c_iss c /\ c_nxt c = u32 (u32 (c_iss c + 1) + 1) /\ 0 <= c_iss c < 4294967296.

Lemma established_on_ack t c g :
  after_syn c -> c_iss c + 2 < 4294967296 ->
  hasf (g_flags g) SYN = false -> hasf (g_flags g) RST = false -> hasf (g_flags g) ACK = true ->
  hasf (g_flags g) FIN = false ->
  g_ack g = u32 (u32 (c_iss c + 1) + 1) ->   (* = sequence number of the SYN-ACK + 1 *)
  g_payload g = [] ->
  r_started (handle_conn t c g) = Some (c_key c) /\ r_out (handle_conn t c g) = [].
Proof.
  intros (Hst & Hu & Hn & Hi) Hw Hsyn Hrst Hack Hfin Hg Hp.
  destruct c as [k st iss una nxt rcv id sip sport dip dport ring rd]; cbn in Hst, Hu, Hn, Hi, Hw, Hg. subst.
  assert (Hnx : u32 (u32 (iss + 1) + 1) = iss + 2) by (unfold u32; lia).
  rewrite Hnx in *.
  assert (Hc : (iss <=? iss + 2) && (iss + 2 <=? iss + 2) = true) by lia.
  unfold handle_conn, data_and_fin. cbn.
  repeat (rewrite ?Hsyn, ?Hrst, ?Hack, ?Hfin, ?Hp, ?Hg, ?Hc; cbn).
  split; reflexivity.
Qed.

(* the plain (non-modular) comparison rejects the client's ACK for the top two server ISNs *)
Lemma established_wrap_refuted :
  exists c g t, after_syn c /\ hasf (g_flags g) ACK = true /\ g_ack g = u32 (u32 (c_iss c + 1) + 1) /\
                r_started (handle_conn t c g) = None.
Proof.
  exists (mkConn 1 SynRcvd 4294967295 4294967295 1 7 0 [10;0;0;1]%N 4000 [127;0;0;1]%N 5555 [] false),
         (mkSeg [10;0;0;1]%N [127;0;0;1]%N 4000 5555 7 1 ACK []), [].
  repeat split; vm_compute; try reflexivity; intuition discriminate.
Qed.

(* ---- data in ESTABLISHED: acknowledged exactly, modulo 2^32 ---- *)
Definition plain_data (g : seg) : Prop :=
  hasf (g_flags g) SYN = false /\ hasf (g_flags g) RST = false /\ hasf (g_flags g) ACK = true /\
  hasf (g_flags g) FIN = false.

Lemma data_acked t c g :
  c_st c = Estab -> plain_data g -> g_payload g <> [] ->
  exists c', r_tbl (handle_conn t c g) = tput t c' /\
    c_st c' = Estab /\ c_key c' = c_key c /\
    c_rcv c' = u32 (c_rcv c + zlen (g_payload g)) /\ c_nxt c' = c_nxt c /\
    c_ring c' = ring_write (c_ring c) (g_payload g) /\
    r_out (handle_conn t c g) =
      [mkOut (c_dip c) (c_sip c) (c_dport c) (c_sport c) (c_nxt c) (u32 (c_rcv c + zlen (g_payload g))) ACK (c_id c) []].
Proof.
  intros Hst (Hsyn & Hrst & Hack & Hfin) Hp.
  unfold handle_conn. rewrite Hst, Hsyn, Hrst, Hack. cbn [sstate_eqb andb orb negb].
  unfold data_and_fin.
  assert (Hl : (0 <? zlen (g_payload g)) = true).
  { destruct (g_payload g) as [|x l]; [congruence|]. rewrite zlen_cons. pose proof (zlen_nonneg l). lia. }
  rewrite Hfin, Hl.
  destruct c as [k st iss una nxt rcv id sip sport dip dport ring rd]; cbn [c_st] in Hst; subst st.
  cbn [c_una c_nxt c_rcv c_st c_key c_id c_sip c_dip c_sport c_dport c_ring c_iss c_reader].
  destruct ((una <=? g_ack g) && (g_ack g <=? nxt));
    cbn [c_una c_nxt c_rcv c_st c_key c_id c_sip c_dip c_sport c_dport c_ring c_iss c_reader
         set_seq set_st set_ring set_id send done r_tbl r_out];
    eexists; (split; [reflexivity|]);
    cbn [c_una c_nxt c_rcv c_st c_key c_id c_sip c_dip c_sport c_dport c_ring c_iss c_reader
         set_seq set_st set_ring set_id]; repeat split.
Qed.

(* data with nothing in it is not acknowledged (and changes no counter) *)
Lemma empty_ack_silent t c g :
  c_st c = Estab -> plain_data g -> g_payload g = [] -> r_out (handle_conn t c g) = [].
Proof.
  intros Hst (Hsyn & Hrst & Hack & Hfin) Hp.
  unfold handle_conn. rewrite Hst, Hsyn, Hrst, Hack. cbn [sstate_eqb andb orb negb].
  unfold data_and_fin. destruct c as [k st iss una nxt rcv id sip sport dip dport ring rd]; cbn in *. subst. rewrite Hp, Hfin.
  destruct ((una <=? g_ack g) && (g_ack g <=? nxt)); cbn; reflexivity.
Qed.

(* ---- FIN in ESTABLISHED is answered by FIN|ACK acknowledging seq+1 ---- *)
Lemma u32_succ a : u32 (u32 a + 1) = u32 (a + 1).
Proof. unfold u32. apply Zplus_mod_idemp_l. Qed.

Lemma fin_answered t c g :
  c_st c = Estab ->
  hasf (g_flags g) SYN = false -> hasf (g_flags g) RST = false -> hasf (g_flags g) ACK = true ->
  hasf (g_flags g) FIN = true -> g_payload g = [] ->
  r_out (handle_conn t c g) =
    [mkOut (c_dip c) (c_sip c) (c_dport c) (c_sport c) (c_nxt c) (u32 (g_seq g + 1)) (FIN + ACK) (c_id c) []]
  /\ r_flush (handle_conn t c g) = Some (c_key c).
Proof.
  intros Hst Hsyn Hrst Hack Hfin Hp.
  unfold handle_conn. rewrite Hst, Hsyn, Hrst, Hack. cbn [sstate_eqb andb orb negb].
  unfold data_and_fin. destruct c as [k st iss una nxt rcv id sip sport dip dport ring rd]; cbn in *. subst. rewrite Hp, Hfin.
  change (zlen []) with 0.
  destruct ((una <=? g_ack g) && (g_ack g <=? nxt)); cbn; rewrite ?u32_succ, ?Z.add_0_r; split; reflexivity.
Qed.

(* ---- a FIN is acknowledged in every state in which the client's direction is still open:
        ESTABLISHED, and FIN-WAIT-1/2 (the listener closed first; the client may or may not have
        acknowledged the listener's FIN, in this segment or an earlier one).  The FIN may carry
        data.  The acknowledgement covers the data and the FIN (mod 2^32). ---- *)
Definition client_open (s : sstate) : bool :=
  match s with Estab | FinWait1 | FinWait2 => true | _ => false end.

Definition acks_fin (c : conn) (g : seg) (o : out) : Prop :=
  hasf (o_flags o) ACK = true /\ o_ack o = u32 (g_seq g + zlen (g_payload g) + 1) /\
  o_sip o = c_dip c /\ o_dip o = c_sip c /\ o_sport o = c_dport c /\ o_dport o = c_sport c /\ o_payload o = [].

Lemma hasf_ack_finack : hasf (FIN + ACK) ACK = true.  Proof. reflexivity. Qed.
Lemma hasf_ack_ack : hasf ACK ACK = true.  Proof. reflexivity. Qed.

Lemma fin_acked_while_open t c g :
  client_open (c_st c) = true ->
  hasf (g_flags g) SYN = false -> hasf (g_flags g) RST = false -> hasf (g_flags g) ACK = true ->
  hasf (g_flags g) FIN = true ->
  exists o, In o (r_out (handle_conn t c g)) /\ acks_fin c g o.
Proof.
  intros Hst Hsyn Hrst Hack Hfin.
  unfold handle_conn. rewrite Hsyn, Hrst, Hack. rewrite andb_false_r. cbn [andb orb negb].
  destruct c as [k st iss una nxt rcv id sip sport dip dport ring rd]; cbn [c_st] in Hst.
  unfold acks_fin.
  destruct st; try discriminate Hst; cbn [c_st sstate_eqb andb orb negb set_st];
    unfold data_and_fin; cbn [c_una c_nxt c_rcv c_st set_seq set_st set_ring c_ring c_key c_id c_sip c_dip c_sport c_dport];
    destruct ((una <=? g_ack g) && (g_ack g <=? nxt));
    cbn [c_una c_nxt c_rcv c_st set_seq set_st set_ring c_ring c_key c_id c_sip c_dip c_sport c_dport];
    destruct (0 <? zlen (g_payload g));
    cbn [send c_una c_nxt c_rcv c_st set_seq set_st set_ring set_id c_ring c_key c_id c_sip c_dip c_sport c_dport fst snd];
    rewrite Hfin;
    cbn [send c_una c_nxt c_rcv c_st set_seq set_st set_ring set_id c_ring c_key c_id c_sip c_dip c_sport c_dport fst snd done r_out];
    (eexists; split; [apply in_or_app; right; left; reflexivity|]);
    cbn [o_flags o_ack o_sip o_dip o_sport o_dport o_payload];
    rewrite u32_succ; repeat split; reflexivity.
Qed.

(* ---- in-order segment lists: RCV.NXT tracks the byte count for all ISNs ---- *)
Fixpoint total_len (ps : list bytes) : Z :=
  match ps with [] => 0 | p :: r => zlen p + total_len r end.

(* the k-th segment of an in-order stream starting at sequence number s *)
Fixpoint stream_segs (tmpl : seg) (s : Z) (ps : list bytes) : list seg :=
  match ps with
  | [] => []
  | p :: r => mkSeg (g_sip tmpl) (g_dip tmpl) (g_sport tmpl) (g_dport tmpl) (u32 s) (g_ack tmpl) ACK p
              :: stream_segs tmpl (s + zlen p) r
  end.

(* run a list of segments through one connection record (table = that record alone) *)
Fixpoint run_conn (c : conn) (gs : list seg) : conn * list out :=
  match gs with
  | [] => (c, [])
  | g :: r =>
      let res := handle_conn [Some c] c g in
      match r_tbl res with
      | [Some c'] => let '(c'', outs) := run_conn c' r in (c'', r_out res ++ outs)
      | _ => (c, r_out res)
      end
  end.

Lemma u32_add_u32 a b : u32 (u32 a + b) = u32 (a + b).
Proof. unfold u32. rewrite Zplus_mod_idemp_l. reflexivity. Qed.

Lemma hasf_ACK_facts :
  hasf ACK SYN = false /\ hasf ACK RST = false /\ hasf ACK ACK = true /\ hasf ACK FIN = false.
Proof. repeat split. Qed.

Lemma stream_segs_plain tmpl s p : plain_data (mkSeg (g_sip tmpl) (g_dip tmpl) (g_sport tmpl) (g_dport tmpl) (u32 s) (g_ack tmpl) ACK p).
Proof. unfold plain_data; cbn. repeat split. Qed.

Lemma tput_single c c' : c_key c' = c_key c -> tput [Some c] c' = [Some c'].
Proof. intros H. cbn [tput]. rewrite H, N.eqb_refl. reflexivity. Qed.

Lemma u32_range x : 0 <= u32 x < 4294967296.
Proof. unfold u32. apply Z.mod_pos_bound. lia. Qed.

Lemma u32_small x : 0 <= x < 4294967296 -> u32 x = x.
Proof. intros H. unfold u32. apply Z.mod_small. exact H. Qed.

Lemma acks_track_bytes ps : forall c tmpl s,
  c_st c = Estab -> 0 <= c_rcv c < 4294967296 -> Forall (fun p => p <> []) ps ->
  c_st (fst (run_conn c (stream_segs tmpl s ps))) = Estab /\
  c_rcv (fst (run_conn c (stream_segs tmpl s ps))) = u32 (c_rcv c + total_len ps) /\
  length (snd (run_conn c (stream_segs tmpl s ps))) = length ps /\
  (forall i o, nth_error (snd (run_conn c (stream_segs tmpl s ps))) i = Some o ->
     o_flags o = ACK /\ o_ack o = u32 (c_rcv c + total_len (firstn (S i) ps))).
Proof.
  induction ps as [|p r IH]; intros c tmpl s Hst Hrng Hne.
  - cbn [stream_segs run_conn fst snd total_len length]. repeat split; auto.
    + rewrite Z.add_0_r, u32_small by exact Hrng. reflexivity.
    + destruct i; discriminate.
    + destruct i; discriminate.
  - inversion Hne as [|? ? Hp Hr]; subst.
    cbn [stream_segs run_conn].
    set (g := mkSeg (g_sip tmpl) (g_dip tmpl) (g_sport tmpl) (g_dport tmpl) (u32 s) (g_ack tmpl) ACK p).
    destruct (data_acked [Some c] c g Hst (stream_segs_plain tmpl s p) Hp)
      as (c' & Ht & Hst' & Hk & Hrcv & Hnxt & Hring & Hout).
    rewrite Ht, (tput_single c c' Hk).
    assert (Hrng' : 0 <= c_rcv c' < 4294967296) by (rewrite Hrcv; apply u32_range).
    specialize (IH c' tmpl (s + zlen p) Hst' Hrng' Hr).
    destruct (run_conn c' (stream_segs tmpl (s + zlen p) r)) as [c'' outs] eqn:E.
    cbn [fst snd] in *. destruct IH as (I1 & I2 & I3 & I4).
    rewrite Hout. cbn [app length total_len].
    split; [exact I1|]. split; [|split].
    + rewrite I2, Hrcv. cbn [g_payload g]. rewrite u32_add_u32. f_equal. lia.
    + rewrite I3; reflexivity.
    + intros i o H. destruct i as [|i']; cbn [nth_error] in H.
      * inversion H; subst. cbn [o_flags o_ack firstn total_len g_payload g]. split; [reflexivity|]. f_equal. lia.
      * destruct (I4 i' o H) as [Hf Ha]. split; [exact Hf|]. rewrite Ha, Hrcv. cbn [g_payload g firstn total_len].
        rewrite u32_add_u32. f_equal. lia.
Qed.

(* ---- the receive ring holds the first 4096 bytes of the accepted stream ---- *)
Definition CAPn : nat := Z.to_nat RING_CAP.

Lemma ring_write_firstn S p :
  ring_write (firstn CAPn S) p = firstn CAPn (S ++ p).
Proof.
  unfold ring_write. rewrite firstn_app. f_equal. f_equal.
  unfold zlen. rewrite firstn_length. unfold CAPn, RING_CAP. lia.
Qed.

Lemma ring_tracks_stream ps : forall c tmpl s S0,
  c_st c = Estab -> Forall (fun p => p <> []) ps -> c_ring c = firstn CAPn S0 ->
  c_ring (fst (run_conn c (stream_segs tmpl s ps))) = firstn CAPn (S0 ++ concat ps).
Proof.
  induction ps as [|p r IH]; intros c tmpl s S0 Hst Hne Hring.
  - cbn [stream_segs run_conn fst concat]. rewrite app_nil_r. exact Hring.
  - inversion Hne as [|? ? Hp Hr]; subst. cbn [stream_segs run_conn].
    set (g := mkSeg (g_sip tmpl) (g_dip tmpl) (g_sport tmpl) (g_dport tmpl) (u32 s) (g_ack tmpl) ACK p).
    destruct (data_acked [Some c] c g Hst (stream_segs_plain tmpl s p) Hp)
      as (c' & Ht & Hst' & Hk & Hrcv & Hnxt & Hring' & Hout).
    rewrite Ht, (tput_single c c' Hk).
    assert (Hr' : c_ring c' = firstn CAPn (S0 ++ p)).
    { rewrite Hring', Hring. cbn [g_payload g]. apply ring_write_firstn. }
    specialize (IH c' tmpl (s + zlen p) (S0 ++ p) Hst' Hr Hr').
    destruct (run_conn c' (stream_segs tmpl (s + zlen p) r)) as [c'' outs]. cbn [fst] in *.
    rewrite IH. cbn [concat]. rewrite <- app_assoc. reflexivity.
Qed.

(* the reader reports a prefix of the ring, hence of the stream; at least 2048 bytes of it
   when that much has arrived *)
Lemma reader_payload t k t' o payload c :
  reader_step t k = Some (t', o, payload, c) ->
  payload = firstn READ_MAX (c_ring c) /\ o_flags o = FIN + ACK /\
  o_sip o = c_dip c /\ o_dip o = c_sip c /\ o_sport o = c_dport c /\ o_dport o = c_sport c.
Proof.
  unfold reader_step.
  destruct (find _ t) as [[c0|]|]; try discriminate.
  intros H. inversion H; subst. cbn. repeat split.
Qed.

Lemma firstn_firstn_prefix (n m : nat) (S : bytes) :
  (n <= m)%nat -> firstn n (firstn m S) = firstn n S.
Proof. intros H. rewrite firstn_firstn. f_equal. lia. Qed.

(* ---- connections do not disturb each other ---- *)
Lemma tput_other t c k : k <> c_key c -> find_key (tput t c) k = find_key t k.
Proof.
  intros Hne. unfold find_key. induction t as [|[c'|] r IH]; cbn [tput find]; auto.
  destruct (c_key c' =? c_key c)%N eqn:E.
  - cbn [find]. apply N.eqb_eq in E.
    assert ((c_key c =? k)%N = false) as -> by (apply N.eqb_neq; congruence).
    assert ((c_key c' =? k)%N = false) as -> by (apply N.eqb_neq; congruence). reflexivity.
  - cbn [find]. destruct (c_key c' =? k)%N; auto.
Qed.

Lemma tremove_other t k0 k : k <> k0 -> find_key (tremove t k0) k = find_key t k.
Proof.
  intros Hne. unfold find_key. induction t as [|[c'|] r IH]; cbn [tremove find]; auto.
  destruct (c_key c' =? k0)%N eqn:E.
  - cbn [find]. apply N.eqb_eq in E.
    assert ((c_key c' =? k)%N = false) as -> by (apply N.eqb_neq; congruence). reflexivity.
  - cbn [find]. destruct (c_key c' =? k)%N; auto.
Qed.

Lemma data_and_fin_other t c g st k :
  k <> c_key c -> find_key (r_tbl (data_and_fin t c g st)) k = find_key t k.
Proof.
  intros Hne. unfold data_and_fin, done.
  destruct c as [k0 st0 iss una nxt rcv id sip sport dip dport ring rd]; cbn [c_key] in Hne.
  cbn [c_una c_nxt c_rcv c_st c_key c_id c_sip c_dip c_sport c_dport c_ring c_iss c_reader].
  destruct ((una <=? g_ack g) && (g_ack g <=? nxt)); destruct st0;
    cbn [c_una c_nxt c_rcv c_st c_key c_id c_sip c_dip c_sport c_dport c_ring c_iss c_reader
         set_seq set_st set_ring set_id send];
    destruct (hasf (g_flags g) PSH); destruct (0 <? zlen (g_payload g)); destruct (hasf (g_flags g) FIN);
    cbn [c_una c_nxt c_rcv c_st c_key c_id c_sip c_dip c_sport c_dport c_ring c_iss c_reader
         set_seq set_st set_ring set_id send r_tbl];
    apply tput_other; exact Hne.
Qed.

(* handling a segment for one State touches no other State of the table ... *)
Lemma handle_conn_other t c g k :
  k <> c_key c -> find_key (r_tbl (handle_conn t c g)) k = find_key t k.
Proof.
  intros Hne. unfold handle_conn, done.
  destruct (sstate_eqb (c_st c) Listen && hasf (g_flags g) SYN).
  { cbn [send r_tbl]. apply tput_other. cbn. exact Hne. }
  destruct (hasf (g_flags g) RST && sstate_eqb (c_st c) SynRcvd).
  { cbn [r_tbl]. apply tput_other. cbn. exact Hne. }
  destruct (hasf (g_flags g) RST && (sstate_eqb (c_st c) CloseWait || sstate_eqb (c_st c) TimeWait)).
  { cbn [r_tbl]. rewrite tremove_other by exact Hne. apply tput_other. cbn. exact Hne. }
  destruct (hasf (g_flags g) SYN). { cbn [r_tbl]. apply tput_other; exact Hne. }
  destruct (negb (hasf (g_flags g) ACK)). { cbn [r_tbl]. apply tput_other; exact Hne. }
  set (c1 := if sstate_eqb (c_st c) Closing then set_st c TimeWait else c).
  assert (Hk1 : c_key c1 = c_key c) by (unfold c1; destruct (sstate_eqb (c_st c) Closing); reflexivity).
  set (t1 := if sstate_eqb (c_st c1) CloseWait then tremove t (c_key c1) else t).
  assert (Ht1 : find_key t1 k = find_key t k).
  { unfold t1. destruct (sstate_eqb (c_st c1) CloseWait); auto. apply tremove_other. congruence. }
  destruct (sstate_eqb (c_st c1) SynRcvd).
  - destruct ((c_una c1 <=? g_ack g) && (g_ack g <=? c_nxt c1)).
    + rewrite data_and_fin_other by (cbn; congruence). exact Ht1.
    + cbn [r_tbl]. rewrite tput_other by congruence. exact Ht1.
  - rewrite data_and_fin_other by congruence. exact Ht1.
Qed.

(* ... and what is sent depends only on that State and the segment, not on the rest of the table *)
Lemma data_and_fin_out_indep t t' c g st : r_out (data_and_fin t c g st) = r_out (data_and_fin t' c g st).
Proof.
  unfold data_and_fin, done.
  destruct c as [k0 st0 iss una nxt rcv id sip sport dip dport ring rd].
  cbn [c_una c_nxt c_rcv c_st c_key c_id c_sip c_dip c_sport c_dport c_ring c_iss c_reader].
  destruct ((una <=? g_ack g) && (g_ack g <=? nxt)); destruct st0;
    cbn [c_una c_nxt c_rcv c_st c_key c_id c_sip c_dip c_sport c_dport c_ring c_iss c_reader
         set_seq set_st set_ring set_id send];
    destruct (hasf (g_flags g) PSH); destruct (0 <? zlen (g_payload g)); destruct (hasf (g_flags g) FIN);
    reflexivity.
Qed.

Lemma handle_conn_out_indep t t' c g : r_out (handle_conn t c g) = r_out (handle_conn t' c g).
Proof.
  unfold handle_conn, done, send.
  repeat match goal with
         | |- context [if ?b then _ else _] => destruct b
         end; cbn; try reflexivity; apply data_and_fin_out_indep.
Qed.

(* StateTable.Get is exact when no other record is confusable with the 4-tuple *)
Definition no_other_match (t : table) (k : N) (g : seg) : Prop :=
  forall c, In (Some c) t -> c_key c <> k -> matches c (g_sip g) (g_dip g) (g_sport g) (g_dport g) = false.

Lemma tget_exact t c g :
  In (Some c) t -> matches c (g_sip g) (g_dip g) (g_sport g) (g_dport g) = true ->
  no_other_match t (c_key c) g ->
  exists c', tget t (g_sip g) (g_dip g) (g_sport g) (g_dport g) = Some c' /\ c_key c' = c_key c.
Proof.
  induction t as [|[c0|] r IH]; intros Hin Hm Hno; [destruct Hin| |].
  - cbn [tget]. destruct (matches c0 (g_sip g) (g_dip g) (g_sport g) (g_dport g)) eqn:E.
    + exists c0. split; auto.
      destruct (N.eq_dec (c_key c0) (c_key c)) as [e|n]; auto.
      rewrite (Hno c0 (or_introl eq_refl) n) in E. discriminate.
    + destruct Hin as [Hin|Hin]; [inversion Hin; subst; congruence|].
      apply IH; auto. intros c1 H1 H2. apply Hno; [right; exact H1|exact H2].
  - cbn [tget]. destruct Hin as [Hin|Hin]; [discriminate|].
    apply IH; auto. intros c1 H1 H2. apply Hno; [right; exact H1|exact H2].
Qed.

(* the confusable case is real: a peer using source port = the destination port of its
   other connection hits the older record *)
Lemma get_confusable_refuted :
  exists t g c, tget t (g_sip g) (g_dip g) (g_sport g) (g_dport g) = Some c /\
                (c_sport c <> g_sport g \/ c_dport c <> g_dport g).
Proof.
  exists [Some (mkConn 1 Estab 0 0 0 0 0 [10;0;0;1]%N 5555 [127;0;0;1]%N 80 [] false)],
         (mkSeg [10;0;0;1]%N [127;0;0;1]%N 80 80 0 0 SYN []),
         (mkConn 1 Estab 0 0 0 0 0 [10;0;0;1]%N 5555 [127;0;0;1]%N 80 [] false).
  split; [vm_compute; reflexivity|left; cbn; lia].
Qed.
