(* C14 - sessions in which the LISTENER emits payload of its own (decoded ports whose decoder
   writes to the connection: 80 DecodeHTTP, 9200 DecodeElasticsearch; the other decoded ports
   run the same script and emit 20-byte segments only).
   Every frame the listener emitted during a whole session (handshake, request in several
   segments, the decoder's answer and close, the client's close) is judged on the observation
   alone with the checksum functions of the model (defined for every segment length, an odd last
   byte padded virtually), and compared byte for byte with the model's frames. *)
From HT Require Import Common.Bytes C14.Model.
From HT Require C14.Check.
Open Scope Z_scope.

Record step := mkStep {
  p_seg : seg;              (* the injected client segment *)
  p_fresh : N * Z * Z;      (* (key, iss, ipid) of the State a SYN creates (drawn by the implementation) *)
  p_write : option bytes;   (* Some w: this step is not a client segment but a WRITE of w by the listener on the
                               connection (Socket.Write / State.write); p_seg then repeats the last client segment *)
  p_dec : bool;             (* the decoder goroutine of the connection ran to its end during this step *)
  p_frames : list bytes     (* every frame emitted during the step, in order *)
}.

Record case := mkCase {
  q_id : N;
  q_smac : bytes;
  q_me : ip;
  q_reply : bytes;          (* what the port's decoder writes for the client's stream (real net/http) *)
  q_steps : list step
}.

(* ---- model run ---- *)
Definition the_key : N := 1%N.   (* one connection per case *)

Definition wire (smac : bytes) (o : out) : bytes := frame_bytes (Check.mac_of (o_dip o)) smac o.

Fixpoint run (me : ip) (smac reply : bytes) (t : table) (steps : list step) : list (list bytes) :=
  match steps with
  | [] => []
  | s :: r =>
      match p_write s with
      | Some w =>
          match write_step t the_key w with
          | Some (t', o) => [wire smac o] :: run me smac reply t' r
          | None => [] :: run me smac reply t r
          end
      | None =>
      let res := handle_tcp (fun a => ip_eqb a me) t (p_fresh s) (p_seg s) in
      let fr := map (wire smac) (r_out res) in
      if p_dec s then
        match decoder_step (r_tbl res) the_key (match reply with [] => [] | _ => [reply] end) with
        | Some (t', os) => (fr ++ map (wire smac) os) :: run me smac reply t' r
        | None => fr :: run me smac reply (r_tbl res) r
        end
      else fr :: run me smac reply (r_tbl res) r
      end
  end.

Definition model_frames (c : case) : list (list bytes) := run (q_me c) (q_smac c) (q_reply c) [] (q_steps c).

Definition mismatches (cs : list case) : list N :=
  map q_id (filter (fun c => negb (Check.list_eqb (Check.list_eqb eqb_bytes) (model_frames c) (map p_frames (q_steps c)))) cs).

(* ---- the property on the observed frames (no model) ---- *)
Definition SIG_MALFORMED := 1%N.   (* not an IPv4/TCP frame of the announced length *)
Definition SIG_IPSUM := 2%N.       (* IPv4 header checksum does not verify *)
Definition SIG_TCPSUM := 3%N.      (* TCP checksum over pseudo header + segment does not verify *)
Definition SIG_ADDRESS := 4%N.     (* not addressed back to the peer (hardware address, IPs, ports) *)
Definition SIG_SYNACK := 5%N.      (* SYN not answered by exactly one SYN-ACK acknowledging ISN+1 *)
Definition SIG_SEQ := 6%N.         (* sequence number <> ISS + 1 + bytes (and FIN) already sent *)
Definition SIG_ACKNUM := 7%N.      (* acknowledgement number is not the end of the client's in-order stream *)
Definition SIG_UNACKED := 8%N.     (* a data segment / FIN of the client was not acknowledged up to its end *)
Definition SIG_REPLY := 9%N.       (* the payload bytes emitted, in order, are not the written bytes / the decoder's reply *)

(* what has been seen of the listener's own direction so far *)
Record jst := mkJ {
  j_q : option Z;     (* sequence number of the first byte after the SYN-ACK (ISS + 1), once seen *)
  j_sent : Z;         (* payload bytes, plus one for a FIN, the listener has emitted since *)
  j_pay : bytes       (* those payload bytes, in order *)
}.

Definition seg_end (g : seg) : Z :=
  g_seq g + zlen (g_payload g) + (if hasf (g_flags g) SYN || hasf (g_flags g) FIN then 1 else 0).

Definition is_syn (g : seg) : bool := hasf (g_flags g) SYN && negb (hasf (g_flags g) ACK).

(* one emitted frame, in answer to (or while the last injected segment was) g *)
Definition frame_sig_gen (syn : bool) (g : seg) (j : jst) (fr : bytes) : N * jst :=
  let v := Check.view fr in
  if negb (Check.f_ok v) then (SIG_MALFORMED, j)
  else if negb (Check.f_ipsum_ok v) then (SIG_IPSUM, j)
  else if negb (Check.f_tcpsum_ok v) then (SIG_TCPSUM, j)
  else if negb (ip_eqb (Check.f_sip v) (g_dip g) && ip_eqb (Check.f_dip v) (g_sip g) &&
                (Check.f_sport v =? g_dport g) && (Check.f_dport v =? g_sport g) &&
                eqb_bytes (Check.f_dmac v) (Check.mac_of (g_sip g)))
       then (SIG_ADDRESS, j)
  else if syn then
    (if (Check.f_flags v =? SYN + ACK) && (Check.f_ack v =? u32 (g_seq g + 1)) && (Check.f_plen v =? 0)
     then (0%N, mkJ (Some (u32 (Check.f_seq v + 1))) 0 [])
     else (SIG_SYNACK, j))
  else
    match j_q j with
    | None => (SIG_SYNACK, j)
    | Some q =>
        if negb (Check.f_seq v =? u32 (q + j_sent j)) then (SIG_SEQ, j)
        else if negb (hasf (Check.f_flags v) ACK &&
                      ((Check.f_ack v =? u32 (seg_end g)) ||
                       (hasf (g_flags g) FIN && (Check.f_ack v =? u32 (seg_end g - 1)))))
             then (SIG_ACKNUM, j)
        else (0%N, mkJ (j_q j)
                       (j_sent j + Check.f_plen v + (if hasf (Check.f_flags v) FIN then 1 else 0))
                       (j_pay j ++ skipn 54 fr))
    end.

Definition frame_sig (g : seg) : jst -> bytes -> N * jst := frame_sig_gen (is_syn g) g.

Fixpoint frames_sig (syn : bool) (g : seg) (j : jst) (frs : list bytes) : N * jst :=
  match frs with
  | [] => (0%N, j)
  | fr :: r => let '(s, j') := frame_sig_gen syn g j fr in
               if (s =? 0)%N then frames_sig syn g j' r else (s, j')
  end.

Definition acked_to_end (g : seg) (frs : list bytes) : bool :=
  existsb (fun fr => let v := Check.view fr in
                     Check.f_ok v && hasf (Check.f_flags v) ACK && (Check.f_ack v =? u32 (seg_end g))) frs.

Fixpoint steps_sig (j : jst) (steps : list step) : N * jst :=
  match steps with
  | [] => (0%N, j)
  | s :: r =>
      let g := p_seg s in
      let wr := match p_write s with Some _ => true | None => false end in
      let syn := is_syn g && negb wr in
      let '(e, j') := frames_sig syn g j (p_frames s) in
      if negb (e =? 0)%N then (e, j')
      else if wr then steps_sig j' r
      else if syn && negb (Nat.eqb (length (p_frames s)) 1) then (SIG_SYNACK, j')
      else if negb syn && (negb (eqb_bytes (g_payload g) []) || hasf (g_flags g) FIN)
              && negb (acked_to_end g (p_frames s)) then (SIG_UNACKED, j')
      else steps_sig j' r
  end.

(* what the listener has to have sent, in order: every write's bytes, and the decoder's reply where
   the decoder ran *)
Definition expected_payload (c : case) : bytes :=
  flat_map (fun s => match p_write s with
                     | Some w => w
                     | None => if p_dec s then q_reply c else []
                     end) (q_steps c).

Definition case_sig (c : case) : N :=
  let '(e, j) := steps_sig (mkJ None 0 []) (q_steps c) in
  if negb (e =? 0)%N then e
  else if eqb_bytes (j_pay j) (expected_payload c) then 0%N else SIG_REPLY.

Definition violations (cs : list case) : list (N * N) :=
  flat_map (fun c => let s := case_sig c in if (s =? 0)%N then [] else [(q_id c, s)]) cs.

(* tags: 1 + number of payload-carrying frames observed (2 and more = the listener sent data) *)
Definition tags (cs : list case) : list (N * N) :=
  map (fun c => (q_id c,
                 N.succ (N.of_nat (length (filter (fun fr => 54 <? zlen fr) (flat_map p_frames (q_steps c))))))) cs.
