(* C14 - checksum algebra: the emitted IPv4 header and TCP segment verify. *)
From HT Require Import Common.Bytes C14.Model.
From Coq Require Import ZifyBool ZifyN ZifyNat.
Open Scope Z_scope.

Lemma fold1_spec s : 0 <= s -> fold1 s = s - 65535 * (s / 65536).
Proof. intros H; unfold fold1; lia. Qed.

(* after two folds a 32-bit sum is <= 0xffff; the third is the identity *)
Lemma fold3_range s : 0 <= s < 4294967296 -> 0 <= fold3 s <= 65535.
Proof. intros H; unfold fold3, fold1; lia. Qed.

Lemma fold3_mod s : 0 <= s < 4294967296 -> (fold3 s - s) mod 65535 = 0.
Proof.
  intros H. unfold fold3, fold1.
  set (a := s / 65536). set (b := s mod 65536).
  assert (Hs : s = 65536 * a + b) by (unfold a, b; lia).
  assert (0 <= a < 65536 /\ 0 <= b < 65536) by (unfold a, b; lia).
  set (s1 := a + b). set (a1 := s1 / 65536). set (b1 := s1 mod 65536).
  assert (Hs1 : s1 = 65536 * a1 + b1) by (unfold a1, b1; lia).
  assert (0 <= a1 <= 1 /\ 0 <= b1 < 65536) by (unfold a1, b1, s1; lia).
  set (s2 := a1 + b1). 
  assert (Hs2 : s2 / 65536 + s2 mod 65536 = s2 \/ s2 = 65536) by (unfold s2; lia).
  destruct Hs2 as [Hs2|Hs2].
  - rewrite Hs2. replace (s2 - s) with (65535 * (- a - a1)) by (unfold s2, s1 in *; lia).
    rewrite Z.mul_comm. apply Z_mod_mult.
  - exfalso. unfold s2 in Hs2. assert (a1 = 1) by lia. subst a1.
    assert (b1 = 65535) by lia. unfold s1 in Hs1. lia.
Qed.

Lemma fold3_zero s : 0 <= s < 4294967296 -> fold3 s = 0 -> s = 0.
Proof. intros H; unfold fold3, fold1; lia. Qed.

(* a sum plus the complement of its folded value folds to 0xffff *)
Lemma cksum_verifies s :
  0 <= s < 4294901760 -> fold3 (s + cksum_of_sum s) = 65535.
Proof.
  intros H. unfold cksum_of_sum.
  pose proof (fold3_range s ltac:(lia)) as Hr.
  set (f := fold3 s) in *.
  assert (Hb : 0 <= s + (65535 - f) < 4294967296) by lia.
  pose proof (fold3_range _ Hb) as Hr2.
  pose proof (fold3_mod _ Hb) as Hm2.
  pose proof (fold3_mod s ltac:(lia)) as Hm. fold f in Hm.
  set (g := fold3 (s + (65535 - f))) in *.
  (* g = s + 65535 - f = 0 (mod 65535), 0 <= g <= 65535, and g = 0 only if the sum is 0 *)
  pose proof (fold3_zero _ Hb) as Hz0. fold g in Hz0.
  assert (Hf0 : s = 0 -> f = 0) by (intros ->; reflexivity).
  clearbody g. clearbody f.
  assert (Hg : g mod 65535 = 0) by lia.
  assert (g = 0 \/ g = 65535) as [Hz|Hz] by lia; [|exact Hz].
  exfalso. specialize (Hz0 Hz). lia.
Qed.

Lemma list_pair_ind (P : list N -> Prop) :
  P [] -> (forall x, P [x]) -> (forall x y l, P l -> P (x :: y :: l)) -> forall l, P l.
Proof.
  intros H0 H1 H2. fix IH 1. intros l. destruct l as [|x [|y l']].
  - exact H0.
  - apply H1.
  - apply H2. apply IH.
Qed.

(* sum_words distributes over even-length prefixes *)
Lemma sum_words_app a b :
  Nat.even (length a) = true -> sum_words (a ++ b) = sum_words a + sum_words b.
Proof.
  revert b. induction a as [|x|x y a' IH] using list_pair_ind; intros b He.
  - reflexivity.
  - discriminate.
  - cbn [app sum_words]. cbn [length Nat.even] in He. rewrite (IH b He). lia.
Qed.

Lemma sum_words_bound l : wf_bytes l = true -> 0 <= sum_words l <= 65535 * (zlen l + 1).
Proof.
  induction l as [|x|x y l' IH] using list_pair_ind; intros Hwf.
  - cbn. lia.
  - cbn [sum_words wf_bytes forallb] in *. unfold byteb in Hwf. unfold zlen; cbn [length]. lia.
  - cbn [sum_words]. cbn [wf_bytes forallb] in Hwf.
    apply andb_true_iff in Hwf as [Hx Hwf]. apply andb_true_iff in Hwf as [Hy Hl].
    unfold byteb in Hx, Hy. specialize (IH Hl). unfold zlen in *; cbn [length]. lia.
Qed.

Lemma sum_words_be2 v : 0 <= v < 65536 -> sum_words (be_enc 2 v) = v.
Proof.
  intros H. cbn [be_enc sum_words]. change (256 ^ Z.of_nat 1) with 256. change (256 ^ Z.of_nat 0) with 1.
  rewrite !Z2N.id by (apply Z.mod_pos_bound; lia). lia.
Qed.

(* ---- the emitted headers verify ---- *)
Definition wf_out (o : out) : Prop :=
  wf_bytes (o_sip o) = true /\ zlen (o_sip o) = 4 /\ wf_bytes (o_dip o) = true /\ zlen (o_dip o) = 4 /\
  0 <= o_flags o < 256 /\ wf_bytes (o_payload o) = true /\ zlen (o_payload o) <= 65000.

Lemma Z2N_byte v : Z.of_N (Z.to_N (v mod 256)) = v mod 256.
Proof. apply Z2N.id. apply Z.mod_pos_bound; lia. Qed.

Lemma len4 (l : bytes) : zlen l = 4 -> exists a b c d, l = [a; b; c; d].
Proof.
  unfold zlen. destruct l as [|a [|b [|c [|d [|e l]]]]]; cbn [length]; try lia. eauto.
Qed.

Lemma ip_checksum_verifies o : wf_out o -> verify_sum (ip_bytes o) = 65535.
Proof.
  intros (Hs & Hsl & Hd & Hdl & Hf & Hp & Hpl).
  destruct (len4 _ Hsl) as (s0 & s1 & s2 & s3 & Es). destruct (len4 _ Hdl) as (d0 & d1 & d2 & d3 & Ed).
  unfold verify_sum, ip_bytes, ip_checksum.
  set (S := sum_words (ip_header_nock o)).
  assert (HS : sum_words (firstn 10 (ip_header_nock o) ++ be_enc 2 (cksum_of_sum S) ++ skipn 12 (ip_header_nock o))
               = S + cksum_of_sum S /\ 0 <= S < 4294901760).
  { unfold S, ip_header_nock. rewrite Es, Ed in *. cbn [be_enc app firstn skipn sum_words].
    change (256 ^ Z.of_nat 1) with 256. change (256 ^ Z.of_nat 0) with 1.
    rewrite !Z.div_1_r, !Z2N_byte.
    cbn [wf_bytes forallb] in Hs, Hd. unfold byteb in Hs, Hd.
    split; [|lia].
    set (ck := cksum_of_sum _). assert (0 <= ck <= 65535).
    { unfold ck, cksum_of_sum. match goal with |- context [fold3 ?x] => pose proof (fold3_range x) end. lia. }
    lia. }
  destruct HS as [-> Hb]. apply cksum_verifies; exact Hb.
Qed.

Lemma tcp_hdr_length o : length (tcp_header_nock o) = 20%nat.
Proof. unfold tcp_header_nock. cbn [be_enc app length]. reflexivity. Qed.

Lemma tcp_hdr_split o :
  tcp_header_nock o = firstn 16 (tcp_header_nock o) ++ [0%N; 0%N] ++ skipn 18 (tcp_header_nock o).
Proof. unfold tcp_header_nock. cbn [be_enc app firstn skipn]. reflexivity. Qed.

Lemma even_firstn16 o : Nat.even (length (firstn 16 (tcp_header_nock o))) = true.
Proof. rewrite firstn_length, tcp_hdr_length. reflexivity. Qed.

Lemma sum_patched o ck p :
  0 <= ck < 65536 ->
  sum_words (firstn 16 (tcp_header_nock o) ++ be_enc 2 ck ++ skipn 18 (tcp_header_nock o) ++ p)
  = sum_words (tcp_header_nock o ++ p) + ck.
Proof.
  intros Hck.
  rewrite (tcp_hdr_split o) at 3. rewrite <- !app_assoc.
  set (hd := firstn 16 (tcp_header_nock o)).
  set (tl := skipn 18 (tcp_header_nock o) ++ p).
  assert (He : Nat.even (length hd) = true) by apply even_firstn16.
  clearbody hd tl.
  rewrite !(sum_words_app hd) by exact He.
  rewrite (sum_words_app (be_enc 2 ck)) by reflexivity.
  rewrite (sum_words_app [0%N; 0%N] tl) by reflexivity.
  rewrite sum_words_be2 by exact Hck. cbn [sum_words]. lia.
Qed.

Lemma tcp_bytes_length o : zlen (tcp_bytes o) = zlen (tcp_header_nock o ++ o_payload o).
Proof.
  unfold tcp_bytes, zlen. rewrite !app_length, firstn_length, skipn_length, tcp_hdr_length.
  cbn [be_enc length]. lia.
Qed.

Lemma tcp_hdr_wf o : 0 <= o_flags o < 256 -> wf_bytes (tcp_header_nock o) = true.
Proof.
  intros Hf. unfold tcp_header_nock. cbn [be_enc app wf_bytes forallb]. unfold byteb.
  change (256 ^ Z.of_nat 3) with 16777216. change (256 ^ Z.of_nat 2) with 65536.
  change (256 ^ Z.of_nat 1) with 256. change (256 ^ Z.of_nat 0) with 1.
  repeat match goal with |- context [Z.to_N (?x mod 256)] =>
    let H := fresh in assert (H : (Z.to_N (x mod 256) <? 256)%N = true) by lia; rewrite H; clear H end.
  assert ((Z.to_N (o_flags o) <? 256)%N = true) as -> by lia. reflexivity.
Qed.

Lemma tcp_checksum_verifies o :
  wf_out o ->
  fold3 (pseudo_sum (o_sip o) (o_dip o) (zlen (tcp_bytes o)) + sum_words (tcp_bytes o)) = 65535.
Proof.
  intros (Hs & Hsl & Hd & Hdl & Hf & Hp & Hpl).
  rewrite tcp_bytes_length. unfold tcp_bytes, tcp_checksum.
  set (S := pseudo_sum (o_sip o) (o_dip o) (zlen (tcp_header_nock o ++ o_payload o)) +
            sum_words (tcp_header_nock o ++ o_payload o)).
  assert (Hwf : wf_bytes (tcp_header_nock o ++ o_payload o) = true)
    by (rewrite wf_bytes_app, tcp_hdr_wf, Hp by exact Hf; reflexivity).
  pose proof (sum_words_bound _ Hwf) as Hb1.
  pose proof (sum_words_bound _ Hs) as Hsb. pose proof (sum_words_bound _ Hd) as Hdb.
  assert (Hl : zlen (tcp_header_nock o ++ o_payload o) = 20 + zlen (o_payload o)).
  { unfold zlen. rewrite app_length, tcp_hdr_length. lia. }
  assert (HSb : 0 <= S < 4294901760).
  { unfold S, pseudo_sum. rewrite Hl in *. pose proof (zlen_nonneg (o_payload o)). nia. }
  assert (Hck : 0 <= cksum_of_sum S < 65536).
  { unfold cksum_of_sum. pose proof (fold3_range S ltac:(lia)). lia. }
  rewrite sum_patched by exact Hck.
  replace (pseudo_sum (o_sip o) (o_dip o) (zlen (tcp_header_nock o ++ o_payload o)) +
           (sum_words (tcp_header_nock o ++ o_payload o) + cksum_of_sum S)) with (S + cksum_of_sum S)
    by (unfold S; lia).
  apply cksum_verifies; exact HSb.
Qed.
