(* C19 - property theorems. *)
From HT Require Import Common.Bytes C19.Model C19.Check C19.Proofs.
Open Scope Z_scope.

(* the port parser: exactly the non-empty decimal strings with value <= 65535 *)
Theorem C19_parse_uint16_spec : forall s n,
  parse_uint16 s = Some n <->
  s <> [] /\ forallb is_digit s = true /\ dec_val s 0 = n /\ n <= 65535.
Proof. exact parse_uint16_spec. Qed.

(* all 65,536 port numbers are accepted with their own value (finite sweep by vm_compute,
   lifted to the statement by forallb_forall; the bound is in the statement) *)
Theorem C19_all_65536_ports : forall n, 0 <= n < 65536 -> parse_uint16 (show16 n) = Some n.
Proof. exact parse_uint16_all_ports. Qed.

(* ToAddr yields an address only for tcp/udp entries with a port in 0..65535 *)
Theorem C19_to_addr_wellformed : forall resolve input a,
  to_addr resolve input = Some a ->
  exists p rest, split C_slash input = [p; rest] /\
    (p = S_tcp /\ a_proto a = TCP \/ p = S_udp /\ a_proto a = UDP) /\
    0 <= a_port a <= 65535.
Proof. exact to_addr_wellformed. Qed.

(* every listened address comes from a well-formed port string of the configuration that
   names at least one defined service, and is bound to exactly that entry's defined
   services; listened addresses are pairwise incompatible *)
Theorem C19_listened_sound : forall resolve defined cfg,
  pairwise_incompat (build resolve defined cfg) /\
  forall a v, In (a, v) (build resolve defined cfg) ->
    v <> [] /\ exists o, In o (flat cfg) /\ to_addr resolve (fst o) = Some a /\
                         v = filter (fun s => mem_str s defined) (snd o).
Proof. exact build_Inv. Qed.

(* every well-formed port string naming a defined service is listened on, unless an
   address listened on is compatible with it *)
Theorem C19_listened_complete : forall resolve defined cfg o a,
  In o (flat cfg) -> to_addr resolve (fst o) = Some a ->
  filter (fun s => mem_str s defined) (snd o) <> [] ->
  compat_in (build resolve defined cfg) a = true.
Proof.
  intros resolve defined cfg o a. rewrite build_flat. exact (fold_complete resolve defined (flat cfg) [] o a).
Qed.

(* first wins: processing further entries never changes what is already bound ... *)
Theorem C19_first_wins_prefix : forall resolve defined occs t,
  exists t', fold_left (add_occ resolve defined) occs t = t ++ t'.
Proof. exact fold_prefix. Qed.

(* ... and a later entry compatible with a listened address is ignored *)
Theorem C19_later_ignored : forall resolve defined svcs t ps a,
  to_addr resolve ps = Some a -> compat_in t a = true ->
  add_port resolve defined svcs t ps = t.
Proof. exact add_port_ignored. Qed.

(* unknown service names are skipped without affecting the others *)
Theorem C19_unknown_services_harmless : forall resolve defined svcs t ps,
  add_port resolve defined svcs t ps =
  add_port resolve defined (filter (fun s => mem_str s defined) svcs) t ps.
Proof. exact add_port_unknown_harmless. Qed.

(* a connection to a listened port has at most one candidate entry (so Go's map iteration
   order in findService cannot matter) *)
Theorem C19_candidate_unique : forall t l ip,
  pairwise_incompat t -> a_ip l = Some ip -> (length (candidates t l) <= 1)%nat.
Proof. exact (candidates_unique (fun _ => None)). Qed.

(* non-vacuity: a configuration with a duplicate, a malformed and an unknown-service entry *)
Example C19_nonvacuous :
  let r := fun _ : str => @None bytes in
  let tcp80 := [116;99;112;47;56;48]%N in let udp80 := [117;100;112;47;56;48]%N in
  let bad := [116;99;112;47;54;53;53;51;54]%N in
  let cfg := [mkEntry [tcp80; bad] udp80 [[97]%N; [120]%N]; mkEntry [] tcp80 [[98]%N]] in
  map fst (build r [[97]%N; [98]%N] cfg) = [mkAddr TCP None 80; mkAddr UDP None 80]
  /\ map snd (build r [[97]%N; [98]%N] cfg) = [[[97]%N]; [[97]%N]].
Proof. vm_compute. split; reflexivity. Qed.

Print Assumptions C19_parse_uint16_spec.
Print Assumptions C19_all_65536_ports.
Print Assumptions C19_to_addr_wellformed.
Print Assumptions C19_listened_sound.
Print Assumptions C19_listened_complete.
Print Assumptions C19_first_wins_prefix.
Print Assumptions C19_later_ignored.
Print Assumptions C19_unknown_services_harmless.
Print Assumptions C19_candidate_unique.
