(* C19 - model of server.ToAddr, compareAddr and the port-entry loop of Run
   (server/honeytrap.go).  Executable definitions only.
   Host resolution (net.ParseIP / DNS) is an oracle [resolve]: a non-empty host maps
   to Some ip (canonical 16-byte form) or None (does not resolve). *)
From HT Require Import Common.Bytes.
Open Scope Z_scope.

Definition str := bytes.
Definition C_slash := 47%N.   Definition C_colon := 58%N.
Definition C_lbr := 91%N.     Definition C_rbr := 93%N.

Definition eqb_str := eqb_bytes.

(* strings.Split(s, "/") *)
Fixpoint split_on (c : N) (s : str) (cur : str) : list str :=
  match s with
  | [] => [rev cur]
  | x :: r => if (x =? c)%N then rev cur :: split_on c r [] else split_on c r (x :: cur)
  end.
Definition split (c : N) (s : str) : list str := split_on c s [].

Fixpoint index_from (c : N) (s : str) (i : nat) : option nat :=
  match s with
  | [] => None
  | x :: r => if (x =? c)%N then Some i else index_from c r (S i)
  end.
Definition index (c : N) (s : str) : option nat := index_from c s 0.

Fixpoint last_index_from (c : N) (s : str) (i : nat) (acc : option nat) : option nat :=
  match s with
  | [] => acc
  | x :: r => last_index_from c r (S i) (if (x =? c)%N then Some i else acc)
  end.
Definition last_index (c : N) (s : str) : option nat := last_index_from c s 0 None.

Definition contains (c : N) (s : str) : bool :=
  match index c s with Some _ => true | None => false end.

(* net.SplitHostPort *)
Definition split_host_port (hp : str) : option (str * str) :=
  match last_index C_colon hp with
  | None => None                                   (* missing port *)
  | Some i =>
      match hp with
      | [] => None
      | c0 :: _ =>
          if (c0 =? C_lbr)%N then
            match index C_rbr hp with
            | None => None                         (* missing ']' *)
            | Some e =>
                if Nat.eqb (S e) i then
                  let host := firstn (e - 1) (skipn 1 hp) in
                  if contains C_lbr (skipn 1 hp) then None
                  else if contains C_rbr (skipn (S e) hp) then None
                  else Some (host, skipn (S i) hp)
                else None                          (* missing port / too many colons *)
            end
          else
            let host := firstn i hp in
            if contains C_colon host then None     (* too many colons *)
            else if contains C_lbr hp then None
            else if contains C_rbr hp then None
            else Some (host, skipn (S i) hp)
      end
  end.

(* strconv.ParseUint(s, 10, 16): non-empty, decimal digits only, value <= 65535 *)
Definition is_digit (c : N) : bool := ((48 <=? c) && (c <=? 57))%N.
Fixpoint dec_val (s : str) (acc : Z) : Z :=
  match s with [] => acc | c :: r => dec_val r (acc * 10 + (Z.of_N c - 48)) end.
Definition parse_uint16 (s : str) : option Z :=
  match s with
  | [] => None
  | _ => if forallb is_digit s then
           let v := dec_val s 0 in if v <=? 65535 then Some v else None
         else None
  end.

Inductive proto := TCP | UDP.
Definition proto_eqb (a b : proto) : bool :=
  match a, b with TCP, TCP | UDP, UDP => true | _, _ => false end.

(* a resolved address: [a_ip = None] is Go's nil IP (no address configured) *)
Record addr := mkAddr { a_proto : proto; a_ip : option bytes; a_port : Z }.

Definition S_tcp : str := [116;99;112]%N.
Definition S_udp : str := [117;100;112]%N.

Section WithResolver.
  Variable resolve : str -> option bytes.   (* non-empty host -> ip16, or fails *)

  Definition resolve_host (h : str) : option (option bytes) :=
    match h with
    | [] => Some None
    | _ => match resolve h with Some ip => Some (Some ip) | None => None end
    end.

  (* server.ToAddr: Some addr iff err == nil *)
  Definition to_addr (input : str) : option addr :=
    match split C_slash input with
    | [p; rest] =>
        let '(host, port) := match split_host_port rest with
                             | Some hp => hp
                             | None => ([], rest)
                             end in
        match parse_uint16 port with
        | None => None
        | Some n =>
            let mk pr := match resolve_host host with
                         | Some ip => Some (mkAddr pr ip n)
                         | None => None
                         end in
            if eqb_str p S_tcp then mk TCP
            else if eqb_str p S_udp then mk UDP
            else None
        end
    | _ => None
    end.

  Definition ip_compat (a b : option bytes) : bool :=
    match a, b with
    | None, _ | _, None => true
    | Some x, Some y => eqb_bytes x y
    end.

  Definition compare_addr (a b : addr) : bool :=
    proto_eqb (a_proto a) (a_proto b) && (a_port a =? a_port b) && ip_compat (a_ip a) (a_ip b).

  (* one [[port]] table of the configuration *)
  Record entry := mkEntry { e_ports : list str; e_port : str; e_services : list str }.

  Definition entry_ports (e : entry) : list str :=
    e_ports e ++ (match e_port e with [] => [] | p => [p] end).

  Definition mem_str (x : str) (l : list str) : bool := existsb (eqb_str x) l.

  Definition table := list (addr * list str).   (* insertion order = AddAddress order *)

  Definition add_port (defined : list str) (svcs : list str) (t : table) (ps : str) : table :=
    match to_addr ps with
    | None => t
    | Some a =>
        let ptrs := filter (fun s => mem_str s defined) svcs in
        match ptrs with
        | [] => t
        | _ => if existsb (fun kv => compare_addr (fst kv) a) t then t else t ++ [(a, ptrs)]
        end
    end.

  Definition add_entry (defined : list str) (t : table) (e : entry) : table :=
    fold_left (add_port defined (e_services e)) (entry_ports e) t.

  Definition build (defined : list str) (cfg : list entry) : table :=
    fold_left (add_entry defined) cfg [].

  (* findService's candidate list for a connection whose local address is [l] *)
  Definition candidates (t : table) (l : addr) : list (list str) :=
    map snd (filter (fun kv => compare_addr (fst kv) l) t).
End WithResolver.
