(* C19 - lemmas about ToAddr / the port table. *)
From HT Require Import Common.Bytes C19.Model C19.Check.
From Coq Require Import ZifyBool ZifyN ZifyNat.
Open Scope Z_scope.

(* ---- ParseUint(s, 10, 16) ---- *)
Lemma parse_uint16_spec s n :
  parse_uint16 s = Some n <->
  s <> [] /\ forallb is_digit s = true /\ dec_val s 0 = n /\ n <= 65535.
Proof.
  unfold parse_uint16. destruct s as [|c r].
  - split; [discriminate|intros [H _]; congruence].
  - destruct (forallb is_digit (c :: r)) eqn:Hd.
    + destruct (dec_val (c :: r) 0 <=? 65535) eqn:Hv.
      * split.
        -- intros H; injection H as <-. split; [discriminate|]. split; [reflexivity|]. split; [reflexivity|]. apply Z.leb_le; exact Hv.
        -- intros (_ & _ & H & _). congruence.
      * split; [discriminate|]. intros (_ & _ & H & Hle). subst. lia.
    + split; [discriminate|]. intros (_ & H & _). discriminate.
Qed.

Lemma dec_val_nonneg s : forall acc, forallb is_digit s = true -> 0 <= acc -> 0 <= dec_val s acc.
Proof.
  induction s as [|c r IH]; intros acc Hd Ha; cbn [dec_val]; auto.
  cbn [forallb] in Hd. apply andb_true_iff in Hd as [Hc Hr].
  apply IH; auto. unfold is_digit in Hc. lia.
Qed.

Lemma parse_uint16_range s n : parse_uint16 s = Some n -> 0 <= n <= 65535.
Proof.
  intros H. apply parse_uint16_spec in H as (_ & Hd & Hv & Hle). subst.
  split; auto. apply dec_val_nonneg; auto. lia.
Qed.

(* decimal printing of a port number (at most 5 digits), no leading zeros *)
Definition digit_of (d : Z) : N := Z.to_N (48 + d).
Definition show16 (n : Z) : str :=
  let d4 := n / 10000 in let d3 := (n / 1000) mod 10 in let d2 := (n / 100) mod 10 in
  let d1 := (n / 10) mod 10 in let d0 := n mod 10 in
  if n <? 10 then [digit_of d0]
  else if n <? 100 then [digit_of d1; digit_of d0]
  else if n <? 1000 then [digit_of d2; digit_of d1; digit_of d0]
  else if n <? 10000 then [digit_of d3; digit_of d2; digit_of d1; digit_of d0]
  else [digit_of d4; digit_of d3; digit_of d2; digit_of d1; digit_of d0].

Fixpoint upto (bits : nat) : list Z :=
  match bits with
  | O => [0]
  | S b => let l := upto b in l ++ map (Z.add (2 ^ Z.of_nat b)) l
  end.

Lemma upto_spec b : forall n, 0 <= n < 2 ^ Z.of_nat b -> In n (upto b).
Proof.
  induction b as [|b IH]; intros n Hn.
  - cbn in *. left; lia.
  - cbn [upto]. apply in_or_app.
    replace (Z.of_nat (S b)) with (Z.of_nat b + 1) in Hn by lia.
    rewrite Z.pow_add_r in Hn by lia. change (2 ^ 1) with 2 in Hn.
    destruct (Z.ltb_spec n (2 ^ Z.of_nat b)).
    + left; apply IH; lia.
    + right. apply in_map_iff. exists (n - 2 ^ Z.of_nat b). split; [lia|]. apply IH; lia.
Qed.

Definition port_ok (n : Z) : bool :=
  match parse_uint16 (show16 n) with Some m => m =? n | None => false end.

Lemma all_ports_sweep : forallb port_ok (upto 16) = true.
Proof. vm_compute. reflexivity. Qed.

(* all 65,536 port numbers are accepted with their own value *)
Lemma parse_uint16_all_ports n : 0 <= n < 65536 -> parse_uint16 (show16 n) = Some n.
Proof.
  intros Hn. pose proof all_ports_sweep as H. rewrite forallb_forall in H.
  specialize (H n (upto_spec 16 n Hn)). unfold port_ok in H.
  destruct (parse_uint16 (show16 n)) as [m|]; [|discriminate]. f_equal; lia.
Qed.

Lemma port_65536_rejected : parse_uint16 [54;53;53;51;54]%N = None.
Proof. reflexivity. Qed.
Lemma port_negative_rejected : parse_uint16 [45;49]%N = None.
Proof. reflexivity. Qed.
Lemma port_empty_rejected : parse_uint16 [] = None.
Proof. reflexivity. Qed.

Section R.
  Variable resolve : str -> option bytes.
  Notation to_addr := (to_addr resolve).
  Notation add_port := (add_port resolve).
  Notation add_entry := (add_entry resolve).
  Notation build := (build resolve).

  (* ToAddr accepts only tcp/udp with a 16-bit port *)
  Lemma to_addr_wellformed input a :
    to_addr input = Some a ->
    exists p rest, split C_slash input = [p; rest] /\
      (p = S_tcp /\ a_proto a = TCP \/ p = S_udp /\ a_proto a = UDP) /\
      0 <= a_port a <= 65535.
  Proof.
    unfold Model.to_addr. destruct (split C_slash input) as [|p [|rest [|? ?]]]; try discriminate.
    destruct (match split_host_port rest with Some hp => hp | None => ([], rest) end) as [host port].
    destruct (parse_uint16 port) as [n|] eqn:Hp; [|discriminate].
    pose proof (parse_uint16_range _ _ Hp) as Hr.
    intros H. exists p, rest. split; [reflexivity|].
    destruct (eqb_str p S_tcp) eqn:Et.
    - apply eqb_bytes_true in Et. destruct (resolve_host resolve host); inversion H; subst; cbn; auto.
    - destruct (eqb_str p S_udp) eqn:Eu; [|discriminate].
      apply eqb_bytes_true in Eu. destruct (resolve_host resolve host); inversion H; subst; cbn; auto.
  Qed.

  (* ---- compareAddr ---- *)
  Lemma eqb_bytes_sym a b : eqb_bytes a b = eqb_bytes b a.
  Proof.
    destruct (eqb_bytes a b) eqn:E.
    - apply eqb_bytes_true in E; subst; symmetry; apply eqb_bytes_true; reflexivity.
    - symmetry. destruct (eqb_bytes b a) eqn:E'; auto.
      apply eqb_bytes_true in E'; subst. assert (eqb_bytes a a = true) by (apply eqb_bytes_true; auto). congruence.
  Qed.

  Lemma compare_addr_sym a b : compare_addr a b = compare_addr b a.
  Proof.
    unfold compare_addr. f_equal; [f_equal|].
    - destruct (a_proto a), (a_proto b); reflexivity.
    - apply Z.eqb_sym.
    - unfold ip_compat. destruct (a_ip a), (a_ip b); auto. apply eqb_bytes_sym.
  Qed.

  (* ---- the table ---- *)
  Definition compat_in (t : table) (a : addr) : bool := existsb (fun kv => compare_addr (fst kv) a) t.

  Fixpoint pairwise_incompat (t : table) : Prop :=
    match t with
    | [] => True
    | kv :: r => (forall kv', In kv' r -> compare_addr (fst kv) (fst kv') = false) /\ pairwise_incompat r
    end.

  Lemma pairwise_app_one t a v :
    pairwise_incompat t -> compat_in t a = false -> pairwise_incompat (t ++ [(a, v)]).
  Proof.
    induction t as [|kv r IH]; intros Hp Hc; cbn [app pairwise_incompat].
    - split; [intros ? []|exact I].
    - cbn [compat_in existsb] in Hc. apply orb_false_iff in Hc as [Hk Hr].
      destruct Hp as [Hhd Htl]. split.
      + intros kv' Hin. apply in_app_or in Hin as [Hin|[<-|[]]]; auto.
      + apply IH; auto.
  Qed.

  Definition flat (cfg : list entry) : list (str * list str) :=
    flat_map (fun e => map (fun ps => (ps, e_services e)) (entry_ports e)) cfg.

  Definition add_occ (defined : list str) (t : table) (o : str * list str) : table :=
    add_port defined (snd o) t (fst o).

  Lemma add_entry_flat defined e t :
    add_entry defined t e =
    fold_left (add_occ defined) (map (fun ps => (ps, e_services e)) (entry_ports e)) t.
  Proof.
    unfold Model.add_entry. generalize (entry_ports e) as ps. intros ps; revert t.
    induction ps as [|p r IH]; intros t; cbn [fold_left map]; auto.
  Qed.

  Lemma build_flat_gen defined cfg : forall t,
    fold_left (add_entry defined) cfg t = fold_left (add_occ defined) (flat cfg) t.
  Proof.
    induction cfg as [|e r IH]; intros t; cbn [fold_left flat flat_map]; auto.
    rewrite fold_left_app, <- add_entry_flat. apply IH.
  Qed.

  Lemma build_flat defined cfg : build defined cfg = fold_left (add_occ defined) (flat cfg) [].
  Proof. apply build_flat_gen. Qed.

  (* what one port string does to the table *)
  Lemma add_port_cases defined svcs t ps :
    add_port defined svcs t ps = t \/
    exists a, to_addr ps = Some a /\ filter (fun s => mem_str s defined) svcs <> [] /\
              compat_in t a = false /\
              add_port defined svcs t ps = t ++ [(a, filter (fun s => mem_str s defined) svcs)].
  Proof.
    unfold Model.add_port. destruct (to_addr ps) as [a|]; auto.
    destruct (filter (fun s => mem_str s defined) svcs) as [|s0 r] eqn:Hf; auto.
    fold (compat_in t a). destruct (compat_in t a) eqn:Hc; auto.
    right. exists a. repeat split; auto. discriminate.
  Qed.

  (* a later definition that is compatible with a listened address is ignored *)
  Lemma add_port_ignored defined svcs t ps a :
    to_addr ps = Some a -> compat_in t a = true -> add_port defined svcs t ps = t.
  Proof.
    intros Ha Hc. unfold Model.add_port. rewrite Ha.
    destruct (filter _ svcs); auto. fold (compat_in t a). rewrite Hc. reflexivity.
  Qed.

  Definition Inv (defined : list str) (occs : list (str * list str)) (t : table) : Prop :=
    pairwise_incompat t /\
    forall a v, In (a, v) t ->
      v <> [] /\ exists o, In o occs /\ to_addr (fst o) = Some a /\
                           v = filter (fun s => mem_str s defined) (snd o).

  Lemma Inv_mono defined occs occs' t :
    (forall o, In o occs -> In o occs') -> Inv defined occs t -> Inv defined occs' t.
  Proof.
    intros Hsub [Hp Hs]. split; auto. intros a v Hin.
    destruct (Hs a v Hin) as (Hne & o & Ho & Ha & Hv). split; auto. exists o; auto.
  Qed.

  Lemma fold_Inv defined : forall occs seen t,
    Inv defined seen t ->
    Inv defined (seen ++ occs) (fold_left (add_occ defined) occs t).
  Proof.
    induction occs as [|o r IH]; intros seen t HI; cbn [fold_left].
    - rewrite app_nil_r; exact HI.
    - replace (seen ++ o :: r) with ((seen ++ [o]) ++ r) by (rewrite <- app_assoc; reflexivity).
      apply IH. unfold add_occ.
      destruct (add_port_cases defined (snd o) t (fst o)) as [->|(a & Ha & Hne & Hc & ->)].
      + eapply Inv_mono; [|exact HI]. intros; apply in_or_app; auto.
      + destruct HI as [Hp Hs]. split.
        * apply pairwise_app_one; auto.
        * intros a' v' Hin. apply in_app_or in Hin as [Hin|[Heq|[]]].
          -- destruct (Hs a' v' Hin) as (Hne' & o' & Ho' & Ha' & Hv'). split; auto.
             exists o'. split; auto. apply in_or_app; auto.
          -- inversion Heq; subst. split; auto. exists o. split; auto.
             apply in_or_app; right; left; reflexivity.
  Qed.

  Lemma build_Inv defined cfg : Inv defined (flat cfg) (build defined cfg).
  Proof. rewrite build_flat. apply (fold_Inv defined (flat cfg) [] []). split; [exact I|intros ? ? []]. Qed.

  (* the table only grows, existing bindings never change (first wins) *)
  Lemma fold_prefix defined : forall occs t, exists t', fold_left (add_occ defined) occs t = t ++ t'.
  Proof.
    induction occs as [|o r IH]; intros t; cbn [fold_left].
    - exists []; rewrite app_nil_r; reflexivity.
    - unfold add_occ at 2.
      destruct (add_port_cases defined (snd o) t (fst o)) as [->|(a & _ & _ & _ & ->)].
      + apply IH.
      + destruct (IH (t ++ [(a, filter (fun s => mem_str s defined) (snd o))])) as [t' ->].
        rewrite <- app_assoc. eauto.
  Qed.

  Lemma compat_in_app t t' a : compat_in t a = true -> compat_in (t ++ t') a = true.
  Proof. unfold compat_in; rewrite existsb_app; intros ->; reflexivity. Qed.

  (* completeness: every well-formed occurrence naming a defined service is listened on,
     or an earlier listened address is compatible with it *)
  Lemma fold_complete defined : forall occs t o a,
    In o occs -> to_addr (fst o) = Some a ->
    filter (fun s => mem_str s defined) (snd o) <> [] ->
    compat_in (fold_left (add_occ defined) occs t) a = true.
  Proof.
    induction occs as [|o' r IH]; intros t o a Hin Ha Hne; [destruct Hin|].
    cbn [fold_left]. destruct Hin as [->|Hin]; [|eapply IH; eauto].
    destruct (fold_prefix defined r (add_occ defined t o)) as [t' ->].
    apply compat_in_app. unfold add_occ, Model.add_port. rewrite Ha.
    destruct (filter (fun s => mem_str s defined) (snd o)) as [|s0 l] eqn:Hf; [congruence|].
    fold (compat_in t a). destruct (compat_in t a) eqn:Hc; auto.
    unfold compat_in. rewrite existsb_app. cbn [existsb fst].
    assert (compare_addr a a = true) as ->.
    { unfold compare_addr, ip_compat. destruct (a_proto a); cbn; rewrite Z.eqb_refl; cbn;
        destruct (a_ip a); auto; apply eqb_bytes_true; auto. }
    rewrite orb_true_r; reflexivity.
  Qed.

  (* unknown service names are skipped without affecting the others *)
  Lemma filter_idem {A} (f : A -> bool) l : filter f (filter f l) = filter f l.
  Proof.
    induction l as [|x r IH]; cbn [filter]; auto.
    destruct (f x) eqn:E; cbn [filter]; rewrite ?E, IH; reflexivity.
  Qed.

  Lemma add_port_unknown_harmless defined svcs t ps :
    add_port defined svcs t ps = add_port defined (filter (fun s => mem_str s defined) svcs) t ps.
  Proof. unfold Model.add_port. rewrite filter_idem. reflexivity. Qed.

  (* with pairwise incompatible keys a concrete local address has at most one candidate entry *)
  Lemma candidates_unique t l ip :
    pairwise_incompat t -> a_ip l = Some ip -> (length (candidates t l) <= 1)%nat.
  Proof.
    unfold candidates. rewrite map_length.
    induction t as [|kv r IH]; intros Hp Hl; cbn [filter length]; [lia|].
    destruct Hp as [Hhd Htl]. specialize (IH Htl Hl).
    destruct (compare_addr (fst kv) l) eqn:Hc; [|exact IH].
    cbn [length]. apply le_n_S.
    assert (Hnone : filter (fun kv0 => compare_addr (fst kv0) l) r = []).
    { clear IH. induction r as [|kv' r' IHr]; cbn [filter]; auto.
      assert (Hne : compare_addr (fst kv) (fst kv') = false) by (apply Hhd; left; reflexivity).
      destruct (compare_addr (fst kv') l) eqn:Hc'.
      - exfalso. unfold compare_addr, ip_compat in *. rewrite Hl in *.
        destruct (a_proto (fst kv)), (a_proto (fst kv')), (a_proto l); cbn in *; try discriminate;
        destruct (a_ip (fst kv)) as [x|], (a_ip (fst kv')) as [y|];
          repeat match goal with
                 | H : _ && _ = true |- _ => apply andb_true_iff in H as [? ?]
                 end;
          try (apply eqb_bytes_true in H0, H2; subst);
          try (assert (eqb_bytes ip ip = true) by (apply eqb_bytes_true; auto));
          try lia.
      - apply IHr. intros kv0 H0. apply Hhd. right; exact H0.
        destruct Htl; auto. }
    rewrite Hnone. cbn. lia.
  Qed.
End R.
