(* C19 - executable comparison of the implementation's observations with the
   specification functions to_addr / build (here specification = model). *)
From HT Require Import Common.Bytes C19.Model.
Open Scope Z_scope.

Definition rtable := list (str * option bytes).
Fixpoint resolve_of (t : rtable) (h : str) : option bytes :=
  match t with
  | [] => None
  | (k, v) :: r => if eqb_str k h then v else resolve_of r h
  end.

Definition obytes_eqb (a b : option bytes) : bool :=
  match a, b with
  | Some x, Some y => eqb_bytes x y
  | None, None => true
  | _, _ => false
  end.

Definition addr_eqb (a b : addr) : bool :=
  proto_eqb (a_proto a) (a_proto b) && (a_port a =? a_port b) && obytes_eqb (a_ip a) (a_ip b).

Definition oaddr_eqb (a b : option addr) : bool :=
  match a, b with
  | Some x, Some y => addr_eqb x y
  | None, None => true
  | _, _ => false
  end.

Fixpoint list_eqb {A} (e : A -> A -> bool) (a b : list A) : bool :=
  match a, b with
  | [], [] => true
  | x :: a', y :: b' => e x y && list_eqb e a' b'
  | _, _ => false
  end.

(* ---- part "addr": server.ToAddr on one string ---- *)
Record acase := mkACase { ac_id : N; ac_in : str; ac_res : rtable; ac_obs : option addr }.

Definition SIG_ACCEPTED_BAD := 1%N.   (* implementation accepts an entry the specification rejects *)
Definition SIG_REJECTED_GOOD := 2%N.  (* implementation rejects a well-formed entry *)
Definition SIG_WRONG_ADDR := 3%N.     (* both accept, different protocol/address/port *)

Definition acase_sig (c : acase) : N :=
  match to_addr (resolve_of (ac_res c)) (ac_in c), ac_obs c with
  | None, None => 0
  | None, Some _ => SIG_ACCEPTED_BAD
  | Some _, None => SIG_REJECTED_GOOD
  | Some a, Some b => if addr_eqb a b then 0 else SIG_WRONG_ADDR
  end%N.

(* ---- part "run": the port-entry loop of Run + reachability ---- *)
Record rcase := mkRCase {
  rc_id : N;
  rc_defined : list str;
  rc_cfg : list entry;
  rc_res : rtable;
  rc_added : list addr;                   (* AddAddress calls, in order *)
  rc_probes : list (addr * list str)      (* probe connections: concrete local address -> services that received it *)
}.

Definition SIG_LISTENED := 4%N.    (* set/order of listened addresses differs *)
Definition SIG_REACH := 5%N.       (* a connection reached a service not listed for the entry (or not one listed) *)

Definition same_set (a b : list str) : bool :=
  forallb (fun x => mem_str x b) a && forallb (fun x => mem_str x a) b.

Definition rcase_sig (c : rcase) : N :=
  let t := build (resolve_of (rc_res c)) (rc_defined c) (rc_cfg c) in
  if negb (list_eqb addr_eqb (map fst t) (rc_added c)) then SIG_LISTENED
  else if negb (forallb (fun pr => same_set (concat (candidates t (fst pr))) (snd pr)) (rc_probes c)) then SIG_REACH
  else 0%N.

Inductive case := CA (c : acase) | CR (c : rcase).
Definition case_id (c : case) : N := match c with CA a => ac_id a | CR r => rc_id r end.
Definition case_sig (c : case) : N := match c with CA a => acase_sig a | CR r => rcase_sig r end.

Definition mismatches (cs : list case) : list N :=
  map case_id (filter (fun c => negb (case_sig c =? 0)%N) cs).
Definition violations (cs : list case) : list (N * N) :=
  flat_map (fun c => let s := case_sig c in if (s =? 0)%N then [] else [(case_id c, s)]) cs.

(* tags: addr part: 1 = accepted, 2 = rejected (both interesting); run part: number of listened addrs + 1 *)
Definition tags (cs : list case) : list (N * N) :=
  map (fun c => (case_id c,
                 match c with
                 | CA a => match to_addr (resolve_of (ac_res a)) (ac_in a) with Some _ => 1 | None => 2 end
                 | CR r => N.of_nat (length (build (resolve_of (rc_res r)) (rc_defined r) (rc_cfg r)))
                 end)%N) cs.
