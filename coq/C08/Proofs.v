(* C08 - lemmas: the peek wrapper is the identity on the stream; findService picks the
   first accepting service. *)
From HT Require Import Common.Bytes C08.Model.
Open Scope Z_scope.

Lemma read_raw_inv c n : let '(b, c') := read_raw c n in b ++ concat c' = concat c.
Proof.
  destruct c as [|s r]; cbn [read_raw]; [reflexivity|].
  destruct (skipn n s) as [|x rest] eqn:E; cbn [concat].
  - rewrite <- (firstn_skipn n s) at 2. rewrite E, app_nil_r. reflexivity.
  - rewrite app_assoc. rewrite <- E, firstn_skipn. reflexivity.
Qed.

Lemma peek_inv pc n :
  let '(b, pc') := peek pc n in
  remaining (HPeek pc') = remaining (HPeek pc) /\ pc_buf pc' = pc_buf pc ++ b.
Proof.
  unfold peek. pose proof (read_raw_inv (pc_under pc) n) as H.
  destruct (read_raw (pc_under pc) n) as [b u]. cbn [remaining pc_buf pc_under].
  split; [|reflexivity]. rewrite <- app_assoc, H. reflexivity.
Qed.

Lemma pread_inv pc n :
  let '(b, pc') := pread pc n in b ++ remaining (HPeek pc') = remaining (HPeek pc).
Proof.
  unfold pread. destruct (pc_buf pc) as [|x buf] eqn:E.
  - pose proof (read_raw_inv (pc_under pc) n) as H.
    destruct (read_raw (pc_under pc) n) as [b u]. cbn [remaining pc_buf pc_under]. rewrite E. exact H.
  - cbn [remaining pc_buf pc_under]. rewrite E, app_assoc, firstn_skipn. reflexivity.
Qed.

Lemma hread_inv h n : let '(b, h') := hread h n in b ++ remaining h' = remaining h.
Proof.
  destruct h as [c|pc]; cbn [hread].
  - pose proof (read_raw_inv c n) as H. destruct (read_raw c n) as [b c']. exact H.
  - pose proof (pread_inv pc n) as H. destruct (pread pc n) as [b pc']. exact H.
Qed.

(* whatever the service's read sizes: bytes read so far ++ what remains = the stream *)
Lemma reads_inv sizes : forall h,
  let '(bs, h') := reads h sizes in concat bs ++ remaining h' = remaining h.
Proof.
  induction sizes as [|n r IH]; intros h; cbn [reads]; [reflexivity|].
  pose proof (hread_inv h n) as H1. destruct (hread h n) as [b h1].
  specialize (IH h1). destruct (reads h1 r) as [bs h2]. cbn [concat].
  rewrite <- app_assoc, IH. exact H1.
Qed.

(* progress: a read with a non-empty buffer returns data while data remains
   (segments are non-empty: a stream socket never delivers an empty segment) *)
Definition segs_nonempty (c : segs) : Prop := Forall (fun s => s <> []) c.
Definition hconn_ok (h : hconn) : Prop :=
  match h with HRaw c => segs_nonempty c | HPeek pc => segs_nonempty (pc_under pc) end.

Lemma read_raw_progress c n :
  (0 < n)%nat -> segs_nonempty c -> c <> [] ->
  fst (read_raw c n) <> [] /\ segs_nonempty (snd (read_raw c n)).
Proof.
  intros Hn Hc Hne. destruct c as [|s r]; [congruence|]. cbn [read_raw].
  inversion Hc as [|? ? Hs Hr]; subst.
  destruct s as [|x s']; [congruence|]. destruct n as [|n']; [lia|].
  destruct (skipn (S n') (x :: s')) as [|y rest] eqn:E; cbn [fst snd firstn]; split; try discriminate; auto.
  constructor; auto. discriminate.
Qed.

Lemma hread_progress h n :
  (0 < n)%nat -> hconn_ok h -> remaining h <> [] ->
  fst (hread h n) <> [] /\ hconn_ok (snd (hread h n)).
Proof.
  intros Hn Hok Hrem. destruct h as [c|pc]; cbn [hread hconn_ok remaining] in *.
  - assert (c <> []) by (intros ->; apply Hrem; reflexivity).
    destruct (read_raw_progress c n Hn Hok H) as [H1 H2].
    destruct (read_raw c n) as [b c']; cbn [fst snd] in *. auto.
  - unfold pread. destruct (pc_buf pc) as [|x buf] eqn:E.
    + cbn [app] in Hrem.
      assert (pc_under pc <> []) by (intros Hu; rewrite Hu in Hrem; apply Hrem; reflexivity).
      destruct (read_raw_progress (pc_under pc) n Hn Hok H) as [H1 H2].
      destruct (read_raw (pc_under pc) n) as [b u]; cbn [fst snd hconn_ok pc_under] in *. auto.
    + cbn [fst snd hconn_ok pc_under]. split; auto.
      destruct n as [|n']; [lia|]. cbn [firstn]. discriminate.
Qed.

(* completeness: enough positive-size reads deliver the whole stream *)
Lemma reads_complete sizes : forall h,
  Forall (fun n => (0 < n)%nat) sizes -> hconn_ok h ->
  (length (remaining h) <= length sizes)%nat ->
  concat (fst (reads h sizes)) = remaining h.
Proof.
  induction sizes as [|n r IH]; intros h Hpos Hok Hlen; cbn [reads].
  - cbn [length] in Hlen. destruct (remaining h); [reflexivity|cbn in Hlen; lia].
  - inversion Hpos as [|? ? Hn Hr]; subst.
    pose proof (hread_inv h n) as Hinv.
    destruct (list_eq_dec N.eq_dec (remaining h) []) as [He|Hne].
    + (* nothing remains: every further read returns nothing *)
      destruct (hread h n) as [b h1] eqn:E1.
      assert (b = [] /\ remaining h1 = []) as [-> Hr1].
      { rewrite He in Hinv. apply app_eq_nil in Hinv. exact Hinv. }
      pose proof (reads_inv r h1) as Hri. destruct (reads h1 r) as [bs h2].
      cbn [fst concat app]. rewrite Hr1 in Hri. apply app_eq_nil in Hri as [-> _]. rewrite He; reflexivity.
    + destruct (hread_progress h n Hn Hok Hne) as [Hb Hok1].
      destruct (hread h n) as [b h1] eqn:E1. cbn [fst snd] in *.
      assert (Hl1 : (length (remaining h1) <= length r)%nat).
      { rewrite <- Hinv in Hlen. rewrite app_length in Hlen. cbn [length] in Hlen.
        destruct b; [congruence|cbn [length] in Hlen; lia]. }
      specialize (IH h1 Hr Hok1 Hl1). destruct (reads h1 r) as [bs h2]. cbn [fst concat] in *.
      rewrite IH. exact Hinv.
Qed.

(* ---- findService ---- *)
Definition pk_ok (c : segs) (pk : option (bytes * peek_conn)) : Prop :=
  match pk with
  | None => True
  | Some (seen, pc) => remaining (HPeek pc) = concat c /\ seen = first_seen c /\ c <> []
  end.

Lemma peek_fresh c :
  c <> [] ->
  let '(seen, pc) := peek (mkPC [] c) PEEK_SIZE in
  remaining (HPeek pc) = concat c /\ seen = first_seen c.
Proof.
  intros Hne. pose proof (peek_inv (mkPC [] c) PEEK_SIZE) as H.
  destruct (peek (mkPC [] c) PEEK_SIZE) as [seen pc] eqn:E. destruct H as [H1 H2].
  split; [exact H1|]. unfold peek in E. cbn [pc_under pc_buf] in E.
  destruct c as [|s r]; [congruence|]. cbn [read_raw] in E.
  destruct (skipn PEEK_SIZE s); inversion E; reflexivity.
Qed.

Lemma scan_intact cands : forall c pk s h,
  pk_ok c pk -> scan cands c pk = FSvc s h -> remaining h = concat c.
Proof.
  induction cands as [|s0 r IH]; intros c pk s h Hpk H; cbn [scan] in H; [discriminate|].
  destruct (s_det s0) as [p|].
  - destruct pk as [[seen pc]|].
    + destruct (is_prefix p seen).
      * inversion H; subst. apply Hpk.
      * eapply IH; eauto.
    + destruct c as [|s1 c1] eqn:Ec; [discriminate|]. rewrite <- Ec in *.
      assert (Hne : c <> []) by (rewrite Ec; discriminate).
      pose proof (peek_fresh c Hne) as Hf.
      destruct (peek (mkPC [] c) PEEK_SIZE) as [seen pc]. destruct Hf as [Hf1 Hf2].
      destruct (is_prefix p seen).
      * inversion H; subst. exact Hf1.
      * eapply IH; [|exact H]. cbn. auto.
  - destruct pk as [[seen pc]|]; inversion H; subst; [apply Hpk|reflexivity].
Qed.

(* the chosen service is handed a connection whose remaining stream is everything the client sent *)
Lemma find_service_intact cands c s h :
  find_service cands c = FSvc s h -> remaining h = concat c.
Proof.
  unfold find_service. destruct cands as [|s0 [|s1 r]]; intros H.
  - discriminate.
  - inversion H; subst; reflexivity.
  - eapply scan_intact; [|exact H]. exact I.
Qed.

Definition choice (f : found) : option svc := match f with FNone => None | FSvc s _ => Some s end.

Lemma scan_choice_peeked cands : forall c seen pc,
  choice (scan cands c (Some (seen, pc))) = first_accepting seen cands.
Proof.
  induction cands as [|s0 r IH]; intros c seen pc; cbn [scan first_accepting]; [reflexivity|].
  unfold accepts. destruct (s_det s0) as [p|]; [|reflexivity].
  destruct (is_prefix p seen); [reflexivity|apply IH].
Qed.

Lemma scan_choice_fresh cands c :
  choice (scan cands c None) =
  match cands with
  | [] => None
  | s :: _ => match s_det s with
              | None => Some s
              | Some _ => match c with [] => None | _ => first_accepting (first_seen c) cands end
              end
  end.
Proof.
  destruct cands as [|s0 r]; cbn [scan]; [reflexivity|].
  destruct (s_det s0) as [p|] eqn:Ed; [|reflexivity].
  destruct c as [|s1 c1] eqn:Ec; [reflexivity|]. rewrite <- Ec.
  assert (Hne : c <> []) by (rewrite Ec; discriminate).
  pose proof (peek_fresh c Hne) as Hf.
  destruct (peek (mkPC [] c) PEEK_SIZE) as [seen pc]. destruct Hf as [_ ->].
  cbn [first_accepting]. unfold accepts. rewrite Ed.
  destruct (is_prefix p (first_seen c)); [reflexivity|]. rewrite scan_choice_peeked.
  rewrite Ec. reflexivity.
Qed.

(* exactly the specified service is selected *)
Lemma find_service_choice cands c : choice (find_service cands c) = spec_choice cands c.
Proof.
  unfold find_service, spec_choice. destruct cands as [|s0 [|s1 r]]; try reflexivity.
  rewrite scan_choice_fresh. reflexivity.
Qed.

Lemma first_accepting_spec seen cands s :
  first_accepting seen cands = Some s ->
  exists pre post, cands = pre ++ s :: post /\ accepts seen s = true /\
                   Forall (fun s' => accepts seen s' = false) pre.
Proof.
  induction cands as [|s0 r IH]; cbn [first_accepting]; [discriminate|].
  destruct (accepts seen s0) eqn:Ea; intros H.
  - inversion H; subst. exists [], r. repeat split; auto.
  - destruct (IH H) as (pre & post & -> & Hs & Hpre). exists (s0 :: pre), post. repeat split; auto.
Qed.

Lemma first_accepting_none seen cands :
  first_accepting seen cands = None -> Forall (fun s' => accepts seen s' = false) cands.
Proof.
  induction cands as [|s0 r IH]; cbn [first_accepting]; intros H; [constructor|].
  destruct (accepts seen s0) eqn:Ea; [discriminate|]. constructor; auto.
Qed.
