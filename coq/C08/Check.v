(* C08 - executable property on the implementation's observation of one connection. *)
From HT Require Import Common.Bytes C08.Model.
Open Scope Z_scope.

Record case := mkCase {
  c_id : N;
  c_cands : list svc;          (* services configured for the port, in order *)
  c_segs : segs;               (* the client's writes *)
  c_chosen : option N;         (* name of the service whose Handle ran *)
  c_delivered : bytes          (* what it read until end of stream *)
}.

Definition SIG_WRONG_SERVICE := 1%N.
Definition SIG_STREAM := 2%N.
Definition SIG_SEEN_UNMATCHED := 3%N.
Definition SIG_DROPPED := 4%N.     (* a matching connection was closed without a service *)

Definition case_sig (c : case) : N :=
  match spec_choice (c_cands c) (c_segs c), c_chosen c with
  | None, None => 0
  | None, Some _ => SIG_SEEN_UNMATCHED
  | Some _, None => SIG_DROPPED
  | Some s, Some n =>
      if negb (s_name s =? n)%N then SIG_WRONG_SERVICE
      else if eqb_bytes (c_delivered c) (concat (c_segs c)) then 0 else SIG_STREAM
  end%N.

(* the model's own prediction, for the correspondence *)
Definition model_obs (c : case) : option N * bytes :=
  match find_service (c_cands c) (c_segs c) with
  | FNone => (None, [])
  | FSvc s h => (Some (s_name s), remaining h)
  end.

Definition mismatches (cs : list case) : list N :=
  map c_id (filter (fun c =>
    let '(ch, d) := model_obs c in
    negb (match ch, c_chosen c with
          | Some a, Some b => (a =? b)%N && eqb_bytes d (c_delivered c)
          | None, None => true
          | _, _ => false
          end)) cs).

Definition violations (cs : list case) : list (N * N) :=
  flat_map (fun c => let s := case_sig c in if (s =? 0)%N then [] else [(c_id c, s)]) cs.

(* tag: 1 = single service, 2 = first candidate detector-less, 4 = peeked and matched,
   8 = peeked, a detector rejected, later candidate chosen, 16 = none matched *)
Definition tags (cs : list case) : list (N * N) :=
  map (fun c => (c_id c,
    match c_cands c with
    | [] => 0
    | [_] => 1
    | s :: _ =>
        match s_det s with
        | None => 2
        | Some _ =>
            match spec_choice (c_cands c) (c_segs c) with
            | None => 16
            | Some s' => if (s_name s' =? s_name s)%N then 4 else 8
            end
        end
    end)%N) cs.
