(* C08 - model of findService + peekConnection (server/honeytrap.go,
   server/peek-connection.go).  Executable definitions only.
   A connection is its list of pending segments; one Read returns at most one
   (partial) segment, as a stream socket / net.Pipe may. *)
From HT Require Import Common.Bytes.
Open Scope Z_scope.

Definition segs := list bytes.

(* one Read(p) with len p = n on the raw connection: (bytes, rest, eof) *)
Definition read_raw (c : segs) (n : nat) : bytes * segs :=
  match c with
  | [] => ([], [])
  | s :: r => let a := firstn n s in
              match skipn n s with
              | [] => (a, r)
              | rest => (a, rest :: r)
              end
  end.

Record peek_conn := mkPC { pc_buf : bytes; pc_under : segs }.

(* Peek(p): one Read of the underlying connection, appended to the buffer *)
Definition peek (pc : peek_conn) (n : nat) : bytes * peek_conn :=
  let '(b, u) := read_raw (pc_under pc) n in (b, mkPC (pc_buf pc ++ b) u).

(* Read(p): first serve from the peek buffer *)
Definition pread (pc : peek_conn) (n : nat) : bytes * peek_conn :=
  match pc_buf pc with
  | [] => let '(b, u) := read_raw (pc_under pc) n in (b, mkPC [] u)
  | buf => (firstn n buf, mkPC (skipn n buf) (pc_under pc))
  end.

(* what is handed to the service: the raw connection or the peek wrapper *)
Inductive hconn := HRaw (c : segs) | HPeek (pc : peek_conn).

Definition hread (h : hconn) (n : nat) : bytes * hconn :=
  match h with
  | HRaw c => let '(b, c') := read_raw c n in (b, HRaw c')
  | HPeek pc => let '(b, pc') := pread pc n in (b, HPeek pc')
  end.

(* everything not yet delivered *)
Definition remaining (h : hconn) : bytes :=
  match h with
  | HRaw c => concat c
  | HPeek pc => pc_buf pc ++ concat (pc_under pc)
  end.

(* the service performs reads with the given buffer sizes *)
Fixpoint reads (h : hconn) (sizes : list nat) : list bytes * hconn :=
  match sizes with
  | [] => ([], h)
  | n :: r => let '(b, h1) := hread h n in
              let '(bs, h2) := reads h1 r in (b :: bs, h2)
  end.

(* services: a name and, when the service implements CanHandle, its predicate -
   here a prefix predicate as in the property's quantifier *)
Record svc := mkSvc { s_name : N; s_det : option bytes }.

Fixpoint is_prefix (p b : bytes) : bool :=
  match p, b with
  | [], _ => true
  | x :: p', y :: b' => (x =? y)%N && is_prefix p' b'
  | _ :: _, [] => false
  end.

Inductive found :=
| FNone                          (* error: connection closed, no service sees it *)
| FSvc (s : svc) (h : hconn).

Definition PEEK_SIZE : nat := 1024.

(* the scan over >= 2 candidates; [pk] = Some pc once the connection has been peeked
   ([peeked] = the bytes seen).  A Peek that returns an error (nothing to read: the
   client closed without sending) aborts with FNone. *)
Fixpoint scan (cands : list svc) (c : segs) (pk : option (bytes * peek_conn)) : found :=
  match cands with
  | [] => FNone
  | s :: r =>
      match s_det s with
      | None =>
          match pk with
          | None => FSvc s (HRaw c)
          | Some (_, pc) => FSvc s (HPeek pc)      (* after the fix: the wrapper, not the raw conn *)
          end
      | Some p =>
          match pk with
          | Some (seen, pc) => if is_prefix p seen then FSvc s (HPeek pc) else scan r c pk
          | None =>
              match c with
              | [] => FNone                          (* Peek error (EOF) *)
              | _ => let '(seen, pc) := peek (mkPC [] c) PEEK_SIZE in
                     if is_prefix p seen then FSvc s (HPeek pc) else scan r c (Some (seen, pc))
              end
          end
      end
  end.

Definition find_service (cands : list svc) (c : segs) : found :=
  match cands with
  | [] => FNone
  | [s] => FSvc s (HRaw c)
  | _ => scan cands c None
  end.

(* specification side: the bytes a detector is shown = at most 1024 bytes of the first segment *)
Definition first_seen (c : segs) : bytes := match c with [] => [] | s :: _ => firstn PEEK_SIZE s end.

Definition accepts (seen : bytes) (s : svc) : bool :=
  match s_det s with None => true | Some p => is_prefix p seen end.

Fixpoint first_accepting (seen : bytes) (cands : list svc) : option svc :=
  match cands with
  | [] => None
  | s :: r => if accepts seen s then Some s else first_accepting seen r
  end.

(* does the scan need to peek before deciding? (a detector-less first candidate does not) *)
Definition spec_choice (cands : list svc) (c : segs) : option svc :=
  match cands with
  | [] => None
  | [s] => Some s
  | s :: _ =>
      match s_det s with
      | None => Some s
      | Some _ => match c with [] => None | _ => first_accepting (first_seen c) cands end
      end
  end.
