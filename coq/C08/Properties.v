(* C08 - property theorems. *)
From HT Require Import Common.Bytes C08.Model C08.Check C08.Proofs.
Open Scope Z_scope.

(* the connection goes to exactly the specified service: the only one, else the first in
   configured order without a detector or whose detector accepts the first bytes sent;
   none => the connection is closed unseen *)
Theorem C08_selected_is_specified : forall cands c,
  choice (find_service cands c) = spec_choice cands c.
Proof. exact find_service_choice. Qed.

Theorem C08_first_accepting_is_first : forall seen cands s,
  first_accepting seen cands = Some s ->
  exists pre post, cands = pre ++ s :: post /\ accepts seen s = true /\
                   Forall (fun s' => accepts seen s' = false) pre.
Proof. exact first_accepting_spec. Qed.

Theorem C08_no_match_no_service : forall seen cands,
  first_accepting seen cands = None -> Forall (fun s' => accepts seen s' = false) cands.
Proof. exact first_accepting_none. Qed.

(* the chosen service's connection still holds the complete stream, peeked bytes included *)
Theorem C08_stream_intact : forall cands c s h,
  find_service cands c = FSvc s h -> remaining h = concat c.
Proof. exact find_service_intact. Qed.

(* for every schedule of read sizes: bytes read so far ++ what remains = the stream
   (nothing lost, duplicated or reordered) *)
Theorem C08_reads_are_a_prefix : forall sizes h,
  let '(bs, h') := reads h sizes in concat bs ++ remaining h' = remaining h.
Proof. exact reads_inv. Qed.

(* and enough positive-size reads deliver all of it *)
Theorem C08_reads_complete : forall sizes h,
  Forall (fun n => (0 < n)%nat) sizes -> hconn_ok h ->
  (length (remaining h) <= length sizes)%nat ->
  concat (fst (reads h sizes)) = remaining h.
Proof. exact reads_complete. Qed.

(* the peek wrapper never changes the stream *)
Theorem C08_peek_transparent : forall pc n,
  let '(b, pc') := peek pc n in
  remaining (HPeek pc') = remaining (HPeek pc) /\ pc_buf pc' = pc_buf pc ++ b.
Proof. exact peek_inv. Qed.

(* non-vacuity: a rejecting detector followed by a detector-less service; 3-byte reads *)
Example C08_nonvacuous :
  let cands := [mkSvc 1 (Some [65;65]%N); mkSvc 2 None] in
  let c := [[66;67;68;69]%N; [70]%N] in
  exists h, find_service cands c = FSvc (mkSvc 2 None) h /\
            fst (reads h [3;3;3;3;3]%nat) = [[66;67;68]%N; [69]%N; [70]%N; []; []].
Proof. eexists. split; vm_compute; reflexivity. Qed.

Print Assumptions C08_selected_is_specified.
Print Assumptions C08_first_accepting_is_first.
Print Assumptions C08_no_match_no_service.
Print Assumptions C08_stream_intact.
Print Assumptions C08_reads_are_a_prefix.
Print Assumptions C08_reads_complete.
Print Assumptions C08_peek_transparent.
