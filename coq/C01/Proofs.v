(* C01 - lemmas. *)
From HT Require Import Common.Bytes C17.Model C17.Proofs C01.Model C01.Check.
From Coq Require Import ZifyBool ZifyN ZifyNat.
Open Scope Z_scope.

Lemma handle_confines found send_ok s :
  process_alive (server_handle found send_ok (RPanic s)) = true.
Proof. unfold server_handle; destruct found, send_ok; reflexivity. Qed.
