(* C01 - lemmas. *)
From HT Require Import Common.Bytes C17.Model C17.Proofs C01.Model C01.Check.
From Coq Require Import ZifyBool ZifyN ZifyNat.
Open Scope Z_scope.

(* ------------------------------------------------------------------ *)
(* 1. handle                                                            *)

Lemma handle_confines found send_ok s :
  process_alive (server_handle found send_ok (RPanic s)) = true /\
  (found = true -> server_handle found send_ok (RPanic s) = (if send_ok then ClosedWithEvent else ClosedLogged)).
Proof. unfold server_handle; destruct found, send_ok; cbn; split; try reflexivity; intros; try reflexivity; discriminate. Qed.

Lemma process_down_iff found send_ok r :
  process_alive (server_handle found send_ok r) = false <-> found = true /\ exists s, r = RFatal s.
Proof.
  unfold server_handle; destruct found; cbn [negb].
  - destruct r; try destruct send_ok; cbn; split; intros H;
      try discriminate; try (destruct H as [_ [s0 H]]; discriminate);
      try (split; [reflexivity | eexists; reflexivity]); try reflexivity.
  - cbn. split; intros H; [discriminate | destruct H; discriminate].
Qed.

Lemma no_unguarded_goroutine : filter unguarded goroutines = [].
Proof. vm_compute. reflexivity. Qed.

Lemma every_goroutine_guarded : forall g, In g goroutines -> unguarded g = false.
Proof.
  intros g Hg.
  assert (H : forallb (fun g => negb (unguarded g)) goroutines = true) by (vm_compute; reflexivity).
  rewrite forallb_forall in H. specialize (H _ Hg). apply negb_true_iff in H. exact H.
Qed.

(* ------------------------------------------------------------------ *)
(* 2. ssh-simulator env / exec loop (after 1603afd)                     *)

Lemma avail_nonneg d : wf d -> 0 <= avail d.
Proof. unfold wf, avail; lia. Qed.

Lemma pd_string_spec d :
  wf d ->
  let d' := fst (pd_string d) in
  wf d' /\ (avail d < 4 -> d_err d' = true) /\ (4 <= avail d -> avail d' <= avail d - 4).
Proof.
  intros Hwf. unfold pd_string, read_prim.
  destruct (has_bytes d 4) eqn:Hb.
  - apply has_bytes_spec in Hb.
    set (l := be_val (at_cursor d 4)).
    unfold copy. destruct (l <? 0) eqn:Hl.
    + cbn. unfold wf, avail, dlen, advance, set_err in *; cbn. lia.
    + destruct (has_bytes (advance d 4) l) eqn:Hb2.
      * apply has_bytes_spec in Hb2. cbn. unfold wf, avail, dlen, advance, set_err in *; cbn in *. lia.
      * cbn. unfold wf, avail, dlen, advance, set_err in *; cbn in *. lia.
  - assert (Hn : ~ (0 <= d_off d + 4 <= dlen d)) by (rewrite <- has_bytes_spec; congruence).
    unfold copy. change (0 <? 0) with false. cbv iota.
    destruct (has_bytes (set_err d) 0) eqn:Hb2.
    + cbn. unfold wf, avail, dlen, advance, set_err in *; cbn in *.
      split; [lia|]. split; [reflexivity | lia].
    + cbn. unfold wf, avail, dlen, advance, set_err in *; cbn in *.
      split; [lia|]. split; [reflexivity | lia].
Qed.

(* the loop ends for every decoder state, within avail+1 iterations, whatever fuel beyond *)
Lemma ssh_loop_terminates : forall n d acc,
  wf d -> avail d < Z.of_nat n ->
  exists l, forall m, (n <= m)%nat -> ssh_loop m d acc = Done l.
Proof.
  induction n as [|n IH]; intros d acc Hwf Hlt.
  - pose proof (avail_nonneg d Hwf); lia.
  - pose proof (avail_nonneg d Hwf) as H0.
    destruct (Z.eq_dec (avail d) 0) as [Hz|Hnz].
    + exists acc; intros m Hm. destruct m as [|m]; [lia|].
      cbn [ssh_loop]. rewrite Hz. reflexivity.
    + pose proof (pd_string_spec d Hwf) as Hs. cbv zeta in Hs.
      destruct (pd_string d) as [d' s] eqn:Hp. cbn [fst] in Hs.
      destruct Hs as (Hwf' & Hshort & Hge).
      destruct (d_err d') eqn:He.
      * exists acc; intros m Hm. destruct m as [|m]; [lia|].
        cbn [ssh_loop]. destruct (avail d =? 0) eqn:E; [reflexivity|]. rewrite Hp; cbv beta iota; rewrite He. reflexivity.
      * assert (H4 : 4 <= avail d).
        { destruct (Z_lt_dec (avail d) 4) as [H3|H3]; [|lia]. pose proof (Hshort H3) as Hx. congruence. }
        destruct (IH d' (s :: acc) Hwf' ltac:(specialize (Hge H4); lia)) as (l & Hl).
        exists l; intros m Hm. destruct m as [|m]; [lia|].
        cbn [ssh_loop]. destruct (avail d =? 0) eqn:E; [lia|]. rewrite Hp; cbv beta iota; rewrite He. apply Hl; lia.
Qed.

Lemma new_decoder_avail p : avail (new_decoder p) = zlen p.
Proof. unfold avail, new_decoder, dlen; cbn; lia. Qed.

Lemma ssh_fuel_suffices p :
  exists l, forall m, (ssh_fuel p <= m)%nat -> ssh_loop m (new_decoder p) [] = Done l.
Proof.
  apply ssh_loop_terminates; [apply new_decoder_wf|].
  rewrite new_decoder_avail. unfold ssh_fuel, zlen. lia.
Qed.

Lemma ssh_request_ok ty p : ssh_request ty p = ROk.
Proof.
  unfold ssh_request. destruct ((ty =? 1) || (ty =? 2))%N; [|reflexivity].
  destruct (ssh_fuel_suffices p) as (l & Hl). rewrite (Hl (ssh_fuel p)) by lia. reflexivity.
Qed.

Lemma ssh_requests_ok rs : ssh_requests rs = ROk.
Proof. induction rs as [|[ty p] r IH]; cbn [ssh_requests]; [reflexivity|]. rewrite ssh_request_ok. exact IH. Qed.

(* ------------------------------------------------------------------ *)
(* 3. tftp (after 9cc3ebb: every map access under s.mu)                 *)

Inductive mode := Out | In_ | InW.

(* well-locked programs: map accesses only between Lock and Unlock, a write-begin is
   followed by its write-end at once *)
Fixpoint wlm (m : mode) (t : list mop) : bool :=
  match t with
  | [] => match m with Out => true | _ => false end
  | o :: r =>
      match m, o with
      | Out, MOther => wlm Out r
      | Out, MLock => wlm In_ r
      | In_, MOther => wlm In_ r
      | In_, MRead => wlm In_ r
      | In_, MWBegin => wlm InW r
      | In_, MUnlock => wlm Out r
      | InW, MWEnd => wlm In_ r
      | _, _ => false
      end
  end.

Definition mode_of (s : tstate) (j : nat) : mode :=
  match t_owner s with
  | Some k => if (k =? j)%nat then (if t_writing s then InW else In_) else Out
  | None => Out
  end.

Definition tinv (s : tstate) : Prop :=
  (forall j, wlm (mode_of s j) (nth j (t_threads s) []) = true) /\
  (t_owner s = None -> t_writing s = false).

Lemma nth_set_nth : forall (l : list (list mop)) i j x,
  nth j (set_nth i x l) [] = if ((j =? i) && (i <? length l))%nat then x else nth j l [].
Proof.
  induction l as [|a l IH]; intros i j x.
  - cbn. rewrite andb_false_r. destruct i; reflexivity.
  - destruct i as [|i], j as [|j]; cbn [set_nth nth]; try reflexivity.
    rewrite IH. reflexivity.
Qed.

Lemma nth_nonnil_lt (l : list (list mop)) i o t : nth i l [] = o :: t -> (i <? length l)%nat = true.
Proof.
  intros H. apply Nat.ltb_lt. destruct (Nat.lt_ge_cases i (length l)) as [Hlt|Hge]; [exact Hlt|].
  rewrite nth_overflow in H by exact Hge. discriminate.
Qed.

Lemma tstep_inv s i : tinv s -> tstep s i <> TFatal /\ (forall s', tstep s i = TRun s' -> tinv s').
Proof.
  intros [Hall Hw]. unfold tstep.
  destruct (nth i (t_threads s) []) as [|o t'] eqn:Hn.
  { split; [discriminate|]. intros s' H; inversion H; subst; split; assumption. }
  pose proof (nth_nonnil_lt _ _ _ _ Hn) as Hlt.
  pose proof (Hall i) as Hi. rewrite Hn in Hi.
  destruct s as [ts w ow]; cbn [t_threads t_writing t_owner] in *.
  assert (Hupd : forall w' ow',
            (forall j, j <> i -> mode_of (mkT ts w' ow') j = mode_of (mkT ts w ow) j) ->
            wlm (mode_of (mkT ts w' ow') i) t' = true ->
            (ow' = None -> w' = false) ->
            tinv (mkT (set_nth i t' ts) w' ow')).
  { intros w' ow' Hoth Hme Hcl. split; [|exact Hcl].
    intros j. cbn [t_threads]. rewrite nth_set_nth, Hlt, andb_true_r.
    destruct (Nat.eqb_spec j i) as [->|Hne].
    - exact Hme.
    - specialize (Hall j). specialize (Hoth j Hne).
      unfold mode_of in *; cbn [t_owner t_writing] in *. rewrite Hoth. exact Hall. }
  unfold mode_of in Hi; cbn [t_owner t_writing] in Hi.
  destruct ow as [k|].
  - destruct (Nat.eqb_spec k i) as [->|Hki].
    + (* the owner moves *)
      destruct w; destruct o; cbn in Hi; try discriminate.
      * (* InW, MWEnd *)
        split; [discriminate|]. intros s' H; inversion H; subst. apply Hupd.
        -- intros j Hj. unfold mode_of; cbn. destruct (Nat.eqb_spec i j); [congruence|reflexivity].
        -- unfold mode_of; cbn. rewrite Nat.eqb_refl. exact Hi.
        -- discriminate.
      * split; [discriminate|]. intros s' H; inversion H; subst. apply Hupd.
        -- intros j Hj. reflexivity.
        -- unfold mode_of; cbn. rewrite Nat.eqb_refl. exact Hi.
        -- discriminate.
      * split; [discriminate|]. intros s' H; inversion H; subst. apply Hupd.
        -- intros j Hj. reflexivity.
        -- unfold mode_of; cbn. rewrite Nat.eqb_refl. exact Hi.
        -- discriminate.
      * split; [discriminate|]. intros s' H; inversion H; subst. apply Hupd.
        -- intros j Hj. unfold mode_of; cbn. destruct (Nat.eqb_spec i j); [congruence|reflexivity].
        -- unfold mode_of; cbn. rewrite Nat.eqb_refl. exact Hi.
        -- discriminate.
      * split; [discriminate|]. intros s' H; inversion H; subst. apply Hupd.
        -- intros j Hj. unfold mode_of; cbn. destruct (Nat.eqb_spec i j); [congruence|reflexivity].
        -- unfold mode_of; cbn. exact Hi.
        -- reflexivity.
    + (* another goroutine holds the mutex: this one is outside *)
      destruct o; cbn in Hi; try discriminate.
      * split; [destruct w; discriminate|]. intros s' H; inversion H; subst. apply Hupd.
        -- intros j Hj. reflexivity.
        -- unfold mode_of; cbn. destruct (Nat.eqb_spec k i); [congruence|]. exact Hi.
        -- discriminate.
      * split; [discriminate|]. intros s' H; inversion H; subst. split; assumption.
  - (* mutex free *)
    specialize (Hw eq_refl). subst w.
    destruct o; cbn in Hi; try discriminate.
    * split; [discriminate|]. intros s' H; inversion H; subst. apply Hupd.
      -- intros j Hj. reflexivity.
      -- unfold mode_of; cbn. exact Hi.
      -- reflexivity.
    * split; [discriminate|]. intros s' H; inversion H; subst. apply Hupd.
      -- intros j Hj. unfold mode_of; cbn. destruct (Nat.eqb_spec i j); [congruence|reflexivity].
      -- unfold mode_of; cbn. rewrite Nat.eqb_refl. exact Hi.
      -- discriminate.
Qed.

Lemma trun_inv : forall sched s, tinv s -> trun s sched <> TFatal.
Proof.
  induction sched as [|i r IH]; intros s Hs; cbn [trun]; [discriminate|].
  destruct (tstep_inv s i Hs) as [Hnf Hnext].
  destruct (tstep s i) as [s'|] eqn:E; [|congruence]. apply IH. apply Hnext. reflexivity.
Qed.

Lemma wlm_app : forall a m b, wlm m a = true -> wlm Out b = true -> wlm m (a ++ b) = true.
Proof.
  induction a as [|o a IH]; intros m b Ha Hb.
  - destruct m; cbn in Ha; try discriminate. exact Hb.
  - cbn [app]. destruct m, o; cbn in Ha |- *; try discriminate; apply IH; assumption.
Qed.

Lemma tftp_prog_wl k p h l : wlm Out (tftp_prog k p h l) = true.
Proof. unfold tftp_prog. destruct (k =? 2)%N, (k =? 3)%N, p, h, l; reflexivity. Qed.

Lemma tftp_thread_wl : forall dgs has, wlm Out (tftp_thread has dgs) = true.
Proof.
  induction dgs as [|dg r IH]; intros has; cbn [tftp_thread]; [reflexivity|].
  apply wlm_app; [apply tftp_prog_wl | apply IH].
Qed.

Lemma t_init_inv ts : Forall (fun t => wlm Out t = true) ts -> tinv (t_init ts).
Proof.
  intros H. split; [|reflexivity]. intros j. unfold mode_of, t_init; cbn.
  destruct (Nat.lt_ge_cases j (length ts)) as [Hlt|Hge].
  - rewrite Forall_forall in H. apply H. apply nth_In. exact Hlt.
  - rewrite nth_overflow by exact Hge. reflexivity.
Qed.

Lemma tftp_no_schedule_fatal dgss sched :
  trun (t_init (map (tftp_thread false) dgss)) sched <> TFatal.
Proof.
  apply trun_inv, t_init_inv. rewrite Forall_forall. intros t Ht.
  apply in_map_iff in Ht as (dgs & <- & _). apply tftp_thread_wl.
Qed.

(* ------------------------------------------------------------------ *)
(* 4. vnc (after 4aa01bd: pushFramesLoop recovers)                      *)

Definition vp_state (p : vparse) : vstate :=
  match p with VEnd s _ => s | VFail s => s end.

Definition danger_needs_pusher (s : vstate) : Prop := v_danger s = true -> v_pusher s = true.

Lemma v_note_inv s : danger_needs_pusher s -> danger_needs_pusher (v_note s).
Proof.
  unfold danger_needs_pusher, v_note; cbn. intros H Hd.
  apply orb_true_iff in Hd as [Hd|Hd]; [auto | apply andb_true_iff in Hd; tauto].
Qed.

Lemma vnc_cmds_inv : forall fuel s l,
  danger_needs_pusher s -> danger_needs_pusher (vp_state (vnc_cmds fuel s l)).
Proof.
  induction fuel as [|f IH]; intros s l Hs; cbn [vnc_cmds]; [exact Hs|].
  destruct l as [|c r]; [exact Hs|].
  destruct (c =? 0)%N.
  { destruct (take 19 r) as [[m r']|]; [|exact Hs].
    apply IH. apply v_note_inv. unfold danger_needs_pusher in *; cbn. exact Hs. }
  destruct (c =? 2)%N.
  { destruct (take 3 r) as [[m r']|]; [|exact Hs].
    destruct (take _ r') as [[m2 r'']|]; [|exact Hs]. apply IH; exact Hs. }
  destruct (c =? 3)%N.
  { assert (H1 : danger_needs_pusher (v_note (mkV (v_fmt s) true (v_danger s)))).
    { apply v_note_inv. unfold danger_needs_pusher; cbn. reflexivity. }
    destruct (take 9 r) as [[m r']|]; [apply IH; exact H1 | exact H1]. }
  destruct (c =? 4)%N.
  { destruct (take 7 r) as [[m r']|]; [apply IH; exact Hs | exact Hs]. }
  destruct (c =? 5)%N.
  { destruct (take 5 r) as [[m r']|]; [apply IH; exact Hs | exact Hs]. }
  exact Hs.
Qed.

Lemma vnc_parse_inv stream : danger_needs_pusher (vp_state (vnc_parse stream)).
Proof.
  assert (Hi : danger_needs_pusher v_init) by (unfold danger_needs_pusher; cbn; discriminate).
  assert (Hc : forall r, danger_needs_pusher (vp_state (vnc_client_init r))).
  { intros r; unfold vnc_client_init; destruct r; [exact Hi | apply vnc_cmds_inv; exact Hi]. }
  unfold vnc_parse. destruct (upto_nl stream) as [[ver r]|]; [|exact Hi].
  destruct (eqb_bytes ver V3); [apply Hc|].
  destruct (eqb_bytes ver V7 || eqb_bytes ver V8); [|exact Hi].
  destruct r as [|w r']; [exact Hi|]. destruct (w =? 1)%N; [apply Hc | exact Hi].
Qed.

Lemma vnc_verdict_needs_pusher stream :
  vnc_verdict stream <> 0%N -> v_pusher (vp_state (vnc_parse stream)) = true.
Proof.
  pose proof (vnc_parse_inv stream) as H. unfold vnc_verdict, danger_needs_pusher in *.
  destruct (vnc_parse stream) as [s c|s]; cbn [vp_state] in *.
  - destruct (v_pusher s); [reflexivity|]. cbn. destruct (v_danger s); [intros _; apply H; reflexivity | congruence].
  - destruct (v_danger s); [intros _; apply H; reflexivity | congruence].
Qed.

Lemma push_fails_spec f :
  push_fails f = false <->
  pf_tc f <> 0%N /\ (is_thousands f = true \/ pf_bpp f = 32 \/ pf_bpp f = 16 \/ pf_bpp f = 8)%N.
Proof. unfold push_fails. destruct (is_thousands f); cbn; lia. Qed.

(* whatever the order of pixel formats and update requests: the failf of the pusher
   goroutine is recovered there, the connection ends, the process does not *)
Lemma vnc_handle_ok stream : vnc_handle stream = ROk.
Proof.
  unfold vnc_handle, spawned_panic. destruct (vnc_verdict stream =? 0)%N; [reflexivity|].
  change (goroutine_recovers 24 481) with true. reflexivity.
Qed.

(* ------------------------------------------------------------------ *)
(* 5. counterstrike, adb                                                *)

Lemma cs_never_fatal dg : cs_handle dg = ROk \/ cs_handle dg = RPanic 1.
Proof.
  unfold cs_handle. destruct (_ || _); [|left; reflexivity].
  destruct (_ <=? _)%nat; [right|left]; reflexivity.
Qed.

Lemma adb_loop_never_fatal : forall segs buf, adb_loop buf segs = ROk \/ adb_loop buf segs = RPanic 2.
Proof.
  induction segs as [|s r IH]; intros buf; cbn [adb_loop]; [left; reflexivity|].
  destruct (_ || _).
  - destruct (_ <? _)%nat; [right; reflexivity | apply IH].
  - destruct (eqb_bytes _ CLSE); [left; reflexivity | apply IH].
Qed.

Lemma adb_never_fatal segs : adb_handle segs = ROk \/ adb_handle segs = RPanic 2.
Proof.
  unfold adb_handle. destruct segs as [|s r]; [left; reflexivity|].
  destruct (negb _); [left; reflexivity|].
  destruct (_ <? _)%nat; [right; reflexivity | apply adb_loop_never_fatal].
Qed.

(* ------------------------------------------------------------------ *)
(* 6. declared-length allocation                                        *)

Lemma alloc_fatal_iff L : alloc_verdict L = 2%N <-> MEM_SURE < L <= MAXALLOC.
Proof.
  unfold alloc_verdict, MEM_SURE, MAXALLOC, MEM_SAFE.
  destruct (L <? 0) eqn:E1; [lia|]. destruct (2 ^ 48 <? L) eqn:E2; [lia|].
  destruct (2 ^ 36 <? L) eqn:E3; [lia|]. destruct (2 ^ 26 <? L) eqn:E4; lia.
Qed.

Lemma alloc_small_fine L : 0 <= L <= MEM_SAFE -> alloc_verdict L = 0%N.
Proof.
  unfold alloc_verdict, MEM_SURE, MAXALLOC, MEM_SAFE. intros H.
  destruct (L <? 0) eqn:E1; [lia|]. destruct (2 ^ 48 <? L) eqn:E2; [lia|].
  destruct (2 ^ 36 <? L) eqn:E3; [lia|]. destruct (2 ^ 26 <? L) eqn:E4; [lia|reflexivity].
Qed.

Lemma res_of_tlv_fatal_iff site t s :
  res_of_tlv site t = Some (RFatal s) <-> in_oom_class t = true /\ s = F_ALLOC.
Proof.
  destruct t as [| |L]; cbn [res_of_tlv in_oom_class].
  - split; [discriminate | intros [H _]; discriminate].
  - split; [discriminate | intros [H _]; discriminate].
  - unfold alloc_verdict, MEM_SURE, MAXALLOC, MEM_SAFE.
    destruct (L <? 0) eqn:E1; [cbn; split; [discriminate | intros [H _]; lia]|].
    destruct (2 ^ 48 <? L) eqn:E2; [cbn; split; [discriminate | intros [H _]; lia]|].
    destruct (2 ^ 36 <? L) eqn:E3.
    + cbn. split; [intros H; inversion H; split; [lia | reflexivity] | intros [_ ->]; reflexivity].
    + destruct (2 ^ 26 <? L) eqn:E4; cbn; (split; [discriminate | intros [H _]; lia]).
Qed.

Lemma ldap_nest_fatal_iff seg rep s :
  ldap_nest seg rep = Some (RFatal s) <-> STACK_SURE <= ldap_depth seg rep /\ s = F_STACK.
Proof.
  unfold ldap_nest. destruct (STACK_SURE <=? ldap_depth seg rep) eqn:E.
  - split; [intros H; inversion H; split; [lia | reflexivity] | intros [_ ->]; reflexivity].
  - destruct (ldap_depth seg rep <=? STACK_SAFE); (split; [discriminate | intros [H _]; lia]).
Qed.

(* ------------------------------------------------------------------ *)
(* 7. the full statement (spelled out; Properties.v names it C01_full / C01_outside) *)

Lemma full_refuted : ~ (
  (forall ty p, ssh_request ty p = ROk) /\
  (forall rs, ssh_requests rs = ROk) /\
  (forall stream, vnc_handle stream = ROk) /\
  (forall dgss sched, trun (t_init (map (tftp_thread false) dgss)) sched <> TFatal) /\
  (forall dg, cs_handle dg = ROk \/ cs_handle dg = RPanic 1) /\
  (forall segs, adb_handle segs = ROk \/ adb_handle segs = RPanic 2) /\
  (forall dg s, snmp_first dg <> Some (RFatal s)) /\
  (forall st s, ldap_first st <> Some (RFatal s)) /\
  (forall seg rep s, ldap_nest seg rep <> Some (RFatal s))).
Proof.
  intros (_ & _ & _ & _ & _ & _ & H & _).
  apply (H [48; 133; 64; 0; 0; 0; 0]%N F_ALLOC). vm_compute. reflexivity.
Qed.

Lemma outside_findings :
  (forall ty p, ssh_request ty p = ROk) /\
  (forall rs, ssh_requests rs = ROk) /\
  (forall stream, vnc_handle stream = ROk) /\
  (forall dgss sched, trun (t_init (map (tftp_thread false) dgss)) sched <> TFatal) /\
  (forall dg, cs_handle dg = ROk \/ cs_handle dg = RPanic 1) /\
  (forall segs, adb_handle segs = ROk \/ adb_handle segs = RPanic 2) /\
  (forall dg s, in_oom_class (snmp_tlv dg) = false -> snmp_first dg <> Some (RFatal s)) /\
  (forall st s, in_oom_class (ldap_tlv st) = false -> ldap_first st <> Some (RFatal s)) /\
  (forall seg rep s, ldap_depth seg rep < STACK_SURE -> ldap_nest seg rep <> Some (RFatal s)).
Proof.
  split; [exact ssh_request_ok|]. split; [exact ssh_requests_ok|]. split; [exact vnc_handle_ok|].
  split; [exact tftp_no_schedule_fatal|]. split; [exact cs_never_fatal|]. split; [exact adb_never_fatal|].
  split; [|split].
  - intros dg s Hc H. unfold snmp_first in H. apply res_of_tlv_fatal_iff in H as [H _]. congruence.
  - intros st s Hc H. unfold ldap_first in H. apply res_of_tlv_fatal_iff in H as [H _]. congruence.
  - intros seg rep s Hd H. apply ldap_nest_fatal_iff in H as [H _]. lia.
Qed.
