(* C01 - lemmas. *)
From HT Require Import Common.Bytes C17.Model C17.Proofs C01.Model C01.Check.
From Coq Require Import ZifyBool ZifyN ZifyNat.
Open Scope Z_scope.

(* ------------------------------------------------------------------ *)
(* 1. handle                                                            *)

Lemma handle_confines found send_ok s :
  process_alive (server_handle found send_ok (RPanic s)) = true /\
  (found = true -> server_handle found send_ok (RPanic s) = (if send_ok then ClosedWithEvent else ClosedLogged)).
Proof. unfold server_handle; destruct found, send_ok; cbn; split; try reflexivity; intros; try reflexivity; discriminate. Qed.

Lemma process_down_iff found send_ok r :
  process_alive (server_handle found send_ok r) = false <-> found = true /\ exists s, r = RFatal s.
Proof.
  unfold server_handle; destruct found; cbn [negb].
  - destruct r; try destruct send_ok; cbn; split; intros H;
      try discriminate; try (destruct H as [_ [s0 H]]; discriminate);
      try (split; [reflexivity | eexists; reflexivity]); try reflexivity.
  - cbn. split; intros H; [discriminate | destruct H; discriminate].
Qed.

Lemma only_unguarded_goroutine : filter unguarded goroutines = [(24, 481, false, true)%N].
Proof. vm_compute. reflexivity. Qed.

(* ------------------------------------------------------------------ *)
(* 2. ssh-simulator env / exec loop                                     *)

Lemma avail_nonneg d : wf d -> 0 <= avail d.
Proof. unfold wf, avail; lia. Qed.

Lemma pd_string_spec d :
  wf d ->
  let d' := fst (pd_string d) in
  wf d' /\ (avail d < 4 -> avail d' = avail d) /\ (4 <= avail d -> avail d' <= avail d - 4).
Proof.
  intros Hwf. unfold pd_string, read_prim.
  destruct (has_bytes d 4) eqn:Hb.
  - apply has_bytes_spec in Hb.
    set (l := be_val (at_cursor d 4)).
    unfold copy. destruct (l <? 0) eqn:Hl.
    + cbn. unfold wf, avail, dlen, advance, set_err in *; cbn. lia.
    + destruct (has_bytes (advance d 4) l) eqn:Hb2.
      * apply has_bytes_spec in Hb2. cbn. unfold wf, avail, dlen, advance, set_err in *; cbn in *. lia.
      * cbn. unfold wf, avail, dlen, advance, set_err in *; cbn in *. lia.
  - assert (Hn : ~ (0 <= d_off d + 4 <= dlen d)) by (rewrite <- has_bytes_spec; congruence).
    unfold copy. cbn [Z.ltb].
    change (0 <? 0) with false. cbv iota.
    destruct (has_bytes (set_err d) 0) eqn:Hb2.
    + cbn. unfold wf, avail, dlen, advance, set_err in *; cbn in *. lia.
    + cbn. unfold wf, avail, dlen, advance, set_err in *; cbn in *. lia.
Qed.

Lemma ssh_loop_stuck : forall fuel d acc,
  wf d -> 1 <= avail d <= 3 ->
  exists l, ssh_loop fuel d acc = OutOfFuel l /\ length l = (length acc + fuel)%nat.
Proof.
  induction fuel as [|f IH]; intros d acc Hwf Ha; cbn [ssh_loop].
  - exists acc; split; [reflexivity | lia].
  - destruct (avail d =? 0) eqn:E; [lia|].
    pose proof (pd_string_spec d Hwf) as Hs. cbv zeta in Hs.
    destruct (pd_string d) as [d' s] eqn:Hp. cbn [fst] in Hs.
    destruct Hs as (Hwf' & Hlt & _).
    destruct (IH d' (s :: acc) Hwf' ltac:(lia)) as (l & Hl & Hlen).
    exists l; split; [exact Hl | cbn [length] in Hlen; lia].
Qed.

Lemma ssh_loop_decides : forall n d acc,
  wf d -> avail d < Z.of_nat n ->
  (exists l, forall m, (n <= m)%nat -> ssh_loop m d acc = Done l) \/
  (forall m, exists l, ssh_loop m d acc = OutOfFuel l /\ length l = (length acc + m)%nat).
Proof.
  induction n as [|n IH]; intros d acc Hwf Hlt.
  - pose proof (avail_nonneg d Hwf); lia.
  - pose proof (avail_nonneg d Hwf) as H0.
    destruct (Z.eq_dec (avail d) 0) as [Hz|Hnz].
    + left; exists acc; intros m Hm. destruct m as [|m]; [lia|].
      cbn [ssh_loop]. rewrite Hz. reflexivity.
    + destruct (Z_lt_dec (avail d) 4) as [H3|H4].
      * right; intros m. apply ssh_loop_stuck; [exact Hwf | lia].
      * pose proof (pd_string_spec d Hwf) as Hs. cbv zeta in Hs.
        destruct (pd_string d) as [d' s] eqn:Hp. cbn [fst] in Hs.
        destruct Hs as (Hwf' & _ & Hge).
        destruct (IH d' (s :: acc) Hwf' ltac:(lia)) as [(l & Hl) | Hr].
        -- left; exists l; intros m Hm. destruct m as [|m]; [lia|].
           cbn [ssh_loop]. destruct (avail d =? 0) eqn:E; [lia|]. rewrite Hp. apply Hl; lia.
        -- right; intros m. destruct m as [|m].
           ++ exists acc; cbn; split; [reflexivity | lia].
           ++ destruct (Hr m) as (l & Hl & Hlen). exists l. cbn [ssh_loop].
              destruct (avail d =? 0) eqn:E; [lia|]. rewrite Hp. split; [exact Hl|].
              cbn [length] in Hlen; lia.
Qed.

Lemma new_decoder_avail p : avail (new_decoder p) = zlen p.
Proof. unfold avail, new_decoder, dlen; cbn; lia. Qed.

(* the fuel used by [ssh_request] decides: out of fuel there means out of fuel for ever,
   with the slice one element longer per iteration *)
Lemma ssh_fuel_decides p :
  (exists l, forall m, (ssh_fuel p <= m)%nat -> ssh_loop m (new_decoder p) [] = Done l) \/
  (forall m, exists l, ssh_loop m (new_decoder p) [] = OutOfFuel l /\ length l = m).
Proof.
  destruct (ssh_loop_decides (ssh_fuel p) (new_decoder p) [] (new_decoder_wf p)) as [H|H].
  - rewrite new_decoder_avail. unfold ssh_fuel, zlen. lia.
  - left; exact H.
  - right; intros m. destruct (H m) as (l & Hl & Hlen). exists l; split; [exact Hl | cbn in Hlen; lia].
Qed.

Lemma ssh_request_fatal ty p s :
  ssh_request ty p = RFatal s ->
  s = F_SSH_LOOP /\ (ty = 1 \/ ty = 2)%N /\
  forall m, exists l, ssh_loop m (new_decoder p) [] = OutOfFuel l /\ length l = m.
Proof.
  unfold ssh_request. destruct ((ty =? 1) || (ty =? 2))%N eqn:Et; [|discriminate].
  destruct (ssh_loop (ssh_fuel p) (new_decoder p) []) eqn:El; [discriminate|].
  intros H; inversion H; subst. split; [reflexivity|]. split; [lia|].
  destruct (ssh_fuel_decides p) as [(l & Hl)|Hr]; [|exact Hr].
  rewrite (Hl (ssh_fuel p)) in El by lia. discriminate.
Qed.

Lemma ssh_request_ok ty p :
  ssh_request ty p = ROk ->
  (ty = 1 \/ ty = 2)%N ->
  exists l, forall m, (ssh_fuel p <= m)%nat -> ssh_loop m (new_decoder p) [] = Done l.
Proof.
  unfold ssh_request. intros H Ht.
  replace ((ty =? 1) || (ty =? 2))%N with true in H by lia.
  destruct (ssh_loop (ssh_fuel p) (new_decoder p) []) eqn:El; [|discriminate].
  destruct (ssh_fuel_decides p) as [Hl|Hr]; [exact Hl|].
  destruct (Hr (ssh_fuel p)) as (l & Hl & _). congruence.
Qed.

Lemma ssh_request_range ty p : ssh_request ty p = ROk \/ ssh_request ty p = RFatal F_SSH_LOOP.
Proof.
  unfold ssh_request. destruct ((ty =? 1) || (ty =? 2))%N; [|left; reflexivity].
  destruct (ssh_loop _ _ _); [left|right]; reflexivity.
Qed.

(* ------------------------------------------------------------------ *)
(* 3. tftp                                                              *)

Lemma pop_thread_forall (P : list mop -> Prop) :
  (forall o t, P (o :: t) -> P t) ->
  forall ts i o ts', Forall P ts -> pop_thread i ts = Some (o, ts') ->
  Forall P ts' /\ exists t, In (o :: t) ts.
Proof.
  intros Htail. induction ts as [|t r IH]; intros i o ts' Hall Hp; [destruct i; discriminate|].
  inversion Hall as [|? ? Ht Hr]; subst.
  destruct i as [|j]; cbn [pop_thread] in Hp.
  - destruct t as [|o0 t0]; [discriminate|]. inversion Hp; subst.
    split; [constructor; [eapply Htail; exact Ht | exact Hr] | exists t0; left; reflexivity].
  - destruct (pop_thread j r) as [[o1 r1]|] eqn:E; [|discriminate]. inversion Hp; subst.
    destruct (IH j o r1 Hr E) as (Hr1 & t1 & Hin).
    split; [constructor; assumption | exists t1; right; exact Hin].
Qed.

Lemma has_write_tail o t : has_write (o :: t) = false -> has_write t = false.
Proof. unfold has_write; cbn [existsb]. destruct o; cbn; intros H; try exact H; discriminate. Qed.

Lemma tftp_no_writer_safe_aux : forall sched ts,
  Forall (fun t => has_write t = false) ts ->
  trun (mkT ts false) sched <> TFatal.
Proof.
  induction sched as [|i r IH]; intros ts Hall; cbn [trun]; [discriminate|].
  unfold tstep; cbn [t_threads t_writing].
  destruct (pop_thread i ts) as [[o ts']|] eqn:Hp.
  - destruct (pop_thread_forall (fun t => has_write t = false) has_write_tail ts i o ts' Hall Hp) as (Hall' & t & Hin).
    destruct o; try (apply IH; exact Hall').
    exfalso. rewrite Forall_forall in Hall. specialize (Hall _ Hin). unfold has_write in Hall; cbn in Hall. discriminate.
  - apply IH; exact Hall.
Qed.

(* one connection at a time: a well-bracketed program never trips the check *)
Fixpoint wb (t : list mop) : bool :=
  match t with
  | [] => true
  | MWBegin :: MWEnd :: r => wb r
  | MWBegin :: _ => false
  | MWEnd :: _ => false
  | _ :: r => wb r
  end.

Definition wb_open (t : list mop) : bool :=
  match t with MWEnd :: r => wb r | _ => false end.

Lemma tftp_single_safe_aux : forall (sched : list nat) (t : list mop) (w : bool),
  (if w then wb_open t else wb t) = true ->
  trun (mkT [t] w) sched <> TFatal.
Proof.
  induction sched as [|i r IH]; intros t w Hw; cbn [trun]; [discriminate|].
  unfold tstep; cbn [t_threads t_writing].
  destruct i as [|j]; cbn [pop_thread].
  - destruct t as [|o t']; [apply IH; exact Hw|].
    destruct w.
    + (* writing: the next operation is MWEnd *)
      destruct o; cbn in Hw; try discriminate. apply (IH t' false). exact Hw.
    + destruct o.
      * apply (IH t' false). exact Hw.
      * apply (IH t' false). exact Hw.
      * apply (IH t' true). destruct t' as [|o2 t2]; cbn in Hw; [discriminate|].
        destruct o2; try discriminate. cbn. exact Hw.
      * cbn in Hw. discriminate.
  - assert (Hn : pop_thread j (@nil (list mop)) = None) by (destruct j; reflexivity).
    rewrite Hn. apply IH; exact Hw.
Qed.

Lemma wb_app a b : wb a = true -> wb b = true -> wb (a ++ b) = true.
Proof.
  revert b. induction a as [a IH] using (well_founded_induction (Wf_nat.well_founded_ltof _ (@length mop))).
  intros b Ha Hb. destruct a as [|o a']; [exact Hb|].
  destruct o; cbn [app].
  - cbn in Ha |- *. apply IH; [unfold Wf_nat.ltof; cbn; lia | exact Ha | exact Hb].
  - cbn in Ha |- *. apply IH; [unfold Wf_nat.ltof; cbn; lia | exact Ha | exact Hb].
  - destruct a' as [|o2 a2]; [cbn in Ha; discriminate|].
    destruct o2; cbn in Ha; try discriminate. cbn [app wb].
    apply IH; [unfold Wf_nat.ltof; cbn; lia | exact Ha | exact Hb].
  - cbn in Ha. discriminate.
Qed.

Lemma tftp_prog_wb k p h l : wb (tftp_prog k p h l) = true.
Proof. unfold tftp_prog. destruct (k =? 2)%N, (k =? 3)%N, p, h, l; reflexivity. Qed.

Lemma tftp_thread_wb : forall dgs has, wb (tftp_thread has dgs) = true.
Proof.
  induction dgs as [|dg r IH]; intros has; cbn [tftp_thread]; [reflexivity|].
  apply wb_app; [apply tftp_prog_wb | apply IH].
Qed.

(* ------------------------------------------------------------------ *)
(* 4. vnc                                                               *)

Definition vp_state (p : vparse) : vstate :=
  match p with VEnd s _ => s | VFail s => s end.

(* a dangerous state needs the pusher goroutine: without a FramebufferUpdateRequest
   nothing a client sends can take the process down *)
Definition danger_needs_pusher (s : vstate) : Prop := v_danger s = true -> v_pusher s = true.

Lemma v_note_inv s : danger_needs_pusher s -> danger_needs_pusher (v_note s).
Proof.
  unfold danger_needs_pusher, v_note; cbn. intros H Hd.
  apply orb_true_iff in Hd as [Hd|Hd]; [auto | apply andb_true_iff in Hd; tauto].
Qed.

Lemma vnc_cmds_inv : forall fuel s l,
  danger_needs_pusher s -> danger_needs_pusher (vp_state (vnc_cmds fuel s l)).
Proof.
  induction fuel as [|f IH]; intros s l Hs; cbn [vnc_cmds]; [exact Hs|].
  destruct l as [|c r]; [exact Hs|].
  destruct (c =? 0)%N.
  { destruct (take 19 r) as [[m r']|]; [|exact Hs].
    apply IH. apply v_note_inv. unfold danger_needs_pusher in *; cbn. exact Hs. }
  destruct (c =? 2)%N.
  { destruct (take 3 r) as [[m r']|]; [|exact Hs].
    destruct (take _ r') as [[m2 r'']|]; [|exact Hs]. apply IH; exact Hs. }
  destruct (c =? 3)%N.
  { assert (H1 : danger_needs_pusher (v_note (mkV (v_fmt s) true (v_danger s)))).
    { apply v_note_inv. unfold danger_needs_pusher; cbn. reflexivity. }
    destruct (take 9 r) as [[m r']|]; [apply IH; exact H1 | exact H1]. }
  destruct (c =? 4)%N.
  { destruct (take 7 r) as [[m r']|]; [apply IH; exact Hs | exact Hs]. }
  destruct (c =? 5)%N.
  { destruct (take 5 r) as [[m r']|]; [apply IH; exact Hs | exact Hs]. }
  exact Hs.
Qed.

(* the format is only ever changed by SetPixelFormat: while the pusher is not running
   and no SetPixelFormat/update request arrives, the state stays as it is *)
Lemma vnc_parse_inv stream : danger_needs_pusher (vp_state (vnc_parse stream)).
Proof.
  assert (Hi : danger_needs_pusher v_init) by (unfold danger_needs_pusher; cbn; discriminate).
  assert (Hc : forall r, danger_needs_pusher (vp_state (vnc_client_init r))).
  { intros r; unfold vnc_client_init; destruct r; [exact Hi | apply vnc_cmds_inv; exact Hi]. }
  unfold vnc_parse. destruct (upto_nl stream) as [[ver r]|]; [|exact Hi].
  destruct (eqb_bytes ver V3); [apply Hc|].
  destruct (eqb_bytes ver V7 || eqb_bytes ver V8); [|exact Hi].
  destruct r as [|w r']; [exact Hi|]. destruct (w =? 1)%N; [apply Hc | exact Hi].
Qed.

Lemma vnc_verdict_needs_pusher stream :
  vnc_verdict stream <> 0%N -> v_pusher (vp_state (vnc_parse stream)) = true.
Proof.
  pose proof (vnc_parse_inv stream) as H. unfold vnc_verdict, danger_needs_pusher in *.
  destruct (vnc_parse stream) as [s c|s]; cbn [vp_state] in *.
  - destruct (v_pusher s); [reflexivity|]. cbn. destruct (v_danger s); [intros _; apply H; reflexivity | congruence].
  - destruct (v_danger s); [intros _; apply H; reflexivity | congruence].
Qed.

Lemma push_fails_spec f :
  push_fails f = false <->
  pf_tc f <> 0%N /\ (is_thousands f = true \/ pf_bpp f = 32 \/ pf_bpp f = 16 \/ pf_bpp f = 8)%N.
Proof. unfold push_fails. destruct (is_thousands f); cbn; lia. Qed.

Lemma default_format_safe : push_fails pf_default = false.
Proof. reflexivity. Qed.

(* ------------------------------------------------------------------ *)
(* 5. counterstrike, adb                                                *)

Lemma cs_never_fatal dg : cs_handle dg = ROk \/ cs_handle dg = RPanic 1.
Proof.
  unfold cs_handle. destruct (_ || _); [|left; reflexivity].
  destruct (_ <=? _)%nat; [right|left]; reflexivity.
Qed.

Lemma adb_loop_never_fatal : forall segs buf, adb_loop buf segs = ROk \/ adb_loop buf segs = RPanic 2.
Proof.
  induction segs as [|s r IH]; intros buf; cbn [adb_loop]; [left; reflexivity|].
  destruct (_ || _).
  - destruct (_ <? _)%nat; [right; reflexivity | apply IH].
  - destruct (eqb_bytes _ CLSE); [left; reflexivity | apply IH].
Qed.

Lemma adb_never_fatal segs : adb_handle segs = ROk \/ adb_handle segs = RPanic 2.
Proof.
  unfold adb_handle. destruct segs as [|s r]; [left; reflexivity|].
  destruct (negb _); [left; reflexivity|].
  destruct (_ <? _)%nat; [right; reflexivity | apply adb_loop_never_fatal].
Qed.

(* ------------------------------------------------------------------ *)
(* 6. declared-length allocation                                        *)

Lemma alloc_fatal_iff L : alloc_verdict L = 2%N <-> MEM_SURE < L <= MAXALLOC.
Proof.
  unfold alloc_verdict, MEM_SURE, MAXALLOC, MEM_SAFE.
  destruct (L <? 0) eqn:E1; [lia|]. destruct (2 ^ 48 <? L) eqn:E2; [lia|].
  destruct (2 ^ 36 <? L) eqn:E3; [lia|]. destruct (2 ^ 26 <? L) eqn:E4; lia.
Qed.

Lemma alloc_small_fine L : 0 <= L <= MEM_SAFE -> alloc_verdict L = 0%N.
Proof.
  unfold alloc_verdict, MEM_SURE, MAXALLOC, MEM_SAFE. intros H.
  destruct (L <? 0) eqn:E1; [lia|]. destruct (2 ^ 48 <? L) eqn:E2; [lia|].
  destruct (2 ^ 36 <? L) eqn:E3; [lia|]. destruct (2 ^ 26 <? L) eqn:E4; [lia|reflexivity].
Qed.
