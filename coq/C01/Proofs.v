(* C01 - lemmas. *)
From HT Require Import Common.Bytes C17.Model C17.Proofs C01.Model C01.Check.
From Coq Require Import ZifyBool ZifyN ZifyNat.
Open Scope Z_scope.

(* ------------------------------------------------------------------ *)
(* 1. handle                                                            *)

Lemma handle_confines found send_ok s :
  process_alive (server_handle found send_ok (RPanic s)) = true /\
  (found = true -> server_handle found send_ok (RPanic s) = (if send_ok then ClosedWithEvent else ClosedLogged)).
Proof. unfold server_handle; destruct found, send_ok; cbn; split; try reflexivity; intros; try reflexivity; discriminate. Qed.

Lemma process_down_iff found send_ok r :
  process_alive (server_handle found send_ok r) = false <-> found = true /\ exists s, r = RFatal s.
Proof.
  unfold server_handle; destruct found; cbn [negb].
  - destruct r; try destruct send_ok; cbn; split; intros H;
      try discriminate; try (destruct H as [_ [s0 H]]; discriminate);
      try (split; [reflexivity | eexists; reflexivity]); try reflexivity.
  - cbn. split; intros H; [discriminate | destruct H; discriminate].
Qed.

Lemma no_unguarded_goroutine : filter unguarded goroutines = [].
Proof. vm_compute. reflexivity. Qed.

Lemma every_goroutine_guarded : forall g, In g goroutines -> unguarded g = false.
Proof.
  intros g Hg.
  assert (H : forallb (fun g => negb (unguarded g)) goroutines = true) by (vm_compute; reflexivity).
  rewrite forallb_forall in H. specialize (H _ Hg). apply negb_true_iff in H. exact H.
Qed.

Lemma psv_socket_ok : forall accept_fails, psv_socket accept_fails = ROk.
Proof. destruct accept_fails; reflexivity. Qed.

(* exactly one Done per socket, whatever Accept does: the counter ends at 0 *)
Lemma psv_counter : forall accept_fails, wg_run 1 (psv_goroutine accept_fails) = Some 0.
Proof. destruct accept_fails; reflexivity. Qed.

(* and one more Done, wherever it is put into the goroutine, is the panic *)
Lemma wg_extra_done_panics : forall accept_fails k,
  wg_run 1 (firstn k (psv_goroutine accept_fails) ++ WDone :: skipn k (psv_goroutine accept_fails)) = None.
Proof.
  intros af k. destruct af; do 7 (destruct k as [|k]; [reflexivity|]); reflexivity.
Qed.

(* ------------------------------------------------------------------ *)
(* 2. ssh-simulator env / exec loop (after 1603afd)                     *)

Lemma avail_nonneg d : wf d -> 0 <= avail d.
Proof. unfold wf, avail; lia. Qed.

Lemma pd_string_spec d :
  wf d ->
  let d' := fst (pd_string d) in
  wf d' /\ (avail d < 4 -> d_err d' = true) /\ (4 <= avail d -> avail d' <= avail d - 4).
Proof.
  intros Hwf. unfold pd_string, read_prim.
  destruct (has_bytes d 4) eqn:Hb.
  - apply has_bytes_spec in Hb.
    set (l := be_val (at_cursor d 4)).
    unfold copy. destruct (l <? 0) eqn:Hl.
    + cbn. unfold wf, avail, dlen, advance, set_err in *; cbn. lia.
    + destruct (has_bytes (advance d 4) l) eqn:Hb2.
      * apply has_bytes_spec in Hb2. cbn. unfold wf, avail, dlen, advance, set_err in *; cbn in *. lia.
      * cbn. unfold wf, avail, dlen, advance, set_err in *; cbn in *. lia.
  - assert (Hn : ~ (0 <= d_off d + 4 <= dlen d)) by (rewrite <- has_bytes_spec; congruence).
    unfold copy. change (0 <? 0) with false. cbv iota.
    destruct (has_bytes (set_err d) 0) eqn:Hb2.
    + cbn. unfold wf, avail, dlen, advance, set_err in *; cbn in *.
      split; [lia|]. split; [reflexivity | lia].
    + cbn. unfold wf, avail, dlen, advance, set_err in *; cbn in *.
      split; [lia|]. split; [reflexivity | lia].
Qed.

(* the loop ends for every decoder state, within avail+1 iterations, whatever fuel beyond *)
Lemma ssh_loop_terminates : forall n d acc,
  wf d -> avail d < Z.of_nat n ->
  exists l, forall m, (n <= m)%nat -> ssh_loop m d acc = Done l.
Proof.
  induction n as [|n IH]; intros d acc Hwf Hlt.
  - pose proof (avail_nonneg d Hwf); lia.
  - pose proof (avail_nonneg d Hwf) as H0.
    destruct (Z.eq_dec (avail d) 0) as [Hz|Hnz].
    + exists acc; intros m Hm. destruct m as [|m]; [lia|].
      cbn [ssh_loop]. rewrite Hz. reflexivity.
    + pose proof (pd_string_spec d Hwf) as Hs. cbv zeta in Hs.
      destruct (pd_string d) as [d' s] eqn:Hp. cbn [fst] in Hs.
      destruct Hs as (Hwf' & Hshort & Hge).
      destruct (d_err d') eqn:He.
      * exists acc; intros m Hm. destruct m as [|m]; [lia|].
        cbn [ssh_loop]. destruct (avail d =? 0) eqn:E; [reflexivity|]. rewrite Hp; cbv beta iota; rewrite He. reflexivity.
      * assert (H4 : 4 <= avail d).
        { destruct (Z_lt_dec (avail d) 4) as [H3|H3]; [|lia]. pose proof (Hshort H3) as Hx. congruence. }
        destruct (IH d' (s :: acc) Hwf' ltac:(specialize (Hge H4); lia)) as (l & Hl).
        exists l; intros m Hm. destruct m as [|m]; [lia|].
        cbn [ssh_loop]. destruct (avail d =? 0) eqn:E; [lia|]. rewrite Hp; cbv beta iota; rewrite He. apply Hl; lia.
Qed.

Lemma new_decoder_avail p : avail (new_decoder p) = zlen p.
Proof. unfold avail, new_decoder, dlen; cbn; lia. Qed.

Lemma ssh_fuel_suffices p :
  exists l, forall m, (ssh_fuel p <= m)%nat -> ssh_loop m (new_decoder p) [] = Done l.
Proof.
  apply ssh_loop_terminates; [apply new_decoder_wf|].
  rewrite new_decoder_avail. unfold ssh_fuel, zlen. lia.
Qed.

Lemma ssh_request_ok ty p : ssh_request ty p = ROk.
Proof.
  unfold ssh_request. destruct ((ty =? 1) || (ty =? 2))%N; [|reflexivity].
  destruct (ssh_fuel_suffices p) as (l & Hl). rewrite (Hl (ssh_fuel p)) by lia. reflexivity.
Qed.

Lemma ssh_requests_ok rs : ssh_requests rs = ROk.
Proof. induction rs as [|[ty p] r IH]; cbn [ssh_requests]; [reflexivity|]. rewrite ssh_request_ok. exact IH. Qed.

(* ------------------------------------------------------------------ *)
(* 3. tftp (after 9cc3ebb: every map access under s.mu)                 *)

Inductive mode := Out | In_ | InW.

(* well-locked programs: map accesses only between Lock and Unlock, a write-begin is
   followed by its write-end at once *)
Fixpoint wlm (m : mode) (t : list mop) : bool :=
  match t with
  | [] => match m with Out => true | _ => false end
  | o :: r =>
      match m, o with
      | Out, MOther => wlm Out r
      | Out, MLock => wlm In_ r
      | In_, MOther => wlm In_ r
      | In_, MRead => wlm In_ r
      | In_, MWBegin => wlm InW r
      | In_, MUnlock => wlm Out r
      | InW, MWEnd => wlm In_ r
      | _, _ => false
      end
  end.

Definition mode_of (s : tstate) (j : nat) : mode :=
  match t_owner s with
  | Some k => if (k =? j)%nat then (if t_writing s then InW else In_) else Out
  | None => Out
  end.

Definition tinv (s : tstate) : Prop :=
  (forall j, wlm (mode_of s j) (nth j (t_threads s) []) = true) /\
  (t_owner s = None -> t_writing s = false).

Lemma nth_set_nth : forall (l : list (list mop)) i j x,
  nth j (set_nth i x l) [] = if ((j =? i) && (i <? length l))%nat then x else nth j l [].
Proof.
  induction l as [|a l IH]; intros i j x.
  - cbn. rewrite andb_false_r. destruct i; reflexivity.
  - destruct i as [|i], j as [|j]; cbn [set_nth nth]; try reflexivity.
    rewrite IH. reflexivity.
Qed.

Lemma nth_nonnil_lt (l : list (list mop)) i o t : nth i l [] = o :: t -> (i <? length l)%nat = true.
Proof.
  intros H. apply Nat.ltb_lt. destruct (Nat.lt_ge_cases i (length l)) as [Hlt|Hge]; [exact Hlt|].
  rewrite nth_overflow in H by exact Hge. discriminate.
Qed.

Lemma tstep_inv s i : tinv s -> tstep s i <> TFatal /\ (forall s', tstep s i = TRun s' -> tinv s').
Proof.
  intros [Hall Hw]. unfold tstep.
  destruct (nth i (t_threads s) []) as [|o t'] eqn:Hn.
  { split; [discriminate|]. intros s' H; inversion H; subst; split; assumption. }
  pose proof (nth_nonnil_lt _ _ _ _ Hn) as Hlt.
  pose proof (Hall i) as Hi. rewrite Hn in Hi.
  destruct s as [ts w ow]; cbn [t_threads t_writing t_owner] in *.
  assert (Hupd : forall w' ow',
            (forall j, j <> i -> mode_of (mkT ts w' ow') j = mode_of (mkT ts w ow) j) ->
            wlm (mode_of (mkT ts w' ow') i) t' = true ->
            (ow' = None -> w' = false) ->
            tinv (mkT (set_nth i t' ts) w' ow')).
  { intros w' ow' Hoth Hme Hcl. split; [|exact Hcl].
    intros j. cbn [t_threads]. rewrite nth_set_nth, Hlt, andb_true_r.
    destruct (Nat.eqb_spec j i) as [->|Hne].
    - exact Hme.
    - specialize (Hall j). specialize (Hoth j Hne).
      unfold mode_of in *; cbn [t_owner t_writing] in *. rewrite Hoth. exact Hall. }
  unfold mode_of in Hi; cbn [t_owner t_writing] in Hi.
  destruct ow as [k|].
  - destruct (Nat.eqb_spec k i) as [->|Hki].
    + (* the owner moves *)
      destruct w; destruct o; cbn in Hi; try discriminate.
      * (* InW, MWEnd *)
        split; [discriminate|]. intros s' H; inversion H; subst. apply Hupd.
        -- intros j Hj. unfold mode_of; cbn. destruct (Nat.eqb_spec i j); [congruence|reflexivity].
        -- unfold mode_of; cbn. rewrite Nat.eqb_refl. exact Hi.
        -- discriminate.
      * split; [discriminate|]. intros s' H; inversion H; subst. apply Hupd.
        -- intros j Hj. reflexivity.
        -- unfold mode_of; cbn. rewrite Nat.eqb_refl. exact Hi.
        -- discriminate.
      * split; [discriminate|]. intros s' H; inversion H; subst. apply Hupd.
        -- intros j Hj. reflexivity.
        -- unfold mode_of; cbn. rewrite Nat.eqb_refl. exact Hi.
        -- discriminate.
      * split; [discriminate|]. intros s' H; inversion H; subst. apply Hupd.
        -- intros j Hj. unfold mode_of; cbn. destruct (Nat.eqb_spec i j); [congruence|reflexivity].
        -- unfold mode_of; cbn. rewrite Nat.eqb_refl. exact Hi.
        -- discriminate.
      * split; [discriminate|]. intros s' H; inversion H; subst. apply Hupd.
        -- intros j Hj. unfold mode_of; cbn. destruct (Nat.eqb_spec i j); [congruence|reflexivity].
        -- unfold mode_of; cbn. exact Hi.
        -- reflexivity.
    + (* another goroutine holds the mutex: this one is outside *)
      destruct o; cbn in Hi; try discriminate.
      * split; [destruct w; discriminate|]. intros s' H; inversion H; subst. apply Hupd.
        -- intros j Hj. reflexivity.
        -- unfold mode_of; cbn. destruct (Nat.eqb_spec k i); [congruence|]. exact Hi.
        -- discriminate.
      * split; [discriminate|]. intros s' H; inversion H; subst. split; assumption.
  - (* mutex free *)
    specialize (Hw eq_refl). subst w.
    destruct o; cbn in Hi; try discriminate.
    * split; [discriminate|]. intros s' H; inversion H; subst. apply Hupd.
      -- intros j Hj. reflexivity.
      -- unfold mode_of; cbn. exact Hi.
      -- reflexivity.
    * split; [discriminate|]. intros s' H; inversion H; subst. apply Hupd.
      -- intros j Hj. unfold mode_of; cbn. destruct (Nat.eqb_spec i j); [congruence|reflexivity].
      -- unfold mode_of; cbn. rewrite Nat.eqb_refl. exact Hi.
      -- discriminate.
Qed.

Lemma trun_inv : forall sched s, tinv s -> trun s sched <> TFatal.
Proof.
  induction sched as [|i r IH]; intros s Hs; cbn [trun]; [discriminate|].
  destruct (tstep_inv s i Hs) as [Hnf Hnext].
  destruct (tstep s i) as [s'|] eqn:E; [|congruence]. apply IH. apply Hnext. reflexivity.
Qed.

Lemma wlm_app : forall a m b, wlm m a = true -> wlm Out b = true -> wlm m (a ++ b) = true.
Proof.
  induction a as [|o a IH]; intros m b Ha Hb.
  - destruct m; cbn in Ha; try discriminate. exact Hb.
  - cbn [app]. destruct m, o; cbn in Ha |- *; try discriminate; apply IH; assumption.
Qed.

Lemma tftp_prog_wl k p h l : wlm Out (tftp_prog k p h l) = true.
Proof. unfold tftp_prog. destruct (k =? 2)%N, (k =? 3)%N, p, h, l; reflexivity. Qed.

Lemma tftp_thread_wl : forall dgs has, wlm Out (tftp_thread has dgs) = true.
Proof.
  induction dgs as [|dg r IH]; intros has; cbn [tftp_thread]; [reflexivity|].
  apply wlm_app; [apply tftp_prog_wl | apply IH].
Qed.

Lemma t_init_inv ts : Forall (fun t => wlm Out t = true) ts -> tinv (t_init ts).
Proof.
  intros H. split; [|reflexivity]. intros j. unfold mode_of, t_init; cbn.
  destruct (Nat.lt_ge_cases j (length ts)) as [Hlt|Hge].
  - rewrite Forall_forall in H. apply H. apply nth_In. exact Hlt.
  - rewrite nth_overflow by exact Hge. reflexivity.
Qed.

Lemma tftp_no_schedule_fatal dgss sched :
  trun (t_init (map (tftp_thread false) dgss)) sched <> TFatal.
Proof.
  apply trun_inv, t_init_inv. rewrite Forall_forall. intros t Ht.
  apply in_map_iff in Ht as (dgs & <- & _). apply tftp_thread_wl.
Qed.

(* ------------------------------------------------------------------ *)
(* 4. vnc (after 4aa01bd: pushFramesLoop recovers)                      *)

Definition vp_state (p : vparse) : vstate :=
  match p with VEnd s _ => s | VFail s => s end.

Definition danger_needs_pusher (s : vstate) : Prop := v_danger s = true -> v_pusher s = true.

Lemma v_note_inv s : danger_needs_pusher s -> danger_needs_pusher (v_note s).
Proof.
  unfold danger_needs_pusher, v_note; cbn. intros H Hd.
  apply orb_true_iff in Hd as [Hd|Hd]; [auto | apply andb_true_iff in Hd; tauto].
Qed.

Lemma vnc_cmds_inv : forall fuel s l,
  danger_needs_pusher s -> danger_needs_pusher (vp_state (vnc_cmds fuel s l)).
Proof.
  induction fuel as [|f IH]; intros s l Hs; cbn [vnc_cmds]; [exact Hs|].
  destruct l as [|c r]; [exact Hs|].
  destruct (c =? 0)%N.
  { destruct (take 19 r) as [[m r']|]; [|exact Hs].
    apply IH. apply v_note_inv. unfold danger_needs_pusher in *; cbn. exact Hs. }
  destruct (c =? 2)%N.
  { destruct (take 3 r) as [[m r']|]; [|exact Hs].
    destruct (take _ r') as [[m2 r'']|]; [|exact Hs]. apply IH; exact Hs. }
  destruct (c =? 3)%N.
  { assert (H1 : danger_needs_pusher (v_note (mkV (v_fmt s) true (v_danger s)))).
    { apply v_note_inv. unfold danger_needs_pusher; cbn. reflexivity. }
    destruct (take 9 r) as [[m r']|]; [apply IH; exact H1 | exact H1]. }
  destruct (c =? 4)%N.
  { destruct (take 7 r) as [[m r']|]; [apply IH; exact Hs | exact Hs]. }
  destruct (c =? 5)%N.
  { destruct (take 5 r) as [[m r']|]; [apply IH; exact Hs | exact Hs]. }
  exact Hs.
Qed.

Lemma vnc_parse_inv stream : danger_needs_pusher (vp_state (vnc_parse stream)).
Proof.
  assert (Hi : danger_needs_pusher v_init) by (unfold danger_needs_pusher; cbn; discriminate).
  assert (Hc : forall r, danger_needs_pusher (vp_state (vnc_client_init r))).
  { intros r; unfold vnc_client_init; destruct r; [exact Hi | apply vnc_cmds_inv; exact Hi]. }
  unfold vnc_parse. destruct (upto_nl stream) as [[ver r]|]; [|exact Hi].
  destruct (eqb_bytes ver V3); [apply Hc|].
  destruct (eqb_bytes ver V7 || eqb_bytes ver V8); [|exact Hi].
  destruct r as [|w r']; [exact Hi|]. destruct (w =? 1)%N; [apply Hc | exact Hi].
Qed.

Lemma vnc_verdict_needs_pusher stream :
  vnc_verdict stream <> 0%N -> v_pusher (vp_state (vnc_parse stream)) = true.
Proof.
  pose proof (vnc_parse_inv stream) as H. unfold vnc_verdict, danger_needs_pusher in *.
  destruct (vnc_parse stream) as [s c|s]; cbn [vp_state] in *.
  - destruct (v_pusher s); [reflexivity|]. cbn. destruct (v_danger s); [intros _; apply H; reflexivity | congruence].
  - destruct (v_danger s); [intros _; apply H; reflexivity | congruence].
Qed.

Lemma push_fails_spec f :
  push_fails f = false <->
  pf_tc f <> 0%N /\ (is_thousands f = true \/ pf_bpp f = 32 \/ pf_bpp f = 16 \/ pf_bpp f = 8)%N.
Proof. unfold push_fails. destruct (is_thousands f); cbn; lia. Qed.

(* whatever the order of pixel formats and update requests: the failf of the pusher
   goroutine is recovered there, the connection ends, the process does not *)
Lemma vnc_handle_ok stream : vnc_handle stream = ROk.
Proof.
  unfold vnc_handle, spawned_panic. destruct (vnc_verdict stream =? 0)%N; [reflexivity|].
  change (goroutine_recovers 24 481) with true. reflexivity.
Qed.

(* ------------------------------------------------------------------ *)
(* 5. counterstrike, adb                                                *)

Lemma cs_never_fatal dg : cs_handle dg = ROk \/ cs_handle dg = RPanic 1.
Proof.
  unfold cs_handle. destruct (_ || _); [|left; reflexivity].
  destruct (_ <=? _)%nat; [right|left]; reflexivity.
Qed.

Lemma adb_loop_never_fatal : forall segs buf, adb_loop buf segs = ROk \/ adb_loop buf segs = RPanic 2.
Proof.
  induction segs as [|s r IH]; intros buf; cbn [adb_loop]; [left; reflexivity|].
  destruct (_ || _).
  - destruct (_ <? _)%nat; [right; reflexivity | apply IH].
  - destruct (eqb_bytes _ CLSE); [left; reflexivity | apply IH].
Qed.

Lemma adb_never_fatal segs : adb_handle segs = ROk \/ adb_handle segs = RPanic 2.
Proof.
  unfold adb_handle. destruct segs as [|s r]; [left; reflexivity|].
  destruct (negb _); [left; reflexivity|].
  destruct (_ <? _)%nat; [right; reflexivity | apply adb_loop_never_fatal].
Qed.

(* ------------------------------------------------------------------ *)
(* 6. declared-length allocation                                        *)

Lemma alloc_fatal_iff L : alloc_verdict L = 2%N <-> MEM_SURE < L <= MAXALLOC.
Proof.
  unfold alloc_verdict, MEM_SURE, MAXALLOC, MEM_SAFE.
  destruct (L <? 0) eqn:E1; [lia|]. destruct (2 ^ 48 <? L) eqn:E2; [lia|].
  destruct (2 ^ 36 <? L) eqn:E3; [lia|]. destruct (2 ^ 26 <? L) eqn:E4; lia.
Qed.

Lemma alloc_small_fine L : 0 <= L <= MEM_SAFE -> alloc_verdict L = 0%N.
Proof.
  unfold alloc_verdict, MEM_SURE, MAXALLOC, MEM_SAFE. intros H.
  destruct (L <? 0) eqn:E1; [lia|]. destruct (2 ^ 48 <? L) eqn:E2; [lia|].
  destruct (2 ^ 36 <? L) eqn:E3; [lia|]. destruct (2 ^ 26 <? L) eqn:E4; [lia|reflexivity].
Qed.

(* ------------------------------------------------------------------ *)
(* 7. snmp / ldap: tlvLengthsFit bounds every allocation of the libraries *)

Definition bnd (B L : Z) : Prop := 0 <= L <= B.

Lemma be_val_acc_nonneg : forall l acc, 0 <= acc -> 0 <= be_val_acc acc l.
Proof. induction l as [|b r IH]; intros acc H; cbn [be_val_acc]; [exact H | apply IH; lia]. Qed.

Lemma be_val_nonneg l : 0 <= be_val l.
Proof. apply be_val_acc_nonneg; lia. Qed.

Lemma cont_run_nonneg l : 0 <= cont_run l.
Proof. induction l as [|b r IH]; cbn [cont_run]; [lia | destruct (128 <=? b)%N; lia]. Qed.

Lemma gen_hdr_props maxoct b c i l :
  gen_hdr maxoct b = Some (c, i, l) -> 2 <= i <= zlen b /\ 0 <= l.
Proof.
  unfold gen_hdr. destruct b as [|b0 r]; [discriminate|].
  set (i0 := if (N.land b0 31 =? 31)%N then 1 + cont_run r + 1 else 1).
  assert (Hi0 : 1 <= i0) by (unfold i0; pose proof (cont_run_nonneg r); destruct (N.land b0 31 =? 31)%N; lia).
  cbv zeta. destruct (zlen (b0 :: r) <=? i0) eqn:E0; [discriminate|].
  set (lb := Z.of_N (nth (Z.to_nat i0) (b0 :: r) 0%N)).
  destruct (lb =? 128) eqn:E1; [discriminate|].
  destruct (128 <? lb) eqn:E2.
  - destruct ((maxoct <? lb - 128) || (zlen (b0 :: r) <? i0 + 1 + (lb - 128))) eqn:E3; [discriminate|].
    apply orb_false_iff in E3 as [_ E3]. intros H; inversion H; subst.
    pose proof (be_val_nonneg (slice (b0 :: r) (i0 + 1) (i0 + 1 + (lb - 128)))). lia.
  - intros H; inversion H; subst. unfold lb. lia.
Qed.

Lemma gen_hdr_mono b x : gen_hdr 4 b = Some x -> gen_hdr 8 b = Some x.
Proof.
  unfold gen_hdr. destruct b as [|b0 r]; [discriminate|].
  set (i0 := if (N.land b0 31 =? 31)%N then 1 + cont_run r + 1 else 1).
  cbv zeta. destruct (zlen (b0 :: r) <=? i0); [discriminate|].
  set (lb := Z.of_N (nth (Z.to_nat i0) (b0 :: r) 0%N)).
  destruct (lb =? 128); [discriminate|].
  destruct (128 <? lb); [|trivial].
  destruct ((4 <? lb - 128) || (zlen (b0 :: r) <? i0 + 1 + (lb - 128))) eqn:E3; [discriminate|].
  apply orb_false_iff in E3 as [E3 E4]. rewrite E4.
  replace (8 <? lb - 128) with false by lia. trivial.
Qed.

Lemma tlv_hdr_props b c i l :
  tlv_hdr b = Some (c, i, l) ->
  gen_hdr 8 b = Some (c, i, l) /\ 2 <= i /\ 0 <= l /\ i + l <= zlen b.
Proof.
  unfold tlv_hdr. destruct (gen_hdr 4 b) as [[[c0 i0] l0]|] eqn:E; [|discriminate].
  destruct (zlen b - i0 <? l0) eqn:El; [discriminate|]. intros H; inversion H; subst.
  pose proof (gen_hdr_props _ _ _ _ _ E). split; [apply gen_hdr_mono; exact E | lia].
Qed.

Lemma zlen_skipn {A} n (l : list A) : zlen (skipn n l) <= zlen l.
Proof. unfold zlen. rewrite skipn_length. lia. Qed.

Lemma bnd_weaken B B' l : B <= B' -> Forall (bnd B) l -> Forall (bnd B') l.
Proof. intros H. apply Forall_impl. unfold bnd. intros; lia. Qed.

Lemma lib_allocs_nil fuel : lib_allocs fuel [] = [].
Proof. destruct fuel; reflexivity. Qed.

Lemma loop_bounded (inner : bytes -> bool) :
  (forall c, inner c = true -> forall fuel, Forall (bnd (zlen c)) (lib_allocs fuel c)) ->
  forall lf b, tlv_loop inner lf b = true -> forall fuel, Forall (bnd (zlen b)) (lib_allocs fuel b).
Proof.
  intros Hin. induction lf as [|lf IH]; intros b H fuel.
  - destruct b; [rewrite lib_allocs_nil; constructor | cbn in H; discriminate].
  - destruct b as [|x r]; [rewrite lib_allocs_nil; constructor|].
    cbn [tlv_loop] in H.
    destruct (tlv_hdr (x :: r)) as [[[c i] l]|] eqn:Eh; [|discriminate].
    apply andb_true_iff in H as [Hc Hrest].
    destruct (tlv_hdr_props _ _ _ _ Eh) as (Hg & Hi & Hl & Hfit).
    destruct fuel as [|f]; [constructor|].
    cbn [lib_allocs]. rewrite Hg.
    replace (zlen (x :: r) - i <? l) with false by lia.
    constructor; [unfold bnd; lia|].
    apply Forall_app. split.
    + destruct c; [|constructor].
      apply (bnd_weaken (zlen (slice (x :: r) i (i + l)))).
      * rewrite slice_length by lia. lia.
      * apply Hin. exact Hc.
    + apply (bnd_weaken (zlen (skipn (Z.to_nat (i + l)) (x :: r)))); [apply zlen_skipn|].
      apply IH. exact Hrest.
Qed.

(* tlvLengthsFit(b, depth) = true: whatever the library walks in b, every length it
   allocates is between 0 and len(b) *)
Lemma fit_bounded : forall d b,
  tlv_fit d b = true -> forall fuel, Forall (bnd (zlen b)) (lib_allocs fuel b).
Proof.
  induction d as [|d IH]; intros b H; [discriminate|].
  cbn [tlv_fit] in H. exact (loop_bounded (tlv_fit d) IH (length b) b H).
Qed.

Lemma bounded_fine B l : B <= MEM_SAFE -> Forall (bnd B) l -> Forall (fun L => alloc_verdict L = 0%N) l.
Proof.
  intros HB. apply Forall_impl. unfold bnd. intros L HL. apply alloc_small_fine. lia.
Qed.

Lemma wf_nth l k : wf_bytes l = true -> (nth k l 0 < 256)%N.
Proof.
  revert k. induction l as [|b r IH]; intros k H; [destruct k; cbn; lia|].
  cbn [wf_bytes forallb] in H. apply andb_true_iff in H as [Hb Hr].
  destruct k; cbn [nth]; [unfold byteb in Hb; lia | apply IH; exact Hr].
Qed.

Lemma snmp_buf_len dg : wf_bytes dg = true -> zlen (snmp_buf dg) <= 257.
Proof.
  intros H. unfold snmp_buf, zlen. pose proof (wf_nth dg 1 H).
  pose proof (firstn_le_length (2 + N.to_nat (nth 1 dg 0%N)) (dg ++ repeat 0%N (2 + N.to_nat (nth 1 dg 0%N)))). lia.
Qed.

Lemma snmp_never_fatal dg s : snmp_first dg <> Some (RFatal s).
Proof. unfold snmp_first. destruct (_ <? _)%nat; [discriminate|]. destruct (tlv_lengths_fit _); discriminate. Qed.

Lemma snmp_library_allocs_fine dg fuel :
  wf_bytes dg = true -> snmp_first dg = None ->
  Forall (fun L => alloc_verdict L = 0%N) (lib_allocs fuel (snmp_buf dg)).
Proof.
  intros Hwf H. unfold snmp_first in H. destruct (_ <? _)%nat; [discriminate|].
  destruct (tlv_lengths_fit (snmp_buf dg)) eqn:Ef; [|discriminate].
  apply (bounded_fine (zlen (snmp_buf dg))).
  - pose proof (snmp_buf_len dg Hwf). unfold MEM_SAFE. lia.
  - apply (fit_bounded 33). exact Ef.
Qed.

Lemma ldap_env_body_ok st n l buf :
  0 <= n <= 6 -> ldap_env_body st n l = EOk buf ->
  tlv_lengths_fit buf = true /\ zlen buf <= MAX_MSG + 6.
Proof.
  intros Hn. unfold ldap_env_body. destruct (MAX_MSG <? l) eqn:E1; [discriminate|].
  destruct (zlen st <? n + l); [discriminate|].
  destruct (tlv_lengths_fit _) eqn:Ef; [|discriminate]. intros H; inversion H; subst.
  split; [exact Ef|]. unfold zlen.
  pose proof (firstn_le_length (Z.to_nat (n + l)) st). unfold MAX_MSG in *. lia.
Qed.

Lemma ldap_envelope_ok st buf :
  ldap_envelope st = EOk buf -> tlv_lengths_fit buf = true /\ zlen buf <= MAX_MSG + 6.
Proof.
  unfold ldap_envelope. destruct st as [|b0 [|b1 r]]; try discriminate.
  destruct (N.land b0 31 =? 31)%N; [discriminate|].
  destruct (Z.of_N b1 =? 128); [discriminate|].
  destruct (128 <? Z.of_N b1) eqn:E.
  - destruct (4 <? Z.of_N b1 - 128) eqn:E4; [discriminate|].
    destruct (zlen r <? Z.of_N b1 - 128); [discriminate|].
    apply ldap_env_body_ok. lia.
  - apply ldap_env_body_ok. lia.
Qed.

Lemma ldap_never_fatal st s : ldap_first st <> Some (RFatal s).
Proof. unfold ldap_first. destruct (ldap_envelope st); discriminate. Qed.

Lemma ldap_library_allocs_fine st fuel :
  ldap_first st = None ->
  exists buf, ldap_envelope st = EOk buf /\ zlen buf <= MAX_MSG + 6 /\
              Forall (fun L => alloc_verdict L = 0%N) (lib_allocs fuel buf).
Proof.
  unfold ldap_first. destruct (ldap_envelope st) as [| | |buf] eqn:E; try discriminate. intros _.
  destruct (ldap_envelope_ok st buf E) as [Hf Hl].
  exists buf. split; [reflexivity|]. split; [exact Hl|].
  apply (bounded_fine (zlen buf)); [unfold MEM_SAFE, MAX_MSG in *; lia | apply (fit_bounded 33); exact Hf].
Qed.

(* indefinite-length headers - the former nesting witness - never reach the library *)
Lemma ldap_indefinite_refused b0 r : ldap_first (b0 :: 128%N :: r) = Some RErr.
Proof.
  unfold ldap_first, ldap_envelope. destruct (N.land b0 31 =? 31)%N; reflexivity.
Qed.

(* ------------------------------------------------------------------ *)
(* 7b. what an accepted buffer IS: a well-nested forest of TLVs within bounds, with the
   length octets exactly where BER (and the library) has them *)

Inductive wellnested : nat -> bytes -> Prop :=
| WN_nil : forall d, wellnested (S d) []
| WN_val : forall d b c i l,
    b <> [] ->
    tlv_hdr b = Some (c, i, l) ->
    (c = true -> wellnested d (slice b i (i + l))) ->
    wellnested (S d) (skipn (Z.to_nat (i + l)) b) ->
    wellnested (S d) b.

Lemma loop_wellnested d :
  (forall c, tlv_fit d c = true -> wellnested d c) ->
  forall f b, tlv_loop (tlv_fit d) f b = true -> wellnested (S d) b.
Proof.
  intros Hin. induction f as [|f IH]; intros b H.
  - destruct b; [constructor | cbn in H; discriminate].
  - destruct b as [|x r]; [constructor|]. cbn [tlv_loop] in H.
    destruct (tlv_hdr (x :: r)) as [[[c i] l]|] eqn:Eh; [|discriminate].
    apply andb_true_iff in H as [Hc Hr].
    apply (WN_val d (x :: r) c i l); [discriminate | exact Eh | | apply IH; exact Hr].
    intros ->. apply Hin. exact Hc.
Qed.

Lemma fit_wellnested : forall d b, tlv_fit d b = true -> wellnested d b.
Proof.
  induction d as [|d IH]; intros b H; [discriminate|].
  cbn [tlv_fit] in H. exact (loop_wellnested d IH _ _ H).
Qed.

Lemma loop_fuel_mono inner : forall f b, tlv_loop inner f b = true ->
  forall f', (f <= f')%nat -> tlv_loop inner f' b = true.
Proof.
  induction f as [|f IH]; intros b H f' Hf.
  - destruct b; [destruct f'; reflexivity | cbn in H; discriminate].
  - destruct b as [|x r]; [destruct f'; reflexivity|].
    destruct f' as [|f']; [lia|]. cbn [tlv_loop] in H |- *.
    destruct (tlv_hdr (x :: r)) as [[[c i] l]|]; [|discriminate].
    apply andb_true_iff in H as [Hc Hr]. rewrite Hc. cbn [andb]. apply (IH _ Hr). lia.
Qed.

(* the converse: the fuel len(b) of the loop is never the reason for a refusal *)
Lemma wellnested_fit : forall d b, wellnested d b -> tlv_fit d b = true.
Proof.
  intros d b H. induction H as [d|d b c i l Hne Hh Hc IHc Hr IHr].
  - reflexivity.
  - cbn [tlv_fit] in *. destruct b as [|x r]; [congruence|].
    destruct (tlv_hdr_props _ _ _ _ Hh) as (_ & Hi & Hl & Hfit).
    cbn [length tlv_loop]. rewrite Hh.
    assert (Hin : (if c then tlv_fit d (slice (x :: r) i (i + l)) else true) = true).
    { destruct c; [apply IHc; reflexivity | reflexivity]. }
    rewrite Hin. cbn [andb].
    apply (loop_fuel_mono _ _ _ IHr).
    rewrite skipn_length. cbn [length]. lia.
Qed.

Lemma cont_run_spec : forall r,
  0 <= cont_run r <= zlen r /\
  (forall j : nat, Z.of_nat j < cont_run r -> (128 <= nth j r 0)%N) /\
  (cont_run r < zlen r -> (nth (Z.to_nat (cont_run r)) r 0 < 128)%N).
Proof.
  induction r as [|b r (IH1 & IH2 & IH3)]; cbn [cont_run].
  - change (zlen (@nil N)) with 0. split; [lia|]. split; [intros; lia | intros; lia].
  - rewrite zlen_cons. destruct (128 <=? b)%N eqn:E.
    + split; [lia|]. split.
      * intros j Hj. destruct j as [|j]; cbn [nth]; [lia | apply IH2; lia].
      * intros H. replace (Z.to_nat (1 + cont_run r)) with (S (Z.to_nat (cont_run r))) by lia.
        cbn [nth]. apply IH3. lia.
    + split; [lia|]. split; [intros; lia|]. intros _. cbn. lia.
Qed.

Definition ident_len (b : bytes) : Z :=
  match b with
  | [] => 0
  | b0 :: r => if (N.land b0 31 =? 31)%N then 1 + cont_run r + 1 else 1
  end.

Definition high_form (b : bytes) : bool := (N.land (nth O b 0%N) 31 =? 31)%N.

(* where everything sits in an accepted header *)
Lemma tlv_hdr_shape b c i l :
  tlv_hdr b = Some (c, i, l) ->
  let k := ident_len b in
  1 <= k < zlen b /\
  (high_form b = true ->
     2 <= k /\
     (forall j : nat, (1 <= j)%nat -> Z.of_nat j < k - 1 -> (128 <= nth j b 0)%N) /\
     (nth (Z.to_nat (k - 1)%Z) b 0 < 128)%N) /\
  c = (N.land (nth O b 0%N) 32 =? 32)%N /\
  (let lb := Z.of_N (nth (Z.to_nat k) b 0%N) in
   (lb < 128 /\ i = k + 1 /\ l = lb) \/
   (128 < lb <= 132 /\ i = k + 1 + (lb - 128) /\ l = be_val (slice b (k + 1) i))) /\
  0 <= l /\ i + l <= zlen b.
Proof.
  intros H. cbv zeta. destruct (tlv_hdr_props _ _ _ _ H) as (_ & _ & Hl & Hfit).
  unfold tlv_hdr in H. destruct (gen_hdr 4 b) as [[[c0 i0] l0]|] eqn:E; [|discriminate].
  destruct (zlen b - i0 <? l0); [discriminate|]. inversion H; subst c0 i0 l0. clear H.
  unfold gen_hdr in E. destruct b as [|b0 r]; [discriminate|].
  cbn [ident_len].
  set (k := if (N.land b0 31 =? 31)%N then 1 + cont_run r + 1 else 1) in *.
  destruct (cont_run_spec r) as (Hr1 & Hr2 & Hr3).
  assert (Hk1 : 1 <= k) by (unfold k; destruct (N.land b0 31 =? 31)%N; lia).
  cbv zeta in E. destruct (zlen (b0 :: r) <=? k) eqn:E0; [discriminate|].
  split; [lia|].
  split.
  { intros Hh. unfold high_form in Hh. cbn [nth] in Hh. unfold k in *.
    destruct (N.land b0 31 =? 31)%N eqn:Eq; [|congruence]. split; [lia|]. split.
    - intros j Hj1 Hj2. destruct j as [|j]; [lia|]. cbn [nth]. apply Hr2. lia.
    - replace (Z.to_nat (1 + cont_run r + 1 - 1)) with (S (Z.to_nat (cont_run r))) by lia.
      cbn [nth]. apply Hr3. rewrite zlen_cons in E0. lia. }
  set (lb := Z.of_N (nth (Z.to_nat k) (b0 :: r) 0%N)) in *.
  destruct (lb =? 128) eqn:E1; [discriminate|].
  destruct (128 <? lb) eqn:E2.
  - destruct ((4 <? lb - 128) || (zlen (b0 :: r) <? k + 1 + (lb - 128))) eqn:E3; [discriminate|].
    apply orb_false_iff in E3 as [E3 E4]. injection E as Ec Ei El; subst c i l.
    split; [reflexivity|]. split; [right; split; [lia|]; split; [lia | reflexivity] | split; assumption].
  - injection E as Ec Ei El; subst c i l. split; [reflexivity|]. split; [left; split; [lia|]; split; [lia | reflexivity] | split; assumption].
Qed.

(* snmp hands a buffer to its library exactly when it is a well-nested forest *)
Lemma snmp_accepts_iff dg :
  snmp_first dg = None <-> (2 <= length dg)%nat /\ wellnested 33 (snmp_buf dg).
Proof.
  unfold snmp_first, tlv_lengths_fit. destruct (length dg <? 2)%nat eqn:E.
  - split; [discriminate | intros [H _]; apply Nat.ltb_lt in E; lia].
  - apply Nat.ltb_ge in E. destruct (tlv_fit 33 (snmp_buf dg)) eqn:Ef.
    + split; [intros _; split; [exact E | apply fit_wellnested; exact Ef] | reflexivity].
    + split; [discriminate | intros [_ H]; apply wellnested_fit in H; congruence].
Qed.

(* ... and ldap: an accepted envelope is one *)
Lemma ldap_accepts_wellnested st buf : ldap_envelope st = EOk buf -> wellnested 33 buf.
Proof. intros H. apply fit_wellnested. exact (proj1 (ldap_envelope_ok st buf H)). Qed.

(* ------------------------------------------------------------------ *)
(* 8. the full statement (spelled out; Properties.v names it C01_full) *)

Lemma full_holds :
  (forall ty p, ssh_request ty p = ROk) /\
  (forall rs, ssh_requests rs = ROk) /\
  (forall stream, vnc_handle stream = ROk) /\
  (forall dgss sched, trun (t_init (map (tftp_thread false) dgss)) sched <> TFatal) /\
  (forall dg, cs_handle dg = ROk \/ cs_handle dg = RPanic 1) /\
  (forall segs, adb_handle segs = ROk \/ adb_handle segs = RPanic 2) /\
  (forall accept_fails, psv_socket accept_fails = ROk) /\
  (forall dg s, snmp_first dg <> Some (RFatal s)) /\
  (forall dg fuel, wf_bytes dg = true -> snmp_first dg = None ->
     Forall (fun L => alloc_verdict L = 0%N) (lib_allocs fuel (snmp_buf dg))) /\
  (forall st s, ldap_first st <> Some (RFatal s)) /\
  (forall st fuel, ldap_first st = None ->
     exists buf, ldap_envelope st = EOk buf /\ zlen buf <= MAX_MSG + 6 /\
                 Forall (fun L => alloc_verdict L = 0%N) (lib_allocs fuel buf)).
Proof.
  split; [exact ssh_request_ok|]. split; [exact ssh_requests_ok|]. split; [exact vnc_handle_ok|].
  split; [exact tftp_no_schedule_fatal|]. split; [exact cs_never_fatal|]. split; [exact adb_never_fatal|].
  split; [exact psv_socket_ok|].
  split; [exact snmp_never_fatal|]. split; [exact snmp_library_allocs_fine|].
  split; [exact ldap_never_fatal | exact ldap_library_allocs_fine].
Qed.
