(* C01 - executable judgement of one scenario observed on the real server (lab child). *)
From HT Require Import Common.Bytes C17.Model C01.Model.
Open Scope Z_scope.

Record conn := mkConn { k_segs : list bytes; k_rep : N }.

Record case := mkCase {
  c_id : N;
  c_svc : N;                    (* 1 adb 2 counterstrike 3 cwmp 4 dns 5 docker 6 echo 7 elasticsearch 8 eos
                                   9 ethereum 10 ftp 11 http 12 https 13 ipp 14 ldap 15 memcached 16 ntp
                                   17 redis 18 smtp 19 snmp 20 ssh-auth 21 ssh-simulator 22 telnet 23 tftp 24 vnc *)
  c_udp : bool;
  c_stream : N;                 (* 1 dialogue 2 truncated 3 mutated 4 raw 5 corpus 6 ssh dialogue 8 tftp load 9 systematic BER 10 size 11 abandoned resource 12 concurrent rare branches / hot paths 13 declared sizes 14 key-sequence prefixes *)
  c_conns : list conn;          (* per connection: the writes (tcp) / datagrams (udp) *)
  c_ssh : list (N * bytes);     (* ssh dialogue: channel requests (type code, payload) *)
  c_sshchan : N;                (* 0 session, 1 direct-tcpip, 2 forwarded-tcpip, 3 other *)
  c_par : N;                    (* connections played concurrently *)
  c_rounds : N;
  (* observation *)
  o_conns : N;                  (* handler invocations *)
  o_fin : N;                    (* ... that returned *)
  o_evts : N;                   (* fatal-severity events = panics recovered by handle *)
  o_grow : bool;                (* live heap kept growing while all clients were idle *)
  o_probe : bool;               (* a fresh echo connection was served afterwards *)
  o_died : N;                   (* 0 alive 1 unrecovered panic 2 concurrent map access 3 out of memory
                                   4 stack overflow 5 other fatal error 6 other exit 7 heap ceiling *)
  o_replied : N                 (* connections on which the server wrote something (raw tcp) *)
}.

(* observation classes *)
Definition K_OK := 0%N.
Definition K_EVT := 1%N.      (* failure confined to the connection, reported *)
Definition K_STALL := 2%N.    (* a handler never returns, heap steady (not a C01 violation) *)
Definition K_GROW := 3%N.
Definition K_NOPROBE := 20%N.
Definition K_DIED (d : N) : N := (10 + d)%N.

Definition obs_class (c : case) : N :=
  if negb (o_died c =? 0)%N then K_DIED (o_died c)
  else if o_grow c then K_GROW
  else if (o_fin c <? o_conns c)%N then K_STALL
  else if negb (o_probe c) then K_NOPROBE
  else if (0 <? o_evts c)%N then K_EVT
  else K_OK.

(* the property on the observation itself: the process is alive, serves a fresh
   connection, and nothing keeps allocating once the clients are gone *)
Definition prop_b (c : case) : bool :=
  (o_died c =? 0)%N && negb (o_grow c) && o_probe c &&
  ((o_conns c <=? o_fin c)%N || ((c_svc c =? 10) && negb (c_stream c =? 11))%N).
(* ftp: a transfer command after PASV/EPSV waits for the data connection for at most the
   30 s passiveTimeout even when the client is gone - bounded, not "never"; that it does
   return is checked by the ftp-abandon-timeout scenarios (stream 11, hang limit 36 s) *)
(* last clause: every handler returned once its client was gone (a handler that spins for
   ever is a failure that is NOT confined to its connection: it keeps a goroutine and a
   processor busy for the life of the process) *)

(* ---- the model's prediction ---- *)
Definition class_of_res (r : res) : N :=
  match r with
  | ROk | RErr => K_OK
  | RPanic _ => K_EVT
  | RSpin => K_STALL
  | RFatal s =>
      if (s =? F_VNC_PUSHER)%N then K_DIED 1
      else if (s =? F_TFTP_MAP)%N then K_DIED 2
      else if (s =? F_ALLOC)%N then K_DIED 3
      else if (s =? F_STACK)%N then K_DIED 4
      else K_GROW
  end.

Definition stream_of (k : conn) : bytes := concat (k_segs k).

Definition maxN (l : list N) : N := fold_right N.max 0%N l.

Fixpoint all_some {A} (l : list (option A)) : option (list A) :=
  match l with
  | [] => Some []
  | None :: _ => None
  | Some a :: r => match all_some r with Some r' => Some (a :: r') | None => None end
  end.

(* tftp: the program of one source address (its datagrams are served one after the other) *)
Fixpoint tftp_thread (has : bool) (dgs : list bytes) : list mop :=
  match dgs with
  | [] => []
  | dg :: r =>
      let k := tftp_kind dg in
      let parsed := tftp_parsed dg in
      let last := (zlen dg - 4 <? 512) in
      let has' := if (k =? 2)%N then (has || parsed) else if (k =? 3)%N then (has && negb last) else has in
      tftp_prog k parsed has last ++ tftp_thread has' r
  end.

Definition no_rep (c : case) : bool := forallb (fun k => (k_rep k =? 0)%N) (c_conns c).

(* allowed observation classes, or None where the service core is not modelled *)
Definition predict (c : case) : option (list N) :=
  let svc := c_svc c in
  if ((svc =? 10) && (c_stream c =? 11))%N then Some [K_OK; K_EVT]   (* abandoned passive socket: psv_socket never fatal *)
  else if (c_stream c =? 10)%N then None      (* long runs: prefix not in the case; the observation alone is judged *)
  else if ((svc =? 14)%N && negb (c_udp c)) then
    match c_conns c with
    | [k] => match ldap_envelope (stream_of k) with
             | ERefused => Some [K_OK]                 (* also when the segment is repeated: the header decides *)
             | EShort | EMalformed => if (k_rep k =? 0)%N then Some [K_OK] else None
             | EOk _ => if (c_stream c =? 9)%N then Some [K_OK]   (* checked buffer: the library's allocations are bounded *)
                        else None                      (* the handlers go on *)
             end
    | _ => None
    end
  else if negb (no_rep c) then None
  else if (svc =? 2)%N then
    if c_udp c then Some [maxN (map class_of_res (flat_map (fun k => map cs_handle (k_segs k)) (c_conns c)))]
    else Some [K_OK]
  else if (svc =? 1)%N then
    if c_udp c then None
    else Some [maxN (map (fun k => class_of_res (adb_handle (reads_of (k_segs k)))) (c_conns c))]
  else if (svc =? 23)%N then
    if negb (c_udp c) then None else Some [K_OK]       (* every map access is under the mutex: see Properties *)
  else if (svc =? 24)%N then
    if c_udp c then None
    else Some [maxN (map (fun k => class_of_res (vnc_handle (stream_of k))) (c_conns c))]
  else if (svc =? 21)%N then
    match c_ssh c with
    | [] => None
    | rs => if negb (c_sshchan c =? 0)%N then Some [K_OK]
            else Some [class_of_res (ssh_requests rs)]
    end
  else if (svc =? 19)%N then
    if negb (c_udp c) then Some [K_OK]
    else match all_some (flat_map (fun k => map snmp_first (k_segs k)) (c_conns c)) with
         | Some rs => Some [maxN (map class_of_res rs)]
         | None => None
         end
  else if c_udp c then
    match thin_udp svc with
    | Some r => match c_conns c with
                | [] => None
                | _ => if forallb (fun k => match k_segs k with [] => true | _ => false end) (c_conns c) then None
                       else Some [class_of_res r]
                end
    | None => None
    end
  else None.

Definition mem_N (x : N) (l : list N) : bool := existsb (N.eqb x) l.

(* systematic BER against ldap: does the server answer?  The decision of readPacket +
   tlvLengthsFit (and of the library behind them) is compared, not only the outcome class. *)
Definition reply_mismatch (c : case) : bool :=
  if ((c_svc c =? 14) && (c_stream c =? 9))%N && negb (c_udp c) && (o_died c =? 0)%N then
    match c_conns c with
    | [k] => negb (Bool.eqb (0 <? o_replied c)%N (ldap_answers (stream_of k)))
    | _ => false
    end
  else false.

Definition mismatches (cs : list case) : list N :=
  map c_id (filter (fun c =>
    reply_mismatch c ||
    match predict c with
    | None => false
    | Some allowed => negb (mem_N (obs_class c) allowed)
    end) cs).

(* ---- signatures: every fatal observation is a violation; the finding classes only name it ---- *)
Definition SIG_DIED := 1%N.
Definition SIG_GROWTH := 2%N.
Definition SIG_NOPROBE := 3%N.
Definition SIG_SNMP_OOM := 10%N.
Definition SIG_LDAP_OOM := 11%N.
Definition SIG_SSH_LOOP := 12%N.
Definition SIG_IPP_LOOP := 13%N.
Definition SIG_VNC_PUSHER := 14%N.
Definition SIG_TFTP_MAP := 15%N.
Definition SIG_REDIS_STACK := 16%N.
Definition SIG_LDAP_STACK := 17%N.
Definition SIG_FTP_DATA_GOROUTINE := 18%N.
Definition SIG_STACK := 19%N.
Definition SIG_CONCURRENT_MAP := 20%N.
Definition SIG_NEVER_RETURNS := 21%N.

(* regression signature of the repaired loop: a dialogue with an env or exec request *)
Definition ssh_in_class (c : case) : bool :=
  existsb (fun r => ((fst r =? 1) || (fst r =? 2))%N) (c_ssh c).

Definition case_sig (c : case) : N :=
  let k := obs_class c in
  let svc := c_svc c in
  let growing := ((k =? K_GROW) || (k =? K_DIED 7))%N in
  if prop_b c then 0%N
  else if ((svc =? 19) && ((k =? K_DIED 3) || (k =? K_DIED 7)))%N then SIG_SNMP_OOM
  else if ((svc =? 14) && ((k =? K_DIED 3) || (k =? K_DIED 7)))%N then SIG_LDAP_OOM
  else if ((svc =? 21)%N && growing && ssh_in_class c) then SIG_SSH_LOOP
  else if ((svc =? 13)%N && growing) then SIG_IPP_LOOP
  else if ((svc =? 24) && (k =? K_DIED 1))%N && (1 <=? maxN (map (fun k => vnc_verdict (stream_of k)) (c_conns c)))%N then SIG_VNC_PUSHER
  else if ((svc =? 23) && (k =? K_DIED 2) && (2 <=? c_par c))%N then SIG_TFTP_MAP
  else if ((svc =? 17) && (k =? K_DIED 4))%N then SIG_REDIS_STACK
  else if ((svc =? 14) && (k =? K_DIED 4))%N then SIG_LDAP_STACK
  else if ((svc =? 10) && (k =? K_DIED 1))%N then SIG_FTP_DATA_GOROUTINE
  else if (k =? K_DIED 4)%N then SIG_STACK
  else if (k =? K_DIED 2)%N then SIG_CONCURRENT_MAP
  else if negb (o_died c =? 0)%N then SIG_DIED
  else if o_grow c then SIG_GROWTH
  else if (o_fin c <? o_conns c)%N then SIG_NEVER_RETURNS
  else SIG_NOPROBE.

Definition violations (cs : list case) : list (N * N) :=
  flat_map (fun c => let s := case_sig c in if (s =? 0)%N then [] else [(c_id c, s)]) cs.

(* tag: 0 = an unmodelled service simply served the scenario; otherwise 1 + class,
   + 100 when the case was compared with a model prediction *)
Definition tags (cs : list case) : list (N * N) :=
  map (fun c => (c_id c,
    match predict c with
    | Some _ => 101 + obs_class c
    | None => if (obs_class c =? 0)%N then 0 else 1 + obs_class c
    end)%N) cs.
