(* C01 - property theorems: no client traffic to an emulated service can terminate the process.
   Statements only; every proof is [exact lemma] (or a closed computation for a witness).
   The models follow /repo after the fix: commits 1603afd (ssh), 4aa01bd (vnc), 9cc3ebb (tftp),
   cb1bd7f (snmp), 59015c2 (ldap). *)
From HT Require Import Common.Bytes C17.Model C17.Proofs C01.Model C01.Check C01.Proofs.
Open Scope Z_scope.

(* ---- the full statement, on the modelled cores: no input, segmentation or schedule
   leads to an outcome that handle cannot confine; and whatever the two ASN.1 libraries
   allocate on a buffer the services hand them is an allocation the runtime satisfies ---- *)
Definition C01_full : Prop :=
  (forall ty p, ssh_request ty p = ROk) /\
  (forall rs, ssh_requests rs = ROk) /\
  (forall stream, vnc_handle stream = ROk) /\
  (forall dgss sched, trun (t_init (map (tftp_thread false) dgss)) sched <> TFatal) /\
  (forall dg, cs_handle dg = ROk \/ cs_handle dg = RPanic 1) /\
  (forall segs, adb_handle segs = ROk \/ adb_handle segs = RPanic 2) /\
  (forall accept_fails, psv_socket accept_fails = ROk) /\
  (forall dg s, snmp_first dg <> Some (RFatal s)) /\
  (forall dg fuel, wf_bytes dg = true -> snmp_first dg = None ->
     Forall (fun L => alloc_verdict L = 0%N) (lib_allocs fuel (snmp_buf dg))) /\
  (forall st s, ldap_first st <> Some (RFatal s)) /\
  (forall st fuel, ldap_first st = None ->
     exists buf, ldap_envelope st = EOk buf /\ zlen buf <= MAX_MSG + 6 /\
                 Forall (fun L => alloc_verdict L = 0%N) (lib_allocs fuel buf)).

(* ---- server/honeytrap.go handle: a failure inside Handle stays in the connection ---- *)
Theorem C01_handle_confines : forall found send_ok s,
  process_alive (server_handle found send_ok (RPanic s)) = true /\
  (found = true -> server_handle found send_ok (RPanic s) = (if send_ok then ClosedWithEvent else ClosedLogged)).
Proof. exact handle_confines. Qed.

(* the process goes down only through an outcome that recover cannot catch *)
Theorem C01_process_down_only_by_fatal : forall found send_ok r,
  process_alive (server_handle found send_ok r) = false <-> found = true /\ exists s, r = RFatal s.
Proof. exact process_down_iff. Qed.

(* every goroutine the 24 services start either has no panic site or recovers *)
Theorem C01_every_goroutine_guarded : forall g, In g goroutines -> unguarded g = false.
Proof. exact every_goroutine_guarded. Qed.

(* ---- ftp passive data socket: the accept goroutine outside every recover ---- *)
(* whatever Accept does (a client connects; nobody does within 30 s; the listener is closed
   because the socket is replaced, the session ends or Handle panicked): exactly one Done *)
Theorem C01_ftp_passive_socket_never_fatal : forall accept_fails, psv_socket accept_fails = ROk.
Proof. exact psv_socket_ok. Qed.

Theorem C01_ftp_passive_counter_balanced : forall accept_fails,
  wg_run 1 (psv_goroutine accept_fails) = Some 0.
Proof. exact psv_counter. Qed.

(* there is no slack: one more Done at any place of that goroutine is the unrecoverable panic *)
Theorem C01_ftp_passive_extra_done_is_fatal : forall accept_fails k,
  wg_run 1 (firstn k (psv_goroutine accept_fails) ++ WDone :: skipn k (psv_goroutine accept_fails)) = None.
Proof. exact wg_extra_done_panics. Qed.

(* ---- ssh-simulator env / exec ---- *)
(* from every decoder state the loop ends within avail+1 iterations; more fuel changes nothing *)
Theorem C01_ssh_loop_terminates : forall n d acc,
  wf d -> avail d < Z.of_nat n ->
  exists l, forall m, (n <= m)%nat -> ssh_loop m d acc = Done l.
Proof. exact ssh_loop_terminates. Qed.

(* the fuel bound used by the model suffices for every payload *)
Theorem C01_ssh_fuel_suffices : forall p,
  exists l, forall m, (ssh_fuel p <= m)%nat -> ssh_loop m (new_decoder p) [] = Done l.
Proof. exact ssh_fuel_suffices. Qed.

Theorem C01_ssh_request_never_fatal : forall ty p, ssh_request ty p = ROk.
Proof. exact ssh_request_ok. Qed.

Theorem C01_ssh_dialogue_never_fatal : forall rs, ssh_requests rs = ROk.
Proof. exact ssh_requests_ok. Qed.

(* ---- tftp: the shared map under every interleaving of any number of connections ---- *)
Theorem C01_tftp_no_schedule_fatal : forall dgss sched,
  trun (t_init (map (tftp_thread false) dgss)) sched <> TFatal.
Proof. exact tftp_no_schedule_fatal. Qed.

(* the invariant behind it, for any well-locked programs: one step keeps it and is not fatal *)
Theorem C01_tftp_mutual_exclusion : forall s i,
  tinv s -> tstep s i <> TFatal /\ (forall s', tstep s i = TRun s' -> tinv s').
Proof. exact tstep_inv. Qed.

(* ---- vnc ---- *)
(* every stream: whatever pixel formats and update requests in whatever order *)
Theorem C01_vnc_never_fatal : forall stream, vnc_handle stream = ROk.
Proof. exact vnc_handle_ok. Qed.

Theorem C01_vnc_pusher_failure_needs_update_request : forall stream,
  vnc_verdict stream <> 0%N -> v_pusher (vp_state (vnc_parse stream)) = true.
Proof. exact vnc_verdict_needs_pusher. Qed.

Theorem C01_vnc_failing_formats : forall f,
  push_fails f = false <->
  pf_tc f <> 0%N /\ (is_thousands f = true \/ pf_bpp f = 32 \/ pf_bpp f = 16 \/ pf_bpp f = 8)%N.
Proof. exact push_fails_spec. Qed.

(* ---- counterstrike, adb: at worst a recoverable panic ---- *)
Theorem C01_counterstrike_never_fatal : forall dg, cs_handle dg = ROk \/ cs_handle dg = RPanic 1.
Proof. exact cs_never_fatal. Qed.

Theorem C01_adb_never_fatal : forall segs, adb_handle segs = ROk \/ adb_handle segs = RPanic 2.
Proof. exact adb_never_fatal. Qed.

(* ---- snmp, ldap: the structural check in front of the ASN.1 libraries ---- *)
Theorem C01_alloc_fatal_iff : forall L, alloc_verdict L = 2%N <-> MEM_SURE < L <= MAXALLOC.
Proof. exact alloc_fatal_iff. Qed.

Theorem C01_alloc_small_fine : forall L, 0 <= L <= MEM_SAFE -> alloc_verdict L = 0%N.
Proof. exact alloc_small_fine. Qed.

(* tlvLengthsFit(b, depth) = true (any depth budget): every length the library allocates
   while walking b - to any depth and extent - lies between 0 and len b *)
Theorem C01_tlv_lengths_fit_bounds_allocations : forall d b,
  tlv_fit d b = true -> forall fuel, Forall (fun L => 0 <= L <= zlen b) (lib_allocs fuel b).
Proof. exact fit_bounded. Qed.

(* an accepted buffer is exactly a well-nested forest of definite-length values, each inside
   its container, at most [d] levels deep - for all byte strings; the fuel of the model's loop
   is never the reason for a refusal *)
Theorem C01_accepted_buffer_is_wellnested : forall d b, tlv_fit d b = true <-> wellnested d b.
Proof. intros d b. split; [exact (fit_wellnested d b) | exact (wellnested_fit d b)]. Qed.

(* where the octets of an accepted header sit: identifier of [k] octets (high-tag-number form:
   tag octets 1..k-1, all but the last with the top bit set), the length octet at index k - never
   a tag octet -, short form or long form with 1..4 octets, content inside the container *)
Theorem C01_tlv_header_shape : forall b c i l,
  tlv_hdr b = Some (c, i, l) ->
  let k := ident_len b in
  1 <= k < zlen b /\
  (high_form b = true ->
     2 <= k /\
     (forall j : nat, (1 <= j)%nat -> Z.of_nat j < k - 1 -> (128 <= nth j b 0)%N) /\
     (nth (Z.to_nat (k - 1)%Z) b 0 < 128)%N) /\
  c = (N.land (nth O b 0%N) 32 =? 32)%N /\
  (let lb := Z.of_N (nth (Z.to_nat k) b 0%N) in
   (lb < 128 /\ i = k + 1 /\ l = lb) \/
   (128 < lb <= 132 /\ i = k + 1 + (lb - 128) /\ l = be_val (slice b (k + 1) i))) /\
  0 <= l /\ i + l <= zlen b.
Proof. exact tlv_hdr_shape. Qed.

(* snmp: the library sees a datagram's buffer exactly when that buffer is such a forest,
   whatever the PDU tag and wherever a value sits in the message *)
Theorem C01_snmp_accepted_buffer_is_wellnested : forall dg,
  snmp_first dg = None <-> (2 <= length dg)%nat /\ wellnested 33 (snmp_buf dg).
Proof. exact snmp_accepts_iff. Qed.

Theorem C01_ldap_accepted_buffer_is_wellnested : forall st buf,
  ldap_envelope st = EOk buf -> wellnested 33 buf.
Proof. exact ldap_accepts_wellnested. Qed.

Theorem C01_snmp_never_fatal : forall dg s, snmp_first dg <> Some (RFatal s).
Proof. exact snmp_never_fatal. Qed.

Theorem C01_snmp_library_allocations_fine : forall dg fuel,
  wf_bytes dg = true -> snmp_first dg = None ->
  Forall (fun L => alloc_verdict L = 0%N) (lib_allocs fuel (snmp_buf dg)).
Proof. exact snmp_library_allocs_fine. Qed.

Theorem C01_ldap_envelope_checked : forall st buf,
  ldap_envelope st = EOk buf -> tlv_lengths_fit buf = true /\ zlen buf <= MAX_MSG + 6.
Proof. exact ldap_envelope_ok. Qed.

Theorem C01_ldap_never_fatal : forall st s, ldap_first st <> Some (RFatal s).
Proof. exact ldap_never_fatal. Qed.

Theorem C01_ldap_library_allocations_fine : forall st fuel,
  ldap_first st = None ->
  exists buf, ldap_envelope st = EOk buf /\ zlen buf <= MAX_MSG + 6 /\
              Forall (fun L => alloc_verdict L = 0%N) (lib_allocs fuel buf).
Proof. exact ldap_library_allocs_fine. Qed.

(* the indefinite form, by which the nesting witness opened its levels, is refused at once *)
Theorem C01_ldap_indefinite_refused : forall b0 r, ldap_first (b0 :: 128%N :: r) = Some RErr.
Proof. exact ldap_indefinite_refused. Qed.

(* the full statement holds of the code as it is now, for every modelled service *)
Theorem C01_full_holds : C01_full.
Proof. exact full_holds. Qed.

(* non-vacuity: the former witnesses are decided before the libraries; a well-formed
   request passes the check and the library's allocations on it are listed *)
Example C01_nonvacuous :
  snmp_first [48; 133; 64; 0; 0; 0; 0]%N = Some ROk /\
  ldap_first [4; 133; 64; 0; 0; 0; 0]%N = Some RErr /\
  ldap_first [48; 128; 48; 128]%N = Some RErr /\
  snmp_first [48; 3; 2; 1; 0]%N = None /\
  snmp_first [48; 20; 2; 1; 0; 4; 6; 112; 117; 98; 108; 105; 99; 160; 7; 2; 133; 64; 0; 0; 0; 0]%N = Some ROk /\
  lib_allocs 5 (snmp_buf [48; 3; 2; 1; 0]%N) = [3; 1] /\
  ldap_first [48; 5; 2; 1; 5; 66; 0]%N = None /\
  ldap_first ([48; 20] ++ LDAP_PREFIX ++ [31; 6; 133; 64; 0; 0; 0; 0])%N = Some RErr /\
  ldap_answers ([48; 17] ++ LDAP_PREFIX ++ [31; 129; 6; 1; 170])%N = true /\
  ldap_answers ([48; 17] ++ LDAP_PREFIX ++ [31; 128; 6; 1; 170])%N = false /\
  ssh_loop 2 (new_decoder [1]%N) [] = Done [] /\
  ssh_loop 3 (new_decoder [0; 0; 0; 1; 65; 0; 0; 0]%N) [] = Done [[65%N]].
Proof. vm_compute. repeat split; reflexivity. Qed.

Print Assumptions C01_handle_confines.
Print Assumptions C01_process_down_only_by_fatal.
Print Assumptions C01_every_goroutine_guarded.
Print Assumptions C01_ftp_passive_socket_never_fatal.
Print Assumptions C01_ftp_passive_counter_balanced.
Print Assumptions C01_ftp_passive_extra_done_is_fatal.
Print Assumptions C01_ssh_loop_terminates.
Print Assumptions C01_ssh_fuel_suffices.
Print Assumptions C01_ssh_request_never_fatal.
Print Assumptions C01_ssh_dialogue_never_fatal.
Print Assumptions C01_tftp_no_schedule_fatal.
Print Assumptions C01_tftp_mutual_exclusion.
Print Assumptions C01_vnc_never_fatal.
Print Assumptions C01_vnc_pusher_failure_needs_update_request.
Print Assumptions C01_vnc_failing_formats.
Print Assumptions C01_counterstrike_never_fatal.
Print Assumptions C01_adb_never_fatal.
Print Assumptions C01_alloc_fatal_iff.
Print Assumptions C01_alloc_small_fine.
Print Assumptions C01_tlv_lengths_fit_bounds_allocations.
Print Assumptions C01_accepted_buffer_is_wellnested.
Print Assumptions C01_tlv_header_shape.
Print Assumptions C01_snmp_accepted_buffer_is_wellnested.
Print Assumptions C01_ldap_accepted_buffer_is_wellnested.
Print Assumptions C01_snmp_never_fatal.
Print Assumptions C01_snmp_library_allocations_fine.
Print Assumptions C01_ldap_envelope_checked.
Print Assumptions C01_ldap_never_fatal.
Print Assumptions C01_ldap_library_allocations_fine.
Print Assumptions C01_ldap_indefinite_refused.
Print Assumptions C01_full_holds.
