(* C01 - property theorems: no client traffic to an emulated service can terminate the process.
   Statements only; every proof is [exact lemma] (or a closed computation for a witness). *)
From HT Require Import Common.Bytes C17.Model C17.Proofs C01.Model C01.Check C01.Proofs.
Open Scope Z_scope.

(* ---- the full statement, on the modelled cores ---- *)
Definition C01_full : Prop :=
  (forall ty p s, ssh_request ty p <> RFatal s) /\
  (forall stream, vnc_verdict stream = 0%N) /\
  (forall dgss sched, trun (mkT (map (tftp_thread false) dgss) false) sched <> TFatal) /\
  (forall dg s, snmp_first dg <> Some (RFatal s)) /\
  (forall st s, ldap_first st <> Some (RFatal s)).

(* ---- server/honeytrap.go handle: a failure inside Handle stays in the connection ---- *)
Theorem C01_handle_confines : forall found send_ok s,
  process_alive (server_handle found send_ok (RPanic s)) = true /\
  (found = true -> server_handle found send_ok (RPanic s) = (if send_ok then ClosedWithEvent else ClosedLogged)).
Proof. exact handle_confines. Qed.

(* the process goes down only through an outcome that recover cannot catch *)
Theorem C01_process_down_only_by_fatal : forall found send_ok r,
  process_alive (server_handle found send_ok r) = false <-> found = true /\ exists s, r = RFatal s.
Proof. exact process_down_iff. Qed.

(* of the goroutines the 24 services start, exactly one has a panic site and no recover *)
Theorem C01_only_unguarded_goroutine : filter unguarded goroutines = [(24, 481, false, true)%N].
Proof. exact only_unguarded_goroutine. Qed.

(* ---- ssh-simulator env / exec ---- *)
(* with 1..3 bytes left the loop never ends and its slice gains one element per iteration *)
Theorem C01_ssh_stuck_diverges : forall fuel d acc,
  wf d -> 1 <= avail d <= 3 ->
  exists l, ssh_loop fuel d acc = OutOfFuel l /\ length l = (length acc + fuel)%nat.
Proof. exact ssh_loop_stuck. Qed.

(* the fuel used by the model decides for every payload: either the loop ends (and more
   fuel changes nothing) or it runs for ever, allocating without bound *)
Theorem C01_ssh_fuel_decides : forall p,
  (exists l, forall m, (ssh_fuel p <= m)%nat -> ssh_loop m (new_decoder p) [] = Done l) \/
  (forall m, exists l, ssh_loop m (new_decoder p) [] = OutOfFuel l /\ length l = m).
Proof. exact ssh_fuel_decides. Qed.

Theorem C01_ssh_fatal_is_the_loop : forall ty p s,
  ssh_request ty p = RFatal s ->
  s = F_SSH_LOOP /\ (ty = 1 \/ ty = 2)%N /\
  forall m, exists l, ssh_loop m (new_decoder p) [] = OutOfFuel l /\ length l = m.
Proof. exact ssh_request_fatal. Qed.

Theorem C01_ssh_ok_terminates : forall ty p,
  ssh_request ty p = ROk -> (ty = 1 \/ ty = 2)%N ->
  exists l, forall m, (ssh_fuel p <= m)%nat -> ssh_loop m (new_decoder p) [] = Done l.
Proof. exact ssh_request_ok. Qed.

Theorem C01_ssh_no_other_outcome : forall ty p,
  ssh_request ty p = ROk \/ ssh_request ty p = RFatal F_SSH_LOOP.
Proof. exact ssh_request_range. Qed.

Theorem C01_ssh_refuted : exists ty p, ssh_request ty p = RFatal F_SSH_LOOP /\ length p = 1%nat.
Proof. exists 1%N, [1%N]. vm_compute. split; reflexivity. Qed.

(* ---- tftp: the shared map under every interleaving ---- *)
Theorem C01_tftp_no_writer_safe : forall sched ts,
  Forall (fun t => has_write t = false) ts -> trun (mkT ts false) sched <> TFatal.
Proof. exact tftp_no_writer_safe_aux. Qed.

Theorem C01_tftp_single_connection_safe : forall dgs sched,
  trun (mkT [tftp_thread false dgs] false) sched <> TFatal.
Proof. intros dgs sched. exact (tftp_single_safe_aux sched _ false (tftp_thread_wb dgs false)). Qed.

Theorem C01_tftp_race_refuted :
  let wrq := [0; 2; 97; 0; 111; 0]%N in
  exists sched, trun (mkT (map (tftp_thread false) [[wrq]; [wrq]]) false) sched = TFatal.
Proof. exists [0; 0; 0; 1; 1; 1]%nat. vm_compute. reflexivity. Qed.

(* ---- vnc ---- *)
Theorem C01_vnc_needs_update_request : forall stream,
  vnc_verdict stream <> 0%N -> v_pusher (vp_state (vnc_parse stream)) = true.
Proof. exact vnc_verdict_needs_pusher. Qed.

Theorem C01_vnc_failing_formats : forall f,
  push_fails f = false <->
  pf_tc f <> 0%N /\ (is_thousands f = true \/ pf_bpp f = 32 \/ pf_bpp f = 16 \/ pf_bpp f = 8)%N.
Proof. exact push_fails_spec. Qed.

Theorem C01_vnc_refuted :
  let hello := V8 ++ [1; 1]%N in
  let palette := [0; 0;0;0; 8;8;0;0; 0;7;0;7;0;3; 0;3;6; 0;0;0]%N in
  let update := [3; 0; 0;0;0;0;0;8;0;6]%N in
  vnc_verdict (hello ++ palette ++ update) = 2%N /\ vnc_verdict (hello ++ update ++ palette) = 2%N /\
  vnc_verdict (hello ++ palette) = 0%N /\ vnc_verdict (hello ++ update) = 0%N.
Proof. vm_compute. repeat split; reflexivity. Qed.

(* ---- counterstrike, adb: at worst a recoverable panic ---- *)
Theorem C01_counterstrike_never_fatal : forall dg, cs_handle dg = ROk \/ cs_handle dg = RPanic 1.
Proof. exact cs_never_fatal. Qed.

Theorem C01_adb_never_fatal : forall segs, adb_handle segs = ROk \/ adb_handle segs = RPanic 2.
Proof. exact adb_never_fatal. Qed.

(* ---- declared-length allocation (snmp, ldap) ---- *)
Theorem C01_alloc_fatal_iff : forall L, alloc_verdict L = 2%N <-> MEM_SURE < L <= MAXALLOC.
Proof. exact alloc_fatal_iff. Qed.

Theorem C01_alloc_small_fine : forall L, 0 <= L <= MEM_SAFE -> alloc_verdict L = 0%N.
Proof. exact alloc_small_fine. Qed.

Theorem C01_snmp_refuted : snmp_first [48; 133; 64; 0; 0; 0; 0]%N = Some (RFatal F_ALLOC).
Proof. vm_compute. reflexivity. Qed.

Theorem C01_ldap_refuted : ldap_first [4; 133; 64; 0; 0; 0; 0]%N = Some (RFatal F_ALLOC).
Proof. vm_compute. reflexivity. Qed.

(* the full statement does not hold of the code as it is *)
Theorem C01_full_refuted : ~ C01_full.
Proof.
  intros (H & _). apply (H 1%N [1%N] F_SSH_LOOP). vm_compute. reflexivity.
Qed.

(* non-vacuity: a decoder state meeting the hypotheses of the divergence theorem, and a
   payload on which the loop ends *)
Example C01_stuck_nonvacuous :
  let d := new_decoder [0; 0; 0; 1; 65; 7]%N in
  wf (fst (pd_string d)) /\ avail (fst (pd_string d)) = 1 /\ ssh_request 2 [0; 0; 0; 1; 65]%N = ROk.
Proof. vm_compute. repeat split; discriminate. Qed.

Print Assumptions C01_handle_confines.
Print Assumptions C01_process_down_only_by_fatal.
Print Assumptions C01_only_unguarded_goroutine.
Print Assumptions C01_ssh_stuck_diverges.
Print Assumptions C01_ssh_fuel_decides.
Print Assumptions C01_ssh_fatal_is_the_loop.
Print Assumptions C01_ssh_ok_terminates.
Print Assumptions C01_ssh_no_other_outcome.
Print Assumptions C01_ssh_refuted.
Print Assumptions C01_tftp_no_writer_safe.
Print Assumptions C01_tftp_single_connection_safe.
Print Assumptions C01_tftp_race_refuted.
Print Assumptions C01_vnc_needs_update_request.
Print Assumptions C01_vnc_failing_formats.
Print Assumptions C01_vnc_refuted.
Print Assumptions C01_counterstrike_never_fatal.
Print Assumptions C01_adb_never_fatal.
Print Assumptions C01_alloc_fatal_iff.
Print Assumptions C01_alloc_small_fine.
Print Assumptions C01_snmp_refuted.
Print Assumptions C01_ldap_refuted.
Print Assumptions C01_full_refuted.
