(* C01 - property theorems. *)
From HT Require Import Common.Bytes C17.Model C01.Model C01.Check C01.Proofs.
Open Scope Z_scope.

Theorem C01_handle_confines : forall found send_ok s,
  process_alive (server_handle found send_ok (RPanic s)) = true.
Proof. exact handle_confines. Qed.

Print Assumptions C01_handle_confines.
