(* C01 - no client traffic to an emulated service can terminate the process.
   Executable definitions only.

   Modelled here (branch by branch, as the code is now):
     server/honeytrap.go  handle: the two deferred recover frames
     services/ssh/ssh-simulator.go  payloadDecoder.String and the env/exec loops
     services/tftp.go  the map operations of Handle under interleaving
     services/vnc/rfb.go  handshake, command loop, pushFramesLoop/pushImage/pushGenericLocked
     services/counterstrike.go, services/adb.go  slicing/indexing of the first packet(s)
     services/snmp/snmp.go tlvLengthsFit, services/ldap/conn.go readPacket + tlvLengthsFit,
        and the allocations the two ASN.1 libraries perform on a checked buffer
     services/echo.go, ntp.go, dns.go behind server.TimeoutConn (the type tests fail)
   The model follows the code after the fix: commits 1603afd (ssh loop stops on a decoder
   error), 4aa01bd (vnc pusher recovers), 9cc3ebb (tftp mutex), 4b4eb8c (dns decodes),
   cb1bd7f (snmp length pre-check), 59015c2 (ldap bounded envelope reader),
   dae22fe (DummyUDPConn.Read ends with io.EOF).
   Everything else (net/http, x/crypto/ssh, encoding/xml/json, miekg/dns, the rest of
   the two asn1 libraries, the Go runtime) is not modelled: see props/C01.json. *)
From HT Require Import Common.Bytes C17.Model.
Open Scope Z_scope.

(* ------------------------------------------------------------------ *)
(* 1. outcome lattice and the server's handle wrapper                   *)

(* what running Service.Handle on one connection amounts to *)
Inductive res :=
| ROk              (* returned nil *)
| RErr             (* returned an error *)
| RPanic (s : N)   (* panic in the Handle goroutine itself *)
| RSpin            (* never returns, allocates nothing further *)
| RFatal (s : N).  (* not recoverable by handle: panic in a goroutine the service started
                      without recover, runtime fatal error, allocation without bound *)

(* fatal sites *)
Definition F_SSH_LOOP := 1%N.       (* ssh-simulator env/exec: slice grows for ever *)
Definition F_VNC_PUSHER := 2%N.     (* failf in pushFramesLoop goroutine *)
Definition F_TFTP_MAP := 3%N.       (* concurrent map access *)
Definition F_ALLOC := 4%N.          (* allocation of a client-declared length: out of memory *)
Definition F_IPP_GROUPS := 5%N.     (* ipp message loop appended groups for ever: repaired in /repo (02601aa) *)
Definition F_IPP_BOOL := 6%N.       (* ipp boolean value loop appended for ever: repaired in /repo (2160ad7);
                                       both kept for the regression signature ipp-decode-loop *)

Inductive conn_end :=
| Closed             (* connection closed, nothing reported *)
| ClosedWithEvent    (* closed and a fatal-severity event sent on the bus *)
| ClosedLogged       (* closed; sending the event failed abruptly too, the outer frame logged it *)
| NeverClosed        (* the handler goroutine stays for ever *)
| ProcessDown (s : N).

(* handle(): defer #1 recover+log; defer #2 conn.Close(); defer #3 recover+bus.Send.
   [found] = findService returned a service; [send_ok] = bus.Send itself does not panic. *)
Definition server_handle (found send_ok : bool) (r : res) : conn_end :=
  if negb found then Closed
  else match r with
       | ROk | RErr => Closed
       | RPanic _ => if send_ok then ClosedWithEvent else ClosedLogged
       | RSpin => NeverClosed
       | RFatal s => ProcessDown s
       end.

Definition process_alive (e : conn_end) : bool :=
  match e with ProcessDown _ => false | _ => true end.

(* goroutines started by the 24 services ([go] statements): (service, line, has its own
   recover, body contains a panic site reachable from client input) *)
Definition goroutines : list (N * N * bool * bool) :=
  [ (24, 91, true, true)      (* vnc.go: go c.serve() *)
  ; (24, 103, false, false)   (* vnc.go: frame feeder (channel ops only) *)
  ; (24, 496, true, true)     (* rfb.go: go c.pushFramesLoop() -> pushImage -> failf; recovers (4aa01bd) *)
  ; (10, 133, false, false)   (* ftp.go: event pump over the connection's command channel *)
  ; (10, 199, false, false)   (* ftp/socket.go: passive accept; its only shared-state operation is
                                 wg.Done, modelled below (psv_goroutine) *)
  ; (18, 142, false, false)   (* smtp.go: event pump *)
  ; (21, 195, false, false)   (* ssh-simulator: ssh.DiscardRequests (library) *)
  ; (20, 112, false, false)   (* ssh-auth: ssh.DiscardRequests (library) *)
  ]%N.

Definition unguarded (g : N * N * bool * bool) : bool :=
  let '(_, _, rec, pan) := g in negb rec && pan.

(* has the goroutine started at (service, line) a recover of its own? (absent: no) *)
Definition goroutine_recovers (svc line : N) : bool :=
  existsb (fun g => let '(s, l, rec, _) := g in (s =? svc)%N && (l =? line)%N && rec) goroutines.

(* a panic inside a goroutine the service started: confined iff that goroutine recovers *)
Definition spawned_panic (svc line site : N) : res :=
  if goroutine_recovers svc line then ROk else RFatal site.

(* ftp passive data socket (ftp/socket.go GoListenAndServe): wg.Add(1), then a goroutine
   outside every recover: defer listener.Close(); defer wg.Done(); Accept; on error record
   it and return.  sync.WaitGroup panics ("negative WaitGroup counter") when Done brings the
   counter below zero - in that goroutine, i.e. process-fatal.  The Accept fails when nobody
   connects within 30 s, or when the listener is closed because the socket is replaced
   (PASV/EPSV/PORT/EPRT), the session ends (QUIT, client gone) or Handle panicked. *)
Inductive wgop := WDone | WOther.

Definition F_FTP_WG := 8%N.

(* the goroutine's operations for either outcome of Accept; the deferred calls run last *)
Definition psv_goroutine (accept_fails : bool) : list wgop :=
  (if accept_fails then [WOther] (* socket.err = err *) else [WOther; WOther; WOther]) ++
  [WDone] (* deferred wg.Done *) ++ [WOther] (* deferred listener.Close *).

Fixpoint wg_run (counter : Z) (ops : list wgop) : option Z :=   (* None = the panic *)
  match ops with
  | [] => Some counter
  | WOther :: r => wg_run counter r
  | WDone :: r => if counter - 1 <? 0 then None else wg_run (counter - 1) r
  end.

(* one passive socket from creation (Add(1)) to the end of its goroutine *)
Definition psv_socket (accept_fails : bool) : res :=
  match wg_run 1 (psv_goroutine accept_fails) with
  | Some _ => ROk
  | None => RFatal F_FTP_WG
  end.

(* ------------------------------------------------------------------ *)
(* 2. ssh-simulator: payloadDecoder.String and the env / exec loops     *)

(* String(): length := int(Uint32()); payload := Copy(length) *)
Definition pd_string (d : dec) : dec * bytes :=
  let '(d1, l) := read_prim d 4 false false in
  match copy d1 l with
  | (d2, VBytes b) => (d2, b)
  | (d2, _) => (d2, [])
  end.

Inductive loop_res := Done (payloads : list bytes) | OutOfFuel (payloads : list bytes).

(* for { if Available() == 0 { break }; payload := String();
         if LastError() != nil { break }; payloads = append(payloads, payload) }
   [acc] is the slice built so far, newest first *)
Fixpoint ssh_loop (fuel : nat) (d : dec) (acc : list bytes) : loop_res :=
  match fuel with
  | O => OutOfFuel acc
  | S f => if avail d =? 0 then Done acc
           else let '(d', s) := pd_string d in
                if d_err d' then Done acc else ssh_loop f d' (s :: acc)
  end.

Definition ssh_fuel (payload : bytes) : nat := S (length payload).

(* request types: 1 env, 2 exec, 3 shell, 4 pty-req, 5 subsystem, 6 tcpip-forward, 7 other *)
Definition ssh_request (ty : N) (payload : bytes) : res :=
  if ((ty =? 1) || (ty =? 2))%N then
    match ssh_loop (ssh_fuel payload) (new_decoder payload) [] with
    | Done _ => ROk
    | OutOfFuel _ => RFatal F_SSH_LOOP
    end
  else ROk.

(* requests are served one after the other by the Handle goroutine *)
Fixpoint ssh_requests (rs : list (N * bytes)) : res :=
  match rs with
  | [] => ROk
  | (ty, p) :: r => match ssh_request ty p with ROk => ssh_requests r | x => x end
  end.


(* ------------------------------------------------------------------ *)
(* 3. tftp: Handle's operations on the shared [buffers] map             *)

Inductive mop :=
| MOther      (* anything that is not a map access *)
| MRead       (* lookup *)
| MWBegin     (* map assignment / delete enters (sets the writing flag) *)
| MWEnd       (* ... and leaves *)
| MLock       (* s.mu.Lock(): blocks while another goroutine holds the mutex *)
| MUnlock.

(* packet kinds: 1 RRQ, 2 WRQ, 3 DATA, 4 ACK, 5 ERROR, other; [has] = a buffer exists for
   the sender, [last] = DATA shorter than 512 bytes; [parsed] = the strings were read *)
Definition tftp_prog (kind : N) (parsed has last : bool) : list mop :=
  if (kind =? 2)%N then
    if parsed then [MOther; MOther; MLock; MWBegin; MWEnd; MUnlock] else [MOther]
  else if (kind =? 3)%N then
    if negb parsed then [MOther]
    else [MLock; MRead] ++ (if has && last then [MWBegin; MWEnd] else []) ++ [MUnlock; MOther]
  else [MOther].

Record tstate := mkT { t_threads : list (list mop); t_writing : bool; t_owner : option nat }.

Inductive tres := TRun (s : tstate) | TFatal.

Fixpoint set_nth {A} (i : nat) (x : A) (l : list A) : list A :=
  match l, i with
  | [], _ => []
  | _ :: r, O => x :: r
  | y :: r, S j => y :: set_nth j x r
  end.

(* one scheduler choice: thread [i] performs its next operation (a thread waiting for
   the mutex does not move).  The runtime's check: any map access while another goroutine
   is inside a map write is a fatal error. *)
Definition tstep (s : tstate) (i : nat) : tres :=
  match nth i (t_threads s) [] with
  | [] => TRun s
  | o :: t' =>
      let ts' := set_nth i t' (t_threads s) in
      match o with
      | MOther => TRun (mkT ts' (t_writing s) (t_owner s))
      | MRead => if t_writing s then TFatal else TRun (mkT ts' false (t_owner s))
      | MWBegin => if t_writing s then TFatal else TRun (mkT ts' true (t_owner s))
      | MWEnd => TRun (mkT ts' false (t_owner s))
      | MLock => match t_owner s with
                 | None => TRun (mkT ts' (t_writing s) (Some i))
                 | Some _ => TRun s
                 end
      | MUnlock => TRun (mkT ts' (t_writing s) None)
      end
  end.

Fixpoint trun (s : tstate) (sched : list nat) : tres :=
  match sched with
  | [] => TRun s
  | i :: r => match tstep s i with TFatal => TFatal | TRun s' => trun s' r end
  end.

Definition t_init (ts : list (list mop)) : tstate := mkT ts false None.

(* the decoded kind of a datagram the way Handle sees it *)
Definition has_zero (l : bytes) : bool := existsb (fun b => (b =? 0)%N) l.
Fixpoint after_zero (l : bytes) : bytes :=
  match l with [] => [] | b :: r => if (b =? 0)%N then r else after_zero r end.

Definition tftp_kind (dg : bytes) : N := nth 1 dg 0%N.
Definition tftp_parsed (dg : bytes) : bool :=
  let k := tftp_kind dg in
  let body := skipn 2 dg in
  if (k =? 2)%N then has_zero body && has_zero (after_zero body)
  else if (k =? 3)%N then (2 <? zlen dg)   (* the block number read fails with io.EOF on a bare opcode;
                                               an empty data block is tolerated (dae22fe + tftp.go) *)
  else true.

(* ------------------------------------------------------------------ *)
(* 4. vnc                                                               *)

Record pixfmt := mkPF { pf_bpp : N; pf_depth : N; pf_tc : N;
                        pf_rmax : N; pf_gmax : N; pf_bmax : N;
                        pf_rs : N; pf_gs : N; pf_bs : N }.

Definition pf_default : pixfmt := mkPF 16 16 1 31 31 31 10 5 0.

Definition is_thousands (f : pixfmt) : bool :=
  ((pf_bpp f =? 16) && ((pf_depth f =? 16) || (pf_depth f =? 15)) && negb (pf_tc f =? 0) &&
   (pf_rmax f =? 31) && (pf_gmax f =? 31) && (pf_bmax f =? 31) &&
   (pf_rs f =? 10) && (pf_gs f =? 5) && (pf_bs f =? 0))%N.

(* pushImage on the RGBA frame: failf sites *)
Definition push_fails (f : pixfmt) : bool :=
  ((pf_tc f =? 0) ||
   (negb (is_thousands f) && negb ((pf_bpp f =? 32) || (pf_bpp f =? 16) || (pf_bpp f =? 8))))%N.

Definition u16 (l : bytes) : N := Z.to_N (be_val (firstn 2 l)).

(* the state of one rfb connection as far as failures go *)
Record vstate := mkV { v_fmt : pixfmt; v_pusher : bool; v_danger : bool }.
(* v_danger: at some point the pusher goroutine was alive while the format made pushImage fail *)

Definition v_note (s : vstate) : vstate :=
  mkV (v_fmt s) (v_pusher s) (v_danger s || (v_pusher s && push_fails (v_fmt s))).

Inductive vparse :=
| VEnd (s : vstate) (complete : bool)   (* stream used up; complete = no message cut short *)
| VFail (s : vstate).                   (* serve() panicked (recovered there): teardown *)

Definition take (n : nat) (l : bytes) : option (bytes * bytes) :=
  if (n <=? length l)%nat then Some (firstn n l, skipn n l) else None.

(* the command loop; fuel = number of bytes (every message consumes at least one) *)
Fixpoint vnc_cmds (fuel : nat) (s : vstate) (l : bytes) : vparse :=
  match fuel with
  | O => VEnd s true
  | S f =>
    match l with
    | [] => VEnd s true
    | c :: r =>
      if (c =? 0)%N then            (* SetPixelFormat: 3 pad, 13 format bytes, 3 pad *)
        match take 19 r with
        | None => VEnd s false
        | Some (m, r') =>
            let b := skipn 3 m in
            let pf := mkPF (nth 0 b 0) (nth 1 b 0) (nth 3 b 0) (u16 (skipn 4 b)) (u16 (skipn 6 b)) (u16 (skipn 8 b))
                          (nth 10 b 0) (nth 11 b 0) (nth 12 b 0) in
            vnc_cmds f (v_note (mkV pf (v_pusher s) (v_danger s))) r'
        end%N
      else if (c =? 2)%N then       (* SetEncodings: pad, count, count * int32 *)
        match take 3 r with
        | None => VEnd s false
        | Some (m, r') =>
            match take (4 * N.to_nat (u16 (skipn 1 m))) r' with
            | None => VEnd s false
            | Some (_, r'') => vnc_cmds f s r''
            end
        end
      else if (c =? 3)%N then       (* FramebufferUpdateRequest: the first one starts the pusher *)
        let s1 := v_note (mkV (v_fmt s) true (v_danger s)) in
        match take 9 r with
        | None => VEnd s1 false
        | Some (_, r') => vnc_cmds f s1 r'
        end
      else if (c =? 4)%N then match take 7 r with None => VEnd s false | Some (_, r') => vnc_cmds f s r' end
      else if (c =? 5)%N then match take 5 r with None => VEnd s false | Some (_, r') => vnc_cmds f s r' end
      else VFail s
    end
  end.

Definition V3 : bytes := [82;70;66;32;48;48;51;46;48;48;51;10]%N.   (* "RFB 003.003\n" *)
Definition V7 : bytes := [82;70;66;32;48;48;51;46;48;48;55;10]%N.
Definition V8 : bytes := [82;70;66;32;48;48;51;46;48;48;56;10]%N.

Fixpoint upto_nl (l : bytes) : option (bytes * bytes) :=
  match l with
  | [] => None
  | b :: r => if (b =? 10)%N then Some ([b], r)
              else match upto_nl r with Some (a, r') => Some (b :: a, r') | None => None end
  end.

Definition v_init : vstate := mkV pf_default false false.

(* ClientInit (one byte) then the command loop; every message consumes >= 1 byte *)
Definition vnc_client_init (r : bytes) : vparse :=
  match r with
  | [] => VEnd v_init false
  | _ :: r2 => vnc_cmds (S (length r2)) v_init r2
  end.

(* handshake: version line, (>= 3.7) the wanted security type, then ClientInit *)
Definition vnc_parse (stream : bytes) : vparse :=
  match upto_nl stream with
  | None => VEnd v_init false
  | Some (ver, r) =>
      if eqb_bytes ver V3 then vnc_client_init r
      else if eqb_bytes ver V7 || eqb_bytes ver V8 then
        match r with
        | [] => VEnd v_init false
        | w :: r' => if (w =? 1)%N then vnc_client_init r' else VFail v_init
        end
      else VFail v_init
  end.

(* three-valued verdict for one connection whose client lingers after its last byte:
   2 = the pusher goroutine panics for sure (state at rest is dangerous),
   1 = it may (a dangerous state was passed through, or teardown races the pusher),
   0 = it cannot *)
Definition vnc_verdict (stream : bytes) : N :=
  match vnc_parse stream with
  | VEnd s _ => if v_pusher s && push_fails (v_fmt s) then 2 else if v_danger s then 1 else 0
  | VFail s => if v_danger s then 1 else 0
  end%N.

(* what the connection amounts to: a failf in the pusher goroutine is a panic in a
   goroutine the service started (rfb.go:496) *)
Definition vnc_handle (stream : bytes) : res :=
  if (vnc_verdict stream =? 0)%N then ROk else spawned_panic 24 496 F_VNC_PUSHER.

(* ------------------------------------------------------------------ *)
(* 5. counterstrike and adb: slicing of the received packet             *)

(* buf = make(1024)[:n]; buf[0:4] is within capacity (zero padded); buf[4] needs n > 4 *)
Definition cs_handle (dg : bytes) : res :=
  let n := length dg in
  let buf := firstn 1024 dg in
  let head := firstn 4 (buf ++ [0;0;0;0]%N) in
  if eqb_bytes head [255;255;255;255]%N || eqb_bytes head [255;255;255;254]%N then
    if (length buf <=? 4)%nat then RPanic 1 else ROk
  else ROk.

(* adb: one conn.Read per segment into a reused 4096-byte buffer (a short read leaves
   the tail of the previous packet in place) *)
Definition overlay (seg old : bytes) : bytes := seg ++ skipn (length seg) old.

Definition CNXN : bytes := [67;78;88;78]%N.
Definition OPEN_ : bytes := [79;80;69;78]%N.
Definition WRTE : bytes := [87;82;84;69]%N.
Definition CLSE : bytes := [67;76;83;69]%N.
Definition OKAY : bytes := [79;75;65;89]%N.

Definition pad4 (buf : bytes) : bytes := firstn 4 (buf ++ [0;0;0;0]%N).

Fixpoint adb_loop (buf : bytes) (segs : list bytes) : res :=
  match segs with
  | [] => ROk                                   (* EOF *)
  | s :: r =>
      let buf' := overlay s buf in
      let cmd := pad4 buf' in
      if eqb_bytes cmd OPEN_ || eqb_bytes cmd WRTE then
        if (length s <? 24)%nat then RPanic 2 else adb_loop buf' r
      else if eqb_bytes cmd CLSE then ROk
      else adb_loop buf' r
  end.

Definition adb_handle (segs : list bytes) : res :=
  match segs with
  | [] => ROk
  | s :: r =>
      if negb (eqb_bytes (pad4 s) CNXN) then ROk
      else if (length s <? 24)%nat then RPanic 2
      else adb_loop s r
  end.

(* a Read returns at most 4096 bytes of one segment *)
Fixpoint chunk (fuel : nat) (n : nat) (s : bytes) : list bytes :=
  match fuel with
  | O => [s]
  | S f => if (length s <=? n)%nat then [s] else firstn n s :: chunk f n (skipn n s)
  end.
Definition reads_of (segs : list bytes) : list bytes :=
  flat_map (fun s => chunk (length s) 4096 s) segs.

(* ------------------------------------------------------------------ *)
(* 6. snmp and ldap: the structural check before the ASN.1 libraries (cb1bd7f, 59015c2) *)

(* the runtime's verdict on make([]byte, L): 0 fine, 1 recoverable panic, 2 out of
   memory (fatal), 3 depends on the machine *)
Definition MAXALLOC : Z := 2 ^ 48.       (* runtime maxAlloc on amd64: beyond it makeslice panics *)
Definition MEM_SURE : Z := 2 ^ 36.       (* no lab machine satisfies one allocation above this *)
Definition MEM_SAFE : Z := 2 ^ 26.       (* ... and every one satisfies one below this *)

Definition alloc_verdict (L : Z) : N :=
  if L <? 0 then 1%N else if MAXALLOC <? L then 1%N
  else if MEM_SURE <? L then 2%N else if MEM_SAFE <? L then 3%N else 0%N.

Definition F_STACK := 7%N.            (* goroutine stack limit exceeded (former ldap nesting defect) *)

(* number of leading bytes with the top bit set *)
Fixpoint cont_run (l : bytes) : Z :=
  match l with
  | b :: r => if (128 <=? b)%N then 1 + cont_run r else 0
  | [] => 0
  end.

(* one BER header at the start of b, read with at most [maxoct] length octets:
   (constructed, offset of the content, declared length).  No check that the content is
   there.  None: header incomplete, indefinite form, or too many length octets. *)
Definition gen_hdr (maxoct : Z) (b : bytes) : option (bool * Z * Z) :=
  match b with
  | [] => None
  | b0 :: r =>
      let i := if (N.land b0 31 =? 31)%N then 1 + cont_run r + 1 else 1 in   (* high tag number form *)
      if zlen b <=? i then None
      else
        let lb := Z.of_N (nth (Z.to_nat i) b 0%N) in
        let i1 := i + 1 in
        let c := (N.land b0 32 =? 32)%N in
        if lb =? 128 then None
        else if 128 <? lb then
          let n := lb - 128 in
          if (maxoct <? n) || (zlen b <? i1 + n) then None
          else Some (c, i1 + n, be_val (slice b i1 (i1 + n)))
        else Some (c, i1, lb)
  end.

(* tlvLengthsFit's view of a header: at most 4 length octets and the content must be there *)
Definition tlv_hdr (b : bytes) : option (bool * Z * Z) :=
  match gen_hdr 4 b with
  | Some (c, i, l) => if zlen b - i <? l then None else Some (c, i, l)
  | None => None
  end.

(* the for loop of tlvLengthsFit over the values of one container; [inner] checks the
   content of a constructed value one level down.  Every iteration consumes >= 2 bytes:
   fuel = len b. *)
Fixpoint tlv_loop (inner : bytes -> bool) (fuel : nat) (b : bytes) : bool :=
  match b with
  | [] => true
  | _ :: _ =>
      match fuel with
      | O => false
      | S f =>
          match tlv_hdr b with
          | None => false
          | Some (c, i, l) =>
              (if c then inner (slice b i (i + l)) else true) &&
              tlv_loop inner f (skipn (Z.to_nat (i + l)) b)
          end
      end
  end.

(* tlvLengthsFit(b, depth) with levels = 33 - depth: "if depth > 32 { return false }" *)
Fixpoint tlv_fit (levels : nat) (b : bytes) : bool :=
  match levels with
  | O => false
  | S d => tlv_loop (tlv_fit d) (length b) b
  end.

Definition tlv_lengths_fit (b : bytes) : bool := tlv_fit 33 b.

(* what the libraries do with a buffer: they read a header (up to 8 length octets), allocate
   the declared length, and only then find out whether the content is there; constructed
   content and the following values are walked the same way.  The list of all lengths
   they allocate (any fuel = any depth/extent of the walk). *)
Fixpoint lib_allocs (fuel : nat) (b : bytes) : list Z :=
  match fuel with
  | O => []
  | S f =>
      match b with
      | [] => []
      | _ :: _ =>
          match gen_hdr 8 b with
          | None => []
          | Some (c, i, l) =>
              l :: (if zlen b - i <? l then []
                    else (if c then lib_allocs f (slice b i (i + l)) else []) ++
                         lib_allocs f (skipn (Z.to_nat (i + l)) b))
          end
      end
  end.

(* snmp: buf = make(2+hdr[1]) filled from the datagram (zero padded) *)
Definition snmp_buf (dg : bytes) : bytes :=
  let n := (2 + N.to_nat (nth 1 dg 0%N))%nat in
  firstn n (dg ++ repeat 0%N n).

(* Some = decided before the library sees anything; None = the library decodes buf *)
Definition snmp_first (dg : bytes) : option res :=
  if (length dg <? 2)%nat then Some RErr                    (* Peek(2) fails *)
  else if tlv_lengths_fit (snmp_buf dg) then None
  else Some ROk.                                            (* "Invalid ASN.1": return nil *)

(* ldap readPacket: the envelope *)
Definition MAX_MSG : Z := 2 ^ 20.

Inductive envelope :=
| ERefused          (* by what the header says *)
| EShort            (* the stream ends first (Peek / ReadFull error) *)
| EMalformed        (* tlvLengthsFit says no *)
| EOk (buf : bytes).

Definition ldap_env_body (stream : bytes) (n l : Z) : envelope :=
  if MAX_MSG <? l then ERefused
  else if zlen stream <? n + l then EShort
  else let buf := firstn (Z.to_nat (n + l)) stream in
       if tlv_lengths_fit buf then EOk buf else EMalformed.

Definition ldap_envelope (stream : bytes) : envelope :=
  match stream with
  | b0 :: b1 :: r =>
      if (N.land b0 31 =? 31)%N then ERefused
      else let l := Z.of_N b1 in
           if l =? 128 then ERefused
           else if 128 <? l then
             let k := l - 128 in
             if 4 <? k then ERefused
             else if zlen r <? k then EShort
             else ldap_env_body stream (2 + k) (be_val (firstn (Z.to_nat k) r))
           else ldap_env_body stream 2 l
  | _ => EShort
  end.

(* what go-asn1-ber itself refuses in a buffer whose lengths fit: a high tag number whose
   first tag octet carries no value bits, more than 9 tag octets, and an end-of-contents
   value (identifier 00, length 0) as a child of a definite-length value *)
Definition ident_ok (b : bytes) : bool :=
  match b with
  | [] => false
  | b0 :: r =>
      if (N.land b0 31 =? 31)%N
      then negb (N.land (nth 0 r 0%N) 127 =? 0)%N && (cont_run r + 1 <=? 9)
      else true
  end.

Fixpoint lib_ok_loop (inner : bytes -> bool) (child : bool) (fuel : nat) (b : bytes) : bool :=
  match b with
  | [] => true
  | b0 :: _ =>
      match fuel with
      | O => false
      | S f =>
          match gen_hdr 8 b with
          | None => false
          | Some (c, i, l) =>
              if zlen b - i <? l then false
              else ident_ok b &&
                   negb (child && (b0 =? 0)%N && (l =? 0)) &&
                   (if c then inner (slice b i (i + l)) else true) &&
                   lib_ok_loop inner child f (skipn (Z.to_nat (i + l)) b)
          end
      end
  end.

Fixpoint lib_ok (levels : nat) (child : bool) (b : bytes) : bool :=
  match levels with
  | O => false
  | S d => lib_ok_loop (lib_ok d true) child (length b) b
  end.

(* the well-formed request the systematic scenarios start with: messageID 1, anonymous bind *)
Definition LDAP_PREFIX : bytes := [2; 1; 1; 96; 7; 2; 1; 3; 4; 0; 128; 0]%N.

(* does the server answer the first message of the stream?  It does when readPacket
   hands a buffer to the library, the library decodes it, and it is an LDAPMessage
   (universal sequence) that starts with that request (bind handler replies). *)
Definition ldap_answers (stream : bytes) : bool :=
  match ldap_envelope stream with
  | EOk buf =>
      lib_ok 40 false buf &&
      match gen_hdr 8 buf with
      | Some (_, i, _) => (nth 0 buf 0 =? 48)%N &&
                          eqb_bytes (firstn 12 (skipn (Z.to_nat i) buf)) LDAP_PREFIX
      | None => false
      end
  | _ => false
  end.

(* the first message of a connection: refused => Handle returns the error *)
Definition ldap_first (stream : bytes) : option res :=
  match ldap_envelope stream with
  | EOk _ => None
  | _ => Some RErr
  end.

(* ------------------------------------------------------------------ *)
(* 7. echo / ntp over udp behind server.TimeoutConn                      *)
(* the wrapper hides *DummyUDPConn from echo's type test, so both services run
   io.Copy over the datagram connection.  Since dae22fe DummyUDPConn.Read reports io.EOF
   once the datagram is consumed: the copy ends after one round (before, Read returned
   (0, nil) for ever and the handler spun: RSpin). *)
Definition udp_read_after_drain_is_eof : bool := true.

Definition thin_udp (svc : N) : option res :=
  if ((svc =? 6) || (svc =? 16))%N then           (* echo: io.Copy(conn, conn); ntp: io.Copy(os.Stdout, conn) *)
    Some (if udp_read_after_drain_is_eof then ROk else RSpin)
  else None.                                      (* dns decodes the query since 4b4eb8c (miekg/dns): not modelled *)
