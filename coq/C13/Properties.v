(* C13 - property theorems.
   Code side: served / read_handshake / recorded / parse_hello / ja3_string (Model.v, as coded
   in /repo after fixes fea246c and a08b807).
   Specification side: hello / encode_hello / fragment / spec_ja3 / spec_sni (Model.v).
   C13_full is the property at full strength; it is proved (C13_full_holds). *)
From HT Require Import Common.Bytes C13.Model C13.Check C13.Proofs.
Open Scope N_scope.

Definition C13_full : Prop := full_statement.

(* every well-formed hello, whatever its legacy version, compression offer or
   renegotiation_info, and however it is cut into handshake records: the events of the
   connection carry the specification's JA3 string (its MD5) and the SNI sent *)
Theorem C13_full_holds : C13_full.
Proof. exact full_statement_holds. Qed.

(* the same, unfolded *)
Theorem C13_served_is_spec : forall h vers cuts,
  wf_hello h = true -> vers < 4096 ->
  Forall (fun r => blen (r_payload r) <= MAX_PLAINTEXT) (fragment vers cuts (encode_hello h)) ->
  served (fragment vers cuts (encode_hello h)) = Ok (Some (spec_ja3 h, spec_sni h)).
Proof. exact served_fragment_hello. Qed.

(* the parser extracts exactly the fields of the hello that was encoded *)
Theorem C13_parse_of_encode : forall h,
  wf_hello h = true -> parse_hello (encode_hello h) = Ok (info_of h).
Proof. exact parse_encode. Qed.

(* every well-formed hello reaches the callback: JA3 string of exactly its fields, SNI sent *)
Theorem C13_recorded_and_sni : forall h,
  wf_hello h = true ->
  recorded (encode_hello h) = Ok (Some (ja3_string (info_of h), spec_sni h)).
Proof. exact recorded_encode. Qed.

(* any cut of the hello into handshake records reassembles to the same message *)
Theorem C13_fragmentation_transparent : forall h vers cuts,
  wf_hello h = true -> vers < 4096 ->
  Forall (fun r => blen (r_payload r) <= MAX_PLAINTEXT) (fragment vers cuts (encode_hello h)) ->
  read_handshake (fragment vers cuts (encode_hello h)) [] 0 = Some (encode_hello h).
Proof. exact read_fragment_hello. Qed.

(* ClientHelloInfo.JA3 is the specification's function, for all hellos *)
Theorem C13_ja3_is_spec : forall h, ja3_string (info_of h) = spec_ja3 h.
Proof. exact ja3_is_spec. Qed.

(* the specification's string does not depend on the GREASE values chosen ... *)
Theorem C13_spec_grease_invariant : forall h1 h2,
  same_modulo_grease h1 h2 = true -> spec_ja3 h1 = spec_ja3 h2.
Proof. exact spec_grease_invariant. Qed.

(* ... and neither does the string the code computes *)
Theorem C13_code_grease_invariant : forall h1 h2,
  same_modulo_grease h1 h2 = true -> ja3_string (info_of h1) = ja3_string (info_of h2).
Proof. exact code_grease_invariant. Qed.

(* the table in JA3() is exactly the RFC 8701 set *)
Theorem C13_grease_table_is_rfc8701 : forall v, in_grease_table v = is_grease v.
Proof. exact grease_table_spec. Qed.

(* the string determines the version and the four GREASE-free lists: two hellos get the same
   digest only if these agree, or through an MD5 collision *)
Theorem C13_string_determines_fields : forall h1 h2,
  ja3_string (info_of h1) = ja3_string (info_of h2) ->
  h_vers h1 = h_vers h2 /\ no_grease (h_ciphers h1) = no_grease (h_ciphers h2) /\
  no_grease (map ext_type (exts_of h1)) = no_grease (map ext_type (exts_of h2)) /\
  no_grease (spec_groups h1) = no_grease (spec_groups h2) /\ spec_points h1 = spec_points h2.
Proof. exact code_ja3_inj. Qed.

(* the string of the former defect (signature 1 of Check.v) can differ from the specification's
   only on hellos with GREASE among ciphers or curves: the signature stays narrow *)
Theorem C13_former_defect_class : forall h,
  existsb is_grease (h_ciphers h) = false -> existsb is_grease (spec_groups h) = false ->
  ja3_exts_only h = spec_ja3 h.
Proof. exact exts_only_is_spec. Qed.

(* the fuel given to the loops of the model always suffices *)
Theorem C13_fuel_suffices : forall recs, served recs <> Fuel.
Proof. exact served_fuel. Qed.

(* non-vacuity 1: a Chrome-like hello with GREASE in ciphers, extensions and curves, an SNI list
   with a non-host entry first, duplicate unknown extensions, no null compression offered and a
   non-empty renegotiation_info, cut into four records (one of them empty) *)
Example C13_nonvacuous :
  let h := mkHello 771 w_random (repeat 9 32) [2570; 49195; 49199; 255; 22016] [1]
             (Some [ERaw 6682 []; ESni [(3, [120]); (0, w_name)]; ERaw 23 []; ERaw 65281 [2; 7; 7];
                    EGroups [10794; 29; 23]; EPoints [0; 1]; ERaw 16 [0;3;2;104;50]; ERaw 4660 [1]; ERaw 4660 []]) in
  let cuts := [1; 0; 70]%nat in
  wf_hello h = true /\ frag_ok 768 cuts (encode_hello h) /\
  length (fragment 768 cuts (encode_hello h)) = 4%nat /\
  served (fragment 768 cuts (encode_hello h)) = Ok (Some (spec_ja3 h, w_name)) /\
  spec_ja3 h = [55;55;49;44; 52;57;49;57;53;45;52;57;49;57;57;45;50;53;53;45;50;50;48;49;54;44;
                48;45;50;51;45;54;53;50;56;49;45;49;48;45;49;49;45;49;54;45;52;54;54;48;45;52;54;54;48;44;
                50;57;45;50;51;44; 48;45;49].
Proof.
  cbv zeta. repeat split; try (vm_compute; congruence).
  repeat constructor; vm_compute; congruence.
Qed.

(* non-vacuity 2: the hellos of the two former defects now get the specification's fingerprint:
   GREASE variants of one hello the same string, an SSL 3.0 hello its own *)
Example C13_former_witnesses :
  served (fragment 769 [] (encode_hello (w_hello 2570 6682 10794))) =
  served (fragment 769 [] (encode_hello (w_hello 64250 31354 51914))) /\
  served (fragment 769 [] (encode_hello (w_hello 2570 6682 10794))) =
    Ok (Some ([55;55;49;44;52;57;49;57;53;44;48;45;49;48;45;49;49;44;50;57;44;48], w_name)) /\
  served (fragment 768 [] (encode_hello (mkHello 768 w_random [] [10; 5] [0] None))) =
    Ok (Some ([55;54;56;44;49;48;45;53;44;44;44], [])).
Proof. repeat split; vm_compute; reflexivity. Qed.

Print Assumptions C13_full_holds.
Print Assumptions C13_served_is_spec.
Print Assumptions C13_parse_of_encode.
Print Assumptions C13_recorded_and_sni.
Print Assumptions C13_fragmentation_transparent.
Print Assumptions C13_ja3_is_spec.
Print Assumptions C13_spec_grease_invariant.
Print Assumptions C13_code_grease_invariant.
Print Assumptions C13_grease_table_is_rfc8701.
Print Assumptions C13_string_determines_fields.
Print Assumptions C13_former_defect_class.
Print Assumptions C13_fuel_suffices.
