(* C13 - property theorems.
   Code side: served / read_handshake / recorded / parse_hello / ja3_string (Model.v, as coded).
   Specification side: hello / encode_hello / fragment / spec_ja3 / spec_sni (Model.v).
   C13_full is the property at full strength.  The unchanged code violates it in two
   ways (GREASE kept in ciphers and curves; nothing recorded below TLS 1.0): both are
   refuted with replayable witnesses, and the property is proved outside them. *)
From HT Require Import Common.Bytes C13.Model C13.Check C13.Proofs.
Open Scope N_scope.

Definition C13_full : Prop := full_statement.

(* the parser extracts exactly the fields of the hello that was encoded *)
Theorem C13_parse_of_encode : forall h,
  wf_hello h = true -> parse_hello (encode_hello h) = Ok (info_of h).
Proof. exact parse_encode. Qed.

(* a negotiable hello of TLS 1.0 and up reaches the callback: the event carries the JA3
   string of exactly that hello's fields and the SNI sent *)
Theorem C13_recorded_and_sni : forall h,
  wf_hello h = true -> negotiable h = true -> MIN_VERSION <= h_vers h ->
  recorded (encode_hello h) = Ok (Some (ja3_string (info_of h), spec_sni h)).
Proof. exact recorded_encode. Qed.

(* any cut of the hello into handshake records reassembles to the same message *)
Theorem C13_fragmentation_transparent : forall h vers cuts,
  wf_hello h = true -> vers < 4096 ->
  Forall (fun r => blen (r_payload r) <= MAX_PLAINTEXT) (fragment vers cuts (encode_hello h)) ->
  read_handshake (fragment vers cuts (encode_hello h)) [] 0 = Some (encode_hello h).
Proof. exact read_fragment_hello. Qed.

(* what the code computes, on every such hello and fragmentation: GREASE is left out of the
   extension list only *)
Theorem C13_served_string : forall h vers cuts,
  wf_hello h = true -> negotiable h = true -> MIN_VERSION <= h_vers h -> vers < 4096 ->
  Forall (fun r => blen (r_payload r) <= MAX_PLAINTEXT) (fragment vers cuts (encode_hello h)) ->
  served (fragment vers cuts (encode_hello h)) = Ok (Some (ja3_exts_only h, spec_sni h)).
Proof. exact served_fragment_hello. Qed.

(* the property, outside the two findings *)
Theorem C13_outside_findings : forall h vers cuts,
  wf_hello h = true -> negotiable h = true -> MIN_VERSION <= h_vers h ->
  existsb is_grease (h_ciphers h) = false -> existsb is_grease (spec_groups h) = false ->
  frag_ok vers cuts (encode_hello h) ->
  served (fragment vers cuts (encode_hello h)) = Ok (Some (spec_ja3 h, spec_sni h)).
Proof. exact outside_findings. Qed.

(* finding 1: GREASE among cipher suites / curves stays in the string *)
Theorem C13_grease_refuted :
  exists h, wf_hello h = true /\ negotiable h = true /\ MIN_VERSION <= h_vers h /\
            frag_ok 769 [] (encode_hello h) /\
            exists s, served (fragment 769 [] (encode_hello h)) = Ok (Some (s, spec_sni h)) /\
                      s <> spec_ja3 h /\ s = ja3_exts_only h.
Proof. exact full_refuted_grease. Qed.

(* finding 2: a hello below TLS 1.0 is never recorded ... *)
Theorem C13_old_version_unrecorded : forall h vers cuts,
  wf_hello h = true -> h_vers h < MIN_VERSION -> frag_ok vers cuts (encode_hello h) ->
  served (fragment vers cuts (encode_hello h)) = Ok None.
Proof. exact old_version_unrecorded. Qed.

(* ... and such hellos exist inside the property's quantifier (SSL 3.0, no GREASE at all) *)
Theorem C13_old_version_refuted :
  exists h, wf_hello h = true /\ negotiable h = true /\ 768 <= h_vers h /\
            existsb is_grease (h_ciphers h) = false /\ existsb is_grease (spec_groups h) = false /\
            frag_ok 768 [] (encode_hello h) /\
            served (fragment 768 [] (encode_hello h)) = Ok None.
Proof. exact full_refuted_old_version. Qed.

Theorem C13_full_refuted : ~ C13_full.
Proof. exact full_statement_refuted. Qed.

(* the JA3 function itself: equal to the specification when ciphers and curves carry no GREASE *)
Theorem C13_ja3_is_spec_outside : forall h,
  existsb is_grease (h_ciphers h) = false -> existsb is_grease (spec_groups h) = false ->
  ja3_string (info_of h) = spec_ja3 h.
Proof. exact ja3_is_spec_outside. Qed.

(* the specification's string does not depend on the GREASE values chosen *)
Theorem C13_spec_grease_invariant : forall h1 h2,
  same_modulo_grease h1 h2 = true -> spec_ja3 h1 = spec_ja3 h2.
Proof. exact spec_grease_invariant. Qed.

(* the code's string does not depend on GREASE among the extension types ... *)
Theorem C13_code_ext_grease_invariant : forall h1 h2,
  h_vers h1 = h_vers h2 -> h_ciphers h1 = h_ciphers h2 ->
  same_mod_grease_list (map ext_type (exts_of h1)) (map ext_type (exts_of h2)) = true ->
  spec_groups h1 = spec_groups h2 -> spec_points h1 = spec_points h2 ->
  ja3_string (info_of h1) = ja3_string (info_of h2).
Proof. exact code_ext_grease_invariant. Qed.

(* ... but it does on GREASE among ciphers/curves *)
Theorem C13_grease_invariance_refuted :
  exists h1 h2, wf_hello h1 = true /\ wf_hello h2 = true /\ same_modulo_grease h1 h2 = true /\
                ja3_string (info_of h1) <> ja3_string (info_of h2).
Proof. exact grease_invariance_refuted. Qed.

(* the table in JA3() is exactly the RFC 8701 set *)
Theorem C13_grease_table_is_rfc8701 : forall v, in_grease_table v = is_grease v.
Proof. exact grease_table_spec. Qed.

(* the string determines the version and the four GREASE-free lists: two hellos get the same
   digest only if these agree, or through an MD5 collision *)
Theorem C13_string_determines_fields : forall h1 h2,
  spec_ja3 h1 = spec_ja3 h2 ->
  h_vers h1 = h_vers h2 /\ no_grease (h_ciphers h1) = no_grease (h_ciphers h2) /\
  no_grease (map ext_type (exts_of h1)) = no_grease (map ext_type (exts_of h2)) /\
  no_grease (spec_groups h1) = no_grease (spec_groups h2) /\ spec_points h1 = spec_points h2.
Proof. exact spec_ja3_inj. Qed.

(* the fuel given to the loops of the model always suffices *)
Theorem C13_fuel_suffices : forall recs, served recs <> Fuel.
Proof. exact served_fuel. Qed.

(* non-vacuity: a 40-suite Chrome-like hello without GREASE in ciphers/curves but with a GREASE
   extension, SNI, duplicate unknown extensions, cut into four records (one of them empty) *)
Example C13_nonvacuous :
  let h := mkHello 771 w_random (repeat 9 32) [49195; 49199; 255; 22016] [1; 0]
             (Some [ERaw 6682 []; ESni [(3, [120]); (0, w_name)]; ERaw 23 []; ERaw 65281 [0];
                    EGroups [29; 23]; EPoints [0; 1]; ERaw 16 [0;3;2;104;50]; ERaw 4660 [1]; ERaw 4660 []]) in
  let cuts := [1; 0; 70]%nat in
  wf_hello h = true /\ negotiable h = true /\ frag_ok 768 cuts (encode_hello h) /\
  length (fragment 768 cuts (encode_hello h)) = 4%nat /\
  served (fragment 768 cuts (encode_hello h)) = Ok (Some (spec_ja3 h, w_name)) /\
  spec_ja3 h = [55;55;49;44; 52;57;49;57;53;45;52;57;49;57;57;45;50;53;53;45;50;50;48;49;54;44;
                48;45;50;51;45;54;53;50;56;49;45;49;48;45;49;49;45;49;54;45;52;54;54;48;45;52;54;54;48;44;
                50;57;45;50;51;44; 48;45;49].
Proof.
  cbv zeta. repeat split; try (vm_compute; congruence).
  repeat constructor; vm_compute; congruence.
Qed.

Print Assumptions C13_parse_of_encode.
Print Assumptions C13_recorded_and_sni.
Print Assumptions C13_fragmentation_transparent.
Print Assumptions C13_served_string.
Print Assumptions C13_outside_findings.
Print Assumptions C13_grease_refuted.
Print Assumptions C13_old_version_unrecorded.
Print Assumptions C13_old_version_refuted.
Print Assumptions C13_full_refuted.
Print Assumptions C13_ja3_is_spec_outside.
Print Assumptions C13_spec_grease_invariant.
Print Assumptions C13_code_ext_grease_invariant.
Print Assumptions C13_grease_invariance_refuted.
Print Assumptions C13_grease_table_is_rfc8701.
Print Assumptions C13_string_determines_fields.
Print Assumptions C13_fuel_suffices.
