(* C13 - executable property on the implementation's observation of one connection. *)
From HT Require Import Common.Bytes C13.Model.
Open Scope N_scope.

Record case := mkCase {
  c_id : N;
  c_hello : option hello;   (* the structured hello the generator sent; None: malformed stream *)
  c_recs : list rec;        (* the TLS records written to the https service *)
  c_recorded : bool;        (* the https event carries a non-empty https.ja3-digest *)
  c_ja3 : bytes;            (* ClientHelloInfo.JA3() of the real stack for the same records *)
  c_sni : bytes;            (* https.server-name of the event *)
  c_digest_ok : bool        (* https.ja3-digest = hex(md5(c_ja3)) = JA3Digest(), computed with crypto/md5
                               in the harness (trivially true when nothing was recorded) *)
}.

(* 1 and 4 are the signatures of the two defects repaired in /repo (fea246c, a08b807): a
   regression is reported under the same name with the hello as replay *)
Definition SIG_GREASE_KEPT := 1.        (* the string keeps GREASE ciphers/curves, otherwise right *)
Definition SIG_JA3_WRONG := 2.          (* any other difference from the specification's string *)
Definition SIG_SNI := 3.                (* recorded server name <> SNI sent *)
Definition SIG_OLD_VERSION_UNRECORDED := 4.   (* hello below TLS 1.0: nothing recorded *)
Definition SIG_UNRECORDED := 5.         (* nothing recorded for a hello in scope *)
Definition SIG_DIGEST := 6.             (* digest is not the MD5 of the JA3 string *)

(* the hellos the property speaks about: every well-formed one, whatever the server would
   negotiate afterwards *)
Definition in_scope (h : hello) : bool := wf_hello h.

Definition case_sig (c : case) : N :=
  if negb (c_digest_ok c) then SIG_DIGEST else
  match c_hello c with
  | None => 0
  | Some h =>
      if negb (in_scope h) then 0
      else if negb (c_recorded c) then
        (if h_vers h <? MIN_VERSION then SIG_OLD_VERSION_UNRECORDED else SIG_UNRECORDED)
      else if negb (eqb_bytes (c_ja3 c) (spec_ja3 h)) then
        (if eqb_bytes (c_ja3 c) (ja3_exts_only h) then SIG_GREASE_KEPT else SIG_JA3_WRONG)
      else if negb (eqb_bytes (c_sni c) (spec_sni h)) then SIG_SNI
      else 0
  end.

Definition violations (cs : list case) : list (N * N) :=
  flat_map (fun c => let s := case_sig c in if s =? 0 then [] else [(c_id c, s)]) cs.

(* correspondence: the model run on the records sent predicts the observation; and the
   records of a structured case carry exactly the specification's encoding of the hello *)
Definition model_agrees (c : case) : bool :=
  match served (c_recs c) with
  | Fuel => false
  | Reject => false
  | Ok None => negb (c_recorded c)
  | Ok (Some (s, n)) => c_recorded c && eqb_bytes s (c_ja3 c) && eqb_bytes n (c_sni c)
  end &&
  match c_hello c with
  | None => true
  | Some h =>
      match read_handshake (c_recs c) [] 0 with
      | Some m => eqb_bytes m (encode_hello h)
      | None => false
      end
  end.

Definition mismatches (cs : list case) : list N :=
  map c_id (filter (fun c => negb (model_agrees c)) cs).

(* 1 GREASE among ciphers/curves, 2 GREASE among extensions, 4 SNI present, 8 several records,
   16 nothing recorded, 32 malformed stream, 64 no extensions block *)
Definition tags (cs : list case) : list (N * N) :=
  map (fun c =>
    (c_id c,
     (match c_hello c with
      | None => 32
      | Some h =>
          (if existsb is_grease (h_ciphers h ++ spec_groups h) then 1 else 0) +
          (if existsb is_grease (map ext_type (exts_of h)) then 2 else 0) +
          (if (0 <? count is_sni (exts_of h))%nat then 4 else 0) +
          (match h_exts h with None => 64 | Some _ => 0 end)
      end) +
     (match c_recs c with _ :: _ :: _ => 8 | _ => 0 end) +
     (if c_recorded c then 0 else 16))) cs.
