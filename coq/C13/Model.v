(* C13 - model of the JA3 path of the https service.  Executable definitions only.

   Code side (as coded in /repo):
     read_handshake  : Conn.readHandshake/readRecord restricted to the first flight
                       (services/ja3/crypto/tls/conn.go), on the list of records sent
     parse_hello     : clientHelloMsg.unmarshal (handshake_messages.go), restricted to the
                       fields JA3 / readClientHello read, with every rejection branch
     recorded        : readClientHello up to the GetConfigForClient callback (handshake_server.go:
                       called right after the hello is parsed, before any negotiation)
                       + that callback in services/https.go (JA3 string, server name)
     ja3_string      : ClientHelloInfo.JA3 (common.go)
   Specification side (independent of the parser):
     hello, encode_hello, fragment, spec_ja3, spec_sni, same_modulo_grease
   MD5 is not modelled: strings are compared, the harness checks digest = md5(string). *)
From HT Require Import Common.Bytes.
From Coq Require Decimal.
Open Scope N_scope.

Definition blen {A} (l : list A) : N := N.of_nat (length l).
Definition u16 (a b : N) : N := a * 256 + b.
Fixpoint u16s (l : bytes) : list N :=
  match l with a :: b :: r => u16 a b :: u16s r | _ => [] end.

(* data[:n], data[n:] after the check len(data) >= n *)
Definition take (n : N) (l : bytes) : option (bytes * bytes) :=
  if blen l <? n then None else Some (firstn (N.to_nat n) l, skipn (N.to_nat n) l).

Inductive res (A : Type) := Ok (a : A) | Reject | Fuel.
Arguments Ok {A} a. Arguments Reject {A}. Arguments Fuel {A}.

(* ---------- decimal rendering: fmt.Sprintf("%d", v) for unsigned v ---------- *)
Import Decimal (uint, Nil, D0, D1, D2, D3, D4, D5, D6, D7, D8, D9).
Fixpoint uint_bytes (d : uint) : bytes :=
  match d with
  | Nil => []
  | D0 d => 48 :: uint_bytes d | D1 d => 49 :: uint_bytes d | D2 d => 50 :: uint_bytes d
  | D3 d => 51 :: uint_bytes d | D4 d => 52 :: uint_bytes d | D5 d => 53 :: uint_bytes d
  | D6 d => 54 :: uint_bytes d | D7 d => 55 :: uint_bytes d | D8 d => 56 :: uint_bytes d
  | D9 d => 57 :: uint_bytes d
  end.
Definition dec (n : N) : bytes := uint_bytes (N.to_uint n).

Definition C_comma := 44. Definition C_dash := 45. Definition C_dot := 46.

(* strings.Join *)
Fixpoint join (sep : N) (ls : list bytes) : bytes :=
  match ls with
  | [] => []
  | x :: r => match r with [] => x | _ => x ++ sep :: join sep r end
  end.
Definition dash_list (l : list N) : bytes := join C_dash (map dec l).

(* ---------- ClientHelloInfo.JA3 ---------- *)
Definition grease_table : list N :=
  [2570; 6682; 10794; 14906; 19018; 23130; 27242; 31354;
   35466; 39578; 43690; 47802; 51914; 56026; 60138; 64250].
Definition in_grease_table (v : N) : bool := existsb (N.eqb v) grease_table.

Record info := mkInfo {
  i_vers : N; i_ciphers : list N; i_exts : list N; i_curves : list N; i_points : bytes;
  i_sni : bytes;
  i_comp : bytes;          (* compression methods: read by readClientHello after the callback *)
  i_reneg : bytes          (* secureRenegotiation: read by readClientHello after the callback *)
}.

(* as coded: the cipher, extension and curve loops consult greaseTable, the point loop does not *)
Definition drop_grease (l : list N) : list N := filter (fun v => negb (in_grease_table v)) l.
Definition ja3_string (i : info) : bytes :=
  dec (i_vers i) ++ C_comma ::
  dash_list (drop_grease (i_ciphers i)) ++ C_comma ::
  dash_list (drop_grease (i_exts i)) ++ C_comma ::
  dash_list (drop_grease (i_curves i)) ++ C_comma ::
  dash_list (i_points i).

(* ---------- clientHelloMsg.unmarshal ---------- *)
Record est := mkEst {
  e_exts : list N; e_curves : list N; e_points : bytes; e_sni : bytes; e_reneg : bytes }.
Definition est0 := mkEst [] [] [] [] [].

Definition ends_with_dot (s : bytes) : bool :=
  match rev s with c :: _ => c =? C_dot | [] => false end.

Inductive sres := SFound (name : bytes) | SNone | SReject | SFuel.

(* the loop over the server-name list; stops at the first host_name entry *)
Fixpoint sni_loop (fuel : nat) (d : bytes) : sres :=
  match fuel with
  | O => SFuel
  | S f =>
      match d with
      | [] => SNone
      | ty :: a :: b :: d' =>
          match take (u16 a b) d' with
          | None => SReject
          | Some (name, rest) =>
              if ty =? 0 then (if ends_with_dot name then SReject else SFound name)
              else sni_loop f rest
          end
      | _ => SReject
      end
  end.

(* the loop over the ALPN protocol list *)
Fixpoint alpn_loop (fuel : nat) (d : bytes) : res unit :=
  match fuel with
  | O => Fuel
  | S f =>
      match d with
      | [] => Ok tt
      | l :: d' =>
          if (l =? 0) || (blen d' <? l) then Reject
          else alpn_loop f (skipn (N.to_nat l) d')
      end
  end.

Definition X_SNI := 0.      Definition X_STATUS := 5.   Definition X_CURVES := 10.
Definition X_POINTS := 11.  Definition X_SIGALGS := 13. Definition X_ALPN := 16.
Definition X_SCT := 18.     Definition X_TICKET := 35.  Definition X_NPN := 13172.
Definition X_RENEG := 65281.

(* the switch on the extension type; [body] = data[:length] *)
Definition ext_body (ty : N) (body : bytes) (st : est) : res est :=
  let len := blen body in
  if ty =? X_SNI then
    match body with
    | a :: b :: d =>
        if negb (blen d =? u16 a b) then Reject
        else match sni_loop (S (length d)) d with
             | SFound name => Ok (mkEst (e_exts st) (e_curves st) (e_points st) name (e_reneg st))
             | SNone => Ok st
             | SReject => Reject
             | SFuel => Fuel
             end
    | _ => Reject
    end
  else if ty =? X_NPN then (if 0 <? len then Reject else Ok st)
  else if ty =? X_STATUS then Ok st
  else if ty =? X_CURVES then
    match body with
    | a :: b :: d =>
        let l := u16 a b in
        if N.odd l || negb (len =? l + 2) then Reject
        else Ok (mkEst (e_exts st) (u16s d) (e_points st) (e_sni st) (e_reneg st))
    | _ => Reject
    end
  else if ty =? X_POINTS then
    match body with
    | l :: d =>
        if negb (len =? l + 1) then Reject
        else Ok (mkEst (e_exts st) (e_curves st) d (e_sni st) (e_reneg st))
    | [] => Reject
    end
  else if ty =? X_TICKET then Ok st
  else if ty =? X_SIGALGS then
    match body with
    | a :: b :: _ =>
        if N.odd len then Reject
        else if negb (u16 a b =? len - 2) then Reject else Ok st
    | _ => Reject
    end
  else if ty =? X_RENEG then
    match body with
    | l :: d =>
        if negb (l =? blen d) then Reject
        else Ok (mkEst (e_exts st) (e_curves st) (e_points st) (e_sni st) d)
    | [] => Reject
    end
  else if ty =? X_ALPN then
    match body with
    | a :: b :: d =>
        if negb (u16 a b =? len - 2) then Reject
        else match alpn_loop (S (length d)) d with
             | Ok _ => Ok st | Reject => Reject | Fuel => Fuel
             end
    | _ => Reject
    end
  else if ty =? X_SCT then (if negb (len =? 0) then Reject else Ok st)
  else Ok st.

Definition push_ext (ty : N) (st : est) : est :=
  mkEst (e_exts st ++ [ty]) (e_curves st) (e_points st) (e_sni st) (e_reneg st).

(* for len(data) != 0 { ... } *)
Fixpoint parse_exts (fuel : nat) (data : bytes) (st : est) : res est :=
  match fuel with
  | O => Fuel
  | S f =>
      match data with
      | [] => Ok st
      | t1 :: t2 :: l1 :: l2 :: rest =>
          match take (u16 l1 l2) rest with
          | None => Reject
          | Some (body, rest') =>
              match ext_body (u16 t1 t2) body (push_ext (u16 t1 t2) st) with
              | Ok st' => parse_exts f rest' st'
              | Reject => Reject
              | Fuel => Fuel
              end
          end
      | _ => Reject
      end
  end.

(* [data] is the whole handshake message including its 4-byte header *)
Definition parse_hello (data : bytes) : res info :=
  if blen data <? 42 then Reject else
  match skipn 4 data with
  | v1 :: v2 :: r0 =>
      match skipn 32 r0 with
      | sidlen :: r1 =>
          if (32 <? sidlen) || (blen data <? 39 + sidlen) then Reject else
          match skipn (N.to_nat sidlen) r1 with
          | c1 :: c2 :: r2 =>
              let cl := u16 c1 c2 in
              if N.odd cl || (blen r2 <? cl) then Reject else
              let ciphers := u16s (firstn (N.to_nat cl) r2) in
              match skipn (N.to_nat cl) r2 with
              | [] => Reject
              | ml :: r3 =>
                  if blen r3 <? ml then Reject else
                  let comp := firstn (N.to_nat ml) r3 in
                  match skipn (N.to_nat ml) r3 with
                  | [] => Ok (mkInfo (u16 v1 v2) ciphers [] [] [] [] comp [])
                  | [_] => Reject
                  | e1 :: e2 :: r4 =>
                      if negb (u16 e1 e2 =? blen r4) then Reject else
                      match parse_exts (S (length r4)) r4 est0 with
                      | Ok st => Ok (mkInfo (u16 v1 v2) ciphers (e_exts st) (e_curves st)
                                            (e_points st) (e_sni st) comp (e_reneg st))
                      | Reject => Reject
                      | Fuel => Fuel
                      end
                  end
              end
          | _ => Reject
          end
      | [] => Reject
      end
  | _ => Reject
  end.

(* ---------- readClientHello up to GetConfigForClient + the callback in https.go ---------- *)
Definition MIN_VERSION := 769.   (* VersionTLS10: below it the handshake fails later, in mutualVersion *)

(* readClientHello: msg, err := c.readHandshake() (failure: nothing recorded); the message is a
   *clientHelloMsg; c.config.GetConfigForClient(hs.clientHelloInfo()) runs at once - before
   mutualVersion, the compression and the renegotiation checks - and the https callback stores
   hello.JA3Digest() and hello.ServerName.  clientHelloInfo copies vers, cipherSuites,
   extensions, supportedCurves, supportedPoints and serverName of the parsed message.
   Some (JA3 string, server name) = the callback ran; None = the events carry empty fields *)
Definition recorded (msg : bytes) : res (option (bytes * bytes)) :=
  match parse_hello msg with
  | Ok i => Ok (Some (ja3_string i, i_sni i))
  | Reject => Ok None
  | Fuel => Fuel
  end.

(* ---------- record layer, first flight (haveVers = false, no cipher) ---------- *)
Record rec := mkRec { r_typ : N; r_vers : N; r_payload : bytes }.

Definition MAX_PLAINTEXT := 16384.
Definition MAX_HANDSHAKE := 65536.
Definition MAX_WARN := 5.

(* readHandshake's two loops: read records until [hand] holds 4 bytes, then 4+n bytes.
   Returns the message and nothing else (what follows it stays buffered). *)
Definition hs_complete (hand : bytes) : option (option bytes) :=
  match hand with
  | _ :: n1 :: n2 :: n3 :: _ =>
      let n := n1 * 65536 + n2 * 256 + n3 in
      if MAX_HANDSHAKE <? n then Some None
      else if blen hand <? 4 + n then None
      else Some (Some (firstn (N.to_nat (4 + n)) hand))
  | _ => None
  end.

Fixpoint read_handshake (recs : list rec) (hand : bytes) (warn : N) : option bytes :=
  match hs_complete hand with
  | Some r => r
  | None =>
      match recs with
      | [] => None                                                  (* EOF *)
      | r :: rest =>
          if (r_typ r =? 128) then None                             (* SSLv2 *)
          else if 4096 <=? r_vers r then None
          else if negb ((r_typ r =? 21) || (r_typ r =? 22)) then None
          else if MAX_PLAINTEXT <? blen (r_payload r) then None
          else if r_typ r =? 22 then
               (* warnCount is reset only by a non-empty non-alert record *)
               read_handshake rest (hand ++ r_payload r)
                              (match r_payload r with [] => warn | _ => 0 end)
          else match r_payload r with
               | [lvl; desc] =>
                   if desc =? 0 then None                           (* close_notify *)
                   else if lvl =? 1 then
                     if MAX_WARN <? warn + 1 then None else read_handshake rest hand (warn + 1)
                   else None
               | _ => None
               end
      end
  end.

(* what the https events carry for a connection on which [recs] were sent *)
Definition served (recs : list rec) : res (option (bytes * bytes)) :=
  match read_handshake recs [] 0 with
  | None => Ok None
  | Some msg =>
      match msg with
      | 1 :: _ => recorded msg
      | _ => Ok None                    (* not a ClientHello *)
      end
  end.

(* ====================== specification side ====================== *)

Inductive ext :=
| ESni (names : list (N * bytes))     (* server_name: (name_type, name) entries *)
| EGroups (gs : list N)               (* supported_groups *)
| EPoints (ps : bytes)                (* ec_point_formats *)
| ERaw (ty : N) (body : bytes).       (* any other extension *)

Record hello := mkHello {
  h_vers : N; h_random : bytes; h_session : bytes; h_ciphers : list N; h_comp : bytes;
  h_exts : option (list ext)          (* None: no extensions block at all *)
}.

Definition enc16 (v : N) : bytes := [v / 256; v mod 256].
Definition enc16s (l : list N) : bytes := flat_map enc16 l.
Definition enc24 (v : N) : bytes := [v / 65536; (v / 256) mod 256; v mod 256].

Definition ext_type (e : ext) : N :=
  match e with ESni _ => 0 | EGroups _ => 10 | EPoints _ => 11 | ERaw t _ => t end.
Definition enc_name (p : N * bytes) : bytes := fst p :: enc16 (blen (snd p)) ++ snd p.
Definition ext_body_of (e : ext) : bytes :=
  match e with
  | ESni names => let b := flat_map enc_name names in enc16 (blen b) ++ b
  | EGroups gs => enc16 (2 * blen gs) ++ enc16s gs
  | EPoints ps => blen ps :: ps
  | ERaw _ b => b
  end.
Definition enc_ext (e : ext) : bytes :=
  enc16 (ext_type e) ++ enc16 (blen (ext_body_of e)) ++ ext_body_of e.
Definition enc_exts (es : list ext) : bytes := flat_map enc_ext es.

Definition enc_body (h : hello) : bytes :=
  enc16 (h_vers h) ++ h_random h ++ blen (h_session h) :: h_session h ++
  enc16 (2 * blen (h_ciphers h)) ++ enc16s (h_ciphers h) ++
  blen (h_comp h) :: h_comp h ++
  match h_exts h with
  | None => []
  | Some es => enc16 (blen (enc_exts es)) ++ enc_exts es
  end.
Definition encode_hello (h : hello) : bytes :=
  1 :: enc24 (blen (enc_body h)) ++ enc_body h.

(* split a message into handshake records of the given fragment sizes (the rest in a last one) *)
Fixpoint fragment (vers : N) (cuts : list nat) (msg : bytes) : list rec :=
  match cuts with
  | [] => [mkRec 22 vers msg]
  | k :: cuts' => mkRec 22 vers (firstn k msg) :: fragment vers cuts' (skipn k msg)
  end.

(* RFC 8701: 0x0A0A, 0x1A1A, ..., 0xFAFA *)
Definition is_grease (v : N) : bool := (v / 256 =? v mod 256) && (v mod 16 =? 10).
Definition no_grease (l : list N) : list N := filter (fun v => negb (is_grease v)) l.

Definition exts_of (h : hello) : list ext := match h_exts h with Some es => es | None => [] end.
Definition spec_groups (h : hello) : list N :=
  flat_map (fun e => match e with EGroups g => g | _ => [] end) (exts_of h).
Definition spec_points (h : hello) : bytes :=
  flat_map (fun e => match e with EPoints p => p | _ => [] end) (exts_of h).
Fixpoint first_host (names : list (N * bytes)) : option bytes :=
  match names with
  | [] => None
  | (ty, n) :: r => if ty =? 0 then Some n else first_host r
  end.
(* the SNI sent: the host_name of the server_name extension, "" if there is none *)
Definition spec_sni (h : hello) : bytes :=
  flat_map (fun e => match e with
                     | ESni names => match first_host names with Some n => n | None => [] end
                     | _ => [] end) (exts_of h).

(* the JA3 specification: SSLVersion,Cipher,SSLExtension,EllipticCurve,EllipticCurvePointFormat,
   wire order, GREASE left out of ciphers, extensions and curves *)
Definition spec_ja3 (h : hello) : bytes :=
  dec (h_vers h) ++ C_comma ::
  dash_list (no_grease (h_ciphers h)) ++ C_comma ::
  dash_list (no_grease (map ext_type (exts_of h))) ++ C_comma ::
  dash_list (no_grease (spec_groups h)) ++ C_comma ::
  dash_list (spec_points h).

(* what the code computed before fix fea246c, expressed on the hello: GREASE left out of the
   extensions only.  Kept so that a regression gets its own signature in Check.v *)
Definition ja3_exts_only (h : hello) : bytes :=
  dec (h_vers h) ++ C_comma ::
  dash_list (h_ciphers h) ++ C_comma ::
  dash_list (no_grease (map ext_type (exts_of h))) ++ C_comma ::
  dash_list (spec_groups h) ++ C_comma ::
  dash_list (spec_points h).

(* the info a faithful parser must extract *)
Definition last_reneg (es : list ext) : bytes :=
  fold_left (fun acc e => match e with ERaw t b => if t =? X_RENEG then tl b else acc | _ => acc end)
            es [].
Definition info_of (h : hello) : info :=
  mkInfo (h_vers h) (h_ciphers h) (map ext_type (exts_of h)) (spec_groups h) (spec_points h)
         (spec_sni h) (h_comp h) (last_reneg (exts_of h)).

(* ---- well-formedness: what the quantifier of the property ranges over ---- *)
Definition lt16 (v : N) : bool := v <? 65536.
Definition count {A} (p : A -> bool) (l : list A) : nat := length (filter p l).
Definition is_sni e := match e with ESni _ => true | _ => false end.
Definition is_groups e := match e with EGroups _ => true | _ => false end.
Definition is_points e := match e with EPoints _ => true | _ => false end.

Definition wf_name (p : N * bytes) : bool :=
  byteb (fst p) && wf_bytes (snd p) && lt16 (blen (snd p)).

Definition wf_ext (e : ext) : bool :=
  lt16 (blen (ext_body_of e)) &&
  match e with
  | ESni names =>
      forallb wf_name names &&
      match first_host names with Some n => negb (ends_with_dot n) | None => true end
  | EGroups gs => forallb lt16 gs
  | EPoints ps => wf_bytes ps && (blen ps <? 256)
  | ERaw ty body =>
      lt16 ty && wf_bytes body &&
      negb ((ty =? X_SNI) || (ty =? X_CURVES) || (ty =? X_POINTS)) &&
      (* the other extensions the stack understands carry a body it accepts *)
      match ext_body ty body est0 with Ok _ => true | _ => false end
  end.

Definition wf_hello (h : hello) : bool :=
  lt16 (h_vers h) &&
  wf_bytes (h_random h) && (blen (h_random h) =? 32) &&
  wf_bytes (h_session h) && (blen (h_session h) <=? 32) &&
  forallb lt16 (h_ciphers h) && lt16 (2 * blen (h_ciphers h)) &&
  wf_bytes (h_comp h) && (blen (h_comp h) <? 256) &&
  forallb wf_ext (exts_of h) && lt16 (blen (enc_exts (exts_of h))) &&
  (count is_sni (exts_of h) <=? 1)%nat &&
  (count is_groups (exts_of h) <=? 1)%nat &&
  (count is_points (exts_of h) <=? 1)%nat &&
  (blen (enc_body h) <=? MAX_HANDSHAKE).

(* two hellos that differ only in their GREASE values *)
Fixpoint same_mod_grease_list (a b : list N) : bool :=
  match a, b with
  | [], [] => true
  | x :: a', y :: b' =>
      ((x =? y) || (is_grease x && is_grease y)) && same_mod_grease_list a' b'
  | _, _ => false
  end.
Definition same_modulo_grease (h1 h2 : hello) : bool :=
  (h_vers h1 =? h_vers h2) &&
  same_mod_grease_list (h_ciphers h1) (h_ciphers h2) &&
  same_mod_grease_list (map ext_type (exts_of h1)) (map ext_type (exts_of h2)) &&
  same_mod_grease_list (spec_groups h1) (spec_groups h2) &&
  eqb_bytes (spec_points h1) (spec_points h2).

(* ---- the property at full strength (Prop; see Properties.v) ---- *)
Definition frag_ok (vers : N) (cuts : list nat) (msg : bytes) : Prop :=
  vers < 4096 /\ Forall (fun r => blen (r_payload r) <= MAX_PLAINTEXT) (fragment vers cuts msg).

(* every well-formed hello, whatever its legacy version and however it is cut into records:
   the events carry the specification's JA3 string (its MD5) and the SNI sent *)
Definition full_statement : Prop :=
  forall h vers cuts,
    wf_hello h = true -> frag_ok vers cuts (encode_hello h) ->
    served (fragment vers cuts (encode_hello h)) = Ok (Some (spec_ja3 h, spec_sni h)).
