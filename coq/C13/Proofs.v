(* C13 - lemmas. *)
From HT Require Import Common.Bytes C13.Model.
From Coq Require Import ZifyBool ZifyN ZifyNat DecimalN.
Open Scope N_scope.

Arguments N.mul : simpl never.
Arguments N.add : simpl never.
Arguments N.div : simpl never.
Arguments N.modulo : simpl never.
Arguments N.to_nat : simpl never.
Arguments N.of_nat : simpl never.

(* ---------------- lengths, take ---------------- *)
Lemma blen_app {A} (a b : list A) : blen (a ++ b) = blen a + blen b.
Proof. unfold blen; rewrite app_length; lia. Qed.
Lemma blen_cons {A} (x : A) l : blen (x :: l) = 1 + blen l.
Proof. unfold blen; cbn [length]; lia. Qed.
Lemma blen_nil {A} : blen (@nil A) = 0.
Proof. reflexivity. Qed.
Lemma to_nat_blen {A} (l : list A) : N.to_nat (blen l) = length l.
Proof. unfold blen; lia. Qed.

Lemma firstn_blen_app {A} (a b : list A) : firstn (N.to_nat (blen a)) (a ++ b) = a.
Proof.
  rewrite to_nat_blen, firstn_app, Nat.sub_diag, firstn_all. cbn [firstn]. apply app_nil_r.
Qed.
Lemma skipn_blen_app {A} (a b : list A) : skipn (N.to_nat (blen a)) (a ++ b) = b.
Proof.
  rewrite to_nat_blen, skipn_app, Nat.sub_diag, skipn_all. reflexivity.
Qed.

Lemma take_app (a b : bytes) : take (blen a) (a ++ b) = Some (a, b).
Proof.
  unfold take. rewrite blen_app.
  destruct (blen a + blen b <? blen a) eqn:E; [lia|].
  now rewrite firstn_blen_app, skipn_blen_app.
Qed.

Lemma take_length n l a b : take n l = Some (a, b) -> (length b <= length l)%nat /\ l = a ++ b.
Proof.
  unfold take. destruct (blen l <? n); [discriminate|]. intros H; inversion H; subst.
  rewrite skipn_length. split; [lia|]. symmetry; apply firstn_skipn.
Qed.

(* ---------------- 16-bit encoding ---------------- *)
Lemma u16_enc v : u16 (v / 256) (v mod 256) = v.
Proof. unfold u16. pose proof (N.div_mod v 256). lia. Qed.

Lemma enc16_wf v : lt16 v = true -> wf_bytes (enc16 v) = true.
Proof.
  unfold lt16, enc16, wf_bytes, byteb; cbn [forallb]. intros H.
  assert (v / 256 < 256) by (apply N.div_lt_upper_bound; lia).
  assert (v mod 256 < 256) by (apply N.mod_lt; lia).
  lia.
Qed.

Lemma blen_enc16s l : blen (enc16s l) = 2 * blen l.
Proof.
  induction l as [|x l IH]; [reflexivity|].
  unfold enc16s in *; cbn [flat_map]. rewrite blen_app, IH, blen_cons. unfold enc16.
  rewrite !blen_cons, blen_nil. lia.
Qed.

Lemma u16s_enc16s l : u16s (enc16s l) = l.
Proof.
  induction l as [|x l IH]; [reflexivity|].
  unfold enc16s in *; cbn [flat_map]. unfold enc16 at 1. cbn [app u16s].
  now rewrite u16_enc, IH.
Qed.

(* ---------------- decimal rendering ---------------- *)
Lemma uint_bytes_inj a b : uint_bytes a = uint_bytes b -> a = b.
Proof.
  revert b; induction a; intros b; destruct b; cbn [uint_bytes]; intros H;
    try discriminate; try reflexivity; inversion H; f_equal; auto.
Qed.

Lemma dec_inj a b : dec a = dec b -> a = b.
Proof. intros H; apply uint_bytes_inj in H. now apply Unsigned.to_uint_inj. Qed.

Definition is_digit (c : N) : bool := (48 <=? c) && (c <=? 57).

Lemma uint_bytes_digits d : forallb is_digit (uint_bytes d) = true.
Proof. induction d; cbn [uint_bytes forallb]; auto. Qed.

Lemma dec_digits n : forallb is_digit (dec n) = true.
Proof. apply uint_bytes_digits. Qed.

Lemma dec_nonempty n : dec n <> [].
Proof.
  unfold dec. destruct n as [|p]; [discriminate|].
  cbn [N.to_uint]. intros H.
  assert (Hn : Pos.to_uint p <> Decimal.Nil).
  { intros E. pose proof (DecimalPos.Unsigned.of_to p) as O. rewrite E in O. discriminate. }
  destruct (Pos.to_uint p); cbn [uint_bytes] in H; try discriminate. now apply Hn.
Qed.

(* ---------------- the GREASE table is the RFC 8701 set ---------------- *)
Lemma grease_table_spec v : in_grease_table v = is_grease v.
Proof.
  unfold in_grease_table, is_grease, grease_table. cbn [existsb].
  destruct ((v / 256 =? v mod 256) && (v mod 16 =? 10)) eqn:E.
  - apply andb_true_iff in E as [E1 E2].
    apply N.eqb_eq in E1, E2.
    pose proof (N.div_mod v 256 ltac:(lia)) as D.
    pose proof (N.mod_lt v 256 ltac:(lia)) as L.
    set (b := v mod 256) in *.
    assert (Hv : v = 257 * b) by lia.
    assert (Hb : b mod 16 = 10).
    { rewrite Hv in E2. rewrite <- E2.
      replace (257 * b) with (b + 16 * b * 16) by lia. now rewrite N.mod_add by lia. }
    pose proof (N.div_mod b 16 ltac:(lia)) as D2.
    assert (K : b / 16 < 16) by (apply N.div_lt_upper_bound; lia).
    set (k := b / 16) in *.
    assert (Hv2 : v = 4112 * k + 2570) by lia.
    clearbody k. clear - Hv2 K.
    assert (k = 0 \/ k = 1 \/ k = 2 \/ k = 3 \/ k = 4 \/ k = 5 \/ k = 6 \/ k = 7 \/ k = 8 \/
            k = 9 \/ k = 10 \/ k = 11 \/ k = 12 \/ k = 13 \/ k = 14 \/ k = 15) as C by lia.
    repeat (destruct C as [C|C]; [subst; reflexivity|]). subst; reflexivity.
  - apply andb_false_iff in E.
    repeat match goal with
           | |- (?a =? ?c) || _ = false =>
               destruct (N.eqb_spec a c) as [->|_]; [exfalso; vm_compute in E; destruct E; discriminate|cbn [orb]]
           end.
    reflexivity.
Qed.

(* ---------------- the server-name loop on an encoded list ---------------- *)
Lemma blen_enc_name p : blen (enc_name p) = 3 + blen (snd p).
Proof. unfold enc_name, enc16. rewrite blen_cons. cbn [app]. rewrite !blen_cons. lia. Qed.

Lemma sni_loop_enc names : forall fuel tail,
  (length (flat_map enc_name names) < fuel)%nat ->
  forallb wf_name names = true ->
  match first_host names with Some n => ends_with_dot n = false | None => tail = [] end ->
  sni_loop fuel (flat_map enc_name names ++ tail) =
  match first_host names with Some n => SFound n | None => SNone end.
Proof.
  induction names as [|[ty n] names IH]; intros fuel tail Hf Hwf Hd.
  - cbn [flat_map first_host app] in *. subst tail. destruct fuel; [cbn in Hf; lia|reflexivity].
  - cbn [flat_map forallb first_host] in *. apply andb_true_iff in Hwf as [Hw Hwf].
    unfold wf_name in Hw. cbn [fst snd] in Hw.
    destruct fuel; [lia|].
    unfold enc_name at 1. cbn [fst snd]. unfold enc16. cbn [app sni_loop].
    rewrite u16_enc. rewrite <- app_assoc, take_app.
    rewrite app_length in Hf. pose proof (blen_enc_name (ty, n)) as L. unfold blen in L.
    destruct (ty =? 0) eqn:T.
    + now rewrite Hd.
    + apply IH; auto. lia.
Qed.

(* ---------------- one extension body ---------------- *)
Definition set_sni st v := mkEst (e_exts st) (e_curves st) (e_points st) v (e_reneg st).
Definition set_curves st v := mkEst (e_exts st) v (e_points st) (e_sni st) (e_reneg st).
Definition set_points st v := mkEst (e_exts st) (e_curves st) v (e_sni st) (e_reneg st).
Definition set_reneg st v := mkEst (e_exts st) (e_curves st) (e_points st) (e_sni st) v.

Definition apply_ext (e : ext) (st : est) : est :=
  match e with
  | ESni names => match first_host names with Some n => set_sni st n | None => st end
  | EGroups gs => set_curves st gs
  | EPoints ps => set_points st ps
  | ERaw ty b => if ty =? X_RENEG then set_reneg st (tl b) else st
  end.

Lemma ext_body_raw ty body st st0 r :
  (ty =? X_SNI) || (ty =? X_CURVES) || (ty =? X_POINTS) = false ->
  ext_body ty body st0 = Ok r ->
  ext_body ty body st = Ok (if ty =? X_RENEG then set_reneg st (tl body) else st).
Proof.
  intros Hty. apply orb_false_iff in Hty as [Hty H3]. apply orb_false_iff in Hty as [H1 H2].
  unfold ext_body. rewrite H1, H2, H3.
  destruct (ty =? X_NPN) eqn:E1.
  { assert (ty =? X_RENEG = false) as -> by (unfold X_NPN, X_RENEG in *; lia).
    destruct (0 <? blen body); [discriminate|reflexivity]. }
  destruct (ty =? X_STATUS) eqn:E2.
  { assert (ty =? X_RENEG = false) as -> by (unfold X_STATUS, X_RENEG in *; lia). reflexivity. }
  destruct (ty =? X_TICKET) eqn:E3.
  { assert (ty =? X_RENEG = false) as -> by (unfold X_TICKET, X_RENEG in *; lia). reflexivity. }
  destruct (ty =? X_SIGALGS) eqn:E4.
  { assert (ty =? X_RENEG = false) as -> by (unfold X_SIGALGS, X_RENEG in *; lia).
    destruct body as [|a [|b d]]; try discriminate.
    destruct (N.odd _); [discriminate|]. destruct (negb _); [discriminate|reflexivity]. }
  destruct (ty =? X_RENEG) eqn:E5.
  { destruct body as [|l d]; [discriminate|]. destruct (negb _); [discriminate|]. reflexivity. }
  destruct (ty =? X_ALPN) eqn:E6.
  { destruct body as [|a [|b d]]; try discriminate.
    destruct (negb _); [discriminate|]. destruct (alpn_loop _ _); try discriminate. reflexivity. }
  destruct (ty =? X_SCT) eqn:E7.
  { destruct (negb _); [discriminate|reflexivity]. }
  reflexivity.
Qed.

Lemma ext_body_enc e st :
  wf_ext e = true -> ext_body (ext_type e) (ext_body_of e) st = Ok (apply_ext e st).
Proof.
  unfold wf_ext. intros H. apply andb_true_iff in H as [Hlen H].
  destruct e as [names|gs|ps|ty body]; cbn [ext_type ext_body_of apply_ext] in *.
  - apply andb_true_iff in H as [Hn Hd].
    unfold ext_body. change (0 =? X_SNI) with true. cbv iota.
    unfold enc16 at 1. cbn [app]. rewrite u16_enc, N.eqb_refl. cbn [negb].
    pose proof (sni_loop_enc names (S (length (flat_map enc_name names))) [] ltac:(lia) Hn) as L.
    rewrite app_nil_r in L. rewrite L.
    + destruct (first_host names); reflexivity.
    + destruct (first_host names); [|reflexivity]. now destruct (ends_with_dot b).
  - unfold ext_body. change (10 =? X_SNI) with false. change (10 =? X_NPN) with false.
    change (10 =? X_STATUS) with false. change (10 =? X_CURVES) with true. cbv iota.
    unfold enc16 at 1 2. cbn [app]. rewrite u16_enc.
    rewrite !blen_cons, blen_enc16s.
    replace (N.odd (2 * blen gs)) with false by (symmetry; rewrite N.odd_mul; reflexivity).
    replace (1 + (1 + 2 * blen gs) =? 2 * blen gs + 2) with true by lia. cbn [orb negb].
    now rewrite u16s_enc16s.
  - unfold ext_body. change (11 =? X_SNI) with false. change (11 =? X_NPN) with false.
    change (11 =? X_STATUS) with false. change (11 =? X_CURVES) with false.
    change (11 =? X_POINTS) with true. cbv iota.
    rewrite blen_cons. replace (1 + blen ps =? blen ps + 1) with true by lia. reflexivity.
  - apply andb_true_iff in H as [H Hb]. apply andb_true_iff in H as [H Hs].
    apply negb_true_iff in Hs.
    destruct (ext_body ty body est0) eqn:E; try discriminate.
    eapply ext_body_raw; eauto.
Qed.

(* ---------------- the extension loop on an encoded list ---------------- *)
Definition step_ext (st : est) (e : ext) : est := apply_ext e (push_ext (ext_type e) st).
Definition final (es : list ext) (st : est) : est := fold_left step_ext es st.

Lemma blen_enc_ext e : blen (enc_ext e) = 4 + blen (ext_body_of e).
Proof. unfold enc_ext, enc16. cbn [app]. rewrite !blen_cons. lia. Qed.

Lemma parse_exts_enc es : forall fuel st,
  (length (enc_exts es) < fuel)%nat ->
  forallb wf_ext es = true ->
  parse_exts fuel (enc_exts es) st = Ok (final es st).
Proof.
  induction es as [|e es IH]; intros fuel st Hf Hwf.
  - destruct fuel; [cbn in Hf; lia|reflexivity].
  - cbn [forallb] in Hwf. apply andb_true_iff in Hwf as [He Hwf].
    destruct fuel; [lia|].
    unfold enc_exts in *. cbn [flat_map] in *.
    unfold enc_ext at 1. unfold enc16. cbn [app parse_exts].
    rewrite !u16_enc. rewrite take_app.
    rewrite (ext_body_enc e _ He).
    cbn [final fold_left]. fold (step_ext st e).
    apply IH; auto.
    rewrite app_length in Hf. pose proof (blen_enc_ext e) as L. unfold blen in L. lia.
Qed.

(* what the loop leaves in the state *)
Section Pick.
  Context {B : Type} (f : ext -> option (list B)).
  Definition pick (es : list ext) (acc : list B) : list B :=
    fold_left (fun a e => match f e with Some v => v | None => a end) es acc.
  Definition cat (es : list ext) : list B :=
    flat_map (fun e => match f e with Some v => v | None => [] end) es.
  Definition hit (e : ext) : bool := match f e with Some _ => true | None => false end.

  Lemma count_cons es e :
    count hit (e :: es) = ((match f e with Some _ => 1 | None => 0 end) + count hit es)%nat.
  Proof. unfold count. cbn [filter]. unfold hit at 1. destruct (f e); reflexivity. Qed.

  Lemma pick_none es acc : count hit es = 0%nat -> pick es acc = acc /\ cat es = [].
  Proof.
    revert acc; induction es as [|e es IH]; intros acc H; [split; reflexivity|].
    rewrite count_cons in H.
    change (pick (e :: es) acc) with (pick es (match f e with Some v => v | None => acc end)).
    change (cat (e :: es)) with ((match f e with Some v => v | None => [] end) ++ cat es).
    destruct (f e) eqn:E; [lia|].
    destruct (IH acc ltac:(lia)) as [I1 I2]. split; [exact I1|]. cbn [app]. exact I2.
  Qed.

  Lemma pick_unique es acc : (count hit es <= 1)%nat ->
    pick es acc = if (0 <? count hit es)%nat then cat es else acc.
  Proof.
    revert acc; induction es as [|e es IH]; intros acc H; [reflexivity|].
    rewrite count_cons in *.
    change (pick (e :: es) acc) with (pick es (match f e with Some v => v | None => acc end)).
    change (cat (e :: es)) with ((match f e with Some v => v | None => [] end) ++ cat es).
    destruct (f e) eqn:E.
    - assert (H0 : count hit es = 0%nat) by lia.
      destruct (pick_none es l H0) as [I1 I2]. rewrite I1, I2, H0.
      cbn. now rewrite app_nil_r.
    - rewrite (IH acc ltac:(lia)). cbn [app Nat.add]. reflexivity.
  Qed.

  Lemma pick_cat es : (count hit es <= 1)%nat -> pick es [] = cat es.
  Proof.
    intros H. rewrite pick_unique by exact H.
    destruct (0 <? count hit es)%nat eqn:E; [reflexivity|].
    assert (H0 : count hit es = 0%nat) by lia. symmetry. apply (pick_none es []), H0.
  Qed.
End Pick.

Definition f_groups (e : ext) : option (list N) := match e with EGroups g => Some g | _ => None end.
Definition f_points (e : ext) : option bytes := match e with EPoints p => Some p | _ => None end.
Definition f_sni (e : ext) : option bytes := match e with ESni names => first_host names | _ => None end.
Definition f_reneg (e : ext) : option bytes :=
  match e with ERaw t b => if t =? X_RENEG then Some (tl b) else None | _ => None end.

Lemma final_state es : forall st,
  e_exts (final es st) = e_exts st ++ map ext_type es /\
  e_curves (final es st) = pick f_groups es (e_curves st) /\
  e_points (final es st) = pick f_points es (e_points st) /\
  e_sni (final es st) = pick f_sni es (e_sni st) /\
  e_reneg (final es st) = pick f_reneg es (e_reneg st).
Proof.
  induction es as [|e es IH]; intros st.
  - cbn. rewrite app_nil_r. repeat split.
  - unfold final, pick in *. cbn [fold_left map].
    destruct (IH (step_ext st e)) as (I1 & I2 & I3 & I4 & I5).
    rewrite I1, I2, I3, I4, I5. clear.
    unfold step_ext, apply_ext, push_ext.
    destruct e as [names|gs|ps|ty b]; cbn [ext_type f_groups f_points f_sni f_reneg].
    + destruct (first_host names); cbn; rewrite <- app_assoc; repeat split.
    + cbn; rewrite <- app_assoc; repeat split.
    + cbn; rewrite <- app_assoc; repeat split.
    + destruct (ty =? X_RENEG); cbn; rewrite <- app_assoc; repeat split.
Qed.

Lemma count_le {A} (p q : A -> bool) l :
  (forall x, p x = true -> q x = true) -> (count p l <= count q l)%nat.
Proof.
  intros H. unfold count. induction l as [|x l IH]; [cbn; lia|].
  cbn [filter]. destruct (p x) eqn:P.
  - rewrite (H x P). cbn [length]. lia.
  - destruct (q x); cbn [length]; lia.
Qed.

Lemma spec_groups_cat h : spec_groups h = cat f_groups (exts_of h).
Proof. unfold spec_groups, cat. apply flat_map_ext. intros []; reflexivity. Qed.
Lemma spec_points_cat h : spec_points h = cat f_points (exts_of h).
Proof. unfold spec_points, cat. apply flat_map_ext. intros []; reflexivity. Qed.
Lemma spec_sni_cat h : spec_sni h = cat f_sni (exts_of h).
Proof. unfold spec_sni, cat. apply flat_map_ext. intros []; reflexivity. Qed.
Lemma last_reneg_pick es : last_reneg es = pick f_reneg es [].
Proof.
  unfold last_reneg, pick. generalize (@nil N). induction es as [|e es IH]; intros acc; [reflexivity|].
  cbn [fold_left]. rewrite IH. f_equal. destruct e; try reflexivity. cbn [f_reneg].
  destruct (ty =? X_RENEG); reflexivity.
Qed.

(* ---------------- parse (encode h) ---------------- *)
Lemma blen_enc_body h :
  blen (enc_body h) =
  6 + blen (h_random h) + blen (h_session h) + 2 * blen (h_ciphers h) + blen (h_comp h) +
  match h_exts h with None => 0 | Some es => 2 + blen (enc_exts es) end.
Proof.
  unfold enc_body, enc16. cbn [app].
  rewrite !blen_cons, blen_app, blen_cons, blen_app, !blen_cons, blen_app, blen_enc16s, blen_cons, blen_app.
  destruct (h_exts h); cbn [app]; rewrite ?blen_cons, ?blen_nil; lia.
Qed.

Lemma final_info h :
  (count is_sni (exts_of h) <= 1)%nat -> (count is_groups (exts_of h) <= 1)%nat ->
  (count is_points (exts_of h) <= 1)%nat ->
  let st := final (exts_of h) est0 in
  e_exts st = map ext_type (exts_of h) /\ e_curves st = spec_groups h /\
  e_points st = spec_points h /\ e_sni st = spec_sni h /\ e_reneg st = last_reneg (exts_of h).
Proof.
  intros Hs Hg Hp st. destruct (final_state (exts_of h) est0) as (I1 & I2 & I3 & I4 & I5).
  subst st. rewrite I1, I2, I3, I4, I5. cbn [est0 e_exts e_curves e_points e_sni e_reneg app].
  rewrite spec_groups_cat, spec_points_cat, spec_sni_cat, last_reneg_pick.
  repeat split.
  - apply pick_cat. eapply Nat.le_trans; [|exact Hg]. apply count_le. intros []; cbn; congruence.
  - apply pick_cat. eapply Nat.le_trans; [|exact Hp]. apply count_le. intros []; cbn; congruence.
  - apply pick_cat. eapply Nat.le_trans; [|exact Hs]. apply count_le.
    intros []; unfold hit; cbn; congruence.
Qed.

Lemma skipn4 {A} (a b c d : A) X : skipn 4 (a :: b :: c :: d :: X) = X.
Proof. reflexivity. Qed.
Lemma skipn_len_app {A} n (a b : list A) : length a = n -> skipn n (a ++ b) = b.
Proof. intros <-. rewrite skipn_app, Nat.sub_diag, skipn_all. reflexivity. Qed.

Lemma parse_encode h : wf_hello h = true -> parse_hello (encode_hello h) = Ok (info_of h).
Proof.
  intros H. unfold wf_hello in H.
  repeat (let X := fresh "W" in apply andb_true_iff in H as [H X]).
  pose proof (blen_enc_body h) as LB.
  pose proof (final_info h ltac:(lia) ltac:(lia) ltac:(lia)) as FI. cbv zeta in FI.
  unfold info_of.
  destruct h as [vers random session ciphers comp exts].
  cbn [h_vers h_random h_session h_ciphers h_comp h_exts] in *.
  unfold parse_hello, encode_hello.
  rewrite blen_cons, blen_app. unfold enc24 at 1. rewrite !blen_cons, blen_nil.
  set (B := enc_body _) in *.
  replace (1 + (1 + (1 + (1 + 0)) + blen B) <? 42) with false by lia.
  unfold enc24. cbn [app]. rewrite skipn4.
  subst B. unfold enc_body at 1. cbn [h_vers h_random h_session h_ciphers h_comp h_exts].
  unfold enc16 at 1. cbn [app].
  rewrite (skipn_len_app 32 random) by (unfold blen in *; lia).
  replace ((32 <? blen session) || _) with false by lia.
  rewrite skipn_blen_app.
  unfold enc16 at 1. cbn [app]. rewrite !u16_enc.
  replace (N.odd (2 * blen ciphers)) with false by (symmetry; rewrite N.odd_mul; reflexivity).
  rewrite blen_app, blen_enc16s.
  replace (2 * blen ciphers + _ <? 2 * blen ciphers) with false by lia. cbn [orb].
  rewrite <- (blen_enc16s ciphers), firstn_blen_app, skipn_blen_app, u16s_enc16s.
  rewrite blen_app. replace (blen comp + _ <? blen comp) with false by lia.
  rewrite firstn_blen_app, skipn_blen_app.
  destruct exts as [es|]; cbn [exts_of h_exts] in *.
  - unfold enc16 at 1. cbn [app]. rewrite u16_enc, N.eqb_refl. cbn [negb].
    rewrite parse_exts_enc; [|lia|assumption].
    destruct FI as (F1 & F2 & F3 & F4 & F5). rewrite F1, F2, F3, F4, F5. reflexivity.
  - reflexivity.
Qed.

(* ---------------- what the https events carry for an encoded hello ---------------- *)
Lemma recorded_encode h :
  wf_hello h = true ->
  recorded (encode_hello h) = Ok (Some (ja3_string (info_of h), spec_sni h)).
Proof. intros W. unfold recorded. rewrite parse_encode by exact W. reflexivity. Qed.

(* ---------------- the coded string is the specification's ---------------- *)
Lemma filter_same {A} (f g : A -> bool) l : (forall x, f x = g x) -> filter f l = filter g l.
Proof. intros H; induction l as [|x l IH]; cbn [filter]; [reflexivity|]. now rewrite H, IH. Qed.

Lemma drop_grease_spec l : drop_grease l = no_grease l.
Proof. apply filter_same. intros x. now rewrite grease_table_spec. Qed.

Lemma ja3_is_spec h : ja3_string (info_of h) = spec_ja3 h.
Proof.
  unfold ja3_string, spec_ja3.
  cbn [info_of i_vers i_ciphers i_exts i_curves i_points].
  now rewrite !drop_grease_spec.
Qed.

Lemma no_grease_id l : existsb is_grease l = false -> no_grease l = l.
Proof.
  unfold no_grease. induction l as [|x l IH]; [reflexivity|]. cbn [existsb filter].
  intros H. apply orb_false_iff in H as [H1 H2]. rewrite H1. cbn [negb]. now rewrite IH.
Qed.

(* the string of the former defect (signature 1 in Check.v) differs from the specification's
   only on hellos with GREASE among ciphers or curves *)
Lemma exts_only_is_spec h :
  existsb is_grease (h_ciphers h) = false -> existsb is_grease (spec_groups h) = false ->
  ja3_exts_only h = spec_ja3 h.
Proof. intros C G. unfold ja3_exts_only, spec_ja3. now rewrite (no_grease_id _ C), (no_grease_id _ G). Qed.

Definition w_random : bytes := repeat 7 32.
Definition w_name : bytes := [101;120;97;109;112;108;101;46;99;111;109].   (* example.com *)
Definition w_hello (g1 g2 g3 : N) : hello :=
  mkHello 771 w_random [] [g1; 49195] [0]
          (Some [ERaw g2 []; ESni [(0, w_name)]; EGroups [g3; 29]; EPoints [0]]).

(* ---------------- GREASE invariance ---------------- *)
Lemma no_grease_same a : forall b, same_mod_grease_list a b = true -> no_grease a = no_grease b.
Proof.
  unfold no_grease. induction a as [|x a IH]; intros [|y b] H; try discriminate; [reflexivity|].
  cbn [same_mod_grease_list] in H. apply andb_true_iff in H as [H1 H2].
  cbn [filter]. rewrite (IH b H2).
  apply orb_true_iff in H1 as [E|E].
  - apply N.eqb_eq in E. now subst.
  - apply andb_true_iff in E as [E1 E2]. now rewrite E1, E2.
Qed.

Lemma spec_grease_invariant h1 h2 :
  same_modulo_grease h1 h2 = true -> spec_ja3 h1 = spec_ja3 h2.
Proof.
  unfold same_modulo_grease. intros H.
  repeat (let X := fresh "S" in apply andb_true_iff in H as [H X]).
  apply N.eqb_eq in H. apply eqb_bytes_true in S.
  unfold spec_ja3. rewrite H, S.
  now rewrite (no_grease_same _ _ S2), (no_grease_same _ _ S1), (no_grease_same _ _ S0).
Qed.

(* corollary for the CODE string *)
Lemma code_grease_invariant h1 h2 :
  same_modulo_grease h1 h2 = true -> ja3_string (info_of h1) = ja3_string (info_of h2).
Proof. intros H. rewrite !ja3_is_spec. now apply spec_grease_invariant. Qed.

(* ---------------- record layer: any fragmentation reassembles to the message ---------------- *)
Section Fragment.
  Variables (t n1 n2 n3 : N) (body : bytes).
  Let n := n1 * 65536 + n2 * 256 + n3.
  Let msg := t :: n1 :: n2 :: n3 :: body.
  Hypothesis Hlen : blen body = n.
  Hypothesis Hmax : n <= MAX_HANDSHAKE.

  Lemma hs_complete_prefix hand rest :
    hand ++ rest = msg ->
    hs_complete hand = match rest with [] => Some (Some hand) | _ => None end.
  Proof.
    intros E. subst msg.
    assert (L : blen hand + blen rest = 4 + n).
    { rewrite <- blen_app, E, !blen_cons. lia. }
    destruct hand as [|a [|b [|c [|d hand']]]].
    1-4: unfold hs_complete; destruct rest; [unfold blen in L; cbn [length] in L; lia|reflexivity].
    cbn [app] in E. inversion E; subst a b c d. clear E.
    unfold hs_complete. fold n.
    replace (MAX_HANDSHAKE <? n) with false by lia.
    destruct rest as [|r rest].
    - change (blen (@nil N)) with 0 in L. replace (blen _ <? 4 + n) with false by lia.
      rewrite firstn_all2; [reflexivity|]. unfold blen in L. lia.
    - rewrite (blen_cons r rest) in L. replace (blen _ <? 4 + n) with true by lia. reflexivity.
  Qed.

  Lemma read_fragment vers cuts : forall hand rest w,
    hand ++ rest = msg -> vers < 4096 ->
    Forall (fun r => blen (r_payload r) <= MAX_PLAINTEXT) (fragment vers cuts rest) ->
    read_handshake (fragment vers cuts rest) hand w = Some msg.
  Proof.
    induction cuts as [|k cuts IH]; intros hand rest w E V F.
    - cbn [fragment] in *. cbn [read_handshake].
      rewrite (hs_complete_prefix hand rest E).
      destruct rest as [|r rest]; [rewrite app_nil_r in E; now subst|].
      inversion F as [|? ? F1 _]; subst. cbn [r_typ r_vers r_payload] in *.
      change (22 =? 128) with false. replace (4096 <=? vers) with false by lia.
      change (negb ((22 =? 21) || (22 =? 22))) with false.
      replace (MAX_PLAINTEXT <? blen (r :: rest)) with false by lia.
      change (22 =? 22) with true. cbv iota.
      rewrite (hs_complete_prefix (hand ++ r :: rest) []) by (rewrite app_nil_r; exact E).
      now rewrite E.
    - cbn [fragment] in *. cbn [read_handshake].
      rewrite (hs_complete_prefix hand rest E).
      destruct rest as [|r rest'] eqn:R; [rewrite app_nil_r in E; now subst|]. rewrite <- R in *.
      inversion F as [|? ? F1 F2]; subst x l. cbn [r_typ r_vers r_payload] in *.
      change (22 =? 128) with false. replace (4096 <=? vers) with false by lia.
      change (negb ((22 =? 21) || (22 =? 22))) with false.
      replace (MAX_PLAINTEXT <? blen (firstn k rest)) with false by lia.
      change (22 =? 22) with true. cbv iota.
      apply IH; auto. now rewrite <- app_assoc, firstn_skipn.
  Qed.
End Fragment.

Lemma enc24_val v : v <= MAX_HANDSHAKE ->
  (v / 65536) * 65536 + ((v / 256) mod 256) * 256 + v mod 256 = v.
Proof. unfold MAX_HANDSHAKE. intros H. lia. Qed.

Lemma read_fragment_hello h vers cuts :
  wf_hello h = true -> vers < 4096 ->
  Forall (fun r => blen (r_payload r) <= MAX_PLAINTEXT) (fragment vers cuts (encode_hello h)) ->
  read_handshake (fragment vers cuts (encode_hello h)) [] 0 = Some (encode_hello h).
Proof.
  intros W V F. assert (M : blen (enc_body h) <= MAX_HANDSHAKE).
  { unfold wf_hello in W. apply andb_true_iff in W as [_ W]. lia. }
  unfold encode_hello, enc24 in *. cbn [app] in *.
  apply read_fragment; auto.
  - now rewrite enc24_val.
  - now rewrite enc24_val.
Qed.

Lemma served_fragment_hello h vers cuts :
  wf_hello h = true -> vers < 4096 ->
  Forall (fun r => blen (r_payload r) <= MAX_PLAINTEXT) (fragment vers cuts (encode_hello h)) ->
  served (fragment vers cuts (encode_hello h)) = Ok (Some (spec_ja3 h, spec_sni h)).
Proof.
  intros W V F. unfold served. rewrite read_fragment_hello by assumption.
  rewrite <- ja3_is_spec, <- recorded_encode by assumption. reflexivity.
Qed.

Lemma full_statement_holds : full_statement.
Proof. intros h vers cuts W [V F]. now apply served_fragment_hello. Qed.

(* ---------------- the fuel used always suffices ---------------- *)
Lemma sni_loop_fuel : forall fuel d, (length d < fuel)%nat -> sni_loop fuel d <> SFuel.
Proof.
  induction fuel as [|f IH]; intros d H; [lia|].
  cbn [sni_loop]. destruct d as [|ty [|a [|b d']]]; try discriminate.
  destruct (take (u16 a b) d') as [[name rest]|] eqn:T; [|discriminate].
  apply take_length in T as [T _]. cbn [length] in H.
  destruct (ty =? 0); [destruct (ends_with_dot name); discriminate|].
  apply IH. lia.
Qed.

Lemma alpn_loop_fuel : forall fuel d, (length d < fuel)%nat -> alpn_loop fuel d <> Fuel.
Proof.
  induction fuel as [|f IH]; intros d H; [lia|].
  cbn [alpn_loop]. destruct d as [|l d']; [discriminate|].
  destruct ((l =? 0) || (blen d' <? l)); [discriminate|].
  apply IH. rewrite skipn_length. cbn [length] in H. lia.
Qed.

Lemma ext_body_fuel ty body st : ext_body ty body st <> Fuel.
Proof.
  unfold ext_body.
  destruct (ty =? X_SNI).
  { destruct body as [|a [|b d]]; try discriminate. destruct (negb _); [discriminate|].
    pose proof (sni_loop_fuel (S (length d)) d ltac:(lia)).
    destruct (sni_loop _ _); congruence. }
  destruct (ty =? X_NPN). { destruct (0 <? _); discriminate. }
  destruct (ty =? X_STATUS); [discriminate|].
  destruct (ty =? X_CURVES).
  { destruct body as [|a [|b d]]; try discriminate. destruct (_ || _); discriminate. }
  destruct (ty =? X_POINTS).
  { destruct body as [|a d]; try discriminate. destruct (negb _); discriminate. }
  destruct (ty =? X_TICKET); [discriminate|].
  destruct (ty =? X_SIGALGS).
  { destruct body as [|a [|b d]]; try discriminate. destruct (N.odd _); [discriminate|].
    destruct (negb _); discriminate. }
  destruct (ty =? X_RENEG).
  { destruct body as [|a d]; try discriminate. destruct (negb _); discriminate. }
  destruct (ty =? X_ALPN).
  { destruct body as [|a [|b d]]; try discriminate. destruct (negb _); [discriminate|].
    pose proof (alpn_loop_fuel (S (length d)) d ltac:(lia)).
    destruct (alpn_loop _ _); congruence. }
  destruct (ty =? X_SCT). { destruct (negb _); discriminate. }
  discriminate.
Qed.

Lemma parse_exts_fuel : forall fuel d st, (length d < fuel)%nat -> parse_exts fuel d st <> Fuel.
Proof.
  induction fuel as [|f IH]; intros d st H; [lia|].
  cbn [parse_exts]. destruct d as [|t1 [|t2 [|l1 [|l2 rest]]]]; try discriminate.
  destruct (take (u16 l1 l2) rest) as [[body rest']|] eqn:T; [|discriminate].
  apply take_length in T as [T _]. cbn [length] in H.
  pose proof (ext_body_fuel (u16 t1 t2) body (push_ext (u16 t1 t2) st)).
  destruct (ext_body _ _ _); try congruence.
  apply IH. lia.
Qed.

Lemma parse_hello_fuel d : parse_hello d <> Fuel.
Proof.
  unfold parse_hello.
  repeat match goal with
         | |- (if ?c then _ else _) <> _ => destruct c
         | |- (match ?x with _ => _ end) <> _ => destruct x eqn:?
         end; try discriminate.
  exfalso. eapply parse_exts_fuel; [|eassumption]. lia.
Qed.

Lemma served_fuel recs : served recs <> Fuel.
Proof.
  unfold served. destruct (read_handshake recs [] 0) as [msg|]; [|discriminate].
  destruct msg as [|t m]; [discriminate|].
  destruct t as [|p]; [discriminate|]. destruct p; try discriminate.
  unfold recorded. pose proof (parse_hello_fuel (1 :: m)).
  destruct (parse_hello _); try congruence; discriminate.
Qed.

(* ---------------- the specification's string determines its five lists ---------------- *)
Lemma is_digit_not_sep c : is_digit c = true -> c <> C_dash /\ c <> C_comma.
Proof. unfold is_digit, C_dash, C_comma. lia. Qed.

(* splitting at the first separator *)
Fixpoint span_digits (s : bytes) : bytes * bytes :=
  match s with
  | [] => ([], [])
  | c :: r => if is_digit c then let '(a, b) := span_digits r in (c :: a, b) else ([], s)
  end.

Lemma span_digits_app d r :
  forallb is_digit d = true -> match r with [] => True | c :: _ => is_digit c = false end ->
  span_digits (d ++ r) = (d, r).
Proof.
  induction d as [|c d IH]; intros Hd Hr.
  - destruct r as [|c r]; [reflexivity|]. cbn [app span_digits]. now rewrite Hr.
  - cbn [forallb] in Hd. apply andb_true_iff in Hd as [Hc Hd].
    cbn [app span_digits]. rewrite Hc, IH; auto.
Qed.

Lemma dash_list_inj a : forall b r1 r2,
  match r1 with [] => True | c :: _ => c = C_comma end ->
  match r2 with [] => True | c :: _ => c = C_comma end ->
  dash_list a ++ r1 = dash_list b ++ r2 -> a = b /\ r1 = r2.
Proof.
  assert (Sep : forall c, c = C_comma \/ c = C_dash -> is_digit c = false)
    by (intros c [-> | ->]; reflexivity).
  assert (Hd : forall x l r, match r with [] => True | c :: _ => c = C_comma end ->
            span_digits (dash_list (x :: l) ++ r) =
            (dec x, match l with [] => r | _ => C_dash :: dash_list l ++ r end)).
  { intros x l r Hr. unfold dash_list. cbn [map join].
    destruct l as [|y l]; cbn [map].
    - apply span_digits_app; [apply dec_digits|]. destruct r; auto.
    - rewrite <- app_assoc. cbn [app]. apply span_digits_app; [apply dec_digits|]. now apply Sep; right. }
  assert (Hn : forall r, match r with [] => True | c :: _ => c = C_comma end -> span_digits r = ([], r)).
  { intros [|c r] Hr; [reflexivity|]. cbn [span_digits]. rewrite Sep; auto. }
  induction a as [|x a IH]; intros b r1 r2 H1 H2 E.
  - destruct b as [|y b]; [cbn in E; auto|].
    exfalso. apply (f_equal span_digits) in E. change (dash_list [] ++ r1) with r1 in E.
    rewrite (Hn r1 H1), (Hd y b r2 H2) in E. inversion E as [[E1 E2]].
    symmetry in E1. now apply dec_nonempty in E1.
  - destruct b as [|y b].
    + exfalso. apply (f_equal span_digits) in E. change (dash_list [] ++ r2) with r2 in E.
      rewrite (Hn r2 H2), (Hd x a r1 H1) in E. inversion E as [[E1 E2]].
      now apply dec_nonempty in E1.
    + pose proof (f_equal span_digits E) as S. rewrite (Hd x a r1 H1), (Hd y b r2 H2) in S.
      inversion S as [[E1 E2]]. apply dec_inj in E1. subst y.
      destruct a as [|x' a], b as [|y' b].
      * auto.
      * exfalso. subst r1. vm_compute in H1. discriminate H1.
      * exfalso. subst r2. vm_compute in H2. discriminate H2.
      * inversion E2 as [E3]. destruct (IH (y' :: b) r1 r2 H1 H2 E3) as [I1 I2]. split; congruence.
Qed.

Lemma ja3_fields_inj v1 c1 e1 g1 p1 v2 c2 e2 g2 p2 :
  dec v1 ++ C_comma :: dash_list c1 ++ C_comma :: dash_list e1 ++ C_comma :: dash_list g1 ++ C_comma :: dash_list p1 =
  dec v2 ++ C_comma :: dash_list c2 ++ C_comma :: dash_list e2 ++ C_comma :: dash_list g2 ++ C_comma :: dash_list p2 ->
  v1 = v2 /\ c1 = c2 /\ e1 = e2 /\ g1 = g2 /\ p1 = p2.
Proof.
  intros E.
  pose proof (f_equal span_digits E) as S.
  rewrite !span_digits_app in S by (try apply dec_digits; reflexivity).
  inversion S as [[E1 E2]]. apply dec_inj in E1.
  apply dash_list_inj in E2 as [-> E2]; try reflexivity. inversion E2 as [E3].
  apply dash_list_inj in E3 as [-> E3]; try reflexivity. inversion E3 as [E4].
  apply dash_list_inj in E4 as [-> E4]; try reflexivity. inversion E4 as [E5].
  rewrite <- (app_nil_r (dash_list p1)), <- (app_nil_r (dash_list p2)) in E5.
  apply dash_list_inj in E5 as [-> _]; auto.
Qed.

Lemma spec_ja3_inj h1 h2 : spec_ja3 h1 = spec_ja3 h2 ->
  h_vers h1 = h_vers h2 /\ no_grease (h_ciphers h1) = no_grease (h_ciphers h2) /\
  no_grease (map ext_type (exts_of h1)) = no_grease (map ext_type (exts_of h2)) /\
  no_grease (spec_groups h1) = no_grease (spec_groups h2) /\ spec_points h1 = spec_points h2.
Proof. unfold spec_ja3. apply ja3_fields_inj. Qed.

(* the coded string determines the version and the four GREASE-free lists *)
Lemma code_ja3_inj h1 h2 : ja3_string (info_of h1) = ja3_string (info_of h2) ->
  h_vers h1 = h_vers h2 /\ no_grease (h_ciphers h1) = no_grease (h_ciphers h2) /\
  no_grease (map ext_type (exts_of h1)) = no_grease (map ext_type (exts_of h2)) /\
  no_grease (spec_groups h1) = no_grease (spec_groups h2) /\ spec_points h1 = spec_points h2.
Proof. rewrite !ja3_is_spec. apply spec_ja3_inj. Qed.

Lemma frag_ok_single vers msg :
  vers < 4096 -> blen msg <= MAX_PLAINTEXT -> frag_ok vers [] msg.
Proof. intros V L. split; [exact V|]. cbn [fragment]. constructor; [exact L|constructor]. Qed.
