(* C12 - lemmas. *)
From HT Require Import Common.Bytes C12.Model C12.Check.
Open Scope Z_scope.

(* ------------------------------------------------------------------ *)
(* generic                                                             *)
(* ------------------------------------------------------------------ *)

Lemma eqb_str_true a b : eqb_str a b = true <-> a = b.
Proof. apply eqb_bytes_true. Qed.

Lemma eqb_str_refl a : eqb_str a a = true.
Proof. apply eqb_str_true; reflexivity. Qed.

Lemma eqb_str_false a b : eqb_str a b = false <-> a <> b.
Proof.
  split; intros H.
  - intros E. apply eqb_str_true in E. congruence.
  - destruct (eqb_str a b) eqn:E; auto. apply eqb_str_true in E. contradiction.
Qed.

Lemma existsb_eqb_In x l : existsb (eqb_str x) l = true <-> In x l.
Proof.
  rewrite existsb_exists. split.
  - intros [y [Hy E]]. apply eqb_str_true in E. subst. exact Hy.
  - intros H. exists x. split; auto. apply eqb_str_refl.
Qed.

Lemma is_nil_true {A} (l : list A) : is_nil l = true <-> l = [].
Proof. destruct l; cbn; split; congruence. Qed.

(* ------------------------------------------------------------------ *)
(* strings.Split                                                       *)
(* ------------------------------------------------------------------ *)

Fixpoint join (c : N) (l : list str) : str :=
  match l with
  | [] => []
  | a :: r => match r with [] => a | _ => a ++ c :: join c r end
  end.

Lemma split_on_nonnil c s cur : split_on c s cur <> [].
Proof.
  revert cur; induction s as [|x r IH]; intros cur; cbn [split_on].
  - discriminate.
  - destruct (x =? c)%N; [discriminate | apply IH].
Qed.

Lemma split_on_free c s cur :
  no_byte c s = true -> split_on c s cur = [rev cur ++ s].
Proof.
  revert cur; induction s as [|x r IH]; intros cur H; cbn [split_on].
  - now rewrite app_nil_r.
  - cbn [no_byte forallb] in H. apply andb_true_iff in H as [Hx Hr].
    apply negb_true_iff in Hx. rewrite Hx.
    rewrite (IH (x :: cur) Hr). cbn [rev]. now rewrite <- app_assoc.
Qed.

Lemma split_on_app c u p cur :
  no_byte c u = true ->
  split_on c (u ++ c :: p) cur = (rev cur ++ u) :: split_on c p [].
Proof.
  revert cur; induction u as [|x r IH]; intros cur H; cbn [app split_on].
  - rewrite N.eqb_refl. now rewrite app_nil_r.
  - cbn [no_byte forallb] in H. apply andb_true_iff in H as [Hx Hr].
    apply negb_true_iff in Hx. rewrite Hx.
    rewrite (IH (x :: cur) Hr). cbn [rev]. now rewrite <- app_assoc.
Qed.

Lemma split_pair c u p :
  no_byte c u = true -> no_byte c p = true -> split c (u ++ c :: p) = [u; p].
Proof.
  intros Hu Hp. unfold split. rewrite split_on_app by assumption.
  rewrite split_on_free by assumption. reflexivity.
Qed.

Lemma join_split_on c s cur : join c (split_on c s cur) = rev cur ++ s.
Proof.
  revert cur; induction s as [|x r IH]; intros cur; cbn [split_on].
  - cbn [join]. now rewrite app_nil_r.
  - destruct (x =? c)%N eqn:E.
    + apply N.eqb_eq in E. subst x. cbn [join].
      destruct (split_on c r []) eqn:S; [exfalso; eapply split_on_nonnil; eauto|].
      rewrite <- S, IH. reflexivity.
    + rewrite IH. cbn [rev]. now rewrite <- app_assoc.
Qed.

Lemma split_on_parts_free c s cur :
  no_byte c cur = true -> Forall (fun a => no_byte c a = true) (split_on c s cur).
Proof.
  revert cur; induction s as [|x r IH]; intros cur H; cbn [split_on].
  - constructor; [|constructor]. unfold no_byte in *. rewrite forallb_forall in *.
    intros y Hy. apply H. now apply in_rev.
  - destruct (x =? c)%N eqn:E.
    + constructor.
      * unfold no_byte in *. rewrite forallb_forall in *.
        intros y Hy. apply H. now apply in_rev.
      * apply IH. reflexivity.
    + apply IH. cbn [no_byte forallb]. rewrite E. exact H.
Qed.

Lemma split_two_inv c s a b :
  split c s = [a; b] -> s = a ++ c :: b /\ no_byte c a = true /\ no_byte c b = true.
Proof.
  intros H. unfold split in H.
  pose proof (join_split_on c s []) as J. rewrite H in J. cbn in J.
  pose proof (split_on_parts_free c s [] eq_refl) as F. rewrite H in F.
  inversion F as [|? ? Ha F']; subst. inversion F' as [|? ? Hb _]; subst.
  auto.
Qed.

(* ------------------------------------------------------------------ *)
(* ssh                                                                 *)
(* ------------------------------------------------------------------ *)

Lemma cred_matches_iff u p c : cred_matches u p c = true <-> split C_colon c = [u; p].
Proof.
  unfold cred_matches.
  destruct (split C_colon c) as [|a [|b [|x y]]]; try (split; [discriminate | congruence]).
  rewrite andb_true_iff, !eqb_str_true. split.
  - intros [-> ->]; reflexivity.
  - intros E; inversion E; auto.
Qed.

Lemma ssh_auth_iff creds u p :
  ssh_auth creds u p = true <->
  In S_star creds \/ exists c, In c creds /\ split C_colon c = [u; p].
Proof.
  induction creds as [|c r IH]; cbn [ssh_auth In].
  - split; [discriminate | intros [[]|[c [[] _]]]].
  - destruct (eqb_str c S_star) eqn:Es.
    + apply eqb_str_true in Es. split; auto.
    + apply eqb_str_false in Es.
      destruct (cred_matches u p c) eqn:Em.
      * apply cred_matches_iff in Em. split; auto. intros _. right. exists c. auto.
      * rewrite IH. split.
        -- intros [H|[c' [H1 H2]]]; [auto | right; exists c'; auto].
        -- intros [[H|H]|[c' [[H|H] H2]]]; auto.
           ++ congruence.
           ++ subst c'. apply cred_matches_iff in H2. congruence.
           ++ right. exists c'. auto.
Qed.

(* for a user and a password without ':' the entries that match are exactly "user:password" *)
Lemma ssh_entry_iff creds u p :
  (exists c, In c creds /\ split C_colon c = [u; p]) <->
  no_byte C_colon u = true /\ no_byte C_colon p = true /\ In (u ++ C_colon :: p) creds.
Proof.
  split.
  - intros [c [Hin Hs]]. apply split_two_inv in Hs as [-> [Hu Hp]]. auto.
  - intros [Hu [Hp Hin]]. exists (u ++ C_colon :: p). split; auto. now apply split_pair.
Qed.

Lemma ssh_spec_iff creds u p :
  ssh_spec creds u p = true <->
  In S_star creds \/
  (no_byte C_colon u = true /\ no_byte C_colon p = true /\ In (u ++ C_colon :: p) creds).
Proof.
  unfold ssh_spec. rewrite orb_true_iff, !andb_true_iff, !existsb_eqb_In. tauto.
Qed.

Lemma ssh_auth_is_spec creds u p : ssh_auth creds u p = ssh_spec creds u p.
Proof.
  apply Bool.eq_iff_eq_true. rewrite ssh_auth_iff, ssh_spec_iff, ssh_entry_iff. tauto.
Qed.

(* entries that are neither the wildcard nor of the form a:b (exactly one ':') are ignored *)
Definition ssh_relevant (c : str) : bool :=
  eqb_str c S_star || Nat.eqb (length (split C_colon c)) 2.

Lemma ssh_auth_filter creds u p :
  ssh_auth (filter ssh_relevant creds) u p = ssh_auth creds u p.
Proof.
  induction creds as [|c r IH]; [reflexivity|]. cbn [filter ssh_auth].
  unfold ssh_relevant at 1.
  destruct (eqb_str c S_star) eqn:Es; cbn [orb].
  - cbn [ssh_auth]. now rewrite Es.
  - destruct (Nat.eqb (length (split C_colon c)) 2) eqn:El.
    + cbn [ssh_auth]. now rewrite Es, IH.
    + assert (cred_matches u p c = false) as ->.
      { unfold cred_matches. destruct (split C_colon c) as [|a [|b [|x y]]]; auto. discriminate. }
      exact IH.
Qed.

Definition attempt_ok (creds : list str) (u : str) (a : sattempt) : Prop :=
  sa_user a = u /\ sa_ok a = ssh_auth creds u (sa_pw a).

Lemma ssh_conn_sound creds u pws :
  Forall (attempt_ok creds u) (ssh_conn creds u pws) /\
  exists rest, pws = map sa_pw (ssh_conn creds u pws) ++ rest /\
               (rest = [] \/ existsb sa_ok (ssh_conn creds u pws) = true).
Proof.
  induction pws as [|p r [IHa [rest [IHr IHd]]]]; cbn [ssh_conn].
  - split; [constructor|]. exists []. auto.
  - destruct (ssh_auth creds u p) eqn:E.
    + split.
      * constructor; [|constructor]. split; cbn; auto.
      * exists r. cbn. auto.
    + split.
      * constructor; auto. split; cbn; auto.
      * exists rest. cbn [map sa_pw app existsb sa_ok orb]. split; [congruence|exact IHd].
Qed.

Lemma ssh_session_attempts creds conns a :
  In a (concat (ssh_session creds conns)) ->
  sa_ok a = ssh_auth creds (sa_user a) (sa_pw a).
Proof.
  unfold ssh_session. intros H. apply in_concat in H as [l [Hl Ha]].
  apply in_map_iff in Hl as [[u pws] [<- _]]. cbn [fst snd] in Ha.
  destruct (ssh_conn_sound creds u pws) as [F _].
  rewrite Forall_forall in F. destruct (F a Ha) as [Hu Ho]. now rewrite Hu.
Qed.

(* the model's own output passes the executable check *)
Lemma ssh_conn_sig_model creds u pws :
  ssh_conn_sig creds u pws (map sa_ok (ssh_conn creds u pws)) = 0%N.
Proof.
  induction pws as [|p r IH]; cbn [ssh_conn]; [reflexivity|].
  destruct (ssh_auth creds u p) eqn:E; cbn [map sa_ok ssh_conn_sig];
    rewrite <- ssh_auth_is_spec, E; cbn; auto.
  destruct r; reflexivity.
Qed.

Lemma ssh_sig_conns_model creds conns :
  ssh_sig_conns creds conns (map (map sa_ok) (ssh_session creds conns)) = 0%N.
Proof.
  induction conns as [|[u pws] r IH]; [reflexivity|].
  cbn [ssh_session map ssh_sig_conns fst snd]. rewrite ssh_conn_sig_model. exact IH.
Qed.

Lemma ssh_conn_presented creds u pws :
  map (fun p => (u, p)) (firstn (length (map sa_ok (ssh_conn creds u pws))) pws) =
  map (fun a => (sa_user a, sa_pw a)) (ssh_conn creds u pws).
Proof.
  induction pws as [|p r IH]; cbn [ssh_conn]; [reflexivity|].
  destruct (ssh_auth creds u p); cbn [map length firstn sa_user sa_pw].
  - reflexivity.
  - now rewrite IH.
Qed.

Lemma ssh_presented_model creds conns :
  ssh_presented conns (map (map sa_ok) (ssh_session creds conns)) =
  map (fun a => (sa_user a, sa_pw a)) (concat (ssh_session creds conns)).
Proof.
  induction conns as [|[u pws] r IH]; [reflexivity|].
  cbn [ssh_session map ssh_presented fst snd concat].
  rewrite map_app, ssh_conn_presented. f_equal. exact IH.
Qed.

Lemma list_eqb_refl {A} (e : A -> A -> bool) (l : list A) :
  (forall x, e x x = true) -> list_eqb e l l = true.
Proof. intros H; induction l; cbn; auto. now rewrite H, IHl. Qed.

Lemma scase_sig_model id creds conns :
  let m := ssh_session creds conns in
  scase_sig (mkSCase id creds conns (map (map sa_ok) m)
                     (map (fun a => (sa_user a, sa_pw a)) (concat m))) = 0%N.
Proof.
  cbn zeta. unfold scase_sig. cbn [sc_creds sc_conns sc_results sc_events].
  rewrite ssh_sig_conns_model, ssh_presented_model. cbn [orsig N.eqb].
  rewrite list_eqb_refl; [reflexivity|].
  intros [a b]. unfold pair_eqb. cbn. now rewrite !eqb_str_refl.
Qed.

(* ------------------------------------------------------------------ *)
(* ldap                                                                *)
(* ------------------------------------------------------------------ *)

Definition ldap_cred_ok (creds : list str) (dn0 pw : str) : Prop :=
  (norm_dn dn0 = [] /\ pw = []) \/ In (norm_dn dn0 ++ C_colon :: pw) creds.

Lemma ldap_spec_iff creds dn pw : ldap_spec creds dn pw = true <-> ldap_cred_ok creds dn pw.
Proof.
  unfold ldap_spec, ldap_cred_ok.
  rewrite orb_true_iff, andb_true_iff, !is_nil_true, existsb_eqb_In. tauto.
Qed.

Lemma bind_func_ok creds login dn pw :
  fst (bind_func creds login dn pw) = true <->
  (dn = [] /\ pw = []) \/ In (dn ++ C_colon :: pw) creds.
Proof.
  unfold bind_func.
  destruct (Nat.eqb (length (dn ++ C_colon :: pw)) 1) eqn:El.
  - apply Nat.eqb_eq in El. rewrite app_length in El. cbn [length] in El.
    destruct dn; destruct pw; cbn in El; try lia. cbn. tauto.
  - apply Nat.eqb_neq in El.
    assert (~ (dn = [] /\ pw = [])) by (intros [-> ->]; cbn in El; lia).
    destruct (existsb (eqb_str (dn ++ C_colon :: pw)) creds) eqn:Ee; cbn [fst].
    + apply existsb_eqb_In in Ee. tauto.
    + split; [discriminate|]. intros [?|Hin]; [tauto|].
      apply existsb_eqb_In in Hin. congruence.
Qed.

(* the decision of a bind does not depend on the session state *)
Lemma ldap_bind_spec creds login ver dn pw :
  2 <= ver ->
  exists login' code,
    ldap_bind creds login ver dn pw =
      (login', Some (1%N, code), mkLE T_BIND (Some (norm_dn dn)) (Some pw)) /\
    (code = RES_SUCCESS <-> ldap_cred_ok creds dn pw) /\
    (code = RES_SUCCESS \/ code = RES_INVALID_CRED \/ code = RES_UNWILLING).
Proof.
  intros Hv. unfold ldap_bind.
  assert (ver <? 2 = false) as -> by lia.
  pose proof (bind_func_ok creds login (norm_dn dn) pw) as B.
  destruct (bind_func creds login (norm_dn dn) pw) as [ok login'] eqn:Eb. cbn [fst] in B.
  eexists login', _. split; [reflexivity|]. unfold ldap_cred_ok.
  destruct ok.
  - split; [|auto]. split; [intros _; apply B; reflexivity | reflexivity].
  - split.
    + split; [|intros H; apply B in H; discriminate].
      destruct pw; destruct (norm_dn dn); discriminate.
    + destruct pw; destruct (norm_dn dn); auto.
Qed.

(* an old protocol version is refused - after the evaluated name and the presented password
   have been recorded *)
Lemma ldap_bind_old_version creds login ver dn pw :
  ver < 2 ->
  ldap_bind creds login ver dn pw =
    (login, Some (1%N, RES_PROTOCOL), mkLE T_BIND (Some (norm_dn dn)) (Some pw)).
Proof. intros H. unfold ldap_bind. assert (ver <? 2 = true) as -> by lia. reflexivity. Qed.

(* every simple bind, whatever its version and outcome, produces the event with the evaluated
   name and the presented password *)
Lemma ldap_bind_event creds login ver dn pw :
  snd (ldap_bind creds login ver dn pw) = mkLE T_BIND (Some (norm_dn dn)) (Some pw).
Proof.
  unfold ldap_bind. destruct (ver <? 2); [reflexivity|].
  destruct (bind_func creds login (norm_dn dn) pw). reflexivity.
Qed.

(* a successful login as observed on the wire: a bind (version >= 2) answered with success whose
   evaluated name is not empty *)
Definition succ_login (x : lreq * lreply * levent) : bool :=
  match fst (fst x) with
  | LBind ver dn pw => (2 <=? ver) && reply_ok (snd (fst x)) && negb (is_nil (norm_dn dn))
  | _ => false
  end.

Lemma is_login_is_nil l : is_login l = negb (is_nil l).
Proof. destruct l; reflexivity. Qed.

Lemma ldap_step_login creds login r login' rp ev :
  ldap_step creds login r = (login', rp, ev) ->
  is_login login' = true ->
  is_login login = true \/ succ_login (r, rp, ev) = true.
Proof.
  destruct r as [ver dn pw | ver | ver | ver dn | tag]; cbn [ldap_step];
    try (unfold ldap_bind_fallthrough; intros E; inversion E; subst; auto; fail).
  - unfold ldap_bind. destruct (ver <? 2) eqn:Ev.
    + intros E; inversion E; subst; auto.
    + unfold bind_func.
      destruct (Nat.eqb (length (norm_dn dn ++ C_colon :: pw)) 1).
      * intros E; inversion E; subst. cbn. discriminate.
      * destruct (existsb (eqb_str (norm_dn dn ++ C_colon :: pw)) creds).
        -- intros E; inversion E; subst. intros H. right.
           unfold succ_login. cbn [fst snd reply_ok RES_SUCCESS].
           rewrite is_login_is_nil in H. rewrite H.
           assert (2 <=? ver = true) as -> by lia. reflexivity.
        -- intros E; inversion E; subst; auto.
  - destruct (ldap_catchall login tag). intros E; inversion E; subst; auto.
Qed.

Lemma ldap_run_login creds reqs : forall login fin out,
  ldap_run creds login reqs = (fin, out) ->
  is_login fin = true ->
  is_login login = true \/ existsb succ_login out = true.
Proof.
  induction reqs as [|r rest IH]; intros login fin out; cbn [ldap_run].
  - intros E; inversion E; subst; auto.
  - destruct (ldap_step creds login r) as [[login' rp] ev] eqn:Es.
    destruct (ldap_run creds login' rest) as [fin' out'] eqn:Er.
    intros E; inversion E; subst. intros Hf. cbn [existsb].
    destruct (IH _ _ _ Er Hf) as [H|H].
    + destruct (ldap_step_login _ _ _ _ _ _ Es H) as [H'|H']; auto.
      right. now rewrite H'.
    + right. rewrite H. apply orb_true_r.
Qed.

Lemma ldap_catchall_code login tag :
  ldap_gated tag = true ->
  exists rt, fst (ldap_catchall login tag) =
             Some (rt, if is_login login then RES_SUCCESS else RES_UNWILLING).
Proof.
  unfold ldap_gated, ldap_catchall. intros H.
  destruct (tag =? 6)%N; [eexists; reflexivity|].
  destruct (tag =? 8)%N; [eexists; reflexivity|].
  destruct (tag =? 10)%N; [eexists; reflexivity|].
  destruct (tag =? 12)%N; [eexists; reflexivity|].
  destruct (tag =? 14)%N; [eexists; reflexivity|]. discriminate.
Qed.

(* after any history on a fresh connection, a gated operation is answered with success only
   if an earlier bind of the same connection succeeded with a non-empty name; otherwise it is
   answered with unwillingToPerform *)
Lemma ldap_gated_after creds history tag fin out :
  ldap_run creds [] history = (fin, out) ->
  ldap_gated tag = true ->
  (reply_ok (fst (ldap_catchall fin tag)) = true -> existsb succ_login out = true) /\
  (existsb succ_login out = false ->
   exists rt, fst (ldap_catchall fin tag) = Some (rt, RES_UNWILLING)).
Proof.
  intros Hr Hg. destruct (ldap_catchall_code fin tag Hg) as [rt E]. rewrite E.
  destruct (is_login fin) eqn:L.
  - destruct (ldap_run_login _ _ _ _ _ Hr L) as [H|H]; [discriminate|].
    split; [auto|]. intros C; congruence.
  - split; [cbn; discriminate|]. intros _. eexists; reflexivity.
Qed.

(* entries without ':' (the wildcard among them) never match in this service *)
Definition has_colon (s : str) : bool := negb (no_byte C_colon s).

Lemma has_colon_cred dn pw : has_colon (dn ++ C_colon :: pw) = true.
Proof.
  unfold has_colon, no_byte. rewrite forallb_app. cbn [forallb].
  rewrite N.eqb_refl. cbn. now rewrite andb_false_r.
Qed.

Lemma existsb_filter_eqb f x l :
  f x = true -> existsb (eqb_str x) (filter f l) = existsb (eqb_str x) l.
Proof.
  intros Hf. induction l as [|y r IH]; [reflexivity|]. cbn [filter existsb].
  destruct (f y) eqn:Fy; cbn [existsb]; rewrite IH; auto.
  destruct (eqb_str x y) eqn:E; auto. apply eqb_str_true in E. congruence.
Qed.

Lemma ldap_step_filter creds login r :
  ldap_step (filter has_colon creds) login r = ldap_step creds login r.
Proof.
  destruct r; cbn [ldap_step]; auto. unfold ldap_bind, bind_func.
  now rewrite existsb_filter_eqb by apply has_colon_cred.
Qed.

Lemma ldap_run_filter creds reqs : forall login,
  ldap_run (filter has_colon creds) login reqs = ldap_run creds login reqs.
Proof.
  induction reqs as [|r rest IH]; intros login; cbn [ldap_run]; auto.
  rewrite ldap_step_filter. destruct (ldap_step creds login r) as [[l rp] ev]. now rewrite IH.
Qed.

(* the model's own output passes the executable check *)
Lemma ostr_eqb_refl o : ostr_eqb o o = true.
Proof. destruct o; cbn; auto. apply eqb_str_refl. Qed.

(* a bind that is answered with success sets the session login to the evaluated name (empty for
   the anonymous bind); any other bind leaves it alone *)
Lemma ldap_bind_login creds login ver dn pw login' rp ev :
  ldap_bind creds login ver dn pw = (login', rp, ev) ->
  if reply_ok rp then login' = norm_dn dn else login' = login.
Proof.
  unfold ldap_bind. destruct (ver <? 2).
  - intros E; inversion E; subst. reflexivity.
  - unfold bind_func.
    destruct (Nat.eqb (length (norm_dn dn ++ C_colon :: pw)) 1) eqn:El.
    + intros E; inversion E; subst. cbn [reply_ok RES_SUCCESS N.eqb].
      apply Nat.eqb_eq in El. rewrite app_length in El. cbn [length] in El.
      destruct (norm_dn dn); [reflexivity | cbn in El; lia].
    + destruct (existsb (eqb_str (norm_dn dn ++ C_colon :: pw)) creds).
      * intros E; inversion E; subst. reflexivity.
      * intros E; inversion E; subst. destruct pw; destruct (norm_dn dn); reflexivity.
Qed.

Lemma ldap_walk_model creds reqs : forall login logged cur,
  (is_login login = true -> logged = true) ->
  (cur = true -> is_login login = true) ->
  let out := snd (ldap_run creds login reqs) in
  ldap_sig_walk creds logged cur reqs (map (fun x => snd (fst x)) out) (map snd out) = 0%N.
Proof.
  induction reqs as [|r rest IH]; intros login logged cur Hl Hc; cbn zeta; cbn [ldap_run]; [reflexivity|].
  destruct (ldap_step creds login r) as [[login' rp] ev] eqn:Es.
  destruct (ldap_run creds login' rest) as [fin out] eqn:Er.
  cbn [snd fst map ldap_sig_walk].
  specialize (IH login'). rewrite Er in IH. cbn [snd] in IH.
  destruct r as [ver dn pw | ver | ver | ver dn | tag]; cbn [ldap_step] in Es.
  - pose proof (ldap_bind_event creds login ver dn pw) as Hev. rewrite Es in Hev. cbn [snd] in Hev.
    subst ev. unfold levent_bind_ok. cbn [le_type le_user le_pw]. rewrite !ostr_eqb_refl.
    change ((T_BIND =? T_BIND)%N) with true. cbn [andb negb].
    pose proof (ldap_bind_login _ _ _ _ _ _ _ _ Es) as Hlog.
    destruct (ver <? 2) eqn:Ev.
    + rewrite ldap_bind_old_version in Es by lia. inversion Es; subst.
      assert (2 <=? ver = false) as -> by lia. cbn [reply_ok andb orb].
      change ((RES_PROTOCOL =? 0)%N) with false. cbn [andb negb orb].
      rewrite orb_false_r. apply IH; assumption.
    + destruct (ldap_bind_spec creds login ver dn pw ltac:(lia)) as [l' [code [E [Hcd Hcodes]]]].
      rewrite E in Es. inversion Es; subst.
      assert (reply_ok (Some (1%N, code)) = ldap_spec creds dn pw) as Hok.
      { apply Bool.eq_iff_eq_true. rewrite ldap_spec_iff, <- Hcd. cbn [reply_ok].
        rewrite N.eqb_eq. reflexivity. }
      rewrite Hok in *. assert (2 <=? ver = true) as -> by lia.
      destruct (ldap_spec creds dn pw) eqn:Sp; cbn [andb negb orb].
      * subst login'. apply IH.
        -- intros L. rewrite is_login_is_nil in L. rewrite L. apply orb_true_r.
        -- intros L. rewrite is_login_is_nil. exact L.
      * subst login'. rewrite orb_false_r. apply IH; assumption.
  - unfold ldap_bind_fallthrough in Es. inversion Es; subst. cbn [le_type].
    change ((T_BIND =? T_BIND)%N) with true. cbn [negb]. apply IH; assumption.
  - unfold ldap_bind_fallthrough in Es. inversion Es; subst. cbn [le_type].
    change ((T_BIND =? T_BIND)%N) with true. cbn [negb]. apply IH; assumption.
  - unfold ldap_bind_fallthrough in Es. inversion Es; subst. cbn [le_type le_user].
    change ((T_BIND =? T_BIND)%N) with true. rewrite ostr_eqb_refl. cbn [andb negb]. apply IH; assumption.
  - destruct (ldap_catchall login tag) as [rp' ev'] eqn:Ec. inversion Es; subst.
    destruct (ldap_gated tag) eqn:G; cbn [andb].
    + destruct (ldap_catchall_code login' tag G) as [rt E]. rewrite Ec in E. cbn [fst] in E.
      subst rp. destruct (is_login login') eqn:L.
      * rewrite (Hl eq_refl). cbn. apply IH; auto.
      * cbn. destruct cur; [specialize (Hc eq_refl); discriminate|]. apply IH; auto.
    + apply IH; assumption.
Qed.

Lemma lcase_sig_model id creds reqs :
  let out := ldap_session creds reqs in
  lcase_sig (mkLCase id creds reqs (map (fun x => snd (fst x)) out) (map snd out)) = 0%N.
Proof.
  cbn zeta. unfold lcase_sig, ldap_session. cbn [lc_creds lc_reqs lc_replies lc_events].
  apply (ldap_walk_model creds reqs [] false false); discriminate.
Qed.

(* in every history, from every session state, the event recorded for a simple bind carries the
   evaluated name and the presented password *)
Lemma ldap_run_bind_events creds reqs : forall login ver dn pw rp ev,
  In (LBind ver dn pw, rp, ev) (snd (ldap_run creds login reqs)) ->
  ev = mkLE T_BIND (Some (norm_dn dn)) (Some pw).
Proof.
  induction reqs as [|r rest IH]; intros login ver dn pw rp ev; cbn [ldap_run]; [intros []|].
  destruct (ldap_step creds login r) as [[login' rp'] ev'] eqn:Es.
  destruct (ldap_run creds login' rest) as [fin out] eqn:Er. cbn [snd In].
  intros [H|H].
  - inversion H; subst. cbn [ldap_step] in Es.
    pose proof (ldap_bind_event creds login ver dn pw) as Hev. rewrite Es in Hev. exact Hev.
  - specialize (IH login' ver dn pw rp ev). rewrite Er in IH. auto.
Qed.

(* ------------------------------------------------------------------ *)
(* ftp                                                                 *)
(* ------------------------------------------------------------------ *)

Definition is230 (o : foutcome) : bool :=
  match o with FExec cs => codes_eqb cs [230%N] | _ => false end.

Lemma ftp_exec_user users st c param st' codes :
  ftp_exec users st c param = (st', codes) ->
  f_user st' = f_user st \/
  (c = PASS /\ codes = [230%N] /\ check_passwd users (f_requser st) param = true /\
   st' = mkF (f_requser st) [] (f_fs st)).
Proof.
  intros E. destruct c; cbn [ftp_exec] in E;
    repeat match type of E with context [if ?b then _ else _] => destruct b eqn:? end;
    inversion E; subst; cbn; auto.
Qed.

Lemma ftp_exec_fs users st c param st' codes :
  require_auth c = false ->
  ftp_exec users st c param = (st', codes) -> f_fs st' = f_fs st.
Proof.
  intros R E. destruct c; try discriminate R; cbn [ftp_exec] in E;
    repeat match type of E with context [if ?b then _ else _] => destruct b eqn:? end;
    inversion E; subst; cbn; auto.
Qed.

Lemma ftp_step_user users st l st' o :
  ftp_step users st l = (st', o) -> f_user st' = f_user st \/ is230 o = true.
Proof.
  unfold ftp_step. destruct (parse_line l) as [command param].
  destruct (ftp_lookup (to_upper command)) as [c|]; [|intros E; inversion E; auto].
  destruct (require_param c && _); [intros E; inversion E; auto|].
  destruct (require_auth c && _); [intros E; inversion E; auto|].
  destruct (ftp_exec users st c param) as [st1 codes] eqn:Ex. intros E; inversion E; subst.
  destruct (ftp_exec_user _ _ _ _ _ _ Ex) as [H|[_ [-> _]]]; auto.
Qed.

(* the dispatcher's gate: a command with RequireAuth is not executed while nobody is logged in *)
Lemma ftp_gate users st l command param c :
  parse_line l = (command, param) ->
  ftp_lookup (to_upper command) = Some c ->
  require_auth c = true ->
  f_user st = [] ->
  ftp_step users st l = (st, FNoParam) \/ ftp_step users st l = (st, FNoAuth).
Proof.
  intros P L R U. unfold ftp_step. rewrite P, L, R, U. cbn [andb].
  destruct (require_param c && _); auto.
Qed.

Lemma ftp_step_fs users st l st' o :
  f_user st = [] -> ftp_step users st l = (st', o) -> f_fs st' = f_fs st.
Proof.
  intros U. unfold ftp_step. destruct (parse_line l) as [command param].
  destruct (ftp_lookup (to_upper command)) as [c|]; [|intros E; inversion E; auto].
  destruct (require_param c && _); [intros E; inversion E; auto|].
  rewrite U. destruct (require_auth c) eqn:R; cbn [andb]; [intros E; inversion E; auto|].
  destruct (ftp_exec users st c param) as [st1 codes] eqn:Ex. intros E; inversion E; subst.
  eapply ftp_exec_fs; eauto.
Qed.

Definition no230 (out : list (str * foutcome)) : bool :=
  negb (existsb (fun x => is230 (snd x)) out).

Lemma ftp_run_no_login users lines : forall st fin out,
  ftp_run users st lines = (fin, out) ->
  no230 out = true ->
  f_user fin = f_user st /\ (f_user st = [] -> f_fs fin = f_fs st).
Proof.
  induction lines as [|l rest IH]; intros st fin out; cbn [ftp_run].
  - intros E; inversion E; auto.
  - destruct (ftp_step users st l) as [st1 o] eqn:Es.
    destruct (ftp_run users st1 rest) as [fin1 out1] eqn:Er.
    intros E; inversion E; subst. unfold no230. cbn [existsb snd].
    rewrite negb_orb, andb_true_iff. intros [H1 H2]. apply negb_true_iff in H1.
    destruct (IH _ _ _ Er H2) as [Hu Hf].
    destruct (ftp_step_user _ _ _ _ _ Es) as [Hs|Hs]; [|congruence].
    split; [congruence|]. intros U.
    rewrite Hf by congruence. eapply ftp_step_fs; eauto.
Qed.

Lemma ftp_gated_after users fs history fin out l command param c :
  ftp_run users (ftp_init fs) history = (fin, out) ->
  no230 out = true ->
  parse_line l = (command, param) ->
  ftp_lookup (to_upper command) = Some c ->
  require_auth c = true ->
  (ftp_step users fin l = (fin, FNoParam) \/ ftp_step users fin l = (fin, FNoAuth)) /\
  f_fs fin = fs.
Proof.
  intros Hr Hn P L R. destruct (ftp_run_no_login _ _ _ _ _ Hr Hn) as [Hu Hf].
  cbn [ftp_init f_user f_fs] in *. split; [|auto].
  eapply ftp_gate; eauto.
Qed.

Lemma ftp_lookup_pass : ftp_lookup S_PASS = Some PASS.  Proof. reflexivity. Qed.
Lemma ftp_lookup_user : ftp_lookup S_USER = Some USER.  Proof. reflexivity. Qed.

(* PASS with an argument: the decision is CheckPasswd(reqUser, argument), whatever happened before *)
Lemma ftp_pass_spec users st l command param :
  parse_line l = (command, param) -> to_upper command = S_PASS -> param <> [] ->
  ftp_step users st l =
    if check_passwd users (f_requser st) param
    then (mkF (f_requser st) [] (f_fs st), FExec [230%N])
    else (st, FExec [530%N]).
Proof.
  intros P U N. unfold ftp_step. rewrite P, U, ftp_lookup_pass. cbn [require_param require_auth andb].
  destruct param; [congruence|]. cbn [ftp_exec].
  destruct (check_passwd users (f_requser st) (n :: param)); reflexivity.
Qed.

Lemma ftp_user_spec users st l command param :
  parse_line l = (command, param) -> to_upper command = S_USER -> param <> [] ->
  ftp_step users st l = (mkF (f_user st) param (f_fs st), FExec [331%N]).
Proof.
  intros P U N. unfold ftp_step. rewrite P, U, ftp_lookup_user. cbn [require_param require_auth andb].
  destruct param; [congruence|]. reflexivity.
Qed.

Lemma check_passwd_iff users u p :
  check_passwd users u p = true <-> In (u, p) users.
Proof.
  unfold check_passwd. rewrite existsb_exists. split.
  - intros [[a b] [Hin H]]. cbn [fst snd] in H. apply andb_true_iff in H as [H1 H2].
    apply eqb_str_true in H1, H2. subst. exact Hin.
  - intros H. exists (u, p). split; auto. cbn. now rewrite !eqb_str_refl.
Qed.

Lemma ftp_users_only_anonymous u p :
  check_passwd ftp_users u p = true <-> u = S_anonymous /\ p = S_anonymous.
Proof.
  rewrite check_passwd_iff. unfold ftp_users. cbn [In]. split.
  - intros [E|[]]. inversion E. auto.
  - intros [-> ->]. auto.
Qed.

(* every file/directory command name of the property is in the table with RequireAuth *)
Lemma ftp_gated_names_require_auth :
  forallb (fun n => match ftp_lookup n with Some c => require_auth c | None => false end)
          ftp_gated_names = true.
Proof. vm_compute. reflexivity. Qed.

(* the event of a line carries the line as presented (CR LF removed) *)
Lemma drop_while_head f x s : f x = false -> drop_while f (x :: s) = x :: s.
Proof. intros H. cbn [drop_while]. now rewrite H. Qed.

Lemma trim_crlf_line s :
  s <> [] -> is_crlf (hd 0%N s) = false -> is_crlf (last s 0%N) = false ->
  trim_crlf (s ++ [13%N; 10%N]) = s.
Proof.
  intros Hn Hh Hl. unfold trim_crlf, trim_with.
  assert (drop_while is_crlf (s ++ [13%N; 10%N]) = s ++ [13%N; 10%N]) as ->.
  { destruct s as [|x r]; [congruence|]. cbn [hd] in Hh. cbn [app drop_while]. now rewrite Hh. }
  rewrite rev_app_distr.
  change (rev [13%N; 10%N] ++ rev s) with (10%N :: 13%N :: rev s).
  change (drop_while is_crlf (10%N :: 13%N :: rev s)) with (drop_while is_crlf (rev s)).
  destruct (exists_last Hn) as [m [z E]]. subst s.
  rewrite last_last in Hl. rewrite rev_app_distr. cbn [rev app].
  rewrite drop_while_head by assumption.
  cbn [rev]. now rewrite rev_involutive.
Qed.

Lemma ssh_auth_entry_iff creds u p :
  ssh_auth creds u p = true <->
  In S_star creds \/
  (no_byte C_colon u = true /\ no_byte C_colon p = true /\ In (u ++ C_colon :: p) creds).
Proof. rewrite ssh_auth_is_spec. apply ssh_spec_iff. Qed.

Lemma ftp_event_line s :
  s <> [] -> is_crlf (hd 0%N s) = false -> is_crlf (last s 0%N) = false ->
  ftp_events [s ++ [13%N; 10%N]] = [s].
Proof. intros H1 H2 H3. unfold ftp_events. cbn [map]. f_equal. exact (trim_crlf_line s H1 H2 H3). Qed.

(* constants for the examples *)
Definition b_root := [114;111;111;116]%N.          (* "root" *)
Definition b_admin := [97;100;109;105;110]%N.      (* "admin" *)
Definition b_root_root := b_root ++ C_colon :: b_root.

(* ---- the executable check accepts the ftp model's own output ---- *)

Lemma ftp_lookup_in_In t n c : ftp_lookup_in t n = Some c -> In (n, c) t.
Proof.
  induction t as [|[k c'] r IH]; cbn [ftp_lookup_in]; [discriminate|].
  destruct (eqb_str k n) eqn:E.
  - apply eqb_str_true in E. intros H; inversion H; subst. left; reflexivity.
  - intros H. right. auto.
Qed.

Lemma ftp_lookup_user_name n : ftp_lookup n = Some USER -> n = S_USER.
Proof.
  intros H. apply ftp_lookup_in_In in H. vm_compute in H.
  repeat (destruct H as [H|H]; [inversion H; reflexivity|]). contradiction.
Qed.

Lemma ftp_lookup_pass_name n : ftp_lookup n = Some PASS -> n = S_PASS.
Proof.
  intros H. apply ftp_lookup_in_In in H. vm_compute in H.
  repeat (destruct H as [H|H]; [inversion H; reflexivity|]). contradiction.
Qed.

Lemma ftp_exec_other users st c param st' codes :
  c <> USER -> c <> PASS ->
  ftp_exec users st c param = (st', codes) ->
  f_user st' = f_user st /\ f_requser st' = f_requser st.
Proof.
  intros N1 N2 E. destruct c; try congruence; cbn [ftp_exec] in E;
    repeat match type of E with context [if ?b then _ else _] => destruct b eqn:? end;
    inversion E; subst; cbn; auto.
Qed.

Lemma ftp_gated_lookup name :
  existsb (eqb_str name) ftp_gated_names = true ->
  exists c, ftp_lookup name = Some c /\ require_auth c = true.
Proof.
  intros H. apply existsb_eqb_In in H. vm_compute in H.
  repeat (destruct H as [H|H]; [subst name; eexists; split; vm_compute; reflexivity|]).
  contradiction.
Qed.

Lemma ftp_step_other users st l command param st' o :
  parse_line l = (command, param) ->
  to_upper command <> S_USER -> to_upper command <> S_PASS ->
  ftp_step users st l = (st', o) ->
  f_user st' = f_user st /\ f_requser st' = f_requser st.
Proof.
  intros P N1 N2. unfold ftp_step. rewrite P.
  destruct (ftp_lookup (to_upper command)) as [c|] eqn:L; [|intros E; inversion E; auto].
  destruct (require_param c && _); [intros E; inversion E; auto|].
  destruct (require_auth c && _); [intros E; inversion E; auto|].
  destruct (ftp_exec users st c param) as [st1 codes] eqn:Ex. intros E; inversion E; subst.
  eapply ftp_exec_other; eauto.
  - intros ->. apply ftp_lookup_user_name in L. contradiction.
  - intros ->. apply ftp_lookup_pass_name in L. contradiction.
Qed.

Lemma ftp_exec_not_530 users st c param st' codes :
  c <> PASS -> ftp_exec users st c param = (st', codes) -> codes_eqb codes [530%N] = false.
Proof.
  intros N E. destruct c; try congruence; cbn [ftp_exec] in E;
    repeat match type of E with context [if ?b then _ else _] => destruct b eqn:? end;
    inversion E; subst; reflexivity.
Qed.

Lemma ftp_walk_model lines : forall st logged,
  (f_user st <> [] <-> logged = true) ->
  ftp_sig_walk (f_requser st) logged lines
     (map (fun x => outcome_codes (snd x)) (snd (ftp_run ftp_users st lines))) = 0%N.
Proof.
  induction lines as [|l rest IH]; intros st logged Hl; cbn [ftp_run]; [reflexivity|].
  destruct (ftp_step ftp_users st l) as [st1 o] eqn:Es.
  destruct (ftp_run ftp_users st1 rest) as [fin out] eqn:Er.
  cbn [snd map ftp_sig_walk].
  specialize (IH st1). rewrite Er in IH. cbn [snd] in IH.
  destruct (parse_line l) as [command param] eqn:P.
  destruct (eqb_str (to_upper command) S_USER) eqn:EU.
  - (* USER *)
    apply eqb_str_true in EU.
    destruct param as [|b param'].
    + unfold ftp_step in Es. rewrite P, EU, ftp_lookup_user in Es.
      cbn [require_param andb] in Es. inversion Es; subst. cbn [outcome_codes].
      change (codes_eqb [553%N] [331%N]) with false. cbn iota. apply IH, Hl.
    + rewrite (ftp_user_spec ftp_users st l command (b :: param') P EU ltac:(discriminate)) in Es.
      inversion Es; subst. cbn [outcome_codes].
      change (codes_eqb [331%N] [331%N]) with true. cbn iota.
      apply (IH logged). exact Hl.
  - apply eqb_str_false in EU.
    destruct (eqb_str (to_upper command) S_PASS) eqn:EP.
    + apply eqb_str_true in EP. destruct param as [|b param'].
      * (* PASS without argument: 553, and PASS is not a gated name *)
        cbn [is_nil negb andb]. rewrite EP.
        change (existsb (eqb_str S_PASS) ftp_gated_names) with false. cbn [andb].
        unfold ftp_step in Es. rewrite P, EP, ftp_lookup_pass in Es.
        cbn [require_param andb] in Es. inversion Es; subst. apply IH, Hl.
      * cbn [is_nil negb andb].
        rewrite (ftp_pass_spec ftp_users st l command (b :: param') P EP ltac:(discriminate)) in Es.
        unfold ftp_spec.
        destruct (check_passwd ftp_users (f_requser st) (b :: param')) eqn:C;
          inversion Es; subst; cbn [outcome_codes].
        -- change (codes_eqb [230%N] [230%N]) with true. cbn [andb negb orb]. cbn iota.
           rewrite orb_true_r. apply (IH true). cbn [f_user].
           apply ftp_users_only_anonymous in C as [-> _]. split; [reflexivity|discriminate].
        -- change (codes_eqb [530%N] [230%N]) with false. cbn [andb negb orb]. cbn iota.
           rewrite orb_false_r. apply IH, Hl.
    + apply eqb_str_false in EP. cbn [andb].
      destruct (ftp_step_other _ _ _ _ _ _ _ P EU EP Es) as [Hu Hr].
      assert (ftp_sig_walk (f_requser st) logged rest
                (map (fun x => outcome_codes (snd x)) out) = 0%N) as Hrest.
      { rewrite <- Hr. apply IH. rewrite Hu. exact Hl. }
      destruct (existsb (eqb_str (to_upper command)) ftp_gated_names) eqn:G; cbn [andb]; [|exact Hrest].
      destruct (ftp_gated_lookup _ G) as [c [L R]].
      destruct logged.
      * (* logged in: the command is served (or lacks its argument), never answered 530 *)
        rewrite andb_false_r, andb_true_r.
        assert (codes_eqb (outcome_codes o) [530%N] = false) as ->; [|exact Hrest].
        assert (f_user st <> []) as U by (apply Hl; reflexivity).
        unfold ftp_step in Es. rewrite P, L, R in Es.
        destruct (require_param c && _); [inversion Es; reflexivity|].
        destruct (f_user st) eqn:Fu; [congruence|]. cbn [andb] in Es.
        destruct (ftp_exec ftp_users st c param) as [st2 codes] eqn:Ex. inversion Es; subst.
        cbn [outcome_codes]. eapply ftp_exec_not_530; [|exact Ex].
        intros ->. apply ftp_lookup_pass_name in L. contradiction.
      * rewrite andb_false_r.
        assert (f_user st = []) as U.
        { destruct (f_user st) eqn:Fu; auto.
          assert (false = true) by (apply Hl; discriminate). discriminate. }
        destruct (ftp_gate ftp_users st l command param c P L R U) as [H|H];
          rewrite H in Es; inversion Es; subst; cbn [outcome_codes];
          [change (refused [553%N]) with true | change (refused [530%N]) with true];
          cbn [negb andb]; exact Hrest.
Qed.

Lemma fs_same_refl fs : fs_same fs fs = true.
Proof.
  unfold fs_same. assert (fs_subset fs fs = true) as ->; [|reflexivity].
  unfold fs_subset. apply forallb_forall. intros e He. apply existsb_exists. exists e. split; auto.
  unfold fs_entry_eqb. rewrite eqb_str_refl. destruct (snd e); reflexivity.
Qed.

Lemma is230_codes o : is230 o = codes_eqb [230%N] (outcome_codes o).
Proof.
  destruct o as [| | |cs]; try reflexivity. cbn [is230 outcome_codes].
  unfold codes_eqb. destruct cs as [|a [|b r]]; cbn; auto.
  - now rewrite N.eqb_sym.
  - now rewrite N.eqb_sym.
Qed.

Lemma existsb_230 out :
  existsb (codes_eqb [230%N]) (map (fun x : str * foutcome => outcome_codes (snd x)) out) =
  existsb (fun x => is230 (snd x)) out.
Proof.
  induction out as [|x r IH]; [reflexivity|]. cbn [map existsb]. now rewrite IH, is230_codes.
Qed.

Lemma fcase_sig_model id fs lines :
  let r := ftp_run ftp_users (ftp_init fs) lines in
  fcase_sig (mkFCase id fs lines (map (fun x => outcome_codes (snd x)) (snd r))
                     (ftp_events lines) (f_fs (fst r))) = 0%N.
Proof.
  cbn zeta. unfold fcase_sig. cbn [fc_lines fc_codes fc_events fc_fs0 fc_fs1].
  pose proof (ftp_walk_model lines (ftp_init fs) false) as W. cbn [ftp_init f_requser f_user] in W.
  rewrite W by (split; [congruence|discriminate]). cbn [orsig N.eqb].
  rewrite list_eqb_refl by apply eqb_str_refl. cbn [orsig N.eqb].
  destruct (ftp_run ftp_users (ftp_init fs) lines) as [fin out] eqn:Er. cbn [fst snd].
  destruct (existsb (codes_eqb [230%N]) (map (fun x => outcome_codes (snd x)) out)) eqn:E;
    cbn [negb andb]; [reflexivity|].
  assert (no230 out = true) as Hn.
  { unfold no230. apply negb_true_iff. rewrite <- E. now rewrite existsb_230. }
  destruct (ftp_run_no_login _ _ _ _ _ Er Hn) as [_ Hf]. cbn [ftp_init f_user f_fs] in Hf.
  rewrite Hf by reflexivity. now rewrite fs_same_refl.
Qed.

(* ------------------------------------------------------------------ *)
(* several connections on one service object: frame theorems           *)
(* ------------------------------------------------------------------ *)

Lemma proj_cons {A} c k (x : A) l :
  proj c ((k, x) :: l) = if Nat.eqb k c then x :: proj c l else proj c l.
Proof. unfold proj. cbn [filter fst]. destruct (Nat.eqb k c); reflexivity. Qed.

Lemma upd_same {A} (m : nat -> A) c v : upd m c v c = v.
Proof. unfold upd. now rewrite Nat.eqb_refl. Qed.

Lemma upd_other {A} (m : nat -> A) k c v : Nat.eqb k c = false -> upd m k v c = m c.
Proof. unfold upd. intros H. rewrite Nat.eqb_sym. now rewrite H. Qed.

(* ldap: what connection c sees in ANY schedule is what it sees when its own requests are run
   alone on a fresh connection - whatever the other connections do in between *)
Lemma ldap_frame creds sched : forall st c,
  proj c (ldap_multi creds st sched) = snd (ldap_run creds (st c) (proj c sched)).
Proof.
  induction sched as [|[k r] rest IH]; intros st c; cbn [ldap_multi]; [reflexivity|].
  destruct (ldap_step creds (st k) r) as [[l' rp] ev] eqn:Es.
  rewrite !proj_cons. destruct (Nat.eqb k c) eqn:E.
  - apply Nat.eqb_eq in E. subst k. cbn [ldap_run]. rewrite Es, IH, upd_same.
    destruct (ldap_run creds l' (proj c rest)). reflexivity.
  - rewrite IH, upd_other by assumption. reflexivity.
Qed.

Lemma ldap_run_reqs creds reqs : forall login,
  map (fun x => fst (fst x)) (snd (ldap_run creds login reqs)) = reqs.
Proof.
  induction reqs as [|r rest IH]; intros login; cbn [ldap_run]; [reflexivity|].
  destruct (ldap_step creds login r) as [[l' rp] ev].
  specialize (IH l'). destruct (ldap_run creds l' rest). cbn [snd map fst] in *. now rewrite IH.
Qed.

Lemma first_sig_zero l : (forall x, In x l -> x = 0%N) -> first_sig l = 0%N.
Proof.
  induction l as [|a r IH]; intros H; cbn [first_sig]; [reflexivity|].
  rewrite (H a) by (left; reflexivity). cbn [orsig N.eqb]. apply IH. intros x Hx. apply H. now right.
Qed.

Lemma lmcase_sig_model id creds sched :
  lmcase_sig (mkLMCase id creds (ldap_multi creds (fun _ => []) sched)) = 0%N.
Proof.
  unfold lmcase_sig. cbn [lm_creds lm_steps]. apply first_sig_zero. intros x Hx.
  apply in_map_iff in Hx as [k [<- _]]. unfold lm_conn_sig. rewrite ldap_frame.
  rewrite ldap_run_reqs. apply (ldap_walk_model creds (proj k sched) [] false false); discriminate.
Qed.

(* ldap: the effect of a login.  Requests that are not a successful bind keep the login ... *)
Definition keeps_login (creds : list str) (r : lreq) : bool :=
  match r with
  | LBind ver dn pw => (ver <? 2) || negb (ldap_spec creds dn pw)
  | _ => true
  end.

Lemma ldap_step_keeps creds login r :
  keeps_login creds r = true -> fst (fst (ldap_step creds login r)) = login.
Proof.
  destruct r as [ver dn pw | ver | ver | ver dn | tag]; cbn [ldap_step keeps_login]; intros K;
    try reflexivity.
  - destruct (ver <? 2) eqn:Ev.
    + rewrite ldap_bind_old_version by lia. reflexivity.
    + cbn [orb] in K. apply negb_true_iff in K.
      destruct (ldap_bind_spec creds login ver dn pw ltac:(lia)) as [l' [code [E [Hc _]]]].
      pose proof (ldap_bind_login _ _ _ _ _ _ _ _ E) as Hl. rewrite E. cbn [fst].
      assert (reply_ok (Some (1%N, code)) = false) as R.
      { cbn [reply_ok]. apply N.eqb_neq. intros C. apply Hc in C.
        apply ldap_spec_iff in C. congruence. }
      rewrite R in Hl. exact Hl.
  - destruct (ldap_catchall login tag). reflexivity.
Qed.

Lemma ldap_run_keeps creds mid : forall login,
  forallb (keeps_login creds) mid = true -> fst (ldap_run creds login mid) = login.
Proof.
  induction mid as [|r rest IH]; intros login K; cbn [ldap_run]; [reflexivity|].
  cbn [forallb] in K. apply andb_true_iff in K as [K1 K2].
  pose proof (ldap_step_keeps creds login r K1) as S.
  destruct (ldap_step creds login r) as [[l' rp] ev]. cbn [fst] in S. subst l'.
  specialize (IH login K2). destruct (ldap_run creds login rest). exact IH.
Qed.

(* ... so after a bind with a configured pair and a non-empty evaluated name, every gated
   operation is answered with success until the next successful bind *)
Lemma ldap_login_effect creds login ver dn pw mid tag :
  2 <= ver -> In (norm_dn dn ++ C_colon :: pw) creds -> norm_dn dn <> [] ->
  forallb (keeps_login creds) mid = true -> ldap_gated tag = true ->
  exists rt,
    fst (ldap_catchall (fst (ldap_run creds login (LBind ver dn pw :: mid))) tag)
    = Some (rt, RES_SUCCESS).
Proof.
  intros Hv Hin Hn K G. cbn [ldap_run ldap_step].
  destruct (ldap_bind_spec creds login ver dn pw Hv) as [l' [code [E [Hc _]]]].
  pose proof (ldap_bind_login _ _ _ _ _ _ _ _ E) as Hl. rewrite E.
  assert (code = RES_SUCCESS) as -> by (apply Hc; right; exact Hin).
  cbn [reply_ok RES_SUCCESS N.eqb] in Hl. subst l'.
  pose proof (ldap_run_keeps creds mid (norm_dn dn) K) as R.
  destruct (ldap_run creds (norm_dn dn) mid) as [fin out]. cbn [fst] in *. subst fin.
  destruct (ldap_catchall_code (norm_dn dn) tag G) as [rt Ec]. exists rt. rewrite Ec.
  destruct (norm_dn dn); [congruence | reflexivity].
Qed.

(* ftp: the login state of a connection and the dispatcher's decision do not depend on the
   file system, hence not on what other connections did to it *)
Lemma ftp_step_auth users u ru fs line st' o :
  ftp_step users (mkF u ru fs) line = (st', o) ->
  auth_step users (u, ru) line = ((f_user st', f_requser st'), oclass o).
Proof.
  unfold ftp_step, auth_step. destruct (parse_line line) as [command param].
  destruct (ftp_lookup (to_upper command)) as [c|]; [|intros E; inversion E; reflexivity].
  cbn [f_user fst snd].
  destruct (require_param c && _); [intros E; inversion E; reflexivity|].
  destruct (require_auth c && _); [intros E; inversion E; reflexivity|].
  destruct (ftp_exec users (mkF u ru fs) c param) as [st1 codes] eqn:Ex.
  intros E; inversion E; subst. cbn [oclass].
  destruct c; cbn [ftp_exec f_user f_requser f_fs] in Ex;
    repeat match type of Ex with context [if ?b then _ else _] => destruct b eqn:? end;
    inversion Ex; subst; reflexivity.
Qed.

Lemma ftp_frame users sched : forall auth fs c,
  map (fun x => oclass (snd x)) (proj c (fst (ftp_multi users auth fs sched))) =
  snd (auth_run users (auth c) (proj c sched)).
Proof.
  induction sched as [|[k l] rest IH]; intros auth fs c; cbn [ftp_multi]; [reflexivity|].
  destruct (ftp_step users (mkF (fst (auth k)) (snd (auth k)) fs) l) as [st' o] eqn:Es.
  pose proof (ftp_step_auth _ _ _ _ _ _ _ Es) as A.
  specialize (IH (upd auth k (f_user st', f_requser st')) (f_fs st') c).
  destruct (ftp_multi users (upd auth k (f_user st', f_requser st')) (f_fs st') rest) as [out fin].
  cbn [fst] in *. rewrite !proj_cons. destruct (Nat.eqb k c) eqn:E.
  - apply Nat.eqb_eq in E. subst k. cbn [map snd auth_run].
    rewrite <- surjective_pairing in A. rewrite A. rewrite upd_same in IH. rewrite IH.
    destruct (auth_run users (f_user st', f_requser st') (proj c rest)). reflexivity.
  - rewrite upd_other in IH by assumption. exact IH.
Qed.

(* the gate in terms of the login state alone *)
Lemma auth_step_gate users a line command param c :
  parse_line line = (command, param) -> ftp_lookup (to_upper command) = Some c ->
  require_auth c = true -> fst a = [] ->
  auth_step users a line = (a, 1%N) \/ auth_step users a line = (a, 2%N).
Proof.
  intros P L R U. destruct a as [u ru]. cbn [fst] in U. subst u.
  unfold auth_step. rewrite P, L, R. cbn [fst andb].
  destruct (require_param c && _); auto.
Qed.

(* ftp: the effect of a login: a logged-in connection stays logged in, and a command with
   RequireAuth is then executed (or lacks its argument) - never answered 530 *)
Lemma ftp_step_stays_logged st l st' o :
  f_user st <> [] -> ftp_step ftp_users st l = (st', o) -> f_user st' <> [].
Proof.
  intros U. unfold ftp_step. destruct (parse_line l) as [command param].
  destruct (ftp_lookup (to_upper command)) as [c|]; [|intros E; inversion E; subst; auto].
  destruct (require_param c && _); [intros E; inversion E; subst; auto|].
  destruct (require_auth c && _); [intros E; inversion E; subst; auto|].
  destruct (ftp_exec ftp_users st c param) as [st1 codes] eqn:Ex. intros E; inversion E; subst.
  destruct (ftp_exec_user _ _ _ _ _ _ Ex) as [H|[_ [_ [C ->]]]]; [congruence|].
  apply ftp_users_only_anonymous in C as [-> _]. cbn. discriminate.
Qed.

Lemma ftp_run_stays_logged lines : forall st,
  f_user st <> [] -> f_user (fst (ftp_run ftp_users st lines)) <> [].
Proof.
  induction lines as [|l rest IH]; intros st U; cbn [ftp_run]; [exact U|].
  destruct (ftp_step ftp_users st l) as [st1 o] eqn:Es.
  specialize (IH st1 (ftp_step_stays_logged _ _ _ _ U Es)).
  destruct (ftp_run ftp_users st1 rest). exact IH.
Qed.

Lemma ftp_login_effect users st l command param c :
  parse_line l = (command, param) -> ftp_lookup (to_upper command) = Some c ->
  require_auth c = true -> f_user st <> [] ->
  snd (ftp_step users st l) = FNoParam \/
  exists st' codes, ftp_exec users st c param = (st', codes) /\
                    ftp_step users st l = (st', FExec codes) /\ codes_eqb codes [530%N] = false.
Proof.
  intros P L R U. unfold ftp_step. rewrite P, L, R.
  destruct (require_param c && _); [left; reflexivity|]. right.
  destruct (f_user st) eqn:Fu; [congruence|]. cbn [andb].
  destruct (ftp_exec users st c param) as [st' codes] eqn:Ex. exists st', codes.
  repeat split. eapply ftp_exec_not_530; [|exact Ex]. intros ->. discriminate R.
Qed.
