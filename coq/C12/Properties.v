(* C12 - property theorems: logins succeed exactly for configured credentials; gated
   commands stay gated.  Statements only; proofs are in Proofs.v. *)
From HT Require Import Common.Bytes C12.Model C12.Check C12.Proofs.
Open Scope Z_scope.

(* ---------------- ssh-simulator ---------------- *)

(* an attempt is accepted iff the list contains the wildcard or an entry that splits at ':'
   into exactly the presented user and password *)
Theorem C12_ssh_success_iff : forall creds u p,
  ssh_auth creds u p = true <->
  In S_star creds \/ exists c, In c creds /\ split C_colon c = [u; p].
Proof. exact ssh_auth_iff. Qed.

(* ... which is: the wildcard, or user and password are free of ':' and the entry
   "user:password" is in the list (so a name or password containing ':' is never configured) *)
Theorem C12_ssh_success_iff_entry : forall creds u p,
  ssh_auth creds u p = true <->
  In S_star creds \/
  (no_byte C_colon u = true /\ no_byte C_colon p = true /\ In (u ++ C_colon :: p) creds).
Proof. exact ssh_auth_entry_iff. Qed.

(* entries that are neither the wildcard nor of the form a:b change nothing *)
Theorem C12_ssh_other_entries_ignored : forall creds u p,
  ssh_auth (filter ssh_relevant creds) u p = ssh_auth creds u p.
Proof. exact ssh_auth_filter. Qed.

(* independence of history: in every session (any number of connections, any attempts) the
   outcome of every attempt made is the decision function of (list, user, password) alone *)
Theorem C12_ssh_history_independent : forall creds conns a,
  In a (concat (ssh_session creds conns)) ->
  sa_ok a = ssh_auth creds (sa_user a) (sa_pw a).
Proof. exact ssh_session_attempts. Qed.

(* every attempt records the user and the password presented, in order; the passwords of a
   connection are all tried unless one was accepted *)
Theorem C12_ssh_attempts_recorded : forall creds u pws,
  Forall (attempt_ok creds u) (ssh_conn creds u pws) /\
  exists rest, pws = map sa_pw (ssh_conn creds u pws) ++ rest /\
               (rest = [] \/ existsb sa_ok (ssh_conn creds u pws) = true).
Proof. exact ssh_conn_sound. Qed.

(* the executable check used on the implementation's observations accepts the model's output *)
Theorem C12_ssh_check_accepts_model : forall id creds conns,
  let m := ssh_session creds conns in
  scase_sig (mkSCase id creds conns (map (map sa_ok) m)
                     (map (fun a => (sa_user a, sa_pw a)) (concat m))) = 0%N.
Proof. exact scase_sig_model. Qed.

(* ---------------- ldap ---------------- *)

(* a simple bind (version >= 2) succeeds iff it is the anonymous bind or the entry
   "name:password" (name as evaluated: cut at ',', cn=/sn= stripped) is in the list -
   whatever the session state; otherwise the code is invalidCredentials or
   unwillingToPerform *)
Theorem C12_ldap_bind_success_iff : forall creds login ver dn pw,
  2 <= ver ->
  exists login' code,
    ldap_bind creds login ver dn pw =
      (login', Some (1%N, code), mkLE T_BIND (Some (norm_dn dn)) (Some pw)) /\
    (code = RES_SUCCESS <-> ldap_cred_ok creds dn pw) /\
    (code = RES_SUCCESS \/ code = RES_INVALID_CRED \/ code = RES_UNWILLING).
Proof. exact ldap_bind_spec. Qed.

(* an old protocol version is refused with protocolError, after the evaluated name and the
   presented password have been recorded *)
Theorem C12_ldap_old_version_is_protocol_error : forall creds login ver dn pw,
  ver < 2 ->
  ldap_bind creds login ver dn pw =
    (login, Some (1%N, RES_PROTOCOL), mkLE T_BIND (Some (norm_dn dn)) (Some pw)).
Proof. exact ldap_bind_old_version. Qed.

(* every simple bind - any version, any outcome, any session state - produces the event with
   the name as evaluated and the password as presented ... *)
Theorem C12_ldap_bind_event_fields : forall creds login ver dn pw,
  snd (ldap_bind creds login ver dn pw) = mkLE T_BIND (Some (norm_dn dn)) (Some pw).
Proof. exact ldap_bind_event. Qed.

(* ... and so does every simple bind of every request history *)
Theorem C12_ldap_history_bind_event_fields : forall creds reqs login ver dn pw rp ev,
  In (LBind ver dn pw, rp, ev) (snd (ldap_run creds login reqs)) ->
  ev = mkLE T_BIND (Some (norm_dn dn)) (Some pw).
Proof. exact ldap_run_bind_events. Qed.

(* gating: after ANY request history on a fresh connection, modify/add/delete/modifyDN/compare
   is answered with success only if an earlier bind on this connection was answered with
   success for a non-empty name; without one the answer is unwillingToPerform *)
Theorem C12_ldap_gated : forall creds history tag fin out,
  ldap_run creds [] history = (fin, out) ->
  ldap_gated tag = true ->
  (reply_ok (fst (ldap_catchall fin tag)) = true -> existsb succ_login out = true) /\
  (existsb succ_login out = false ->
   exists rt, fst (ldap_catchall fin tag) = Some (rt, RES_UNWILLING)).
Proof. exact ldap_gated_after. Qed.

(* this service has no wildcard: entries without ':' (such as "*") never match anything *)
Theorem C12_ldap_entries_without_colon_ignored : forall creds reqs login,
  ldap_run (filter has_colon creds) login reqs = ldap_run creds login reqs.
Proof. exact ldap_run_filter. Qed.

(* the executable check (decisions, gating on observed codes, event fields of every bind of
   any version) accepts the model's output for every credential list and request history *)
Theorem C12_ldap_check_accepts_model : forall id creds reqs,
  let out := ldap_session creds reqs in
  lcase_sig (mkLCase id creds reqs (map (fun x => snd (fst x)) out) (map snd out)) = 0%N.
Proof. exact lcase_sig_model. Qed.

(* effect of a login: after a bind (version >= 2) with a configured pair and a non-empty
   evaluated name, followed by ANY requests that are not a successful bind (failed binds, old
   versions, malformed binds, operations), every gated operation is answered with success *)
Theorem C12_ldap_login_has_effect : forall creds login ver dn pw mid tag,
  2 <= ver -> In (norm_dn dn ++ C_colon :: pw) creds -> norm_dn dn <> [] ->
  forallb (keeps_login creds) mid = true -> ldap_gated tag = true ->
  exists rt,
    fst (ldap_catchall (fst (ldap_run creds login (LBind ver dn pw :: mid))) tag)
    = Some (rt, RES_SUCCESS).
Proof. exact ldap_login_effect. Qed.

(* the login state is per connection (frame theorem over all interleavings): in ANY schedule of
   requests over any number of connections of one service object, what connection c is
   answered and what is recorded for it is exactly what its own requests yield on a fresh
   connection served alone *)
Theorem C12_ldap_connections_independent : forall creds sched c,
  proj c (ldap_multi creds (fun _ => []) sched) = ldap_session creds (proj c sched).
Proof. exact (fun creds sched c => ldap_frame creds sched (fun _ => []) c). Qed.

(* the per-connection check (gating, effect of login, decisions, events on each connection's
   own projection) accepts the multi-connection model's output for every schedule *)
Theorem C12_ldap_check_accepts_multi_model : forall id creds sched,
  lmcase_sig (mkLMCase id creds (ldap_multi creds (fun _ => []) sched)) = 0%N.
Proof. exact lmcase_sig_model. Qed.

(* ---------------- ftp ---------------- *)

(* PASS with an argument: 230 iff CheckPasswd(user of the last USER, argument), for every
   connection state; on success the session user becomes that user *)
Theorem C12_ftp_pass_iff : forall users st l command param,
  parse_line l = (command, param) -> to_upper command = S_PASS -> param <> [] ->
  ftp_step users st l =
    if check_passwd users (f_requser st) param
    then (mkF (f_requser st) [] (f_fs st), FExec [230%N])
    else (st, FExec [530%N]).
Proof. exact ftp_pass_spec. Qed.

Theorem C12_ftp_check_passwd_iff : forall users u p,
  check_passwd users u p = true <-> In (u, p) users.
Proof. exact check_passwd_iff. Qed.

(* the users map of the code: anonymous/anonymous and nothing else *)
Theorem C12_ftp_only_anonymous : forall u p,
  check_passwd ftp_users u p = true <-> u = S_anonymous /\ p = S_anonymous.
Proof. exact ftp_users_only_anonymous. Qed.

Theorem C12_ftp_user_sets_evaluated_user : forall users st l command param,
  parse_line l = (command, param) -> to_upper command = S_USER -> param <> [] ->
  ftp_step users st l = (mkF (f_user st) param (f_fs st), FExec [331%N]).
Proof. exact ftp_user_spec. Qed.

(* gating: after ANY line history on a fresh connection without a 230 reply, a command whose
   table entry has RequireAuth is refused (553 or 530) without touching the connection state,
   and the file system is still the initial one *)
Theorem C12_ftp_gated : forall users fs history fin out l command param c,
  ftp_run users (ftp_init fs) history = (fin, out) ->
  no230 out = true ->
  parse_line l = (command, param) ->
  ftp_lookup (to_upper command) = Some c ->
  require_auth c = true ->
  (ftp_step users fin l = (fin, FNoParam) \/ ftp_step users fin l = (fin, FNoAuth)) /\
  f_fs fin = fs.
Proof. exact ftp_gated_after. Qed.

(* all file and directory commands (and the data-connection commands) are in the table with
   RequireAuth *)
Theorem C12_ftp_file_dir_cmds_require_auth :
  forallb (fun n => match ftp_lookup n with Some c => require_auth c | None => false end)
          ftp_gated_names = true.
Proof. exact ftp_gated_names_require_auth. Qed.

(* the ftp.command event of a line is the line as presented, without its CR LF *)
Theorem C12_ftp_event_carries_line : forall s,
  s <> [] -> is_crlf (hd 0%N s) = false -> is_crlf (last s 0%N) = false ->
  ftp_events [s ++ [13%N; 10%N]] = [s].
Proof. exact ftp_event_line. Qed.

(* the executable check (decisions judged against the users map, gating judged on observed
   codes, events, file system untouched without login) accepts the model's output for every
   initial file system and every line history *)
Theorem C12_ftp_check_accepts_model : forall id fs lines,
  let r := ftp_run ftp_users (ftp_init fs) lines in
  fcase_sig (mkFCase id fs lines (map (fun x => outcome_codes (snd x)) (snd r))
                     (ftp_events lines) (f_fs (fst r))) = 0%N.
Proof. exact fcase_sig_model. Qed.

(* effect of a login: on a logged-in connection a command with RequireAuth is executed (or
   lacks its argument), never answered 530 ... *)
Theorem C12_ftp_login_has_effect : forall users st l command param c,
  parse_line l = (command, param) -> ftp_lookup (to_upper command) = Some c ->
  require_auth c = true -> f_user st <> [] ->
  snd (ftp_step users st l) = FNoParam \/
  exists st' codes, ftp_exec users st c param = (st', codes) /\
                    ftp_step users st l = (st', FExec codes) /\ codes_eqb codes [530%N] = false.
Proof. exact ftp_login_effect. Qed.

(* ... and a logged-in connection stays logged in, whatever it sends *)
Theorem C12_ftp_stays_logged_in : forall lines st,
  f_user st <> [] -> f_user (fst (ftp_run ftp_users st lines)) <> [].
Proof. exact ftp_run_stays_logged. Qed.

(* the login state is per connection (frame theorem over all interleavings; the file system
   is shared): in ANY schedule over any number of connections, with any initial file system,
   the dispatcher's decision for every line of connection c (unknown / argument missing /
   refused / executed) is the one its own lines yield from its own login state alone *)
Theorem C12_ftp_connections_independent : forall users sched auth fs c,
  map (fun x => oclass (snd x)) (proj c (fst (ftp_multi users auth fs sched))) =
  snd (auth_run users (auth c) (proj c sched)).
Proof. exact ftp_frame. Qed.

Theorem C12_ftp_gate_depends_on_own_login_only : forall users a line command param c,
  parse_line line = (command, param) -> ftp_lookup (to_upper command) = Some c ->
  require_auth c = true -> fst a = [] ->
  auth_step users a line = (a, 1%N) \/ auth_step users a line = (a, 2%N).
Proof. exact auth_step_gate. Qed.

(* ---------------- non-vacuity ---------------- *)
Example C12_ssh_nonvacuous :
  ssh_auth [b_root; b_root_root] b_root b_root = true /\
  ssh_auth [b_root; b_root_root] b_root b_admin = false /\
  ssh_auth [b_admin; S_star] b_root b_admin = true /\
  map (map sa_ok) (ssh_session [b_root_root] [(b_root, [b_admin; b_root; b_admin]); (b_admin, [b_root])])
    = [[false; true]; [false]].
Proof. vm_compute. repeat split; reflexivity. Qed.

(* refused, failed bind, refused, anonymous bind, refused, good bind (cn=root,dc=x), allowed *)
Example C12_ldap_nonvacuous :
  let dn := [99;110;61]%N ++ b_root ++ [44;100;99;61;120]%N in
  map (fun x => snd (fst x))
      (ldap_session [b_root_root]
         [LOp 8; LBind 3 dn b_admin; LOp 8; LBind 3 [] []; LOp 6; LBind 3 dn b_root; LOp 10])
  = [Some (9, 53); Some (1, 49); Some (9, 53); Some (1, 0); Some (7, 53); Some (1, 0); Some (11, 0)]%N.
Proof. vm_compute. reflexivity. Qed.

(* a version-1 bind is refused but recorded with name and password; a SASL bind is handed to
   the catch-all with only the evaluated name recorded *)
Example C12_ldap_old_version_nonvacuous :
  let dn := [99;110;61]%N ++ b_root ++ [44;100;99;61;120]%N in
  ldap_session [b_root_root] [LBind 1 dn b_root; LBindOther 3 dn]
  = [(LBind 1 dn b_root, Some (1, 2), mkLE T_BIND (Some b_root) (Some b_root));
     (LBindOther 3 dn, Some (0, 53), mkLE T_BIND (Some b_root) None)]%N.
Proof. vm_compute. reflexivity. Qed.

(* two connections: 0 logs in, 1 does not; 1's compare is refused after 0's login, 0's is served *)
Example C12_ldap_multi_nonvacuous :
  map (fun x => snd (fst (snd x)))
      (ldap_multi [b_root_root] (fun _ => [])
         [(0%nat, LBind 3 b_root b_root); (1%nat, LOp 14); (0%nat, LOp 14); (1%nat, LBind 3 [] []); (0%nat, LOp 6)])
  = [Some (1, 0); Some (15, 53); Some (15, 0); Some (1, 0); Some (7, 0)]%N.
Proof. vm_compute. reflexivity. Qed.

Example C12_ftp_nonvacuous :
  let mkd := [77;75;68;32;47;109]%N in                                   (* "MKD /m" *)
  let user := [85;83;69;82;32]%N ++ S_anonymous in                       (* "USER anonymous" *)
  let pass := [80;65;83;83;32]%N ++ S_anonymous in                       (* "PASS anonymous" *)
  let bad := [80;65;83;83;32]%N ++ b_root in                             (* "PASS root" *)
  map (fun x => outcome_codes (snd x))
      (snd (ftp_run ftp_users (ftp_init []) [mkd; user; bad; mkd; pass; mkd; mkd]))
  = [[530]; [331]; [530]; [530]; [230]; [257]; [550]]%N.
Proof. vm_compute. reflexivity. Qed.

Print Assumptions C12_ssh_success_iff.
Print Assumptions C12_ssh_success_iff_entry.
Print Assumptions C12_ssh_other_entries_ignored.
Print Assumptions C12_ssh_history_independent.
Print Assumptions C12_ssh_attempts_recorded.
Print Assumptions C12_ssh_check_accepts_model.
Print Assumptions C12_ldap_bind_success_iff.
Print Assumptions C12_ldap_old_version_is_protocol_error.
Print Assumptions C12_ldap_bind_event_fields.
Print Assumptions C12_ldap_history_bind_event_fields.
Print Assumptions C12_ldap_gated.
Print Assumptions C12_ldap_entries_without_colon_ignored.
Print Assumptions C12_ldap_check_accepts_model.
Print Assumptions C12_ldap_login_has_effect.
Print Assumptions C12_ldap_connections_independent.
Print Assumptions C12_ldap_check_accepts_multi_model.
Print Assumptions C12_ftp_pass_iff.
Print Assumptions C12_ftp_check_passwd_iff.
Print Assumptions C12_ftp_only_anonymous.
Print Assumptions C12_ftp_user_sets_evaluated_user.
Print Assumptions C12_ftp_gated.
Print Assumptions C12_ftp_file_dir_cmds_require_auth.
Print Assumptions C12_ftp_event_carries_line.
Print Assumptions C12_ftp_check_accepts_model.
Print Assumptions C12_ftp_login_has_effect.
Print Assumptions C12_ftp_stays_logged_in.
Print Assumptions C12_ftp_connections_independent.
Print Assumptions C12_ftp_gate_depends_on_own_login_only.
