(* C12 - executable judgement of the implementation's own observations.

   violations: the observed results/reply codes/events are judged against the property,
   written here as specification functions that do not use the model's control flow:
     ssh_spec  : wildcard present, or the entry "user:password" is in the list
     ldap_spec : anonymous bind, or the entry "name:password" is in the list
     ftp_spec  : the pair is in the service's users map
   gating is judged on the observed reply codes alone (a gated operation that was not
   refused needs an earlier observed successful login on the same connection).
   mismatches: the model's prediction differs from the observation. *)
From Coq Require Import String.
From HT Require Import Common.Bytes C12.Model.
Open Scope Z_scope.

Fixpoint list_eqb {A} (e : A -> A -> bool) (a b : list A) : bool :=
  match a, b with
  | [], [] => true
  | x :: a', y :: b' => e x y && list_eqb e a' b'
  | _, _ => false
  end.

Definition ostr_eqb (a b : option str) : bool :=
  match a, b with
  | Some x, Some y => eqb_str x y
  | None, None => true
  | _, _ => false
  end.

Definition pair_eqb (a b : str * str) : bool := eqb_str (fst a) (fst b) && eqb_str (snd a) (snd b).

Definition is_nil {A} (l : list A) : bool := match l with [] => true | _ => false end.

(* ---------------- specification functions ---------------- *)

Definition ssh_spec (creds : list str) (u p : str) : bool :=
  existsb (eqb_str S_star) creds
  || (no_byte C_colon u && no_byte C_colon p && existsb (eqb_str (u ++ C_colon :: p)) creds).

Definition ldap_spec (creds : list str) (dn pw : str) : bool :=
  let d := norm_dn dn in
  (is_nil d && is_nil pw) || existsb (eqb_str (d ++ C_colon :: pw)) creds.

Definition ftp_spec (u p : str) : bool := check_passwd ftp_users u p.

(* ---------------- signatures ---------------- *)
Definition SIG_SSH_ACCEPT := 1%N.     (* accepted a pair that is not configured *)
Definition SIG_SSH_REJECT := 2%N.     (* rejected a configured pair / ignored the wildcard *)
Definition SIG_SSH_EVENT := 3%N.      (* events do not carry the presented user/password, one per attempt *)
Definition SIG_LDAP_ACCEPT := 5%N.
Definition SIG_LDAP_REJECT := 6%N.
Definition SIG_LDAP_UNGATED := 7%N.   (* modify/add/delete/modifyDN/compare succeeded without a login *)
Definition SIG_LDAP_EVENT := 8%N.
Definition SIG_LDAP_OLDVER_EVENT := 14%N.  (* bind with version < 2: the event lacks the name/password presented (repaired in /repo; kept to report a regression) *)
Definition SIG_FTP_ACCEPT := 9%N.
Definition SIG_FTP_REJECT := 10%N.
Definition SIG_FTP_UNGATED := 11%N.   (* a file/directory command was not refused before login *)
Definition SIG_FTP_EVENT := 12%N.
Definition SIG_FTP_FS := 13%N.        (* the file system changed although nobody logged in *)
Definition SIG_LDAP_NO_EFFECT := 15%N. (* a gated operation is refused although the last successful bind of the connection named a user *)
Definition SIG_FTP_NO_EFFECT := 16%N.  (* a file/directory command is answered 530 after a 230 on the connection *)

(* first non-zero *)
Definition orsig (a b : N) : N := if (a =? 0)%N then b else a.

(* ---------------- ssh ---------------- *)
Record scase := mkSCase {
  sc_id : N;
  sc_creds : list str;
  sc_conns : list (str * list str);       (* per connection: user, passwords the client would present *)
  sc_results : list (list bool);          (* per connection: outcome of each attempt made *)
  sc_events : list (str * str)            (* password-authentication events: (ssh.username, ssh.password) *)
}.

Fixpoint ssh_conn_sig (creds : list str) (u : str) (pws : list str) (rs : list bool) : N :=
  match pws, rs with
  | p :: pws', r :: rs' =>
      let s := ssh_spec creds u p in
      if r && negb s then SIG_SSH_ACCEPT
      else if negb r && s then SIG_SSH_REJECT
      else ssh_conn_sig creds u pws' rs'
  | _, _ => 0%N
  end.

Fixpoint ssh_sig_conns (creds : list str) (conns : list (str * list str)) (rss : list (list bool)) : N :=
  match conns, rss with
  | c :: cs, rs :: rss' => orsig (ssh_conn_sig creds (fst c) (snd c) rs) (ssh_sig_conns creds cs rss')
  | _, _ => 0%N
  end.

(* the attempts actually made: as many passwords of each connection as results were observed *)
Fixpoint ssh_presented (conns : list (str * list str)) (rss : list (list bool)) : list (str * str) :=
  match conns, rss with
  | c :: cs, rs :: rss' =>
      map (fun p => (fst c, p)) (firstn (length rs) (snd c)) ++ ssh_presented cs rss'
  | _, _ => []
  end.

Definition scase_sig (c : scase) : N :=
  orsig (ssh_sig_conns (sc_creds c) (sc_conns c) (sc_results c))
        (if list_eqb pair_eqb (ssh_presented (sc_conns c) (sc_results c)) (sc_events c)
         then 0%N else SIG_SSH_EVENT).

Definition scase_mismatch (c : scase) : bool :=
  let m := ssh_session (sc_creds c) (sc_conns c) in
  negb (list_eqb (list_eqb Bool.eqb) (map (map sa_ok) m) (sc_results c)
        && list_eqb pair_eqb (map (fun a => (sa_user a, sa_pw a)) (concat m)) (sc_events c)).

(* ---------------- ldap ---------------- *)
Record lcase := mkLCase {
  lc_id : N;
  lc_creds : list str;
  lc_reqs : list lreq;
  lc_replies : list lreply;              (* one per request *)
  lc_events : list levent                (* one per request *)
}.

Definition reply_ok (r : lreply) : bool :=
  match r with Some (_, code) => (code =? 0)%N | None => false end.

Definition levent_bind_ok (dn pw : str) (e : levent) : bool :=
  (le_type e =? T_BIND)%N && ostr_eqb (le_user e) (Some (norm_dn dn)) && ostr_eqb (le_pw e) (Some pw).

(* logged: an earlier bind of this connection was observed to succeed with a non-empty name.
   cur: the LAST bind of this connection that was observed to succeed named a user (a later
   successful anonymous bind ends the login; failed binds change nothing).
   Gated operations: served without [logged] = not gated; refused although [cur] = the login
   has no effect.  Every simple bind, whatever its protocol version, must leave an event with
   the evaluated name and the presented password (a version < 2 bind that does not: the former
   defect, kept under its own signature). *)
Fixpoint ldap_sig_walk (creds : list str) (logged cur : bool) (reqs : list lreq)
         (rps : list lreply) (evs : list levent) : N :=
  match reqs, rps, evs with
  | [], [], [] => 0%N
  | r :: reqs', rp :: rps', ev :: evs' =>
      match r with
      | LBind ver dn pw =>
          let ok := reply_ok rp in
          let s := ldap_spec creds dn pw in
          let named := negb (is_nil (norm_dn dn)) in
          if ok && negb s then SIG_LDAP_ACCEPT
          else if (2 <=? ver) && negb ok && s then SIG_LDAP_REJECT
          else if negb (levent_bind_ok dn pw ev)
            then (if ver <? 2 then SIG_LDAP_OLDVER_EVENT else SIG_LDAP_EVENT)
          else ldap_sig_walk creds (logged || (ok && named)) (if ok then named else cur) reqs' rps' evs'
      | LBindShort _ | LBindBadName _ =>
          if negb (le_type ev =? T_BIND)%N then SIG_LDAP_EVENT
          else ldap_sig_walk creds logged cur reqs' rps' evs'
      | LBindOther _ dn =>     (* no password is presented; the evaluated name is recorded *)
          if negb ((le_type ev =? T_BIND)%N && ostr_eqb (le_user ev) (Some (norm_dn dn)))
            then SIG_LDAP_EVENT
          else ldap_sig_walk creds logged cur reqs' rps' evs'
      | LOp tag =>
          if ldap_gated tag && reply_ok rp && negb logged then SIG_LDAP_UNGATED
          else if ldap_gated tag && negb (reply_ok rp) && cur then SIG_LDAP_NO_EFFECT
          else ldap_sig_walk creds logged cur reqs' rps' evs'
      end
  | _, _, _ => SIG_LDAP_EVENT        (* not one reply slot and one event per request *)
  end.

Definition lcase_sig (c : lcase) : N :=
  ldap_sig_walk (lc_creds c) false false (lc_reqs c) (lc_replies c) (lc_events c).

Definition lreply_eqb (a b : lreply) : bool :=
  match a, b with
  | Some (t, c), Some (t', c') => (t =? t')%N && (c =? c')%N
  | None, None => true
  | _, _ => false
  end.
Definition levent_eqb (a b : levent) : bool :=
  (le_type a =? le_type b)%N && ostr_eqb (le_user a) (le_user b) && ostr_eqb (le_pw a) (le_pw b).

Definition lcase_mismatch (c : lcase) : bool :=
  let m := ldap_session (lc_creds c) (lc_reqs c) in
  negb (list_eqb lreply_eqb (map (fun x => snd (fst x)) m) (lc_replies c)
        && list_eqb levent_eqb (map snd m) (lc_events c)).

(* ---------------- ftp ---------------- *)
Record fcase := mkFCase {
  fc_id : N;
  fc_fs0 : ffs;                          (* file system at the start, sorted by name *)
  fc_lines : list str;                   (* lines sent, each with its CR LF *)
  fc_codes : list (list N);              (* per line: reply codes received *)
  fc_events : list str;                  (* ftp.command events *)
  fc_fs1 : ffs                           (* file system afterwards, sorted by name *)
}.

(* the file and directory commands (and the data-connection commands they depend on) *)
Definition ftp_gated_names : list str :=
  map s2b [ "APPE"; "CDUP"; "CWD"; "DELE"; "EPRT"; "EPSV"; "LIST"; "NLST"; "MDTM"; "MKD";
            "PASV"; "PORT"; "PWD"; "RETR"; "REST"; "RNFR"; "RNTO"; "RMD"; "SIZE"; "STOR";
            "XCUP"; "XCWD"; "XPWD"; "XRMD" ]%string.

Definition codes_eqb := list_eqb N.eqb.
Definition refused (codes : list N) : bool := codes_eqb codes [530%N] || codes_eqb codes [553%N].

Definition S_USER := s2b "USER".
Definition S_PASS := s2b "PASS".

Fixpoint ftp_sig_walk (requser : str) (logged : bool) (lines : list str) (obs : list (list N)) : N :=
  match lines, obs with
  | [], [] => 0%N
  | l :: lines', codes :: obs' =>
      let '(command, param) := parse_line l in
      let name := to_upper command in
      if eqb_str name S_USER then
        ftp_sig_walk (if codes_eqb codes [331%N] then param else requser) logged lines' obs'
      else if eqb_str name S_PASS && negb (is_nil param) then
        let ok := codes_eqb codes [230%N] in
        let s := ftp_spec requser param in
        if ok && negb s then SIG_FTP_ACCEPT
        else if negb ok && s then SIG_FTP_REJECT
        else ftp_sig_walk (if ok then [] else requser) (logged || ok) lines' obs'
      else if existsb (eqb_str name) ftp_gated_names && negb (refused codes) && negb logged
        then SIG_FTP_UNGATED
      else if existsb (eqb_str name) ftp_gated_names && codes_eqb codes [530%N] && logged
        then SIG_FTP_NO_EFFECT
      else ftp_sig_walk requser logged lines' obs'
  | _, _ => SIG_FTP_EVENT
  end.

Definition fs_entry_eqb (a b : str * bool) : bool := eqb_str (fst a) (fst b) && Bool.eqb (snd a) (snd b).
Definition fs_subset (a b : ffs) : bool := forallb (fun e => existsb (fs_entry_eqb e) b) a.
Definition fs_same (a b : ffs) : bool := fs_subset a b && fs_subset b a.

Definition fcase_sig (c : fcase) : N :=
  orsig (ftp_sig_walk [] false (fc_lines c) (fc_codes c))
  (orsig (if list_eqb eqb_str (ftp_events (fc_lines c)) (fc_events c) then 0%N else SIG_FTP_EVENT)
         (if negb (existsb (codes_eqb [230%N]) (fc_codes c)) && negb (fs_same (fc_fs0 c) (fc_fs1 c))
          then SIG_FTP_FS else 0%N)).

Definition fcase_mismatch (c : fcase) : bool :=
  let '(fin, out) := ftp_run ftp_users (ftp_init (fc_fs0 c)) (fc_lines c) in
  negb (list_eqb codes_eqb (map (fun x => outcome_codes (snd x)) out) (fc_codes c)
        && list_eqb eqb_str (ftp_events (fc_lines c)) (fc_events c)
        && fs_same (f_fs fin) (fc_fs1 c)).

(* ---------------- several connections on one service object ---------------- *)
(* Each connection is judged on ITS OWN projection of the history with the single-connection
   predicate: whatever the other connections did, an operation on a connection that has not
   logged in must be refused, and one on a connection that has must be served. *)
Definition conn_ids : list nat := seq 0 8.

Fixpoint first_sig (l : list N) : N :=
  match l with [] => 0%N | x :: r => orsig x (first_sig r) end.

Record lmcase := mkLMCase {
  lm_id : N;
  lm_creds : list str;
  lm_steps : list (nat * (lreq * lreply * levent))   (* connection, request, observed reply and event *)
}.

Definition lm_conn_sig (creds : list str) (steps : list (lreq * lreply * levent)) : N :=
  ldap_sig_walk creds false false (map (fun x => fst (fst x)) steps)
                (map (fun x => snd (fst x)) steps) (map snd steps).

Definition lmcase_sig (c : lmcase) : N :=
  first_sig (map (fun k => lm_conn_sig (lm_creds c) (proj k (lm_steps c))) conn_ids).

Definition lm_sched (c : lmcase) : list (nat * lreq) :=
  map (fun x => (fst x, fst (fst (snd x)))) (lm_steps c).

Definition lmcase_mismatch (c : lmcase) : bool :=
  let m := ldap_multi (lm_creds c) (fun _ => []) (lm_sched c) in
  negb (list_eqb lreply_eqb (map (fun x => snd (fst (snd x))) m) (map (fun x => snd (fst (snd x))) (lm_steps c))
        && list_eqb levent_eqb (map (fun x => snd (snd x)) m) (map (fun x => snd (snd x)) (lm_steps c))).

Record fmcase := mkFMCase {
  fm_id : N;
  fm_fs0 : ffs;
  fm_steps : list (nat * (str * list N * list str));  (* connection, line, reply codes, ftp.command events of the step *)
  fm_fs1 : ffs
}.

Definition fm_conn_sig (steps : list (str * list N * list str)) : N :=
  orsig (ftp_sig_walk [] false (map (fun x => fst (fst x)) steps) (map (fun x => snd (fst x)) steps))
        (if forallb (fun x => list_eqb eqb_str (snd x) [trim_crlf (fst (fst x))]) steps
         then 0%N else SIG_FTP_EVENT).

Definition fmcase_sig (c : fmcase) : N :=
  orsig (first_sig (map (fun k => fm_conn_sig (proj k (fm_steps c))) conn_ids))
        (if negb (existsb (fun x => codes_eqb [230%N] (snd (fst (snd x)))) (fm_steps c))
            && negb (fs_same (fm_fs0 c) (fm_fs1 c))
         then SIG_FTP_FS else 0%N).

Definition fmcase_mismatch (c : fmcase) : bool :=
  let '(out, fin) := ftp_multi ftp_users (fun _ => ([], [])) (fm_fs0 c)
                               (map (fun x => (fst x, fst (fst (snd x)))) (fm_steps c)) in
  negb (list_eqb codes_eqb (map (fun x => outcome_codes (snd (snd x))) out)
                           (map (fun x => snd (fst (snd x))) (fm_steps c))
        && fs_same fin (fm_fs1 c)).

(* ---------------- the three exported functions ---------------- *)
Inductive case := CS (c : scase) | CL (c : lcase) | CF (c : fcase) | CLM (c : lmcase) | CFM (c : fmcase).

Definition case_id (c : case) : N :=
  match c with CS s => sc_id s | CL l => lc_id l | CF f => fc_id f | CLM l => lm_id l | CFM f => fm_id f end.
Definition case_sig (c : case) : N :=
  match c with CS s => scase_sig s | CL l => lcase_sig l | CF f => fcase_sig f
  | CLM l => lmcase_sig l | CFM f => fmcase_sig f end.
Definition case_mismatch (c : case) : bool :=
  match c with CS s => scase_mismatch s | CL l => lcase_mismatch l | CF f => fcase_mismatch f
  | CLM l => lmcase_mismatch l | CFM f => fmcase_mismatch f end.

Definition mismatches (cs : list case) : list N := map case_id (filter case_mismatch cs).

Definition violations (cs : list case) : list (N * N) :=
  flat_map (fun c => let s := case_sig c in if (s =? 0)%N then [] else [(case_id c, s)]) cs.

(* tags: ssh 1 (+2 some attempt accepted, +4 some rejected); ldap 8 (+2 some gated operation
   accepted, +4 some refused); ftp 16 (+2 a login succeeded, +4 a command refused with 530) *)
Definition tags (cs : list case) : list (N * N) :=
  map (fun c => (case_id c,
    match c with
    | CS s => let rs := concat (sc_results s) in
              if is_nil rs then 0
              else 1 + (if existsb (fun b => b) rs then 2 else 0) + (if existsb negb rs then 4 else 0)
    | CL l => if is_nil (lc_reqs l) then 0
              else 8 + (if existsb reply_ok (lc_replies l) then 2 else 0)
                     + (if existsb (fun r => negb (reply_ok r)) (lc_replies l) then 4 else 0)
    | CF f => if is_nil (fc_lines f) then 0
              else 16 + (if existsb (codes_eqb [230%N]) (fc_codes f) then 2 else 0)
                      + (if existsb (codes_eqb [530%N]) (fc_codes f) then 4 else 0)
    | CLM l => if is_nil (lm_steps l) then 0
               else 32 + (if existsb (fun x => reply_ok (snd (fst (snd x)))) (lm_steps l) then 2 else 0)
                       + (if existsb (fun x => negb (reply_ok (snd (fst (snd x))))) (lm_steps l) then 4 else 0)
    | CFM f => if is_nil (fm_steps f) then 0
               else 64 + (if existsb (fun x => codes_eqb [230%N] (snd (fst (snd x)))) (fm_steps f) then 2 else 0)
                       + (if existsb (fun x => codes_eqb [530%N] (snd (fst (snd x)))) (fm_steps f) then 4 else 0)
    end)%N) cs.
