(* C12 - executable models of the three login decision procedures and of the
   per-connection gating state machines.  Definitions only.

   ssh   services/ssh/ssh-simulator.go   PasswordCallback (lines 146-176)
   ldap  services/ldap/bind.go handle, ldap.go bindFunc / isLogin, catchall.go handle
   ftp   services/ftp/conn.go receiveLine/parseLine, cmd.go (commands table, RequireParam,
         RequireAuth, Execute of the commands the harness drives), auth.go CheckPasswd,
         ftp.go (users map literal)

   Strings are byte lists.  Library behaviour that is not modelled here (x/crypto/ssh's
   authentication loop, asn1-ber decoding, bufio line reading, the host file system) is
   exercised by the harness with the real libraries; what the model needs of it is stated
   in props/C12.json. *)
From HT Require Import Common.Bytes.
From Coq Require Import String Ascii.
Open Scope Z_scope.

Definition str := bytes.
Definition eqb_str := eqb_bytes.

Fixpoint s2b (s : string) : str :=
  match s with
  | EmptyString => []
  | String a r => N_of_ascii a :: s2b r
  end.

Definition C_colon := 58%N.
Definition C_comma := 44%N.
Definition C_space := 32%N.

(* strings.Split(s, sep) for a one-byte separator *)
Fixpoint split_on (c : N) (s : str) (cur : str) : list str :=
  match s with
  | [] => [rev cur]
  | x :: r => if (x =? c)%N then rev cur :: split_on c r [] else split_on c r (x :: cur)
  end.
Definition split (c : N) (s : str) : list str := split_on c s [].

Definition no_byte (c : N) (s : str) : bool := forallb (fun x => negb (x =? c)%N) s.

Fixpoint has_prefix (p s : str) : bool :=
  match p, s with
  | [], _ => true
  | a :: p', b :: s' => (a =? b)%N && has_prefix p' s'
  | _ :: _, [] => false
  end.

(* ------------------------------------------------------------------ *)
(* ssh-simulator: PasswordCallback                                     *)
(* ------------------------------------------------------------------ *)

Definition S_star : str := [42%N].

(* parts := strings.Split(credential, ":"); len(parts) == 2 && user == parts[0] && password == parts[1] *)
Definition cred_matches (u p c : str) : bool :=
  match split C_colon c with
  | [a; b] => eqb_str u a && eqb_str p b
  | _ => false
  end.

(* the loop over s.Credentials, in list order *)
Fixpoint ssh_auth (creds : list str) (u p : str) : bool :=
  match creds with
  | [] => false
  | c :: r =>
      if eqb_str c S_star then true
      else if cred_matches u p c then true
      else ssh_auth r u p
  end.

(* one attempt: the event (ssh.username, ssh.password) sent before the decision, and the result *)
Record sattempt := mkSA { sa_user : str; sa_pw : str; sa_ok : bool }.

(* one connection: the client presents the passwords in order until one is accepted
   (x/crypto/ssh: MaxAuthTries = -1, no limit; the user name is fixed per connection) *)
Fixpoint ssh_conn (creds : list str) (u : str) (pws : list str) : list sattempt :=
  match pws with
  | [] => []
  | p :: r =>
      if ssh_auth creds u p then [mkSA u p true]
      else mkSA u p false :: ssh_conn creds u r
  end.

(* one service object, several connections one after the other *)
Definition ssh_session (creds : list str) (conns : list (str * list str)) : list (list sattempt) :=
  map (fun c => ssh_conn creds (fst c) (snd c)) conns.

(* ------------------------------------------------------------------ *)
(* ldap                                                                *)
(* ------------------------------------------------------------------ *)

Fixpoint index_from (c : N) (s : str) (i : nat) : option nat :=
  match s with
  | [] => None
  | x :: r => if (x =? c)%N then Some i else index_from c r (S i)
  end.
Definition index (c : N) (s : str) : option nat := index_from c s 0.

Definition P_cn : str := s2b "cn=".
Definition P_sn : str := s2b "sn=".

(* bind.go: cut at the first ',', then strip a leading "cn=" or "sn=" *)
Definition norm_dn (dn : str) : str :=
  let d := match index C_comma dn with Some i => firstn i dn | None => dn end in
  if has_prefix P_cn d || has_prefix P_sn d then skipn 3 d else d.

Definition RES_SUCCESS := 0%N.
Definition RES_PROTOCOL := 2%N.
Definition RES_INVALID_CRED := 49%N.
Definition RES_UNWILLING := 53%N.

(* ldap.go bindFunc: (accepted, new value of s.login) *)
Definition bind_func (creds : list str) (login dn pw : str) : bool * str :=
  let cred := dn ++ C_colon :: pw in
  if Nat.eqb (List.length cred) 1 then (true, [])                 (* anonymous bind *)
  else if existsb (eqb_str cred) creds then (true, dn)
  else (false, login).

Inductive lreq :=
| LBind (ver : Z) (dn pw : str)       (* simple bind: version, name as sent, password *)
| LBindShort (ver : Z)                 (* bind request with fewer than 3 elements *)
| LBindBadName (ver : Z)               (* name element is not a universal primitive octet string *)
| LBindOther (ver : Z) (dn : str)      (* authentication choice is not [context 0] primitive (e.g. SASL) *)
| LOp (tag : N).                       (* any request the catch-all answers: application tag *)

(* request types as recorded in the event (ldap.request-type); 0 = field absent *)
Definition T_NONE := 0%N.  Definition T_BIND := 1%N.  Definition T_MODIFY := 2%N.
Definition T_ADD := 3%N.   Definition T_DELETE := 4%N. Definition T_MODDN := 5%N.
Definition T_COMPARE := 6%N. Definition T_ABANDON := 7%N.

Record levent := mkLE { le_type : N; le_user : option str; le_pw : option str }.
(* reply: None = no response packet; Some (application tag of the response, result code) *)
Definition lreply := option (N * N).

Definition is_login (login : str) : bool := match login with [] => false | _ => true end.

(* bind.go handle, well-formed simple bind, in the order of the code: the name is evaluated and
   recorded, the password is recorded, THEN an old protocol version is refused, then bindFunc *)
Definition ldap_bind (creds : list str) (login : str) (ver : Z) (dn0 pw : str)
  : str * lreply * levent :=
  let dn := norm_dn dn0 in
  let base := match pw, dn with
              | [], _ :: _ => RES_UNWILLING      (* name without password *)
              | _, _ => RES_INVALID_CRED
              end in
  let ev := mkLE T_BIND (Some dn) (Some pw) in
  if ver <? 2 then (login, Some (1%N, RES_PROTOCOL), ev)
  else
    let '(ok, login') := bind_func creds login dn pw in
    (login', Some (1%N, if ok then RES_SUCCESS else base), ev).

(* bind.go returns nil (request-type "bind" already recorded) when the request has fewer than
   3 elements, when the name is not an octet string (both before the name is recorded) or when
   the authentication choice is not the simple one (after the name, before the password) - all
   of them BEFORE the version check.  The catch-all then answers: application tag 0 (the bind
   request's own tag, its switch has no case for it), success iff logged in. *)
Definition ldap_bind_fallthrough (login : str) (user : option str) : str * lreply * levent :=
  (login, Some (0%N, if is_login login then RES_SUCCESS else RES_UNWILLING), mkLE T_BIND user None).

(* catchall.go *)
Definition ldap_catchall (login : str) (tag : N) : lreply * levent :=
  let code := if is_login login then RES_SUCCESS else RES_UNWILLING in
  let ev t := mkLE t None None in
  if (tag =? 6)%N then (Some (7%N, code), ev T_MODIFY)
  else if (tag =? 8)%N then (Some (9%N, code), ev T_ADD)
  else if (tag =? 10)%N then (Some (11%N, code), ev T_DELETE)
  else if (tag =? 12)%N then (Some (13%N, code), ev T_MODDN)
  else if (tag =? 14)%N then (Some (15%N, code), ev T_COMPARE)
  else if (tag =? 16)%N then (None, ev T_ABANDON)
  else (Some (0%N, code), ev T_NONE).

Definition ldap_step (creds : list str) (login : str) (r : lreq) : str * lreply * levent :=
  match r with
  | LBind ver dn pw => ldap_bind creds login ver dn pw
  | LBindShort _ | LBindBadName _ => ldap_bind_fallthrough login None
  | LBindOther _ dn => ldap_bind_fallthrough login (Some (norm_dn dn))
  | LOp tag => let '(rp, ev) := ldap_catchall login tag in (login, rp, ev)
  end.

(* one connection: Handle resets s.login to "" and then serves requests in order *)
Fixpoint ldap_run (creds : list str) (login : str) (reqs : list lreq)
  : str * list (lreq * lreply * levent) :=
  match reqs with
  | [] => (login, [])
  | r :: rest =>
      let '(login', rp, ev) := ldap_step creds login r in
      let '(fin, out) := ldap_run creds login' rest in
      (fin, (r, rp, ev) :: out)
  end.

Definition ldap_session (creds : list str) (reqs : list lreq) := snd (ldap_run creds [] reqs).

(* the operations the property names: modify, add, delete, rename (modifyDN), compare *)
Definition ldap_gated (tag : N) : bool :=
  (tag =? 6)%N || (tag =? 8)%N || (tag =? 10)%N || (tag =? 12)%N || (tag =? 14)%N.

(* ------------------------------------------------------------------ *)
(* ftp                                                                 *)
(* ------------------------------------------------------------------ *)

Inductive fcmd :=
| ADAT | ALLO | APPE | AUTH | CDUP | CWD | CCC | CONF | DELE | ENC | EPRT | EPSV | FEAT
| LIST | NLST | MDTM | MIC | MKD | MODE | NOOP | OPTS | PASS | PASV | PBSZ | PORT | PROT
| PWD | QUIT | RETR | REST | RNFR | RNTO | RMD | SIZE | STOR | STRU | SYST | TYPE | USER.

(* cmd.go: the commands map *)
Definition ftp_table : list (str * fcmd) :=
  map (fun p => (s2b (fst p), snd p))
  [ ("ADAT", ADAT); ("ALLO", ALLO); ("APPE", APPE); ("AUTH", AUTH); ("CDUP", CDUP);
    ("CWD", CWD); ("CCC", CCC); ("CONF", CONF); ("DELE", DELE); ("ENC", ENC);
    ("EPRT", EPRT); ("EPSV", EPSV); ("FEAT", FEAT); ("LIST", LIST); ("NLST", NLST);
    ("MDTM", MDTM); ("MIC", MIC); ("MKD", MKD); ("MODE", MODE); ("NOOP", NOOP);
    ("OPTS", OPTS); ("PASS", PASS); ("PASV", PASV); ("PBSZ", PBSZ); ("PORT", PORT);
    ("PROT", PROT); ("PWD", PWD); ("QUIT", QUIT); ("RETR", RETR); ("REST", REST);
    ("RNFR", RNFR); ("RNTO", RNTO); ("RMD", RMD); ("SIZE", SIZE); ("STOR", STOR);
    ("STRU", STRU); ("SYST", SYST); ("TYPE", TYPE); ("USER", USER);
    ("XCUP", CDUP); ("XCWD", CWD); ("XPWD", PWD); ("XRMD", RMD) ]%string.

Fixpoint ftp_lookup_in (t : list (str * fcmd)) (name : str) : option fcmd :=
  match t with
  | [] => None
  | (k, c) :: r => if eqb_str k name then Some c else ftp_lookup_in r name
  end.
Definition ftp_lookup := ftp_lookup_in ftp_table.

(* each command type's RequireParam() constant *)
Definition require_param (c : fcmd) : bool :=
  match c with
  | ALLO | APPE | CDUP | EPSV | FEAT | LIST | NLST | NOOP | OPTS | PASV | PWD | QUIT
  | SYST | TYPE => false
  | _ => true
  end.

(* each command type's RequireAuth() constant *)
Definition require_auth (c : fcmd) : bool :=
  match c with
  | ALLO | AUTH | FEAT | NOOP | OPTS | PASS | QUIT | USER => false
  | _ => true
  end.

(* strings.Trim(line, "\r\n") *)
Definition is_crlf (x : N) : bool := (x =? 13)%N || (x =? 10)%N.
Fixpoint drop_while (f : N -> bool) (s : str) : str :=
  match s with
  | x :: r => if f x then drop_while f r else s
  | [] => []
  end.
Definition trim_with (f : N -> bool) (s : str) : str :=
  rev (drop_while f (rev (drop_while f s))).
Definition trim_crlf := trim_with is_crlf.
(* strings.TrimSpace on ASCII input *)
Definition is_space (x : N) : bool := ((9 <=? x) && (x <=? 13))%N || (x =? 32)%N.
Definition trim_space := trim_with is_space.

(* strings.ToUpper on ASCII input *)
Definition upper_byte (x : N) : N := if ((97 <=? x) && (x <=? 122))%N then (x - 32)%N else x.
Definition to_upper (s : str) : str := map upper_byte s.

(* conn.parseLine: SplitN(Trim(line, "\r\n"), " ", 2); param = TrimSpace(params[1]) *)
Definition parse_line (line : str) : str * str :=
  let l := trim_crlf line in
  match index C_space l with
  | None => (l, [])
  | Some i => (firstn i l, trim_space (skipn (S i) l))
  end.

(* the visible file system under the service root: (path as sent, is a directory) *)
Definition ffs := list (str * bool).
Definition fs_has (fs : ffs) (p : str) : bool := existsb (fun e => eqb_str (fst e) p) fs.
Definition fs_is_dir (fs : ffs) (p : str) : bool := existsb (fun e => eqb_str (fst e) p && snd e) fs.
Definition fs_remove (fs : ffs) (p : str) : ffs := filter (fun e => negb (eqb_str (fst e) p)) fs.

Record fstate := mkF { f_user : str; f_requser : str; f_fs : ffs }.

(* auth.go CheckPasswd over the users map (keys are unique in a Go map) *)
Definition check_passwd (users : list (str * str)) (name pw : str) : bool :=
  existsb (fun e => eqb_str (fst e) name && eqb_str (snd e) pw) users.

(* ftp.go: Auth: &User{users: {"anonymous": "anonymous"}} *)
Definition S_anonymous : str := s2b "anonymous".
Definition ftp_users : list (str * str) := [(S_anonymous, S_anonymous)].

Definition S_root : str := [47%N].
Definition is_digit (c : N) : bool := ((48 <=? c) && (c <=? 57))%N.

Inductive foutcome :=
| FUnknown                      (* 500: no such command *)
| FNoParam                      (* 553: required parameter missing *)
| FNoAuth                       (* 530: RequireAuth and conn.user == "" *)
| FExec (codes : list N).       (* Execute ran; the reply codes it wrote ([] = not modelled) *)

Definition outcome_codes (o : foutcome) : list N :=
  match o with
  | FUnknown => [500%N] | FNoParam => [553%N] | FNoAuth => [530%N] | FExec cs => cs
  end.

(* Execute of the commands the harness drives after a login.  Paths are the absolute
   single-component names the harness uses ("/" ++ name); the data connection is absent. *)
Definition ftp_exec (users : list (str * str)) (st : fstate) (c : fcmd) (param : str)
  : fstate * list N :=
  let fs := f_fs st in
  match c with
  | USER => (mkF (f_user st) param fs, [331%N])
  | PASS =>
      if check_passwd users (f_requser st) param
      then (mkF (f_requser st) [] fs, [230%N])
      else (st, [530%N])
  | NOOP => (st, [200%N])
  | ALLO | APPE => (st, [202%N])
  | SYST => (st, [215%N])
  | PWD => (st, [257%N])
  | FEAT => (st, [211%N])
  | TYPE =>
      let u := to_upper param in
      (st, [if eqb_str u (s2b "A") || eqb_str u (s2b "I") then 200%N else 500%N])
  | MODE => (st, [if eqb_str (to_upper param) (s2b "S") then 200%N else 504%N])
  | STRU => (st, [if eqb_str (to_upper param) (s2b "F") then 200%N else 504%N])
  | REST => (st, [if forallb is_digit param then 350%N else 551%N])
  | RNFR => (st, [350%N])
  | OPTS => (st, [if eqb_str (to_upper param) (s2b "UTF8 ON") then 200%N else 550%N])
  | AUTH | ADAT | CCC | CONF | ENC | MIC | PBSZ | PROT => (st, [550%N])   (* no TLS session *)
  | CDUP => (st, [250%N])
  | CWD => (st, [if eqb_str param S_root || fs_is_dir fs param then 250%N else 550%N])
  | MKD =>
      if fs_has fs param then (st, [550%N])
      else (mkF (f_user st) (f_requser st) (fs ++ [(param, true)]), [257%N])
  | RMD =>
      if fs_is_dir fs param then (mkF (f_user st) (f_requser st) (fs_remove fs param), [250%N])
      else (st, [550%N])
  | DELE =>       (* os.Remove: files and (empty) directories alike *)
      if fs_has fs param then (mkF (f_user st) (f_requser st) (fs_remove fs param), [250%N])
      else (st, [550%N])
  | SIZE => (st, [if fs_has fs param then 213%N else 450%N])
  | MDTM => (st, if fs_has fs param then [213%N; 450%N] else [450%N])   (* no return after 213 *)
  | LIST | NLST => (st, [150%N; 226%N])
  | RETR => (st, if fs_has fs param then [] else [551%N])
  | EPRT | EPSV | PASV | PORT | QUIT | RNTO | STOR => (st, [])          (* not modelled *)
  end.

(* conn.receiveLine *)
Definition ftp_step (users : list (str * str)) (st : fstate) (line : str) : fstate * foutcome :=
  let '(command, param) := parse_line line in
  match ftp_lookup (to_upper command) with
  | None => (st, FUnknown)
  | Some c =>
      if require_param c && match param with [] => true | _ => false end then (st, FNoParam)
      else if require_auth c && match f_user st with [] => true | _ => false end then (st, FNoAuth)
      else let '(st', codes) := ftp_exec users st c param in (st', FExec codes)
  end.

Fixpoint ftp_run (users : list (str * str)) (st : fstate) (lines : list str)
  : fstate * list (str * foutcome) :=
  match lines with
  | [] => (st, [])
  | l :: rest =>
      let '(st', o) := ftp_step users st l in
      let '(fin, out) := ftp_run users st' rest in
      (fin, (l, o) :: out)
  end.

(* ftp.go: every received line becomes an ftp.command event with CR/LF trimmed *)
Definition ftp_events (lines : list str) : list str := map trim_crlf lines.

Definition ftp_init (fs : ffs) : fstate := mkF [] [] fs.

(* ------------------------------------------------------------------ *)
(* several connections on ONE service object                           *)
(* ------------------------------------------------------------------ *)
(* The login state belongs to the connection (ldap: the session object Handle builds, ftp:
   the Conn made by newConn).  A history is a schedule: (connection number, request) in the
   order in which the service executes them; a connection that has not been used yet is in the
   initial state. *)

Definition upd {A} (m : nat -> A) (c : nat) (v : A) : nat -> A :=
  fun x => if Nat.eqb x c then v else m x.

Definition proj {A} (c : nat) (l : list (nat * A)) : list A :=
  map snd (filter (fun x => Nat.eqb (fst x) c) l).

Fixpoint ldap_multi (creds : list str) (st : nat -> str) (sched : list (nat * lreq))
  : list (nat * (lreq * lreply * levent)) :=
  match sched with
  | [] => []
  | (c, r) :: rest =>
      let '(login', rp, ev) := ldap_step creds (st c) r in
      (c, (r, rp, ev)) :: ldap_multi creds (upd st c login') rest
  end.

(* ftp: (user, reqUser) per connection; the file system under the service root is shared *)
Definition fauth := (str * str)%type.

Fixpoint ftp_multi (users : list (str * str)) (auth : nat -> fauth) (fs : ffs)
         (sched : list (nat * str)) : list (nat * (str * foutcome)) * ffs :=
  match sched with
  | [] => ([], fs)
  | (c, l) :: rest =>
      let '(st', o) := ftp_step users (mkF (fst (auth c)) (snd (auth c)) fs) l in
      let '(out, fin) := ftp_multi users (upd auth c (f_user st', f_requser st')) (f_fs st') rest in
      ((c, (l, o)) :: out, fin)
  end.

(* the part of receiveLine that concerns the login state only (no file system):
   class 0 unknown command, 1 argument missing, 2 refused (not logged in), 3 executed *)
Definition auth_step (users : list (str * str)) (a : fauth) (line : str) : fauth * N :=
  let '(command, param) := parse_line line in
  match ftp_lookup (to_upper command) with
  | None => (a, 0%N)
  | Some c =>
      if require_param c && match param with [] => true | _ => false end then (a, 1%N)
      else if require_auth c && match fst a with [] => true | _ => false end then (a, 2%N)
      else (match c with
            | USER => (fst a, param)
            | PASS => if check_passwd users (snd a) param then (snd a, []) else a
            | _ => a
            end, 3%N)
  end.

Fixpoint auth_run (users : list (str * str)) (a : fauth) (lines : list str) : fauth * list N :=
  match lines with
  | [] => (a, [])
  | l :: rest =>
      let '(a', k) := auth_step users a l in
      let '(fin, ks) := auth_run users a' rest in
      (fin, k :: ks)
  end.

Definition oclass (o : foutcome) : N :=
  match o with FUnknown => 0 | FNoParam => 1 | FNoAuth => 2 | FExec _ => 3 end%N.
