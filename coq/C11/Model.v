(* C11 - model of the path handling of services/filesystem/htfs.go (RealPath, ChangeDir,
   Cwd), of the FTP driver services/ftp/ftpfs.go and of the path-taking commands of
   services/ftp/cmd.go.  Executable definitions only.

   Strings are byte lists.  path/filepath (unix) is modelled at component level:
   [clean], [join2] (= filepath.Join of two elements), [is_abs], [rel] (= filepath.Rel,
   modelled only for a target at or below the base - everything else is [None] and the
   theorems show it is never needed).  The host file system is a finite map from clean
   absolute path strings to nodes; it holds a window around the service root (the root's
   parent directory and everything beneath it), so what happens beside the root is part
   of the state and can be stated to be unchanged. *)
From HT Require Import Common.Bytes.
Open Scope N_scope.

(* Byte-string equality by structural recursion.  It replaces Common.Bytes.eqb_bytes in this
   development: that one decides with list_eq_dec and carries proof terms, which makes the
   evaluation of the file system maps (keys are long absolute paths with long common prefixes)
   an order of magnitude slower under vm_compute.  Specification: Proofs.eqb_bytes_true. *)
Fixpoint eqb_bytes (a b : bytes) : bool :=
  match a, b with
  | [], [] => true
  | x :: a', y :: b' => (x =? y) && eqb_bytes a' b'
  | _, _ => false
  end.

Definition SLASH : N := 47.
Definition comp := bytes.
Definition DOT1 : comp := [46].
Definition DOTDOT : comp := [46; 46].

(* strings.Split(s, "/") *)
Fixpoint split (s : bytes) : list comp :=
  match s with
  | [] => [[]]
  | c :: r =>
      if c =? SLASH then [] :: split r
      else match split r with
           | [] => [[c]]
           | h :: t => (c :: h) :: t
           end
  end.

(* strings.Join(cs, "/") *)
Fixpoint join_comps (cs : list comp) : bytes :=
  match cs with
  | [] => []
  | [c] => c
  | c :: r => c ++ SLASH :: join_comps r
  end.

Definition is_abs (p : bytes) : bool :=
  match p with c :: _ => c =? SLASH | [] => false end.

(* the component walk of filepath.Clean; [stack] holds the components kept so far, last
   one first.  "" and "." are dropped; ".." removes the last kept component, is dropped
   at the root of a rooted path and is kept at the front of a relative one. *)
Fixpoint walk (rooted : bool) (stack : list comp) (cs : list comp) : list comp :=
  match cs with
  | [] => stack
  | c :: r =>
      if eqb_bytes c [] || eqb_bytes c DOT1 then walk rooted stack r
      else if eqb_bytes c DOTDOT then
        match stack with
        | [] => if rooted then walk rooted [] r else walk rooted [DOTDOT] r
        | t :: st => if eqb_bytes t DOTDOT then walk rooted (DOTDOT :: stack) r
                     else walk rooted st r
        end
      else walk rooted (c :: stack) r
  end.

Definition rooted_str (cs : list comp) : bytes := SLASH :: join_comps cs.

Definition clean (p : bytes) : bytes :=
  let cs := rev (walk (is_abs p) [] (split p)) in
  if is_abs p then rooted_str cs
  else match cs with [] => DOT1 | _ => join_comps cs end.

(* filepath.Join(a, b): empty elements before the first non-empty one are ignored *)
Definition join2 (a b : bytes) : bytes :=
  match a with
  | [] => match b with [] => [] | _ => clean b end
  | _ => clean (a ++ SLASH :: b)
  end.

Fixpoint is_prefix (p s : bytes) : bool :=
  match p, s with
  | [], _ => true
  | x :: p', y :: s' => (x =? y) && is_prefix p' s'
  | _ :: _, [] => false
  end.

Fixpoint strip_prefix (p s : bytes) : option bytes :=
  match p, s with
  | [], _ => Some s
  | x :: p', y :: s' => if x =? y then strip_prefix p' s' else None
  | _ :: _, [] => None
  end.

(* filepath.Rel(base, targ) for targ at or below base; None otherwise (not modelled) *)
Definition rel (base targ : bytes) : option bytes :=
  let b := clean base in
  let t := clean targ in
  if eqb_bytes b t then Some DOT1
  else strip_prefix (if eqb_bytes b [SLASH] then b else b ++ [SLASH]) t.

(* ---- services/filesystem.Htfs ---- *)
Record htfs := mkH { h_root : bytes; h_cwd : bytes }.

Definition real_path (root cwd p : bytes) : bytes :=
  join2 root (if is_abs p then clean p else join2 cwd p).

(* ---- host file system window ---- *)
Inductive node := NDir | NFile (content : bytes).
Definition hostfs := list (bytes * node).

Fixpoint lookup (fs : hostfs) (k : bytes) : option node :=
  match fs with
  | [] => None
  | (k', v) :: r => if eqb_bytes k' k then Some v else lookup r k
  end.

Definition fs_del (k : bytes) (fs : hostfs) : hostfs :=
  filter (fun e => negb (eqb_bytes (fst e) k)) fs.

Definition fs_set (k : bytes) (v : node) (fs : hostfs) : hostfs := (k, v) :: fs_del k fs.

(* filepath.Dir of a clean absolute path *)
Definition nonempty (c : comp) : bool := negb (eqb_bytes c []).
Definition comps (s : bytes) : list comp := filter nonempty (split s).
Definition dirname (k : bytes) : bytes := rooted_str (removelast (comps k)).

Definition is_dir (fs : hostfs) (k : bytes) : bool :=
  match lookup fs k with Some NDir => true | _ => false end.
Definition has_child (fs : hostfs) (k : bytes) : bool :=
  existsb (fun e => is_prefix (k ++ [SLASH]) (fst e)) fs.

(* os.Mkdir *)
Definition os_mkdir (fs : hostfs) (k : bytes) : option hostfs :=
  match lookup fs k with
  | Some _ => None
  | None => if is_dir fs (dirname k) then Some (fs_set k NDir fs) else None
  end.

(* os.Remove: a file, or an empty directory *)
Definition os_remove (fs : hostfs) (k : bytes) : option hostfs :=
  match lookup fs k with
  | None => None
  | Some (NFile _) => Some (fs_del k fs)
  | Some NDir => if has_child fs k then None else Some (fs_del k fs)
  end.

(* os.Rename (Go's unix rename: refuses an existing directory as the new name unless it
   is the old name; then rename(2)) *)
Definition rekey (a b k : bytes) : bytes :=
  if eqb_bytes k a then b
  else match strip_prefix (a ++ [SLASH]) k with
       | Some rest => b ++ SLASH :: rest
       | None => k
       end.

Definition os_rename (fs : hostfs) (a b : bytes) : option hostfs :=
  match lookup fs a with
  | None => None
  | Some na =>
      match lookup fs b with
           | Some NDir => None                              (* EEXIST, also for a = b *)
           | ob =>
               if eqb_bytes a b then Some fs                (* a file onto itself *)
               else if is_prefix (a ++ [SLASH]) b then None (* EINVAL: into itself *)
               else if negb (is_dir fs (dirname b)) then None
               else match na, ob with
                    | NDir, Some _ => None                  (* ENOTDIR *)
                    | _, _ => Some (map (fun e => (rekey a b (fst e), snd e)) (fs_del b fs))
                    end
           end
  end.

(* Fs.PutFile *)
Definition put_file (fs : hostfs) (k : bytes) (data : bytes) (app : bool) : option hostfs :=
  match lookup fs k with
  | Some NDir => None
  | Some (NFile c) => Some (fs_set k (NFile (if app then c ++ data else data)) fs)
  | None => if is_dir fs (dirname k) then Some (fs_set k (NFile data) fs) else None
  end.

(* names directly beneath directory k *)
Definition child_names (fs : hostfs) (k : bytes) : list comp :=
  flat_map (fun e => match strip_prefix (k ++ [SLASH]) (fst e) with
                     | Some rest => if existsb (N.eqb SLASH) rest then [] else [rest]
                     | None => []
                     end) fs.

(* ---- Htfs.ChangeDir ---- *)
Inductive cd_out :=
| CdOk (h : htfs)
| CdNoEnt            (* Lstat failed *)
| CdNotDir
| CdOutside.         (* filepath.Rel left the modelled domain: shown unreachable *)

Definition change_dir (fs : hostfs) (h : htfs) (p : bytes) : cd_out :=
  let rp := real_path (h_root h) (h_cwd h) p in
  match lookup fs rp with
  | None => CdNoEnt
  | Some (NFile _) => CdNotDir
  | Some NDir =>
      match rel (h_root h) rp with
      | Some r => CdOk (mkH (h_root h) (join2 [SLASH] r))
      | None => CdOutside
      end
  end.

(* part "htfs": a history of Htfs calls *)
Inductive hop := HCd (p : bytes) | HReal (p : bytes).
(* observation per call: HCd -> (0 ok | 1 error | 2 outside-model, Cwd() afterwards);
   HReal -> (0, RealPath) *)
Definition hstep (fs : hostfs) (h : htfs) (o : hop) : htfs * (N * bytes) :=
  match o with
  | HReal p => (h, (0, real_path (h_root h) (h_cwd h) p))
  | HCd p =>
      match change_dir fs h p with
      | CdOk h' => (h', (0, h_cwd h'))
      | CdOutside => (h, (2, h_cwd h))
      | _ => (h, (1, h_cwd h))
      end
  end.

Fixpoint hrun (fs : hostfs) (h : htfs) (os : list hop) : htfs * list (N * bytes) :=
  match os with
  | [] => (h, [])
  | o :: r => let '(h1, x) := hstep fs h o in
              let '(h2, xs) := hrun fs h1 r in (h2, x :: xs)
  end.

(* ---- the FTP session after login (services/ftp/cmd.go over ftpfs.go) ---- *)

(* services/ftp/ftpfs.go: Fs.ChangeDir delegates to the embedded Htfs.ChangeDir (since the
   repair of the self-call, /repo commit 6736570); CWD/XCWD and CDUP/XCUP (= CWD "..") go
   through it. *)
Inductive cmd :=
| CPwd
| CCwd (p : bytes)
| CCdup
| CMkd (p : bytes)
| CRmd (p : bytes)
| CDele (p : bytes)
| CRnfr (p : bytes)
| CRnto (p : bytes)
| CStor (p : bytes) (data : bytes)      (* with its own fresh data connection *)
| CStorAbort (p : bytes) (part : bytes)  (* STOR whose data connection is reset by the client after
                                           [part] (possibly nothing) has been delivered *)
| CListNoData (p : bytes)               (* LIST/NLST whose data connection is missing or reset *)
| CAppe
| CRest (z : Z)
| CRetr (p : bytes)                     (* with its own fresh data connection *)
| CList (p : bytes)
| CNlst (p : bytes)
| CMdtm (p : bytes)
| CSize (p : bytes).

Record sess := mkS {
  s_fs : hostfs;
  s_h : htfs;
  s_rnfr : bytes;      (* conn.renameFrom *)
  s_append : bool;     (* conn.appendData *)
  s_pos : Z            (* conn.lastFilePos *)
}.

(* what the client sees for one command: reply codes in order, and a payload:
   PWD -> the directory text; RETR -> the announced size and the bytes on the data connection;
   LIST/NLST -> the names listed (as a list); SIZE -> the number *)
Inductive payload :=
| PNone | PText (b : bytes) | PNames (l : list comp) | PNum (n : Z)
| PRetr (announced : Z) (b : bytes).   (* RETR: the size named in the 150 reply, the bytes sent *)
Record resp := mkR { r_codes : list N; r_pay : payload; r_touched : list bytes }.

Definition rp_of (s : sess) (p : bytes) : bytes := real_path (h_root (s_h s)) (h_cwd (s_h s)) p.

Definition set_fs (s : sess) (fs : hostfs) : sess := mkS fs (s_h s) (s_rnfr s) (s_append s) (s_pos s).

(* receiveLine: a command that requires a parameter and has none is answered 553 *)
Definition need_param (p : bytes) (k : unit -> option (sess * resp)) (s : sess) : option (sess * resp) :=
  match p with
  | [] => Some (s, mkR [553] PNone [])
  | _ => k tt
  end.

Definition do_cwd (s : sess) (p : bytes) : option (sess * resp) :=
  match change_dir (s_fs s) (s_h s) p with
  | CdOk h' => Some (mkS (s_fs s) h' (s_rnfr s) (s_append s) (s_pos s), mkR [250] PNone [rp_of s p])
  | _ => Some (s, mkR [550] PNone [rp_of s p])
  end.

Definition retr_data (c : bytes) (pos : Z) : bytes :=
  let start := (Z.of_nat (length c) + pos)%Z in
  if (start <? 0)%Z then c else skipn (Z.to_nat start) c.

(* None = the process does not survive the command (no such command is left: see
   Proofs.step_total) *)
Definition step (s : sess) (c : cmd) : option (sess * resp) :=
  match c with
  | CPwd => Some (s, mkR [257] (PText (h_cwd (s_h s))) [])
  | CCwd p => need_param p (fun _ => do_cwd s p) s
  | CCdup => do_cwd s DOTDOT
  | CMkd p => need_param p (fun _ =>
      let k := rp_of s p in
      match os_mkdir (s_fs s) k with
      | Some fs => Some (set_fs s fs, mkR [257] PNone [k])
      | None => Some (s, mkR [550] PNone [k])
      end) s
  | CRmd p => need_param p (fun _ =>
      let k := rp_of s p in
      match lookup (s_fs s) k with
      | Some NDir =>
          match os_remove (s_fs s) k with
          | Some fs => Some (set_fs s fs, mkR [250] PNone [k])
          | None => Some (s, mkR [550] PNone [k])
          end
      | _ => Some (s, mkR [550] PNone [k])
      end) s
  | CDele p => need_param p (fun _ =>
      let k := rp_of s p in
      match os_remove (s_fs s) k with
      | Some fs => Some (set_fs s fs, mkR [250] PNone [k])
      | None => Some (s, mkR [550] PNone [k])
      end) s
  | CRnfr p => need_param p (fun _ =>
      Some (mkS (s_fs s) (s_h s) p (s_append s) (s_pos s), mkR [350] PNone [])) s
  | CRnto p => need_param p (fun _ =>
      let a := rp_of s (s_rnfr s) in
      let b := rp_of s p in
      match os_rename (s_fs s) a b with
      | Some fs => Some (mkS fs (s_h s) [] (s_append s) (s_pos s), mkR [250] PNone [a; b])
      | None => Some (mkS (s_fs s) (s_h s) [] (s_append s) (s_pos s), mkR [550] PNone [a; b])
      end) s
  | CStor p data => need_param p (fun _ =>
      let k := rp_of s p in
      match put_file (s_fs s) k data (s_append s) with
      | Some fs => Some (mkS fs (s_h s) (s_rnfr s) false (s_pos s), mkR [150; 226] PNone [k])
      | None => Some (mkS (s_fs s) (s_h s) (s_rnfr s) false (s_pos s), mkR [150; 450] PNone [k])
      end) s
  | CStorAbort p part => need_param p (fun _ =>
      (* io.Copy fails after [part]: what was received stays in the file, the reply is 450 *)
      let k := rp_of s p in
      match put_file (s_fs s) k part (s_append s) with
      | Some fs => Some (mkS fs (s_h s) (s_rnfr s) false (s_pos s), mkR [150; 450] PNone [k])
      | None => Some (mkS (s_fs s) (s_h s) (s_rnfr s) false (s_pos s), mkR [150; 450] PNone [k])
      end) s
  | CListNoData p => Some (s, mkR [150; 226] PNone [rp_of s p])
  | CAppe => Some (mkS (s_fs s) (s_h s) (s_rnfr s) true (s_pos s), mkR [202] PNone [])
  | CRest z => Some (mkS (s_fs s) (s_h s) (s_rnfr s) true z, mkR [350] PNone [])
  | CRetr p => need_param p (fun _ =>
      let k := rp_of s p in
      let s' := mkS (s_fs s) (s_h s) (s_rnfr s) (s_append s) 0%Z in
      match lookup (s_fs s) k with
      | None => Some (s', mkR [551] (PText []) [k])
      | Some NDir => Some (s', mkR [150; 551] (PText []) [k])
      | Some (NFile c) => Some (s', mkR [150; 226] (PRetr (Z.of_nat (length c)) (retr_data c (s_pos s))) [k])
      end) s
  | CList p | CNlst p =>
      let k := rp_of s p in
      Some (s, mkR [150; 226] (PNames (if is_dir (s_fs s) k then child_names (s_fs s) k else [])) [k])
  | CMdtm p => need_param p (fun _ =>
      let k := rp_of s p in
      match lookup (s_fs s) k with
      | Some _ => Some (s, mkR [213; 450] PNone [k])
      | None => Some (s, mkR [450] PNone [k])
      end) s
  | CSize p => need_param p (fun _ =>
      let k := rp_of s p in
      match lookup (s_fs s) k with
      | Some (NFile c) => Some (s, mkR [213] (PNum (Z.of_nat (length c))) [k])
      | Some NDir => Some (s, mkR [213] PNone [k])       (* directory size: host dependent *)
      | None => Some (s, mkR [450] PNone [k])
      end) s
  end.

(* a session: the replies up to the first fatal command; [true] = ended by one *)
Fixpoint run (s : sess) (cs : list cmd) : sess * list resp * bool :=
  match cs with
  | [] => (s, [], false)
  | c :: r =>
      match step s c with
      | None => (s, [], true)
      | Some (s1, x) => let '(s2, xs, f) := run s1 r in (s2, x :: xs, f)
      end
  end.

Definition init_sess (fs : hostfs) (root : bytes) : sess := mkS fs (mkH root [SLASH]) [] false 0%Z.

(* ---- containment vocabulary (executable) ---- *)
Definition good_compb (c : comp) : bool :=
  negb (eqb_bytes c []) && negb (eqb_bytes c DOT1) && negb (eqb_bytes c DOTDOT)
  && negb (existsb (N.eqb SLASH) c).

(* "/" followed by good components separated by single slashes *)
Definition rooted_clean_b (s : bytes) : bool :=
  is_abs s && forallb good_compb (comps s) && eqb_bytes s (rooted_str (comps s)).

(* lexically at or beneath root, judged by path COMPONENTS: k is the root itself or continues
   it with a separator (Proofs.inside_componentwise: for clean paths this is exactly "the
   component list of k starts with the component list of root") *)
Definition inside_b (root k : bytes) : bool := eqb_bytes k root || is_prefix (root ++ [SLASH]) k.

(* what strings.HasPrefix(k, root) computes: the TEXT of k begins with the text of root.
   Strictly weaker than [inside_b] (Properties.C11_text_prefix_strictly_weaker): root
   /r/pub, k /r/pub.old/x. *)
Definition text_prefixed_b (root k : bytes) : bool := is_prefix root k.

(* an entry beside the root whose spelling merely begins with the root's spelling
   (root "pub": "pub.old", "pub2", "pub-" and everything beneath them) *)
Definition name_extends_b (root k : bytes) : bool := text_prefixed_b root k && negb (inside_b root k).

(* the host location that a working directory reported to the client denotes: the root for
   "/", otherwise the root followed by the reported text *)
Definition under (root t : bytes) : bytes := if eqb_bytes t [SLASH] then root else root ++ t.

(* commands that leave the host file system alone whatever their argument *)
Definition readonly_cmd (c : cmd) : bool :=
  match c with
  | CPwd | CCwd _ | CCdup | CAppe | CRest _ | CRetr _ | CList _ | CNlst _ | CListNoData _
  | CMdtm _ | CSize _ => true
  | _ => false
  end.
