(* C11 - lemmas: component-level cleaning, lexical containment of RealPath, the working
   directory invariant, and the frame property of the FTP session model (nothing that is
   not at or beneath the root changes). *)
From HT Require Import Common.Bytes C11.Model.
From HT Require C11.Check.
From Coq Require Import ZifyBool ZifyN ZifyNat.
Open Scope N_scope.

(* ---- vocabulary ---- *)
Definition no_slash (c : comp) : Prop := ~ In SLASH c.
Definition good (c : comp) : Prop := c <> [] /\ c <> DOT1 /\ c <> DOTDOT /\ no_slash c.

(* "/" followed by good components separated by single slashes *)
Definition rooted_clean (s : bytes) : Prop := exists cs, Forall good cs /\ s = rooted_str cs.

(* a service root: a clean absolute path other than "/" *)
Definition clean_root (root : bytes) (rs : list comp) : Prop :=
  rs <> [] /\ Forall good rs /\ root = rooted_str rs.

Definition inside (root k : bytes) : Prop := inside_b root k = true.

(* ---- booleans ---- *)
Lemma eqb_bytes_true a b : eqb_bytes a b = true <-> a = b.
Proof.
  revert b. induction a as [|x a IH]; intros [|y b]; cbn [eqb_bytes]; split; intros H;
    try reflexivity; try discriminate.
  - apply andb_true_iff in H as [E H]. apply N.eqb_eq in E. apply IH in H. congruence.
  - inversion H; subst. rewrite N.eqb_refl. cbn [andb]. apply IH. reflexivity.
Qed.

Lemma eqb_bytes_refl a : eqb_bytes a a = true.
Proof. apply eqb_bytes_true; reflexivity. Qed.

Lemma eqb_bytes_false a b : eqb_bytes a b = false <-> a <> b.
Proof.
  pose proof (eqb_bytes_true a b) as T. destruct (eqb_bytes a b); split; intros H; try congruence.
  - exfalso. apply H. apply T. reflexivity.
  - intros E. apply T in E. discriminate.
Qed.

Lemma existsb_slash_false c : existsb (N.eqb SLASH) c = false <-> no_slash c.
Proof.
  unfold no_slash; split.
  - intros H Hin. assert (existsb (N.eqb SLASH) c = true).
    { apply existsb_exists; exists SLASH; split; auto; apply N.eqb_refl. }
    congruence.
  - intros H. destruct (existsb (N.eqb SLASH) c) eqn:E; auto.
    apply existsb_exists in E as [x [Hin Hx]]. apply N.eqb_eq in Hx; subst x. contradiction.
Qed.

Lemma good_compb_spec c : good_compb c = true <-> good c.
Proof.
  unfold good_compb, good. rewrite !andb_true_iff, !negb_true_iff, !eqb_bytes_false, existsb_slash_false.
  tauto.
Qed.

(* ---- prefixes ---- *)
Lemma is_prefix_app a b : is_prefix a (a ++ b) = true.
Proof. induction a; cbn [is_prefix app]; auto. rewrite N.eqb_refl; auto. Qed.

Lemma is_prefix_app_same a b c : is_prefix (a ++ b) (a ++ c) = is_prefix b c.
Proof. induction a; cbn [is_prefix app]; auto. rewrite N.eqb_refl; auto. Qed.

Lemma is_prefix_trans x : forall a y k,
  is_prefix x a = true -> is_prefix (a ++ y) k = true -> is_prefix x k = true.
Proof.
  induction x as [|c x IH]; intros a y k Hxa Hak; cbn [is_prefix]; auto.
  destruct a as [|c' a]; cbn [is_prefix] in Hxa; [discriminate|].
  apply andb_true_iff in Hxa as [Hc Hxa]. apply N.eqb_eq in Hc; subst c'.
  destruct k as [|c'' k]; cbn [is_prefix app] in Hak; [discriminate|].
  apply andb_true_iff in Hak as [Hc Hak]. cbn [is_prefix]. rewrite Hc. cbn [andb]. eauto.
Qed.

Lemma strip_prefix_app_same a b c : strip_prefix (a ++ b) (a ++ c) = strip_prefix b c.
Proof. induction a; cbn [strip_prefix app]; auto. rewrite N.eqb_refl; auto. Qed.

Lemma strip_prefix_nil s : strip_prefix [] s = Some s.
Proof. destruct s; reflexivity. Qed.

Lemma strip_prefix_some p : forall s r, strip_prefix p s = Some r -> s = p ++ r.
Proof.
  induction p as [|x p IH]; intros s r H.
  - rewrite strip_prefix_nil in H; inversion H; reflexivity.
  - destruct s as [|y s]; cbn [strip_prefix] in H; [discriminate|].
    destruct (x =? y) eqn:E; [|discriminate]. apply N.eqb_eq in E; subst y.
    cbn [app]; f_equal; auto.
Qed.

Lemma strip_prefix_none p : forall s, strip_prefix p s = None -> is_prefix p s = false.
Proof.
  induction p as [|x p IH]; intros s H.
  - rewrite strip_prefix_nil in H; discriminate.
  - destruct s as [|y s]; cbn [strip_prefix is_prefix] in *; auto.
    destruct (x =? y); cbn [andb]; auto.
Qed.

(* ---- split ---- *)
Lemma split_nonempty s : split s <> [].
Proof.
  induction s as [|c s IH]; cbn [split]; [discriminate|].
  destruct (c =? SLASH); [discriminate|]. destruct (split s); discriminate.
Qed.

Lemma split_app_slash a b : split (a ++ SLASH :: b) = split a ++ split b.
Proof.
  induction a as [|c a IH]; cbn [app split].
  - rewrite N.eqb_refl. reflexivity.
  - destruct (c =? SLASH); [rewrite IH; reflexivity|].
    rewrite IH. pose proof (split_nonempty a). destruct (split a); [contradiction|reflexivity].
Qed.

Lemma split_no_slash c : no_slash c -> split c = [c].
Proof.
  unfold no_slash; induction c as [|x c IH]; intros H; cbn [split]; auto.
  destruct (x =? SLASH) eqn:E.
  - apply N.eqb_eq in E; subst x. exfalso; apply H; left; reflexivity.
  - rewrite IH; auto. intros Hin; apply H; right; exact Hin.
Qed.

Lemma split_comps_no_slash s : Forall no_slash (split s).
Proof.
  induction s as [|c s IH]; cbn [split].
  - constructor; [intros []|constructor].
  - destruct (c =? SLASH) eqn:E.
    + constructor; auto. intros [].
    + destruct (split s) as [|h t]; [constructor; [|constructor]|].
      * intros [H|[]]. subst c. rewrite N.eqb_refl in E; discriminate.
      * inversion IH; subst. constructor; auto.
        intros [H|H]; [subst c; rewrite N.eqb_refl in E; discriminate|contradiction].
Qed.

(* ---- join_comps ---- *)
Lemma join_comps_cons c r : r <> [] -> join_comps (c :: r) = c ++ SLASH :: join_comps r.
Proof. destruct r; [contradiction|reflexivity]. Qed.

Lemma join_comps_app a : forall b, a <> [] -> b <> [] ->
  join_comps (a ++ b) = join_comps a ++ SLASH :: join_comps b.
Proof.
  induction a as [|c a IH]; intros b Ha Hb; [contradiction|].
  destruct a as [|c' a].
  - cbn [app]. rewrite join_comps_cons; auto.
  - change ((c :: c' :: a) ++ b) with (c :: ((c' :: a) ++ b)).
    rewrite join_comps_cons by discriminate.
    rewrite IH by (auto; discriminate).
    rewrite (join_comps_cons c (c' :: a)) by discriminate.
    rewrite <- app_assoc. reflexivity.
Qed.

Lemma split_join_good cs : Forall good cs -> cs <> [] -> split (join_comps cs) = cs.
Proof.
  induction cs as [|c cs IH]; intros Hg Hne; [contradiction|].
  inversion Hg as [|? ? Hc Hcs]; subst.
  destruct cs as [|c' cs].
  - cbn [join_comps]. apply split_no_slash, Hc.
  - rewrite join_comps_cons by discriminate. rewrite split_app_slash.
    rewrite split_no_slash by apply Hc. rewrite IH; auto; discriminate.
Qed.

Lemma split_rooted cs : Forall good cs ->
  split (rooted_str cs) = [] :: match cs with [] => [[]] | _ => cs end.
Proof.
  intros Hg. unfold rooted_str. cbn [split]. rewrite N.eqb_refl. f_equal.
  destruct cs; [reflexivity|]. apply split_join_good; auto; discriminate.
Qed.

(* ---- walk ---- *)
Lemma walk_app r : forall a st b, walk r st (a ++ b) = walk r (walk r st a) b.
Proof.
  induction a as [|c a IH]; intros st b; cbn [app walk]; auto.
  destruct (eqb_bytes c [] || eqb_bytes c DOT1); auto.
  destruct (eqb_bytes c DOTDOT); auto.
  destruct st as [|t st]; [destruct r; auto|].
  destruct (eqb_bytes t DOTDOT); auto.
Qed.

Lemma good_not_skipped c : good c ->
  eqb_bytes c [] || eqb_bytes c DOT1 = false /\ eqb_bytes c DOTDOT = false.
Proof.
  intros (H1 & H2 & H3 & _). rewrite orb_false_iff, !eqb_bytes_false. auto.
Qed.

Lemma walk_good r : forall gs st, Forall good gs -> walk r st gs = rev gs ++ st.
Proof.
  induction gs as [|c gs IH]; intros st Hg; cbn [walk rev app]; auto.
  inversion Hg; subst. destruct (good_not_skipped c) as [E1 E2]; auto.
  rewrite E1, E2. rewrite IH by auto. rewrite <- app_assoc. reflexivity.
Qed.

Lemma walk_true_good : forall cs st,
  Forall good st -> Forall no_slash cs -> Forall good (walk true st cs).
Proof.
  induction cs as [|c cs IH]; intros st Hst Hcs; cbn [walk]; auto.
  inversion Hcs as [|? ? Hc Hcs']; subst.
  destruct (eqb_bytes c [] || eqb_bytes c DOT1) eqn:E1; auto.
  destruct (eqb_bytes c DOTDOT) eqn:E2.
  - destruct st as [|t st]; auto.
    inversion Hst as [|? ? Ht Hst']; subst.
    destruct (eqb_bytes t DOTDOT) eqn:E3; auto.
    apply eqb_bytes_true in E3. destruct Ht as (_ & _ & Ht & _). contradiction.
  - apply IH; auto. constructor; auto.
    apply orb_false_iff in E1 as [Ea Eb].
    apply eqb_bytes_false in Ea, Eb, E2. repeat split; auto.
Qed.

Lemma walk_split_rooted r st cs : Forall good cs ->
  walk r st (split (rooted_str cs)) = rev cs ++ st.
Proof.
  intros Hg. rewrite split_rooted by auto.
  destruct cs as [|c cs]; [reflexivity|].
  change (walk r st ([] :: c :: cs)) with (walk r st (c :: cs)).
  apply walk_good; auto.
Qed.

(* ---- clean ---- *)
Lemma is_abs_rooted cs : is_abs (rooted_str cs) = true.
Proof. reflexivity. Qed.

Lemma clean_abs_shape p : is_abs p = true -> rooted_clean (clean p).
Proof.
  intros Ha. unfold clean. rewrite Ha.
  exists (rev (walk true [] (split p))). split; auto.
  apply Forall_rev. apply walk_true_good; [constructor|apply split_comps_no_slash].
Qed.

Lemma clean_rooted_id cs : Forall good cs -> clean (rooted_str cs) = rooted_str cs.
Proof.
  intros Hg. unfold clean. rewrite is_abs_rooted.
  rewrite walk_split_rooted by auto. rewrite app_nil_r, rev_involutive. reflexivity.
Qed.

Lemma clean_rooted_app rs cs : Forall good rs -> Forall good cs ->
  clean (rooted_str rs ++ SLASH :: rooted_str cs) = rooted_str (rs ++ cs).
Proof.
  intros Hr Hc. unfold clean.
  assert (Ha : is_abs (rooted_str rs ++ SLASH :: rooted_str cs) = true) by reflexivity.
  rewrite Ha. rewrite split_app_slash, walk_app.
  rewrite !walk_split_rooted by auto.
  rewrite app_nil_r, rev_app_distr, !rev_involutive. reflexivity.
Qed.

(* Clean("/" + "/" + r) for r = "." or a joined good list: the new working directory *)
Lemma clean_slash_slash_join cs : Forall good cs ->
  clean (SLASH :: SLASH :: match cs with [] => DOT1 | _ => join_comps cs end) = rooted_str cs.
Proof.
  intros Hg. destruct cs as [|c cs]; [reflexivity|].
  change (SLASH :: SLASH :: join_comps (c :: cs)) with (rooted_str [] ++ SLASH :: join_comps (c :: cs)).
  unfold clean.
  assert (Ha : is_abs (rooted_str [] ++ SLASH :: join_comps (c :: cs)) = true) by reflexivity.
  rewrite Ha. rewrite split_app_slash, walk_app.
  rewrite split_join_good by (auto; discriminate).
  rewrite (walk_good true (c :: cs)) by auto.
  change (walk true [] (split (rooted_str []))) with (@nil comp).
  rewrite app_nil_r, rev_involutive. reflexivity.
Qed.

(* ---- Join ---- *)
Lemma rooted_clean_nonempty s : rooted_clean s -> exists t, s = SLASH :: t.
Proof. intros (cs & _ & ->). eexists; reflexivity. Qed.

Lemma join2_rooted cwd p : rooted_clean cwd -> rooted_clean (join2 cwd p).
Proof.
  intros H. destruct (rooted_clean_nonempty cwd H) as [t ->].
  unfold join2. apply clean_abs_shape. reflexivity.
Qed.

(* ---- RealPath ---- *)
Lemma real_path_shape root rs cwd p :
  Forall good rs -> root = rooted_str rs -> rooted_clean cwd ->
  exists cs, Forall good cs /\ real_path root cwd p = rooted_str (rs ++ cs).
Proof.
  intros Hrs -> Hcwd. unfold real_path.
  assert (Hin : rooted_clean (if is_abs p then clean p else join2 cwd p)).
  { destruct (is_abs p) eqn:E; [apply clean_abs_shape; auto|apply join2_rooted; auto]. }
  destruct Hin as (cs & Hcs & ->).
  exists cs. split; auto.
  unfold join2. change (rooted_str rs) with (SLASH :: join_comps rs) at 1.
  cbv iota. apply clean_rooted_app; auto.
Qed.

Lemma rooted_app_split rs cs : rs <> [] -> cs <> [] ->
  rooted_str (rs ++ cs) = rooted_str rs ++ SLASH :: join_comps cs.
Proof. intros Hr Hc. unfold rooted_str. rewrite join_comps_app by auto. reflexivity. Qed.

Lemma rooted_inside rs cs : rs <> [] -> inside (rooted_str rs) (rooted_str (rs ++ cs)).
Proof.
  intros Hr. unfold inside, inside_b. destruct cs as [|c cs].
  - rewrite app_nil_r, eqb_bytes_refl. reflexivity.
  - rewrite rooted_app_split by (auto; discriminate).
    change (rooted_str rs ++ SLASH :: join_comps (c :: cs))
      with (rooted_str rs ++ [SLASH] ++ join_comps (c :: cs)).
    rewrite app_assoc, is_prefix_app. apply orb_true_r.
Qed.

Lemma real_path_inside root rs cwd p :
  clean_root root rs -> rooted_clean cwd ->
  inside root (real_path root cwd p) /\ rooted_clean (real_path root cwd p).
Proof.
  intros (Hne & Hg & Hr) Hc.
  destruct (real_path_shape root rs cwd p Hg Hr Hc) as (cs & Hcs & E).
  rewrite E. split.
  - subst root. apply rooted_inside; auto.
  - exists (rs ++ cs). split; auto. apply Forall_app; auto.
Qed.

Lemma inside_descend root a k :
  inside root a -> is_prefix (a ++ [SLASH]) k = true -> inside root k.
Proof.
  unfold inside, inside_b. intros Ha Hk.
  apply orb_true_iff in Ha as [Ha|Ha]; apply orb_true_iff; right.
  - apply eqb_bytes_true in Ha; subst a; exact Hk.
  - eapply is_prefix_trans; eauto.
Qed.

(* ---- the boolean form of rooted_clean ---- *)
Lemma comps_rooted cs : Forall good cs -> comps (rooted_str cs) = cs.
Proof.
  intros Hg. unfold comps. rewrite split_rooted by auto.
  assert (F : forall l, Forall good l -> filter nonempty l = l).
  { induction l as [|c l IH]; intros H; cbn [filter]; auto.
    inversion H as [|? ? Hc Hl]; subst. unfold nonempty at 1.
    destruct Hc as (Hc & _). apply eqb_bytes_false in Hc. rewrite Hc. cbn [negb].
    f_equal; auto. }
  destruct cs as [|c cs]; [reflexivity|].
  transitivity (filter nonempty (c :: cs)); [reflexivity|apply F; auto].
Qed.

Lemma rooted_clean_b_spec s : rooted_clean_b s = true <-> rooted_clean s.
Proof.
  unfold rooted_clean_b. split.
  - intros H. apply andb_true_iff in H as [H He]. apply andb_true_iff in H as [_ Hf].
    apply eqb_bytes_true in He. exists (comps s). split; auto.
    apply Forall_forall. intros c Hin. apply good_compb_spec.
    rewrite forallb_forall in Hf. auto.
  - intros (cs & Hg & ->). rewrite comps_rooted by auto.
    rewrite is_abs_rooted, eqb_bytes_refl. cbn [andb]. rewrite andb_true_r.
    apply forallb_forall. intros c Hin. apply good_compb_spec.
    rewrite Forall_forall in Hg. auto.
Qed.

(* ---- Rel and ChangeDir ---- *)
Lemma rooted_str_neq_slash rs : rs <> [] -> Forall good rs -> rooted_str rs <> [SLASH].
Proof.
  intros Hne Hg E. destruct rs as [|c rs]; [contradiction|].
  inversion Hg as [|? ? (Hc & _) _]; subst.
  unfold rooted_str in E. inversion E as [E'].
  destruct rs; cbn [join_comps] in E'.
  - contradiction.
  - destruct c; [contradiction|discriminate].
Qed.

Lemma rel_below rs cs : rs <> [] -> Forall good rs -> Forall good cs ->
  rel (rooted_str rs) (rooted_str (rs ++ cs)) = Some (match cs with [] => DOT1 | _ => join_comps cs end).
Proof.
  intros Hne Hr Hc. unfold rel.
  rewrite !clean_rooted_id by (auto; apply Forall_app; auto).
  destruct cs as [|c cs].
  - rewrite app_nil_r, eqb_bytes_refl. reflexivity.
  - rewrite rooted_app_split by (auto; discriminate).
    destruct (eqb_bytes (rooted_str rs) (rooted_str rs ++ SLASH :: join_comps (c :: cs))) eqn:E.
    + apply eqb_bytes_true in E. apply (f_equal (@length N)) in E.
      rewrite app_length in E. cbn [length] in E. lia.
    + pose proof (rooted_str_neq_slash rs Hne Hr) as Hn. apply eqb_bytes_false in Hn. rewrite Hn.
      change (rooted_str rs ++ SLASH :: join_comps (c :: cs))
        with (rooted_str rs ++ [SLASH] ++ join_comps (c :: cs)).
      rewrite app_assoc, <- (app_nil_r (rooted_str rs ++ [SLASH])) at 1.
      rewrite strip_prefix_app_same. apply strip_prefix_nil.
Qed.

Lemma change_dir_spec fs root rs cwd p :
  clean_root root rs -> rooted_clean cwd ->
  match change_dir fs (mkH root cwd) p with
  | CdOutside => False
  | CdOk h' =>
      h_root h' = root /\ rooted_clean (h_cwd h') /\
      is_dir fs (real_path root cwd p) = true /\
      (forall c', real_path root c' (h_cwd h') = real_path root cwd p)
  | _ => True
  end.
Proof.
  intros (Hne & Hg & Hr) Hc. unfold change_dir. cbn [h_root h_cwd].
  destruct (real_path_shape root rs cwd p Hg Hr Hc) as (cs & Hcs & E).
  destruct (lookup fs (real_path root cwd p)) as [[|c]|] eqn:L; auto.
  rewrite E. subst root. rewrite rel_below by auto.
  cbn [h_root h_cwd]. unfold join2. cbv iota.
  change ([SLASH] ++ SLASH :: ?x) with (SLASH :: SLASH :: x).
  rewrite clean_slash_slash_join by auto.
  split; [reflexivity|]. split; [exists cs; auto|]. split.
  - unfold is_dir. rewrite <- E, L. reflexivity.
  - intros c'. unfold real_path. rewrite is_abs_rooted, clean_rooted_id by auto.
    unfold join2. change (rooted_str rs) with (SLASH :: join_comps rs) at 1. cbv iota.
    apply clean_rooted_app; auto.
Qed.

(* ---- histories of Htfs calls ---- *)
Lemma hstep_inv fs root rs h o :
  clean_root root rs -> h_root h = root -> rooted_clean (h_cwd h) ->
  let '(h', (code, txt)) := hstep fs h o in
  h_root h' = root /\ rooted_clean (h_cwd h') /\ code <> 2 /\
  match o with
  | HReal _ => inside root txt /\ rooted_clean txt
  | HCd _ => txt = h_cwd h'
  end.
Proof.
  intros Hroot Hr Hc. destruct h as [r c]. cbn [h_root h_cwd] in *. subst r.
  destruct o as [p|p]; cbn [hstep h_root h_cwd].
  - pose proof (change_dir_spec fs root rs c p Hroot Hc) as S.
    destruct (change_dir fs (mkH root c) p) as [h'| | |]; cbn [h_root h_cwd].
    + destruct S as (S1 & S2 & _). repeat split; auto. discriminate.
    + repeat split; auto. discriminate.
    + repeat split; auto. discriminate.
    + contradiction.
  - repeat split; auto; try discriminate; apply (real_path_inside root rs c p); auto.
Qed.

Fixpoint obs_ok (root : bytes) (os : list hop) (xs : list (N * bytes)) : Prop :=
  match os, xs with
  | [], [] => True
  | o :: os', (code, txt) :: xs' =>
      code <> 2 /\ rooted_clean txt /\
      match o with HReal _ => inside root txt | HCd _ => True end /\ obs_ok root os' xs'
  | _, _ => False
  end.

Lemma hrun_inv fs root rs : clean_root root rs -> forall os h,
  h_root h = root -> rooted_clean (h_cwd h) ->
  let '(h', xs) := hrun fs h os in
  h_root h' = root /\ rooted_clean (h_cwd h') /\ obs_ok root os xs.
Proof.
  intros Hroot. induction os as [|o os IH]; intros h Hr Hc; cbn [hrun].
  - cbn [obs_ok]. auto.
  - pose proof (hstep_inv fs root rs h o Hroot Hr Hc) as S.
    destruct (hstep fs h o) as [h1 [code txt]]. destruct S as (S1 & S2 & S3 & S4).
    specialize (IH h1 S1 S2). destruct (hrun fs h1 os) as [h2 xs].
    destruct IH as (I1 & I2 & I3). split; auto. split; auto.
    cbn [obs_ok]. split; auto. destruct o; [subst txt|destruct S4]; auto.
Qed.

(* ---- the host file system: frame lemmas ---- *)
Lemma lookup_fs_del k fs k' : k' <> k -> lookup (fs_del k fs) k' = lookup fs k'.
Proof.
  intros Hn. unfold fs_del. induction fs as [|[k0 v] fs IH]; cbn [filter lookup fst]; auto.
  destruct (eqb_bytes k0 k) eqn:E; cbn [negb lookup].
  - apply eqb_bytes_true in E; subst k0.
    assert (eqb_bytes k k' = false) by (apply eqb_bytes_false; congruence).
    rewrite H. auto.
  - destruct (eqb_bytes k0 k'); auto.
Qed.

Lemma lookup_fs_set k v fs k' : k' <> k -> lookup (fs_set k v fs) k' = lookup fs k'.
Proof.
  intros Hn. unfold fs_set. cbn [lookup].
  assert (eqb_bytes k k' = false) by (apply eqb_bytes_false; congruence).
  rewrite H. apply lookup_fs_del; auto.
Qed.

Lemma os_mkdir_frame fs k fs' k' : os_mkdir fs k = Some fs' -> k' <> k -> lookup fs' k' = lookup fs k'.
Proof.
  unfold os_mkdir. intros H Hn. destruct (lookup fs k); [discriminate|].
  destruct (is_dir fs (dirname k)); inversion H; subst. apply lookup_fs_set; auto.
Qed.

Lemma os_remove_frame fs k fs' k' : os_remove fs k = Some fs' -> k' <> k -> lookup fs' k' = lookup fs k'.
Proof.
  unfold os_remove. intros H Hn. destruct (lookup fs k) as [[|c]|]; try discriminate.
  - destruct (has_child fs k); inversion H; subst. apply lookup_fs_del; auto.
  - inversion H; subst. apply lookup_fs_del; auto.
Qed.

Lemma put_file_frame fs k d a fs' k' : put_file fs k d a = Some fs' -> k' <> k -> lookup fs' k' = lookup fs k'.
Proof.
  unfold put_file. intros H Hn. destruct (lookup fs k) as [[|c]|]; try discriminate.
  - inversion H; subst. apply lookup_fs_set; auto.
  - destruct (is_dir fs (dirname k)); inversion H; subst. apply lookup_fs_set; auto.
Qed.

Lemma lookup_map_rekey a b k' : forall fs,
  (forall k, rekey a b k = k' -> k = k') -> rekey a b k' = k' ->
  lookup (map (fun e => (rekey a b (fst e), snd e)) fs) k' = lookup fs k'.
Proof.
  intros fs H1 H2. induction fs as [|[k v] fs IH]; cbn [map lookup fst snd]; auto.
  destruct (eqb_bytes (rekey a b k) k') eqn:E1; destruct (eqb_bytes k k') eqn:E2; auto.
  - apply eqb_bytes_true in E1. apply H1 in E1. apply eqb_bytes_false in E2. contradiction.
  - apply eqb_bytes_true in E2; subst k. rewrite H2 in E1. rewrite eqb_bytes_refl in E1. discriminate.
Qed.

Lemma os_rename_frame fs a b fs' k' :
  os_rename fs a b = Some fs' ->
  k' <> a -> k' <> b -> is_prefix (a ++ [SLASH]) k' = false -> is_prefix (b ++ [SLASH]) k' = false ->
  lookup fs' k' = lookup fs k'.
Proof.
  unfold os_rename. intros H Ha Hb Hpa Hpb.
  destruct (lookup fs a) as [na|]; [|discriminate].
  assert (M : lookup (map (fun e => (rekey a b (fst e), snd e)) (fs_del b fs)) k' = lookup fs k').
  { rewrite lookup_map_rekey.
    - apply lookup_fs_del; auto.
    - intros k E. unfold rekey in E. destruct (eqb_bytes k a); [congruence|].
      destruct (strip_prefix (a ++ [SLASH]) k) as [rest|] eqn:S; auto.
      subst k'. change (b ++ SLASH :: rest) with (b ++ [SLASH] ++ rest) in Hpb.
      rewrite app_assoc, is_prefix_app in Hpb. discriminate.
    - unfold rekey. assert (E : eqb_bytes k' a = false) by (apply eqb_bytes_false; auto). rewrite E.
      destruct (strip_prefix (a ++ [SLASH]) k') as [rest|] eqn:S; auto.
      apply strip_prefix_some in S. rewrite S, is_prefix_app in Hpa. discriminate. }
  destruct (lookup fs b) as [[|c]|].
  - discriminate.
  - destruct (eqb_bytes a b); [inversion H; subst; auto|].
    destruct (is_prefix (a ++ [SLASH]) b); [discriminate|].
    destruct (negb (is_dir fs (dirname b))); [discriminate|].
    destruct na; [discriminate|]. inversion H; subst. exact M.
  - destruct (eqb_bytes a b); [inversion H; subst; auto|].
    destruct (is_prefix (a ++ [SLASH]) b); [discriminate|].
    destruct (negb (is_dir fs (dirname b))); [discriminate|].
    destruct na; inversion H; subst; exact M.
Qed.

(* ---- the FTP session ---- *)
Definition sess_ok (root : bytes) (s : sess) : Prop :=
  h_root (s_h s) = root /\ rooted_clean (h_cwd (s_h s)).

Definition same_outside (root : bytes) (fs fs' : hostfs) : Prop :=
  forall k, ~ inside root k -> lookup fs' k = lookup fs k.

Lemma same_outside_refl root fs : same_outside root fs fs.
Proof. intros k _; reflexivity. Qed.

Lemma same_outside_trans root a b c :
  same_outside root a b -> same_outside root b c -> same_outside root a c.
Proof. intros H1 H2 k Hk. rewrite H2, H1; auto. Qed.

Lemma rp_of_inside root rs s p : clean_root root rs -> sess_ok root s ->
  inside root (rp_of s p) /\ rooted_clean (rp_of s p).
Proof.
  intros Hroot (Hr & Hc). unfold rp_of. rewrite Hr. apply (real_path_inside root rs); auto.
Qed.

Lemma not_inside_neq root k k' : inside root k -> ~ inside root k' -> k' <> k.
Proof. intros H1 H2 E; subst; contradiction. Qed.

Lemma not_inside_not_below root k k' :
  inside root k -> ~ inside root k' -> is_prefix (k ++ [SLASH]) k' = false.
Proof.
  intros H1 H2. destruct (is_prefix (k ++ [SLASH]) k') eqn:E; auto.
  exfalso. apply H2. eapply inside_descend; eauto.
Qed.

Definition step_post (root : bytes) (s s' : sess) (r : resp) : Prop :=
  sess_ok root s' /\ same_outside root (s_fs s) (s_fs s') /\ Forall (inside root) (r_touched r).

Ltac post_same :=
  match goal with
  | |- step_post _ ?s _ _ =>
      split; [assumption|split; [apply same_outside_refl|]]
  end.

Lemma step_inv root rs s c s' r :
  clean_root root rs -> sess_ok root s -> step s c = Some (s', r) -> step_post root s s' r.
Proof.
  intros Hroot Hs H.
  assert (IN : forall p, inside root (rp_of s p)) by (intros p; apply (rp_of_inside root rs s p); auto).
  assert (NP : forall p k s0 r0, need_param p k s = Some (s0, r0) ->
               (p = [] /\ s0 = s /\ r0 = mkR [553] PNone []) \/ k tt = Some (s0, r0)).
  { intros p k s0 r0 E. unfold need_param in E. destruct p; [left; inversion E; auto|right; auto]. }
  assert (P553 : step_post root s s (mkR [553] PNone [])).
  { split; auto. split; [apply same_outside_refl|constructor]. }
  assert (CWD : forall p s0 r0, do_cwd s p = Some (s0, r0) -> step_post root s s0 r0).
  { intros p s0 r0 E. unfold do_cwd in E.
    destruct Hs as (Hr & Hc). destruct (s_h s) as [hr hc] eqn:Eh. cbn [h_root h_cwd] in *. subst hr.
    pose proof (change_dir_spec (s_fs s) root rs hc p Hroot Hc) as S.
    destruct (change_dir (s_fs s) (mkH root hc) p) as [h'| | |];
      inversion E; subst; cbn [r_touched];
      (split; [|split; [apply same_outside_refl|constructor; [apply IN|constructor]]]).
    - destruct S as (S1 & S2 & _). split; cbn [s_h]; auto.
    - split; rewrite Eh; auto.
    - split; rewrite Eh; auto.
    - contradiction. }
  destruct c; cbn [step] in H.
  - (* PWD *) inversion H; subst. post_same. constructor.
  - (* CWD *) apply NP in H as [(_ & -> & ->)|H]; auto. eapply CWD; eauto.
  - (* CDUP *) eapply CWD; eauto.
  - (* MKD *) apply NP in H as [(_ & -> & ->)|H]; auto.
    destruct (os_mkdir (s_fs s) (rp_of s p)) eqn:E; inversion H; subst; cbn [r_touched].
    + split; [exact Hs|]. split; [|constructor; auto].
      intros k Hk. cbn [set_fs s_fs]. eapply os_mkdir_frame; eauto. eapply not_inside_neq; eauto.
    + post_same. constructor; auto.
  - (* RMD *) apply NP in H as [(_ & -> & ->)|H]; auto.
    destruct (lookup (s_fs s) (rp_of s p)) as [[|c]|];
      try (inversion H; subst; post_same; constructor; auto; fail).
    destruct (os_remove (s_fs s) (rp_of s p)) eqn:E; inversion H; subst; cbn [r_touched].
    + split; [exact Hs|]. split; [|constructor; auto].
      intros k Hk. cbn [set_fs s_fs]. eapply os_remove_frame; eauto. eapply not_inside_neq; eauto.
    + post_same. constructor; auto.
  - (* DELE *) apply NP in H as [(_ & -> & ->)|H]; auto.
    destruct (os_remove (s_fs s) (rp_of s p)) eqn:E; inversion H; subst; cbn [r_touched].
    + split; [exact Hs|]. split; [|constructor; auto].
      intros k Hk. cbn [set_fs s_fs]. eapply os_remove_frame; eauto. eapply not_inside_neq; eauto.
    + post_same. constructor; auto.
  - (* RNFR *) apply NP in H as [(_ & -> & ->)|H]; auto.
    inversion H; subst. split; [exact Hs|]. split; [apply same_outside_refl|constructor].
  - (* RNTO *) apply NP in H as [(_ & -> & ->)|H]; auto.
    destruct (os_rename (s_fs s) (rp_of s (s_rnfr s)) (rp_of s p)) eqn:E; inversion H; subst; cbn [r_touched].
    + split; [exact Hs|]. split; [|repeat constructor; auto].
      intros k Hk. cbn [s_fs]. eapply os_rename_frame; eauto.
      * eapply not_inside_neq; eauto.
      * eapply not_inside_neq; eauto.
      * eapply not_inside_not_below; eauto.
      * eapply not_inside_not_below; eauto.
    + split; [exact Hs|]. split; [apply same_outside_refl|repeat constructor; auto].
  - (* STOR *) apply NP in H as [(_ & -> & ->)|H]; auto.
    destruct (put_file (s_fs s) (rp_of s p) data (s_append s)) eqn:E; inversion H; subst; cbn [r_touched].
    + split; [exact Hs|]. split; [|constructor; auto].
      intros k Hk. cbn [s_fs]. eapply put_file_frame; eauto. eapply not_inside_neq; eauto.
    + split; [exact Hs|]. split; [apply same_outside_refl|constructor; auto].
  - (* STOR aborted *) apply NP in H as [(_ & -> & ->)|H]; auto.
    destruct (put_file (s_fs s) (rp_of s p) part (s_append s)) eqn:E; inversion H; subst; cbn [r_touched].
    + split; [exact Hs|]. split; [|constructor; auto].
      intros k Hk. cbn [s_fs]. eapply put_file_frame; eauto. eapply not_inside_neq; eauto.
    + split; [exact Hs|]. split; [apply same_outside_refl|constructor; auto].
  - (* LIST without data *) inversion H; subst. post_same. constructor; auto.
  - (* APPE *) inversion H; subst. split; [exact Hs|]. split; [apply same_outside_refl|constructor].
  - (* REST *) inversion H; subst. split; [exact Hs|]. split; [apply same_outside_refl|constructor].
  - (* RETR *) apply NP in H as [(_ & -> & ->)|H]; auto.
    destruct (lookup (s_fs s) (rp_of s p)) as [[|c]|]; inversion H; subst;
      (split; [exact Hs|]; split; [apply same_outside_refl|constructor; auto]).
  - (* LIST *) inversion H; subst. post_same. constructor; auto.
  - (* NLST *) inversion H; subst. post_same. constructor; auto.
  - (* MDTM *) apply NP in H as [(_ & -> & ->)|H]; auto.
    destruct (lookup (s_fs s) (rp_of s p)); inversion H; subst; post_same; constructor; auto.
  - (* SIZE *) apply NP in H as [(_ & -> & ->)|H]; auto.
    destruct (lookup (s_fs s) (rp_of s p)) as [[|c]|]; inversion H; subst; post_same; constructor; auto.
Qed.

Lemma run_inv root rs : clean_root root rs -> forall cs s,
  sess_ok root s ->
  let '(s', rsps, _) := run s cs in
  sess_ok root s' /\ same_outside root (s_fs s) (s_fs s') /\
  Forall (fun r => Forall (inside root) (r_touched r)) rsps.
Proof.
  intros Hroot. induction cs as [|c cs IH]; intros s Hs; cbn [run].
  - split; auto. split; [apply same_outside_refl|constructor].
  - destruct (step s c) as [[s1 x]|] eqn:E.
    + pose proof (step_inv root rs s c s1 x Hroot Hs E) as (P1 & P2 & P3).
      specialize (IH s1 P1). destruct (run s1 cs) as [[s2 xs] f].
      destruct IH as (I1 & I2 & I3). split; auto. split.
      * eapply same_outside_trans; eauto.
      * constructor; auto.
    + split; auto. split; [apply same_outside_refl|constructor].
Qed.

(* the reported working directory *)
Lemma pwd_reports_cwd s : step s CPwd = Some (s, mkR [257] (PText (h_cwd (s_h s))) []).
Proof. reflexivity. Qed.

(* no command ends the process: every step returns, every run reaches its end *)
Lemma step_total s c : exists s' r, step s c = Some (s', r).
Proof.
  assert (CWD : forall p, exists s' r, do_cwd s p = Some (s', r)).
  { intros p. unfold do_cwd. destruct (change_dir (s_fs s) (s_h s) p); eauto. }
  destruct c; cbn [step]; unfold need_param; eauto;
    try (destruct p; eauto; fail).
  - destruct p; eauto. destruct (os_mkdir (s_fs s) (rp_of s (n :: p))); eauto.
  - destruct p; eauto. destruct (lookup (s_fs s) (rp_of s (n :: p))) as [[|c]|]; eauto.
    destruct (os_remove (s_fs s) (rp_of s (n :: p))); eauto.
  - destruct p; eauto. destruct (os_remove (s_fs s) (rp_of s (n :: p))); eauto.
  - destruct p; eauto. destruct (os_rename (s_fs s) (rp_of s (s_rnfr s)) (rp_of s (n :: p))); eauto.
  - destruct p; eauto. destruct (put_file (s_fs s) (rp_of s (n :: p)) data (s_append s)); eauto.
  - destruct p; eauto. destruct (put_file (s_fs s) (rp_of s (n :: p)) part (s_append s)); eauto.
  - destruct p; eauto. destruct (lookup (s_fs s) (rp_of s (n :: p))) as [[|c]|]; eauto.
  - destruct p; eauto. destruct (lookup (s_fs s) (rp_of s (n :: p))); eauto.
  - destruct p; eauto. destruct (lookup (s_fs s) (rp_of s (n :: p))) as [[|c]|]; eauto.
Qed.

Lemma run_not_fatal : forall cs s, snd (run s cs) = false.
Proof.
  induction cs as [|c cs IH]; intros s; cbn [run]; auto.
  destruct (step_total s c) as (s1 & x & E). rewrite E.
  specialize (IH s1). destruct (run s1 cs) as [[s2 xs] f]. exact IH.
Qed.

(* CWD / CDUP through the FTP step function: the session survives, the host file system is
   not touched, the working directory stays rooted-clean; the reply is 250 exactly when the
   target (inside the root) is a directory, and then the new working directory names it *)
Definition cwd_arg (c : cmd) : option bytes :=
  match c with CCwd (x :: p) => Some (x :: p) | CCdup => Some DOTDOT | _ => None end.

Lemma ftp_cwd_spec root rs s c p :
  clean_root root rs -> sess_ok root s -> cwd_arg c = Some p ->
  exists s' code,
    step s c = Some (s', mkR [code] PNone [rp_of s p]) /\
    sess_ok root s' /\ s_fs s' = s_fs s /\ inside root (rp_of s p) /\
    (code = 250 /\ is_dir (s_fs s) (rp_of s p) = true /\
       (forall c', real_path root c' (h_cwd (s_h s')) = rp_of s p)
     \/ code = 550 /\ is_dir (s_fs s) (rp_of s p) = false /\ s' = s).
Proof.
  intros Hroot Hs Hc.
  assert (IN : inside root (rp_of s p)) by (apply (rp_of_inside root rs s p); auto).
  assert (E : step s c = do_cwd s p).
  { destruct c; try discriminate; cbn [cwd_arg] in Hc.
    - destruct p0; [discriminate|]. inversion Hc; subst. reflexivity.
    - inversion Hc; subst. reflexivity. }
  rewrite E. unfold do_cwd.
  destruct Hs as (Hr & Hcw). destruct s as [fs [hr hc] rn ap ps]. cbn [s_h s_fs h_root h_cwd] in *. subst hr.
  pose proof (change_dir_spec fs root rs hc p Hroot Hcw) as S.
  unfold rp_of in *. cbn [s_h s_fs h_root h_cwd] in *.
  unfold change_dir in *. cbn [h_root h_cwd] in *.
  destruct (lookup fs (real_path root hc p)) as [[|x]|] eqn:L.
  - destruct (rel root (real_path root hc p)) as [r|]; [|contradiction].
    destruct S as (S1 & S2 & S3 & S4).
    eexists; exists 250. split; [reflexivity|]. cbn [s_h s_fs h_root h_cwd].
    split; [split; auto|]. split; [reflexivity|]. split; [exact IN|]. left. repeat split; auto.
  - eexists; exists 550. split; [reflexivity|]. cbn [s_h s_fs h_root h_cwd].
    split; [split; auto|]. split; [reflexivity|]. split; [exact IN|]. right. unfold is_dir. rewrite L. auto.
  - eexists; exists 550. split; [reflexivity|]. cbn [s_h s_fs h_root h_cwd].
    split; [split; auto|]. split; [reflexivity|]. split; [exact IN|]. right. unfold is_dir. rewrite L. auto.
Qed.

Lemma init_sess_ok fs root : sess_ok root (init_sess fs root).
Proof.
  split; [reflexivity|]. exists []. split; [constructor|reflexivity].
Qed.

Lemma reported_cwd_inside root rs : clean_root root rs -> forall cs s,
  sess_ok root s ->
  let '(s', _, _) := run s cs in
  exists t, step s' CPwd = Some (s', mkR [257] (PText t) []) /\ rooted_clean t /\
            inside root (real_path root [SLASH] t).
Proof.
  intros Hroot cs s Hs. pose proof (run_inv root rs Hroot cs s Hs) as R.
  destruct (run s cs) as [[s' xs] f]. destruct R as ((R1 & R2) & _).
  exists (h_cwd (s_h s')). split; [reflexivity|]. split; auto.
  apply (real_path_inside root rs); auto. exists []. split; [constructor|reflexivity].
Qed.

Lemma run_from_login root rs fs : clean_root root rs -> forall cs,
  let '(s', rsps, _) := run (init_sess fs root) cs in
  (forall k, ~ inside root k -> lookup (s_fs s') k = lookup fs k) /\
  Forall (fun r => Forall (inside root) (r_touched r)) rsps.
Proof.
  intros Hroot cs. pose proof (run_inv root rs Hroot cs (init_sess fs root) (init_sess_ok fs root)) as R.
  destruct (run (init_sess fs root) cs) as [[s' xs] f]. destruct R as (_ & R2 & R3). split; auto.
Qed.

(* an argument that begins with the host-side spelling of the root is an absolute path like
   any other: no shortcut, it is cleaned and put beneath the root (nested), never returned as is *)
Lemma real_path_host_spelling root rs cwd suffix :
  clean_root root rs -> rooted_clean cwd ->
  real_path root cwd (root ++ suffix) = join2 root (clean (root ++ suffix)) /\
  inside root (real_path root cwd (root ++ suffix)) /\
  rooted_clean (real_path root cwd (root ++ suffix)).
Proof.
  intros Hroot Hc. split.
  - destruct Hroot as (_ & _ & ->). unfold real_path. reflexivity.
  - apply (real_path_inside root rs); auto.
Qed.

(* ancestors of the root (every proper prefix of its spelling) are not inside it, so no command
   sequence - removing, renaming or recreating the root included - changes them *)
Lemma is_prefix_length p : forall s, is_prefix p s = true -> (length p <= length s)%nat.
Proof.
  induction p as [|x p IH]; intros s H; cbn [length]; [lia|].
  destruct s as [|y s]; cbn [is_prefix] in H; [discriminate|].
  apply andb_true_iff in H as [_ H]. apply IH in H. cbn [length]. lia.
Qed.

Lemma proper_prefix_not_inside root k : is_prefix k root = true -> k <> root -> ~ inside root k.
Proof.
  intros Hp Hn Hin. unfold inside, inside_b in Hin. apply orb_true_iff in Hin as [E|E].
  - apply eqb_bytes_true in E. contradiction.
  - apply is_prefix_length in E. apply is_prefix_length in Hp.
    rewrite app_length in E. cbn [length] in E. lia.
Qed.

Lemma ancestors_untouched root rs fs : clean_root root rs -> forall cs k,
  is_prefix k root = true -> k <> root ->
  lookup (s_fs (fst (fst (run (init_sess fs root) cs)))) k = lookup fs k.
Proof.
  intros Hroot cs k Hp Hn. pose proof (run_from_login root rs fs Hroot cs) as R.
  destruct (run (init_sess fs root) cs) as [[s' xs] f]. destruct R as (R & _).
  cbn [fst]. apply R. apply proper_prefix_not_inside; auto.
Qed.

(* ---- containment is component-wise, not textual ---- *)
Lemma is_prefix_split p : forall s, is_prefix p s = true -> exists r, s = p ++ r.
Proof.
  induction p as [|x p IH]; intros s H.
  - exists s; reflexivity.
  - destruct s as [|y s]; cbn [is_prefix] in H; [discriminate|].
    apply andb_true_iff in H as [E H]. apply N.eqb_eq in E; subst y.
    destruct (IH s H) as [r ->]. exists r; reflexivity.
Qed.

Lemma comps_app_slash a b : comps (a ++ SLASH :: b) = comps a ++ comps b.
Proof. unfold comps. rewrite split_app_slash, filter_app. reflexivity. Qed.

(* the component list of anything inside the root starts with the root's component list *)
Lemma inside_comps root rs k : clean_root root rs -> inside root k -> exists cs, comps k = rs ++ cs.
Proof.
  intros (Hne & Hg & ->) H. unfold inside, inside_b in H. apply orb_true_iff in H as [H|H].
  - apply eqb_bytes_true in H; subst k. exists []. rewrite app_nil_r. apply comps_rooted; auto.
  - apply is_prefix_split in H as [r ->]. rewrite <- app_assoc. cbn [app].
    rewrite comps_app_slash, comps_rooted by auto. eexists; reflexivity.
Qed.

Lemma inside_componentwise root rs k : clean_root root rs -> rooted_clean k ->
  (inside root k <-> exists cs, comps k = rs ++ cs).
Proof.
  intros Hroot Hk. split; [apply inside_comps; auto|].
  intros (cs & E). destruct Hroot as (Hne & Hg & ->). destruct Hk as (ks & Hks & ->).
  rewrite comps_rooted in E by auto. subst ks. apply rooted_inside; auto.
Qed.

Lemma real_path_componentwise root rs cwd p :
  clean_root root rs -> rooted_clean cwd ->
  exists cs, Forall good cs /\ comps (real_path root cwd p) = rs ++ cs.
Proof.
  intros (Hne & Hg & Hr) Hc.
  destruct (real_path_shape root rs cwd p Hg Hr Hc) as (cs & Hcs & E).
  exists cs. split; auto. rewrite E. apply comps_rooted. apply Forall_app; auto.
Qed.

(* textual prefix containment follows from containment ... (the converse fails: Properties) *)
Lemma inside_text_prefixed root k : inside root k -> text_prefixed_b root k = true.
Proof.
  unfold inside, inside_b, text_prefixed_b. intros H. apply orb_true_iff in H as [H|H].
  - apply eqb_bytes_true in H; subst k. rewrite <- (app_nil_r root) at 2. apply is_prefix_app.
  - apply is_prefix_split in H as [r ->]. rewrite <- app_assoc. apply is_prefix_app.
Qed.

(* ---- the working directory names an existing directory ---- *)
Lemma join_comps_nonempty c cs : c <> [] -> join_comps (c :: cs) <> [].
Proof.
  intros Hc. destruct cs; cbn [join_comps]; [auto|]. destruct c; [contradiction|discriminate].
Qed.

Lemma real_path_of_cwd root rs c' t : clean_root root rs -> rooted_clean t ->
  real_path root c' t = under root t.
Proof.
  intros (Hne & Hg & ->) (cs & Hcs & ->).
  unfold real_path. rewrite is_abs_rooted, clean_rooted_id by auto.
  unfold join2. change (rooted_str rs) with (SLASH :: join_comps rs) at 1. cbv iota.
  rewrite clean_rooted_app by auto. unfold under.
  destruct cs as [|c cs].
  - rewrite app_nil_r. reflexivity.
  - inversion Hcs as [|? ? (Hc & _) _]; subst.
    assert (E : eqb_bytes (rooted_str (c :: cs)) [SLASH] = false).
    { apply eqb_bytes_false. unfold rooted_str. intros E. inversion E as [E'].
      revert E'. apply join_comps_nonempty; auto. }
    rewrite E. rewrite rooted_app_split by (auto; discriminate). reflexivity.
Qed.

Lemma change_dir_names_dir fs root rs cwd p h' :
  clean_root root rs -> rooted_clean cwd ->
  change_dir fs (mkH root cwd) p = CdOk h' -> is_dir fs (under root (h_cwd h')) = true.
Proof.
  intros Hroot Hc E. pose proof (change_dir_spec fs root rs cwd p Hroot Hc) as S.
  rewrite E in S. destruct S as (_ & S2 & S3 & S4).
  rewrite <- (real_path_of_cwd root rs [SLASH] (h_cwd h')) by auto. rewrite S4. exact S3.
Qed.

Fixpoint cd_dirs_ok (fs : hostfs) (root : bytes) (os : list hop) (xs : list (N * bytes)) : Prop :=
  match os, xs with
  | [], [] => True
  | HCd _ :: os', (code, txt) :: xs' => (code = 0 -> is_dir fs (under root txt) = true) /\ cd_dirs_ok fs root os' xs'
  | HReal _ :: os', _ :: xs' => cd_dirs_ok fs root os' xs'
  | _, _ => False
  end.

Lemma hrun_cd_dirs fs root rs : clean_root root rs -> forall os h,
  h_root h = root -> rooted_clean (h_cwd h) -> cd_dirs_ok fs root os (snd (hrun fs h os)).
Proof.
  intros Hroot. induction os as [|o os IH]; intros h Hr Hc; cbn [hrun]; [exact I|].
  pose proof (hstep_inv fs root rs h o Hroot Hr Hc) as S.
  destruct h as [r c]. cbn [h_root h_cwd] in *. subst r.
  destruct o as [p|p]; cbn [hstep] in *.
  - pose proof (change_dir_names_dir fs root rs c p) as D.
    destruct (change_dir fs (mkH root c) p) as [h'| | |] eqn:E.
    + destruct S as (S1 & S2 & _). specialize (IH h' S1 S2).
      destruct (hrun fs h' os) as [h2 xs]. cbn [snd cd_dirs_ok] in *. split; auto.
    + specialize (IH (mkH root c) eq_refl Hc). destruct (hrun fs (mkH root c) os) as [h2 xs].
      cbn [snd cd_dirs_ok] in *. split; auto. discriminate.
    + specialize (IH (mkH root c) eq_refl Hc). destruct (hrun fs (mkH root c) os) as [h2 xs].
      cbn [snd cd_dirs_ok] in *. split; auto. discriminate.
    + specialize (IH (mkH root c) eq_refl Hc). destruct (hrun fs (mkH root c) os) as [h2 xs].
      cbn [snd cd_dirs_ok] in *. split; auto. discriminate.
  - specialize (IH (mkH root c) eq_refl Hc). destruct (hrun fs (mkH root c) os) as [h2 xs].
    cbn [snd cd_dirs_ok] in *. exact IH.
Qed.

(* FTP: along command sequences that change nothing on the host, the working directory keeps
   naming an existing directory inside the root, and so does every PWD text *)
Definition cwd_is_dir (root : bytes) (s : sess) : Prop :=
  is_dir (s_fs s) (under root (h_cwd (s_h s))) = true.

Definition obs_of (r : resp) : list N * payload := (r_codes r, r_pay r).

Fixpoint pwd_texts_dirs (root : bytes) (fs : hostfs) (cs : list cmd) (os : list (list N * payload)) : Prop :=
  match cs, os with
  | CPwd :: cs', (_, PText t) :: os' => is_dir fs (under root t) = true /\ pwd_texts_dirs root fs cs' os'
  | _ :: cs', _ :: os' => pwd_texts_dirs root fs cs' os'
  | _, _ => True
  end.

Lemma readonly_step root rs s c s' r :
  clean_root root rs -> sess_ok root s -> cwd_is_dir root s -> readonly_cmd c = true ->
  step s c = Some (s', r) ->
  s_fs s' = s_fs s /\ cwd_is_dir root s' /\
  match c with CPwd => r_pay r = PText (h_cwd (s_h s)) | _ => True end.
Proof.
  intros Hroot Hs Hd Hro H.
  assert (CWD : forall p s0 r0, do_cwd s p = Some (s0, r0) -> s_fs s0 = s_fs s /\ cwd_is_dir root s0).
  { intros p s0 r0 E. unfold do_cwd in E. destruct Hs as (Hr & Hc).
    destruct (s_h s) as [hr hc] eqn:Eh. cbn [h_root h_cwd] in *. subst hr.
    pose proof (change_dir_names_dir (s_fs s) root rs hc p) as D.
    destruct (change_dir (s_fs s) (mkH root hc) p) as [h'| | |] eqn:Ec; inversion E; subst; split; auto.
    unfold cwd_is_dir. cbn [s_fs s_h]. auto. }
  assert (NP : forall p k s0 r0, need_param p k s = Some (s0, r0) -> s0 = s \/ k tt = Some (s0, r0)).
  { intros p k s0 r0 E. unfold need_param in E. destruct p; [left; inversion E; auto|right; auto]. }
  destruct c; try discriminate; cbn [step] in H.
  - inversion H; subst. cbn [r_pay]. auto.
  - apply NP in H as [->|H]; [auto|]. destruct (CWD _ _ _ H); auto.
  - destruct (CWD _ _ _ H); auto.
  - inversion H; subst. auto.
  - inversion H; subst. cbn [s_fs]. split; auto.
  - inversion H; subst. cbn [s_fs]. split; auto.
  - apply NP in H as [->|H]; [auto|].
    destruct (lookup (s_fs s) (rp_of s p)) as [[|x]|]; inversion H; subst; cbn [s_fs]; split; auto.
  - inversion H; subst. auto.
  - inversion H; subst. auto.
  - apply NP in H as [->|H]; [auto|].
    destruct (lookup (s_fs s) (rp_of s p)); inversion H; subst; auto.
  - apply NP in H as [->|H]; [auto|].
    destruct (lookup (s_fs s) (rp_of s p)) as [[|x]|]; inversion H; subst; auto.
Qed.

Lemma readonly_run root rs : clean_root root rs -> forall cs s,
  sess_ok root s -> cwd_is_dir root s -> forallb readonly_cmd cs = true ->
  let '(s', rsps, _) := run s cs in
  s_fs s' = s_fs s /\ cwd_is_dir root s' /\ pwd_texts_dirs root (s_fs s) cs (map obs_of rsps).
Proof.
  intros Hroot. induction cs as [|c cs IH]; intros s Hs Hd Hro; cbn [run].
  - cbn [map pwd_texts_dirs]. auto.
  - cbn [forallb] in Hro. apply andb_true_iff in Hro as [Hc Hro].
    destruct (step s c) as [[s1 x]|] eqn:E.
    + pose proof (step_inv root rs s c s1 x Hroot Hs E) as (P1 & _ & _).
      pose proof (readonly_step root rs s c s1 x Hroot Hs Hd Hc E) as (Q1 & Q2 & Q3).
      specialize (IH s1 P1 Q2 Hro). destruct (run s1 cs) as [[s2 xs] f].
      destruct IH as (I1 & I2 & I3). rewrite Q1 in I1, I3.
      split; auto. split; auto. cbn [map]. unfold obs_of at 1.
      destruct c; cbn [pwd_texts_dirs]; auto.
      rewrite Q3. split; auto.
    + destruct c; cbn [map pwd_texts_dirs]; auto.
Qed.

(* the executable judgements of Check never fire on the model's own observations *)
Lemma pwd_texts_dirs_b root fs : forall cs os,
  pwd_texts_dirs root fs cs os -> Check.FtpCheck.pwd_nodir root fs cs os = false.
Proof.
  induction cs as [|c cs IH]; intros os H; [reflexivity|].
  destruct os as [|[codes pay] os]; [destruct c; reflexivity|].
  destruct c; cbn [pwd_texts_dirs Check.FtpCheck.pwd_nodir] in *; try (apply IH; exact H).
  destruct pay; try (apply IH; exact H).
  destruct H as [H1 H2]. rewrite H1. cbn [negb orb]. apply IH; exact H2.
Qed.

Lemma readonly_session_pwd root rs fs : clean_root root rs -> is_dir fs root = true -> forall cs,
  forallb readonly_cmd cs = true ->
  let '(s', rsps, _) := run (init_sess fs root) cs in
  s_fs s' = fs /\ Check.FtpCheck.pwd_nodir root fs cs (map obs_of rsps) = false.
Proof.
  intros Hroot Hd cs Hro.
  pose proof (readonly_run root rs Hroot cs (init_sess fs root) (init_sess_ok fs root)) as R.
  destruct (run (init_sess fs root) cs) as [[s' xs] f].
  destruct R as (R1 & _ & R3); auto.
  split; auto. apply pwd_texts_dirs_b. exact R3.
Qed.

Lemma hrun_obs_sig_cd fs root rs : clean_root root rs -> forall os h,
  h_root h = root -> rooted_clean (h_cwd h) ->
  Check.HtfsCheck.obs_sig fs root os (snd (hrun fs h os)) = 0.
Proof.
  intros Hroot os h Hr Hc.
  pose proof (hrun_inv fs root rs Hroot os h Hr Hc) as A.
  pose proof (hrun_cd_dirs fs root rs Hroot os h Hr Hc) as B.
  destruct (hrun fs h os) as [h' xs]. destruct A as (_ & _ & A). cbn [snd] in *.
  revert xs A B. induction os as [|o os IH]; intros xs A B.
  - destruct xs; [reflexivity|contradiction].
  - destruct xs as [|[code txt] xs]; [destruct o; contradiction|].
    cbn [obs_ok] in A. destruct A as (A1 & A2 & A3 & A4).
    destruct o as [p|p]; cbn [cd_dirs_ok Check.HtfsCheck.obs_sig] in *.
    + destruct B as [B1 B2].
      assert (E1 : rooted_clean_b txt = true) by (apply rooted_clean_b_spec; auto).
      assert (E2 : Check.HtfsCheck.real_ok root (under root txt) = true).
      { rewrite <- (real_path_of_cwd root rs [SLASH] txt) by auto.
        destruct (real_path_inside root rs [SLASH] txt Hroot) as [I1 I2].
        { exists []. split; [constructor|reflexivity]. }
        unfold Check.HtfsCheck.real_ok. apply rooted_clean_b_spec in I2. rewrite I2. exact I1. }
      rewrite E1, E2. cbn [andb].
      destruct (code =? 0) eqn:Ec.
      * apply N.eqb_eq in Ec. rewrite (B1 Ec). cbn [negb andb]. apply IH; auto.
      * cbn [andb]. apply IH; auto.
    + assert (E : Check.HtfsCheck.real_ok root txt = true).
      { unfold Check.HtfsCheck.real_ok. apply rooted_clean_b_spec in A2. rewrite A2. exact A3. }
      rewrite E. apply IH; auto.
Qed.

Lemma hrun_cd_names_dir fs root rs : clean_root root rs -> forall os h,
  h_root h = root -> rooted_clean (h_cwd h) ->
  cd_dirs_ok fs root os (snd (hrun fs h os)) /\
  Check.HtfsCheck.obs_sig fs root os (snd (hrun fs h os)) = 0.
Proof.
  intros H os h H1 H2.
  exact (conj (hrun_cd_dirs fs root rs H os h H1 H2) (hrun_obs_sig_cd fs root rs H os h H1 H2)).
Qed.
