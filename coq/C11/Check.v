(* C11 - executable checks over observations of the implementation; one module per
   harness part (lib, htfs, ftp).  [violations] judges the implementation's own
   observation with the executable containment predicates of Model.v ([rooted_clean_b],
   [inside_b]); [mismatches] compares with the model. *)
From HT Require Import Common.Bytes C11.Model.
Open Scope N_scope.

Fixpoint list_eqb {A B} (e : A -> B -> bool) (a : list A) (b : list B) : bool :=
  match a, b with
  | [], [] => true
  | x :: a', y :: b' => e x y && list_eqb e a' b'
  | _, _ => false
  end.

Definition obytes_eqb (a b : option bytes) : bool :=
  match a, b with
  | Some x, Some y => eqb_bytes x y
  | None, None => true
  | _, _ => false
  end.

Definition has_dotdot (p : bytes) : bool := existsb (eqb_bytes DOTDOT) (split p).

Definition node_eqb (a b : node) : bool :=
  match a, b with
  | NDir, NDir => true
  | NFile x, NFile y => eqb_bytes x y
  | _, _ => false
  end.

(* every key of a is bound to the same node in b *)
Definition fs_sub (a b : hostfs) : bool :=
  forallb (fun e => match lookup b (fst e) with Some v => node_eqb v (snd e) | None => false end) a.
Definition keys_unique (a : hostfs) : bool :=
  forallb (fun e => (length (filter (fun e' => eqb_bytes (fst e') (fst e)) a) =? 1)%nat) a.
Definition fs_eqb (a b : hostfs) : bool :=
  fs_sub a b && fs_sub b a.

Definition names_eqb (a b : list comp) : bool :=
  forallb (fun x => existsb (eqb_bytes x) b) a && forallb (fun x => existsb (eqb_bytes x) a) b
  && (length a =? length b)%nat.

Fixpoint infix_b (needle hay : bytes) : bool :=
  is_prefix needle hay || match hay with [] => false | _ :: r => infix_b needle r end.

(* ------------------------------------------------------------------ *)
Module LibCheck.

Record case := mkLC {
  c_id : N;
  c_p : bytes; c_q : bytes;
  c_clean : bytes;              (* filepath.Clean(p) *)
  c_abs : bool;                 (* filepath.IsAbs(p) *)
  c_join : bytes;               (* filepath.Join(q, p) *)
  c_rel : option bytes          (* filepath.Rel(q, Join(q, p)); None = error *)
}.

Definition agrees (c : case) : bool :=
  eqb_bytes (clean (c_p c)) (c_clean c) && Bool.eqb (is_abs (c_p c)) (c_abs c)
  && eqb_bytes (join2 (c_q c) (c_p c)) (c_join c)
  && match rel (c_q c) (join2 (c_q c) (c_p c)) with
     | Some r => obytes_eqb (Some r) (c_rel c)
     | None => true
     end.

Definition mismatches (cs : list case) : list N :=
  map c_id (filter (fun c => negb (agrees c)) cs).

Definition SIG_CLEAN_ROOTED := 1.   (* Clean of an absolute path is not "/"-rooted, clean, free of ".." *)
Definition SIG_JOIN_ROOTED := 2.    (* Join onto an absolute base is not *)
Definition SIG_JOIN_LEAVES_BASE := 3. (* Join of a clean rooted base (other than "/") and an already clean
                                         rooted path is not the base or the base continued with a
                                         separator - judged by components ([inside_b]), not by text *)

Definition case_sig (c : case) : N :=
  if c_abs c && negb (rooted_clean_b (c_clean c)) then SIG_CLEAN_ROOTED
  else if is_abs (c_q c) && negb (rooted_clean_b (c_join c)) then SIG_JOIN_ROOTED
  else if rooted_clean_b (c_q c) && negb (eqb_bytes (c_q c) [SLASH]) && rooted_clean_b (c_p c)
          && negb (inside_b (c_q c) (c_join c)) then SIG_JOIN_LEAVES_BASE
  else 0.

Definition violations (cs : list case) : list (N * N) :=
  flat_map (fun c => let s := case_sig c in if s =? 0 then [] else [(c_id c, s)]) cs.

(* 1 = has "..", 2 = absolute, 4 = not already clean, 8 = rel modelled *)
Definition tags (cs : list case) : list (N * N) :=
  map (fun c => (c_id c,
    (if has_dotdot (c_p c) then 1 else 0) + (if c_abs c then 2 else 0)
    + (if eqb_bytes (c_p c) (c_clean c) then 0 else 4)
    + (match rel (c_q c) (c_join c) with Some _ => 8 | None => 0 end))) cs.

End LibCheck.

(* ------------------------------------------------------------------ *)
Module HtfsCheck.

Record case := mkHC {
  c_id : N;
  c_root : bytes;
  c_fs : hostfs;                       (* the scratch window *)
  c_ops : list hop;
  c_obs : list (N * bytes)             (* per call: (0 ok | 1 error, Cwd()) or (0, RealPath) *)
}.

Definition model_obs (c : case) : list (N * bytes) :=
  snd (hrun (c_fs c) (mkH (c_root c) [SLASH]) (c_ops c)).

Definition obs_eqb (a b : N * bytes) : bool := (fst a =? fst b) && eqb_bytes (snd a) (snd b).

Definition mismatches (cs : list case) : list N :=
  map c_id (filter (fun c => negb (list_eqb obs_eqb (model_obs c) (c_obs c))) cs).

Definition SIG_REALPATH_OUTSIDE := 1.
Definition SIG_CWD_NOT_ROOTED := 2.
Definition SIG_SHAPE := 3.
Definition SIG_CWD_NO_DIR := 4.   (* a directory change succeeded and Cwd() names no directory of the
                                     (unchanging) scratch tree inside the root *)

(* a RealPath result must be a clean absolute path at or beneath the root: the root itself or
   the root continued with a separator ([inside_b]) - NOT merely a string that begins with the
   root's text (root .../root, result .../root.old/x) *)
Definition real_ok (root rp : bytes) : bool := rooted_clean_b rp && inside_b root rp.

Fixpoint obs_sig (fs : hostfs) (root : bytes) (os : list hop) (xs : list (N * bytes)) : N :=
  match os, xs with
  | [], [] => 0
  | HReal _ :: os', (_, rp) :: xs' => if real_ok root rp then obs_sig fs root os' xs' else SIG_REALPATH_OUTSIDE
  | HCd _ :: os', (code, cwd) :: xs' =>
      if rooted_clean_b cwd && real_ok root (under root cwd) then
        (* nothing in this part changes the tree: a successful change must have led to a directory
           that exists inside the root *)
        if (code =? 0) && negb (is_dir fs (under root cwd)) then SIG_CWD_NO_DIR
        else obs_sig fs root os' xs'
      else SIG_CWD_NOT_ROOTED
  | _, _ => SIG_SHAPE
  end.

Definition violations (cs : list case) : list (N * N) :=
  flat_map (fun c => let s := obs_sig (c_fs c) (c_root c) (c_ops c) (c_obs c) in
                     if s =? 0 then [] else [(c_id c, s)]) cs.

(* 1 = some argument has "..", 2 = some directory change succeeded away from "/" *)
Definition tags (cs : list case) : list (N * N) :=
  map (fun c => (c_id c,
    (if existsb (fun o => match o with HCd p | HReal p => has_dotdot p end) (c_ops c) then 1 else 0)
    + (if existsb (fun x => negb (eqb_bytes (snd x) [SLASH]) && (fst x =? 0) && rooted_clean_b (snd x)
                            && negb (is_prefix (c_root c) (snd x))) (c_obs c) then 2 else 0))) cs.

End HtfsCheck.

(* ------------------------------------------------------------------ *)
Module FtpCheck.

Record case := mkFC {
  c_id : N;
  c_root : bytes;
  c_fs : hostfs;                              (* the window before the session *)
  c_cmds : list cmd;
  c_obs : list (list N * payload);            (* per command: reply codes, payload *)
  c_final : hostfs;                           (* the window after the session *)
  c_escape : bool;                            (* something appeared at the host root or in
                                                 the process's working directory *)
  c_lists : list (list (bytes * bytes) * list (bytes * bytes))
     (* per LIST/NLST command, in order: the entries received (name, "mode|size|mtime" as
        printed; empty for NLST) and, taken from the host right before the command, every
        entry of every directory inside the root in the same form *)
}.

Definition pay_eqb (model obs : payload) : bool :=
  match model, obs with
  | PNone, _ => true                      (* nothing predicted: not compared *)
  | PText a, PText b => eqb_bytes a b
  | PText a, PRetr _ b => eqb_bytes a b      (* a directory: announced size is host dependent *)
  | PRetr n a, PRetr m b => (n =? m)%Z && eqb_bytes a b
  | PNames a, PNames b => names_eqb a b
  | PNum a, PNum b => (a =? b)%Z
  | _, _ => false
  end.

Definition resp_eqb (m : resp) (o : list N * payload) : bool :=
  list_eqb N.eqb (r_codes m) (fst o) && pay_eqb (r_pay m) (snd o).

Definition agrees (c : case) : bool :=
  let '(s, rs, fatal) := run (init_sess (c_fs c) (c_root c)) (c_cmds c) in
  negb fatal && list_eqb resp_eqb rs (c_obs c) && fs_eqb (s_fs s) (c_final c) && keys_unique (c_final c).

Definition mismatches (cs : list case) : list N :=
  map c_id (filter (fun c => negb (agrees c)) cs).

Definition SIG_OUTSIDE_CHANGED := 1.    (* something beside/above the root was created, changed or removed *)
Definition SIG_OUTSIDE_DISCLOSED := 2.  (* content or names from outside the root were sent to the client *)
Definition SIG_CWD_REPORTED := 3.       (* PWD text is not a clean rooted path *)
Definition SIG_HOST_ESCAPE := 4.        (* effect at the host root / process working directory *)
Definition SIG_LISTED_NOT_INSIDE := 5.  (* a listing line that is no entry of a directory inside the root
                                           (name and metadata): ".", "..", or something from outside *)
Definition SIG_SIBLING_CHANGED := 6.    (* as 1, and everything that changed lies at or beneath an entry beside the
                                           root whose NAME merely begins with the root's name (root.old, root2, root-) *)
Definition SIG_SIBLING_DISCLOSED := 7.  (* as 2, and what was sent comes from such an entry only *)
Definition SIG_CWD_NO_DIR := 8.         (* in a session that changes nothing, the PWD text names no directory
                                           inside the root *)

Definition lentry_eqb (a b : bytes * bytes) : bool := eqb_bytes (fst a) (fst b) && eqb_bytes (snd a) (snd b).
Definition listing_ok (l : list (bytes * bytes) * list (bytes * bytes)) : bool :=
  forallb (fun e => existsb (lentry_eqb e) (snd l)) (fst l).

Definition outside (root : bytes) (fs : hostfs) : hostfs :=
  filter (fun e => negb (inside_b root (fst e))) fs.

Definition MARK : bytes := [83;69;78;84;73;78;69;76].   (* "SENTINEL" *)

(* contents of the files outside the root (the sentinels), before the session *)
Definition outside_contents (root : bytes) (fs : hostfs) : list bytes :=
  flat_map (fun e => match snd e with NFile (x :: r) => [x :: r] | _ => [] end) (outside root fs).

(* Transferred bytes disclose outside content when they hold the sentinel mark or a whole
   outside file, or when they are a piece (>= 4 bytes) of one: by construction of the
   sentinels no such piece occurs in anything stored inside the root. *)
Definition text_discloses (outs : list bytes) (t : bytes) : bool :=
  infix_b MARK t || existsb (fun c => infix_b c t) outs
  || ((4 <=? length t)%nat && existsb (fun c => infix_b t c) outs).

(* A size named to the client discloses an outside file when it is that file's size and the
   size is one no file inside the root can have (500 .. 2999 bytes: see the harness). *)
Definition size_discloses (outs : list bytes) (n : Z) : bool :=
  (500 <=? n)%Z && (n <? 3000)%Z && existsb (fun c => (Z.of_nat (length c) =? n)%Z) outs.

Definition discloses (outs : list bytes) (o : list N * payload) : bool :=
  match snd o with
  | PText b => text_discloses outs b
  | PRetr n b => size_discloses outs n || text_discloses outs b
  | PNum n => size_discloses outs n
  | PNames l => existsb (infix_b MARK) l
  | PNone => false
  end.

(* the same without the mark rule: whole file, piece of a file, or its size - used to tell
   WHICH outside files a transfer came from *)
Definition text_from (outs : list bytes) (t : bytes) : bool :=
  existsb (fun c => infix_b c t) outs || ((4 <=? length t)%nat && existsb (fun c => infix_b t c) outs).
Definition comes_from (outs : list bytes) (o : list N * payload) : bool :=
  match snd o with
  | PText b => text_from outs b
  | PRetr n b => size_discloses outs n || text_from outs b
  | PNum n => size_discloses outs n
  | _ => false
  end.

(* outside entries whose spelling begins with the root's spelling / all other outside entries *)
Definition beside_named (root : bytes) (fs : hostfs) : hostfs :=
  filter (fun e => name_extends_b root (fst e)) fs.
Definition outside_far (root : bytes) (fs : hostfs) : hostfs :=
  filter (fun e => negb (inside_b root (fst e)) && negb (text_prefixed_b root (fst e))) fs.
Definition contents_of (fs : hostfs) : list bytes :=
  flat_map (fun e => match snd e with NFile (x :: r) => [x :: r] | _ => [] end) fs.

(* In a session whose commands change nothing on the host (and whose snapshot is unchanged)
   the window before the session is the ground truth throughout: every PWD text must name a
   directory that exists inside the root. *)
Fixpoint pwd_nodir (root : bytes) (fs : hostfs) (cs : list cmd) (os : list (list N * payload)) : bool :=
  match cs, os with
  | CPwd :: cs', (_, PText t) :: os' => negb (is_dir fs (under root t)) || pwd_nodir root fs cs' os'
  | _ :: cs', _ :: os' => pwd_nodir root fs cs' os'
  | _, _ => false
  end.

(* PWD text is exempt from the piece rule only in that it is judged as a path below *)
Fixpoint pwd_bad (cs : list cmd) (os : list (list N * payload)) : bool :=
  match cs, os with
  | CPwd :: cs', (_, PText t) :: os' => negb (rooted_clean_b t) || pwd_bad cs' os'
  | _ :: cs', _ :: os' => pwd_bad cs' os'
  | _, _ => false
  end.

Definition case_sig (c : case) : N :=
  if negb (fs_eqb (outside (c_root c) (c_fs c)) (outside (c_root c) (c_final c))) then
    (if fs_eqb (outside_far (c_root c) (c_fs c)) (outside_far (c_root c) (c_final c))
     then SIG_SIBLING_CHANGED else SIG_OUTSIDE_CHANGED)
  else if existsb (discloses (outside_contents (c_root c) (c_fs c))) (c_obs c) then
    (if existsb (comes_from (contents_of (beside_named (c_root c) (c_fs c)))) (c_obs c)
        && negb (existsb (comes_from (contents_of (outside_far (c_root c) (c_fs c)))) (c_obs c))
     then SIG_SIBLING_DISCLOSED else SIG_OUTSIDE_DISCLOSED)
  else if pwd_bad (c_cmds c) (c_obs c) then SIG_CWD_REPORTED
  else if forallb readonly_cmd (c_cmds c) && fs_eqb (c_fs c) (c_final c)
          && pwd_nodir (c_root c) (c_fs c) (c_cmds c) (c_obs c) then SIG_CWD_NO_DIR
  else if c_escape c then SIG_HOST_ESCAPE
  else if negb (forallb listing_ok (c_lists c)) then SIG_LISTED_NOT_INSIDE
  else 0.

Definition violations (cs : list case) : list (N * N) :=
  flat_map (fun c => let s := case_sig c in if s =? 0 then [] else [(c_id c, s)]) cs.

Definition cmd_arg (c : cmd) : bytes :=
  match c with
  | CCwd p | CMkd p | CRmd p | CDele p | CRnfr p | CRnto p | CStor p _ | CStorAbort p _ | CListNoData p | CRetr p
  | CList p | CNlst p | CMdtm p | CSize p => p
  | CCdup => DOTDOT
  | _ => []
  end.

(* 1 = an argument has "..", 2 = the root's content changed, 4 = some command succeeded on a path *)
Definition tags (cs : list case) : list (N * N) :=
  map (fun c => (c_id c,
    (if existsb (fun x => has_dotdot (cmd_arg x)) (c_cmds c) then 1 else 0)
    + (if fs_eqb (c_fs c) (c_final c) then 0 else 2)
    + (if existsb (fun o => existsb (fun k => (k =? 226) || (k =? 250) || (k =? 213)) (fst o)) (c_obs c) then 4 else 0))) cs.

End FtpCheck.
