(* C11 - property theorems: FTP clients cannot reach outside the service's filesystem root.
   Vocabulary (Proofs.v): [good c] = a component that is not "", ".", ".." and holds no "/";
   [rooted_clean s] = s is "/" followed by good components separated by single "/";
   [clean_root root rs] = root is such a path, rs its (non-empty) component list;
   [inside root k] = k is root or starts with root ++ "/" (Model.inside_b, executable). *)
From HT Require Import Common.Bytes C11.Model C11.Check C11.Proofs.
Open Scope N_scope.

(* filepath.Clean of any absolute path - whatever "..", ".", empty or repeated separators
   it holds - is "/" followed by good components only *)
Theorem C11_clean_rooted_no_dotdot : forall p,
  is_abs p = true -> rooted_clean (clean p).
Proof. exact clean_abs_shape. Qed.

(* RealPath, for every argument string and every working directory the service can be
   in: the result is the root's components followed by good components ... *)
Theorem C11_real_path_shape : forall root rs cwd p,
  Forall good rs -> root = rooted_str rs -> rooted_clean cwd ->
  exists cs, Forall good cs /\ real_path root cwd p = rooted_str (rs ++ cs).
Proof. exact real_path_shape. Qed.

(* ... hence lexically at or beneath the root, and itself clean (no ".." left to climb with) *)
Theorem C11_real_path_contained : forall root rs cwd p,
  clean_root root rs -> rooted_clean cwd ->
  inside root (real_path root cwd p) /\ rooted_clean (real_path root cwd p).
Proof. exact real_path_inside. Qed.

(* ALL strings, in particular those that begin with the host-side spelling of the root
   (absolute "<root>/../../x", or any other suffix): such an argument gets no special
   treatment - it is cleaned as an absolute path and placed beneath the root - and the result
   is inside the root.  (The relative spelling is covered by C11_real_path_contained, which
   quantifies over every argument string.) *)
Theorem C11_real_path_host_spelling : forall root rs cwd suffix,
  clean_root root rs -> rooted_clean cwd ->
  real_path root cwd (root ++ suffix) = join2 root (clean (root ++ suffix)) /\
  inside root (real_path root cwd (root ++ suffix)) /\
  rooted_clean (real_path root cwd (root ++ suffix)).
Proof. exact real_path_host_spelling. Qed.

(* everything beneath a contained path is contained (directory listings, renamed subtrees) *)
Theorem C11_inside_descends : forall root a k,
  inside root a -> is_prefix (a ++ [SLASH]) k = true -> inside root k.
Proof. exact inside_descend. Qed.

(* ChangeDir: filepath.Rel never leaves the modelled domain; on success the new working
   directory is rooted-clean, names exactly the directory that was checked, and that
   directory exists *)
Theorem C11_change_dir_stays_inside : forall fs root rs cwd p,
  clean_root root rs -> rooted_clean cwd ->
  match change_dir fs (mkH root cwd) p with
  | CdOutside => False
  | CdOk h' =>
      h_root h' = root /\ rooted_clean (h_cwd h') /\
      is_dir fs (real_path root cwd p) = true /\
      (forall c', real_path root c' (h_cwd h') = real_path root cwd p)
  | _ => True
  end.
Proof. exact change_dir_spec. Qed.

(* all histories of ChangeDir/RealPath calls, any host file system: the working directory
   stays rooted-clean, every RealPath result is inside the root, every Cwd() is rooted-clean *)
Theorem C11_cwd_invariant_all_histories : forall fs root rs,
  clean_root root rs -> forall os h,
  h_root h = root -> rooted_clean (h_cwd h) ->
  let '(h', xs) := hrun fs h os in
  h_root h' = root /\ rooted_clean (h_cwd h') /\ obs_ok root os xs.
Proof. exact hrun_inv. Qed.

(* all FTP command sequences after login, any host file system: whatever is not inside the
   root is exactly as before (nothing created, changed, renamed or deleted there), and
   every path handed to an os-level call (stat, open, readdir, mkdir, remove, rename,
   create) is inside the root *)
Theorem C11_ftp_outside_untouched : forall root rs fs,
  clean_root root rs -> forall cmds,
  let '(s', rsps, _) := run (init_sess fs root) cmds in
  (forall k, ~ inside root k -> lookup (s_fs s') k = lookup fs k) /\
  Forall (fun r => Forall (inside root) (r_touched r)) rsps.
Proof. exact run_from_login. Qed.

(* in particular the root's ancestors (every proper prefix of its spelling: its parent, the
   service directory, the base ...) are as before after ANY command sequence - also those
   that empty the root and then remove (RMD /, RMD .., DELE /), rename or recreate the root
   itself: the model's RMD removes exactly the resolved directory, nothing above it *)
Theorem C11_ftp_root_ancestors_untouched : forall root rs fs,
  clean_root root rs -> forall cmds k,
  is_prefix k root = true -> k <> root ->
  lookup (s_fs (fst (fst (run (init_sess fs root) cmds)))) k = lookup fs k.
Proof. exact ancestors_untouched. Qed.

(* the same from any reachable session state *)
Theorem C11_ftp_invariant : forall root rs,
  clean_root root rs -> forall cmds s,
  sess_ok root s ->
  let '(s', rsps, _) := run s cmds in
  sess_ok root s' /\ same_outside root (s_fs s) (s_fs s') /\
  Forall (fun r => Forall (inside root) (r_touched r)) rsps.
Proof. exact run_inv. Qed.

(* the working directory reported by PWD after any command sequence is rooted-clean and
   denotes a location inside the root *)
Theorem C11_reported_cwd_inside : forall root rs,
  clean_root root rs -> forall cmds s,
  sess_ok root s ->
  let '(s', _, _) := run s cmds in
  exists t, step s' CPwd = Some (s', mkR [257] (PText t) []) /\ rooted_clean t /\
            inside root (real_path root [SLASH] t).
Proof. exact reported_cwd_inside. Qed.

(* the executable predicate used on the implementation's observations is the proposition *)
Theorem C11_rooted_clean_b_correct : forall s, rooted_clean_b s = true <-> rooted_clean s.
Proof. exact rooted_clean_b_spec. Qed.

(* CWD <dir> / CDUP through the FTP step function, from every reachable session state:
   the session survives, the host file system is not touched, the working directory stays
   rooted-clean; the reply is 250 exactly when the target - a path inside the root - is a
   directory, and then the new working directory names that directory; otherwise 550 and
   nothing changes.  (Over all histories: C11_ftp_invariant keeps sess_ok, which holds
   the rooted-clean working directory, along every command sequence including CWD/CDUP.) *)
Theorem C11_ftp_cwd_cdup_stay_inside : forall root rs s c p,
  clean_root root rs -> sess_ok root s -> cwd_arg c = Some p ->
  exists s' code,
    step s c = Some (s', mkR [code] PNone [rp_of s p]) /\
    sess_ok root s' /\ s_fs s' = s_fs s /\ inside root (rp_of s p) /\
    (code = 250 /\ is_dir (s_fs s) (rp_of s p) = true /\
       (forall c', real_path root c' (h_cwd (s_h s')) = rp_of s p)
     \/ code = 550 /\ is_dir (s_fs s) (rp_of s p) = false /\ s' = s).
Proof. exact ftp_cwd_spec. Qed.

(* no command of the model ends the process: every command sequence runs to its end *)
Theorem C11_ftp_run_completes : forall cmds s, snd (run s cmds) = false.
Proof. exact run_not_fatal. Qed.

(* ---- containment is judged by path components, never by text ---- *)

(* RealPath, ALL roots, ALL argument strings, every reachable working directory: the component
   list of the result is the root's component list followed by components that are none of
   "", ".", ".." - i.e. the result lies inside the root component by component, which is more
   than its text beginning with the root's text *)
Theorem C11_real_path_componentwise_inside : forall root rs cwd p,
  clean_root root rs -> rooted_clean cwd ->
  exists cs, Forall good cs /\ comps (real_path root cwd p) = rs ++ cs.
Proof. exact real_path_componentwise. Qed.

(* the executable predicate [inside_b] evaluated on the implementation's RealPath strings, on
   snapshot keys and on listed entries IS component-wise containment (for clean paths) ... *)
Theorem C11_inside_is_componentwise : forall root rs k,
  clean_root root rs -> rooted_clean k ->
  (inside root k <-> exists cs, comps k = rs ++ cs).
Proof. exact inside_componentwise. Qed.

(* ... it implies what strings.HasPrefix(k, root) computes; the converse fails
   (C11_text_prefix_strictly_weaker below) *)
Theorem C11_inside_implies_text_prefix : forall root k,
  inside root k -> text_prefixed_b root k = true.
Proof. exact inside_text_prefixed. Qed.

(* after every history of ChangeDir/RealPath calls on an unchanging tree each successful
   directory change reports a working directory that names an EXISTING directory inside the
   root - the executable judgement of the htfs part ([HtfsCheck.obs_sig], all four
   signatures) never fires on the model's own observations *)
Theorem C11_cwd_names_directory_all_histories : forall fs root rs,
  clean_root root rs -> forall os h,
  h_root h = root -> rooted_clean (h_cwd h) ->
  cd_dirs_ok fs root os (snd (hrun fs h os)) /\
  HtfsCheck.obs_sig fs root os (snd (hrun fs h os)) = 0.
Proof. exact hrun_cd_names_dir. Qed.

(* FTP sessions made of commands that change nothing on the host (PWD CWD CDUP RETR LIST NLST
   MDTM SIZE REST APPE), any length, any arguments: the host file system is as before and every
   PWD text names a directory that exists inside the root *)
Theorem C11_ftp_reported_cwd_names_directory : forall root rs fs,
  clean_root root rs -> is_dir fs root = true -> forall cmds,
  forallb readonly_cmd cmds = true ->
  let '(s', rsps, _) := run (init_sess fs root) cmds in
  s_fs s' = fs /\ FtpCheck.pwd_nodir root fs cmds (map obs_of rsps) = false.
Proof. exact readonly_session_pwd. Qed.

(* ---- non-vacuity ---- *)
Definition ex_root : bytes := [47;115;114;118;47;102;116;112].            (* /srv/ftp *)
Definition ex_fs : hostfs :=
  [([47;115;114;118], NDir); (ex_root, NDir); (ex_root ++ [47;97], NDir);   (* /srv/ftp/a *)
   ([47;115;114;118;47;98], NFile [1;2;3])].                               (* /srv/b, beside the root *)

Example C11_root_hypothesis_met : clean_root ex_root [[115;114;118]; [102;116;112]].
Proof.
  split; [discriminate|]. split; [|reflexivity].
  repeat constructor; try discriminate; intros H; cbn in H; intuition discriminate.
Qed.

(* "../../b" and "/../b" from inside /a: mapped to /srv/ftp/b, not /srv/b *)
Example C11_dotdot_is_absorbed :
  real_path ex_root [47;97] [46;46;47;46;46;47;98] = ex_root ++ [47;98] /\
  real_path ex_root [47;97] [47;46;46;47;98] = ex_root ++ [47;98] /\
  real_path ex_root [47;97] [46;46;47;47;46;47] = ex_root.
Proof. vm_compute. auto. Qed.

(* "/srv/ftp/../../b", "srv/ftp/../../b" from /a, and "..\..\b" (one component): all beneath the root *)
Example C11_host_spelling_is_absorbed :
  real_path ex_root [47;97] (ex_root ++ [47;46;46;47;46;46;47;98]) = ex_root ++ [47;98] /\
  real_path ex_root [47;97] (tl ex_root ++ [47;46;46;47;46;46;47;98]) = ex_root ++ [47;97;47;98] /\
  real_path ex_root [47] (ex_root ++ [47;98]) = ex_root ++ ex_root ++ [47;98] /\
  real_path ex_root [47] [46;46;92;46;46;92;98] = ex_root ++ [47;46;46;92;46;46;92;98].
Proof. vm_compute. auto. Qed.

(* a session that tries to delete and overwrite /srv/b: it ends up creating /srv/ftp/b *)
Example C11_session_example :
  let '(s', rsps, fatal) := run (init_sess ex_fs ex_root)
        [CDele [46;46;47;98]; CStor [46;46;47;98] [9]; CMkd [47;46;46;47;46;46;47;99]; CPwd] in
  map r_codes rsps = [[550]; [150; 226]; [257]; [257]] /\ fatal = false /\
  lookup (s_fs s') [47;115;114;118;47;98] = Some (NFile [1;2;3]) /\
  lookup (s_fs s') (ex_root ++ [47;98]) = Some (NFile [9]) /\
  lookup (s_fs s') (ex_root ++ [47;99]) = Some NDir.
Proof. vm_compute. repeat split. Qed.

(* CWD a; CWD ../..; CDUP (at "/"); CWD /../a/../..; PWD: the working directory never leaves "/" *)
Example C11_cwd_escape_attempts :
  let '(s', rsps, fatal) := run (init_sess ex_fs ex_root)
        [CCwd [97]; CPwd; CCwd [46;46;47;46;46]; CPwd; CCdup; CPwd; CCwd [47;46;46;47;97;47;46;46;47;46;46]; CPwd;
         CCwd [46;46;47;98]] in
  map r_codes rsps = [[250]; [257]; [250]; [257]; [250]; [257]; [250]; [257]; [550]] /\ fatal = false /\
  map r_pay rsps = [PNone; PText [47;97]; PNone; PText [47]; PNone; PText [47]; PNone; PText [47]; PNone] /\
  h_cwd (s_h s') = [47].
Proof. vm_compute. repeat split. Qed.

(* the client empties the root, removes it (RMD ..), and its lonely parent /srv stays *)
Example C11_root_removed_parent_stays :
  let fs := [([47;115;114;118], NDir); (ex_root, NDir); (ex_root ++ [47;97], NDir)] in
  let '(s', rsps, fatal) := run (init_sess fs ex_root) [CRmd [97]; CRmd [46;46]; CRmd [47]; CMkd [47]] in
  map r_codes rsps = [[250]; [250]; [550]; [257]] /\
  lookup (s_fs s') [47;115;114;118] = Some NDir /\ lookup (s_fs s') ex_root = Some NDir.
Proof. vm_compute. repeat split. Qed.

(* textual prefix containment is STRICTLY weaker than containment: root /r/pub, k /r/pub.old/x
   begins with the root's text, is a clean rooted path, and is not inside the root - its
   component list [r; pub.old; x] does not start with [r; pub] *)
Definition ex_pub : bytes := [47;114;47;112;117;98].                                 (* /r/pub *)
Definition ex_pub_old_x : bytes := ex_pub ++ [46;111;108;100;47;120].                (* /r/pub.old/x *)
Example C11_text_prefix_strictly_weaker :
  clean_root ex_pub [[114]; [112;117;98]] /\
  text_prefixed_b ex_pub ex_pub_old_x = true /\ rooted_clean_b ex_pub_old_x = true /\
  inside_b ex_pub ex_pub_old_x = false /\ name_extends_b ex_pub ex_pub_old_x = true /\
  comps ex_pub_old_x = [[114]; [112;117;98;46;111;108;100]; [120]] /\
  ~ (exists cs, comps ex_pub_old_x = [[114]; [112;117;98]] ++ cs).
Proof.
  split.
  { split; [discriminate|]. split; [|reflexivity].
    repeat constructor; try discriminate; intros H; cbn in H; intuition discriminate. }
  repeat split; try (vm_compute; reflexivity).
  intros (cs & E). vm_compute in E. discriminate.
Qed.

(* "/../pub.old/x", "/a/../../pub.old/x", "../pub.old/x", "//..//pub.old//x/", "/../pub2",
   "/../pu": no spelling of a sibling whose name extends (or is extended by) the root's name
   leaves the root; each lands beneath /r/pub *)
Example C11_name_extending_sibling_is_absorbed :
  let old_x := [112;117;98;46;111;108;100;47;120] in                              (* pub.old/x *)
  real_path ex_pub [47] ([47;46;46;47] ++ old_x) = ex_pub ++ 47 :: old_x /\
  real_path ex_pub [47;97] ([47;97;47;46;46;47;46;46;47] ++ old_x) = ex_pub ++ 47 :: old_x /\
  real_path ex_pub [47;97] ([46;46;47] ++ old_x) = ex_pub ++ 47 :: old_x /\
  real_path ex_pub [47] ([47;47;46;46;47;47;112;117;98;46;111;108;100;47;47;120;47]) = ex_pub ++ 47 :: old_x /\
  real_path ex_pub [47] [47;46;46;47;112;117;98;50] = ex_pub ++ [47;112;117;98;50] /\
  real_path ex_pub [47] [47;46;46;47;112;117] = ex_pub ++ [47;112;117] /\
  inside_b ex_pub (real_path ex_pub [47] ([47;46;46;47] ++ old_x)) = true.
Proof. vm_compute. repeat split. Qed.

(* CWD /../pub.old with a directory /r/pub.old beside the root: refused (550), PWD stays "/",
   and RETR /../pub.old/x finds nothing although /r/pub.old/x exists *)
Example C11_sibling_session_example :
  let fs := [([47;114], NDir); (ex_pub, NDir); (ex_pub ++ [47;97], NDir);
             (ex_pub ++ [46;111;108;100], NDir); (ex_pub_old_x, NFile [83;69;67])] in
  let cmds := [CCwd [47;46;46;47;112;117;98;46;111;108;100]; CPwd; CRest (-100)%Z;
               CRetr [47;46;46;47;112;117;98;46;111;108;100;47;120]; CCwd [97]; CPwd] in
  let '(s', rsps, fatal) := run (init_sess fs ex_pub) cmds in
  map r_codes rsps = [[550]; [257]; [350]; [551]; [250]; [257]] /\
  map r_pay rsps = [PNone; PText [47]; PNone; PText []; PNone; PText [47;97]] /\
  forallb readonly_cmd cmds = true /\ is_dir fs ex_pub = true /\
  FtpCheck.pwd_nodir ex_pub fs cmds (map obs_of rsps) = false /\
  (* the judgement is not vacuous: a PWD text "/pub.old" would be flagged *)
  FtpCheck.pwd_nodir ex_pub fs [CPwd] [([257], PText [47;112;117;98;46;111;108;100])] = true.
Proof. vm_compute. repeat split. Qed.

Print Assumptions C11_clean_rooted_no_dotdot.
Print Assumptions C11_real_path_shape.
Print Assumptions C11_real_path_contained.
Print Assumptions C11_real_path_host_spelling.
Print Assumptions C11_inside_descends.
Print Assumptions C11_change_dir_stays_inside.
Print Assumptions C11_cwd_invariant_all_histories.
Print Assumptions C11_ftp_outside_untouched.
Print Assumptions C11_ftp_root_ancestors_untouched.
Print Assumptions C11_ftp_invariant.
Print Assumptions C11_reported_cwd_inside.
Print Assumptions C11_rooted_clean_b_correct.
Print Assumptions C11_ftp_cwd_cdup_stay_inside.
Print Assumptions C11_ftp_run_completes.
Print Assumptions C11_real_path_componentwise_inside.
Print Assumptions C11_inside_is_componentwise.
Print Assumptions C11_inside_implies_text_prefix.
Print Assumptions C11_cwd_names_directory_all_histories.
Print Assumptions C11_ftp_reported_cwd_names_directory.
