(* C11 - property theorems: FTP clients cannot reach outside the service's filesystem root.
   Vocabulary (Proofs.v): [good c] = a component that is not "", ".", ".." and holds no "/";
   [rooted_clean s] = s is "/" followed by good components separated by single "/";
   [clean_root root rs] = root is such a path, rs its (non-empty) component list;
   [inside root k] = k is root or starts with root ++ "/" (Model.inside_b, executable). *)
From HT Require Import Common.Bytes C11.Model C11.Check C11.Proofs.
Open Scope N_scope.

(* filepath.Clean of any absolute path - whatever "..", ".", empty or repeated separators
   it holds - is "/" followed by good components only *)
Theorem C11_clean_rooted_no_dotdot : forall p,
  is_abs p = true -> rooted_clean (clean p).
Proof. exact clean_abs_shape. Qed.

(* RealPath, for every argument string and every working directory the service can be
   in: the result is the root's components followed by good components ... *)
Theorem C11_real_path_shape : forall root rs cwd p,
  Forall good rs -> root = rooted_str rs -> rooted_clean cwd ->
  exists cs, Forall good cs /\ real_path root cwd p = rooted_str (rs ++ cs).
Proof. exact real_path_shape. Qed.

(* ... hence lexically at or beneath the root, and itself clean (no ".." left to climb with) *)
Theorem C11_real_path_contained : forall root rs cwd p,
  clean_root root rs -> rooted_clean cwd ->
  inside root (real_path root cwd p) /\ rooted_clean (real_path root cwd p).
Proof. exact real_path_inside. Qed.

(* ALL strings, in particular those that begin with the host-side spelling of the root
   (absolute "<root>/../../x", or any other suffix): such an argument gets no special
   treatment - it is cleaned as an absolute path and placed beneath the root - and the result
   is inside the root.  (The relative spelling is covered by C11_real_path_contained, which
   quantifies over every argument string.) *)
Theorem C11_real_path_host_spelling : forall root rs cwd suffix,
  clean_root root rs -> rooted_clean cwd ->
  real_path root cwd (root ++ suffix) = join2 root (clean (root ++ suffix)) /\
  inside root (real_path root cwd (root ++ suffix)) /\
  rooted_clean (real_path root cwd (root ++ suffix)).
Proof. exact real_path_host_spelling. Qed.

(* everything beneath a contained path is contained (directory listings, renamed subtrees) *)
Theorem C11_inside_descends : forall root a k,
  inside root a -> is_prefix (a ++ [SLASH]) k = true -> inside root k.
Proof. exact inside_descend. Qed.

(* ChangeDir: filepath.Rel never leaves the modelled domain; on success the new working
   directory is rooted-clean, names exactly the directory that was checked, and that
   directory exists *)
Theorem C11_change_dir_stays_inside : forall fs root rs cwd p,
  clean_root root rs -> rooted_clean cwd ->
  match change_dir fs (mkH root cwd) p with
  | CdOutside => False
  | CdOk h' =>
      h_root h' = root /\ rooted_clean (h_cwd h') /\
      is_dir fs (real_path root cwd p) = true /\
      (forall c', real_path root c' (h_cwd h') = real_path root cwd p)
  | _ => True
  end.
Proof. exact change_dir_spec. Qed.

(* all histories of ChangeDir/RealPath calls, any host file system: the working directory
   stays rooted-clean, every RealPath result is inside the root, every Cwd() is rooted-clean *)
Theorem C11_cwd_invariant_all_histories : forall fs root rs,
  clean_root root rs -> forall os h,
  h_root h = root -> rooted_clean (h_cwd h) ->
  let '(h', xs) := hrun fs h os in
  h_root h' = root /\ rooted_clean (h_cwd h') /\ obs_ok root os xs.
Proof. exact hrun_inv. Qed.

(* all FTP command sequences after login, any host file system: whatever is not inside the
   root is exactly as before (nothing created, changed, renamed or deleted there), and
   every path handed to an os-level call (stat, open, readdir, mkdir, remove, rename,
   create) is inside the root *)
Theorem C11_ftp_outside_untouched : forall root rs fs,
  clean_root root rs -> forall cmds,
  let '(s', rsps, _) := run (init_sess fs root) cmds in
  (forall k, ~ inside root k -> lookup (s_fs s') k = lookup fs k) /\
  Forall (fun r => Forall (inside root) (r_touched r)) rsps.
Proof. exact run_from_login. Qed.

(* in particular the root's ancestors (every proper prefix of its spelling: its parent, the
   service directory, the base ...) are as before after ANY command sequence - also those
   that empty the root and then remove (RMD /, RMD .., DELE /), rename or recreate the root
   itself: the model's RMD removes exactly the resolved directory, nothing above it *)
Theorem C11_ftp_root_ancestors_untouched : forall root rs fs,
  clean_root root rs -> forall cmds k,
  is_prefix k root = true -> k <> root ->
  lookup (s_fs (fst (fst (run (init_sess fs root) cmds)))) k = lookup fs k.
Proof. exact ancestors_untouched. Qed.

(* the same from any reachable session state *)
Theorem C11_ftp_invariant : forall root rs,
  clean_root root rs -> forall cmds s,
  sess_ok root s ->
  let '(s', rsps, _) := run s cmds in
  sess_ok root s' /\ same_outside root (s_fs s) (s_fs s') /\
  Forall (fun r => Forall (inside root) (r_touched r)) rsps.
Proof. exact run_inv. Qed.

(* the working directory reported by PWD after any command sequence is rooted-clean and
   denotes a location inside the root *)
Theorem C11_reported_cwd_inside : forall root rs,
  clean_root root rs -> forall cmds s,
  sess_ok root s ->
  let '(s', _, _) := run s cmds in
  exists t, step s' CPwd = Some (s', mkR [257] (PText t) []) /\ rooted_clean t /\
            inside root (real_path root [SLASH] t).
Proof. exact reported_cwd_inside. Qed.

(* the executable predicate used on the implementation's observations is the proposition *)
Theorem C11_rooted_clean_b_correct : forall s, rooted_clean_b s = true <-> rooted_clean s.
Proof. exact rooted_clean_b_spec. Qed.

(* CWD <dir> / CDUP through the FTP step function, from every reachable session state:
   the session survives, the host file system is not touched, the working directory stays
   rooted-clean; the reply is 250 exactly when the target - a path inside the root - is a
   directory, and then the new working directory names that directory; otherwise 550 and
   nothing changes.  (Over all histories: C11_ftp_invariant keeps sess_ok, which holds
   the rooted-clean working directory, along every command sequence including CWD/CDUP.) *)
Theorem C11_ftp_cwd_cdup_stay_inside : forall root rs s c p,
  clean_root root rs -> sess_ok root s -> cwd_arg c = Some p ->
  exists s' code,
    step s c = Some (s', mkR [code] PNone [rp_of s p]) /\
    sess_ok root s' /\ s_fs s' = s_fs s /\ inside root (rp_of s p) /\
    (code = 250 /\ is_dir (s_fs s) (rp_of s p) = true /\
       (forall c', real_path root c' (h_cwd (s_h s')) = rp_of s p)
     \/ code = 550 /\ is_dir (s_fs s) (rp_of s p) = false /\ s' = s).
Proof. exact ftp_cwd_spec. Qed.

(* no command of the model ends the process: every command sequence runs to its end *)
Theorem C11_ftp_run_completes : forall cmds s, snd (run s cmds) = false.
Proof. exact run_not_fatal. Qed.

(* ---- non-vacuity ---- *)
Definition ex_root : bytes := [47;115;114;118;47;102;116;112].            (* /srv/ftp *)
Definition ex_fs : hostfs :=
  [([47;115;114;118], NDir); (ex_root, NDir); (ex_root ++ [47;97], NDir);   (* /srv/ftp/a *)
   ([47;115;114;118;47;98], NFile [1;2;3])].                               (* /srv/b, beside the root *)

Example C11_root_hypothesis_met : clean_root ex_root [[115;114;118]; [102;116;112]].
Proof.
  split; [discriminate|]. split; [|reflexivity].
  repeat constructor; try discriminate; intros H; cbn in H; intuition discriminate.
Qed.

(* "../../b" and "/../b" from inside /a: mapped to /srv/ftp/b, not /srv/b *)
Example C11_dotdot_is_absorbed :
  real_path ex_root [47;97] [46;46;47;46;46;47;98] = ex_root ++ [47;98] /\
  real_path ex_root [47;97] [47;46;46;47;98] = ex_root ++ [47;98] /\
  real_path ex_root [47;97] [46;46;47;47;46;47] = ex_root.
Proof. vm_compute. auto. Qed.

(* "/srv/ftp/../../b", "srv/ftp/../../b" from /a, and "..\..\b" (one component): all beneath the root *)
Example C11_host_spelling_is_absorbed :
  real_path ex_root [47;97] (ex_root ++ [47;46;46;47;46;46;47;98]) = ex_root ++ [47;98] /\
  real_path ex_root [47;97] (tl ex_root ++ [47;46;46;47;46;46;47;98]) = ex_root ++ [47;97;47;98] /\
  real_path ex_root [47] (ex_root ++ [47;98]) = ex_root ++ ex_root ++ [47;98] /\
  real_path ex_root [47] [46;46;92;46;46;92;98] = ex_root ++ [47;46;46;92;46;46;92;98].
Proof. vm_compute. auto. Qed.

(* a session that tries to delete and overwrite /srv/b: it ends up creating /srv/ftp/b *)
Example C11_session_example :
  let '(s', rsps, fatal) := run (init_sess ex_fs ex_root)
        [CDele [46;46;47;98]; CStor [46;46;47;98] [9]; CMkd [47;46;46;47;46;46;47;99]; CPwd] in
  map r_codes rsps = [[550]; [150; 226]; [257]; [257]] /\ fatal = false /\
  lookup (s_fs s') [47;115;114;118;47;98] = Some (NFile [1;2;3]) /\
  lookup (s_fs s') (ex_root ++ [47;98]) = Some (NFile [9]) /\
  lookup (s_fs s') (ex_root ++ [47;99]) = Some NDir.
Proof. vm_compute. repeat split. Qed.

(* CWD a; CWD ../..; CDUP (at "/"); CWD /../a/../..; PWD: the working directory never leaves "/" *)
Example C11_cwd_escape_attempts :
  let '(s', rsps, fatal) := run (init_sess ex_fs ex_root)
        [CCwd [97]; CPwd; CCwd [46;46;47;46;46]; CPwd; CCdup; CPwd; CCwd [47;46;46;47;97;47;46;46;47;46;46]; CPwd;
         CCwd [46;46;47;98]] in
  map r_codes rsps = [[250]; [257]; [250]; [257]; [250]; [257]; [250]; [257]; [550]] /\ fatal = false /\
  map r_pay rsps = [PNone; PText [47;97]; PNone; PText [47]; PNone; PText [47]; PNone; PText [47]; PNone] /\
  h_cwd (s_h s') = [47].
Proof. vm_compute. repeat split. Qed.

(* the client empties the root, removes it (RMD ..), and its lonely parent /srv stays *)
Example C11_root_removed_parent_stays :
  let fs := [([47;115;114;118], NDir); (ex_root, NDir); (ex_root ++ [47;97], NDir)] in
  let '(s', rsps, fatal) := run (init_sess fs ex_root) [CRmd [97]; CRmd [46;46]; CRmd [47]; CMkd [47]] in
  map r_codes rsps = [[250]; [250]; [550]; [257]] /\
  lookup (s_fs s') [47;115;114;118] = Some NDir /\ lookup (s_fs s') ex_root = Some NDir.
Proof. vm_compute. repeat split. Qed.

Print Assumptions C11_clean_rooted_no_dotdot.
Print Assumptions C11_real_path_shape.
Print Assumptions C11_real_path_contained.
Print Assumptions C11_real_path_host_spelling.
Print Assumptions C11_inside_descends.
Print Assumptions C11_change_dir_stays_inside.
Print Assumptions C11_cwd_invariant_all_histories.
Print Assumptions C11_ftp_outside_untouched.
Print Assumptions C11_ftp_root_ancestors_untouched.
Print Assumptions C11_ftp_invariant.
Print Assumptions C11_reported_cwd_inside.
Print Assumptions C11_rooted_clean_b_correct.
Print Assumptions C11_ftp_cwd_cdup_stay_inside.
Print Assumptions C11_ftp_run_completes.
