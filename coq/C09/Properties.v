(* C09 - handlers finish and release everything once the peer is gone: theorems about the
   model of the repaired code (DummyUDPConn ends its stream; ftp: one command channel per
   connection, passive sockets closed / on a 30 s timer / closed when replaced, ListDir
   closes its directory; smtp: the pump ends with the connection).

   For every service scenario [s] and every connection [c]: pending segments - any bytes, any
   segmentation - then client close / consumed datagram, or silence; and a peer that stops
   READING after any number of bytes ([c_room c]) while keeping the connection open, so that
   the handler's Writes wait out the write deadline of server.TimeoutConn: *)
From HT Require Import Common.Bytes C09.Model C09.Check C09.Proofs.
Open Scope Z_scope.

(* the handler is over within the explicit fuel bound [fuel_for c] = pending bytes + pending
   segments + 4: it returned, or panicked and was recovered by server.handle *)
Definition finishes (s : scn) (c : conn) : Prop := finished (h_out (handle s (fuel_for c) c)) = true.
(* it holds nothing when Handle is over - returned, or panicked and recovered *)
Definition releases (s : scn) (c : conn) : Prop :=
  h_res (handle s (fuel_for c) c) = res0 /\ kept (handle s (fuel_for c) c) = res0.
(* N sequential connections leave the process as it was, for all N and all mixes *)
Definition flat (s : scn) : Prop := forall cs, Forall (in_fragment s) cs -> history s cs = res0.

(* [in_fragment s c]: the dialogue stays inside the modelled command set of ftp / smtp
   (trivially true for the six other services, see C09_fragment_other_services) *)
Definition C09_full : Prop :=
  (forall s c, in_fragment s c -> finishes s c /\ releases s c) /\ (forall s, flat s).

Theorem C09_terminates : forall s c, in_fragment s c -> finishes s c.
Proof. exact handle_ends. Qed.

Theorem C09_released : forall s c, in_fragment s c -> releases s c.
Proof.
  intros s c H; split; [apply handle_finished_clean, handle_ends; exact H|apply handle_kept; exact H].
Qed.

Theorem C09_history_flat_all : forall s, flat s.
Proof. intros s cs; apply history_zero. Qed.

Theorem C09_full_holds : C09_full.
Proof.
  split; [|exact C09_history_flat_all].
  intros s c H; split; [apply C09_terminates|apply C09_released]; exact H.
Qed.

(* ---- what is behind it, service by service ---- *)

(* outside ftp and smtp every input is inside the fragment *)
Theorem C09_fragment_other_services : forall s c,
  sc_svc s <> Ftp -> sc_svc s <> Smtp -> in_fragment s c.
Proof.
  intros s c Hf Hs Hu. unfold in_fragment in *.
  assert (finished (h_out (handle s (fuel_for c) c)) = true) as H.
  { destruct (fuel_for_ok c) as [F1 F2].
    destruct s as [sv u v d]; unfold handle in *; cbn [sc_svc sc_udp] in *. destruct sv; try congruence.
    - unfold handle_ntp. pose proof (io_copy_returns (fuel_for c) false c F2).
      destruct (io_copy (fuel_for c) false c); cbn [fst h_out mkH] in *; subst; reflexivity.
    - unfold handle_echo. pose proof (io_copy_returns (fuel_for c) true c F2).
      destruct (io_copy (fuel_for c) true c); cbn [fst h_out mkH] in *; subst; reflexivity.
    - rewrite handle_dummy_returns; auto.
    - apply handle_adb_ends; exact F2.
    - rewrite handle_tftp_returns; auto.
    - rewrite handle_memcached_returns; auto. }
  rewrite Hu in H; discriminate.
Qed.

(* io.Copy (ntp, echo) returns on every connection *)
Theorem C09_copy_returns : forall fuel wr c, (weight c < fuel)%nat -> fst (io_copy fuel wr c) = Returned.
Proof. exact io_copy_returns. Qed.

(* the bufio-based handlers return on every connection *)
Theorem C09_terminates_dummy : forall fuel c, (weight c + 3 <= fuel)%nat -> h_out (handle_dummy fuel c) = Returned.
Proof. exact handle_dummy_returns. Qed.
Theorem C09_terminates_tftp : forall fuel c, (weight c + 3 <= fuel)%nat -> h_out (handle_tftp fuel c) = Returned.
Proof. exact handle_tftp_returns. Qed.
Theorem C09_terminates_memcached : forall udp fuel c,
  (weight c + 3 <= fuel)%nat -> h_out (handle_memcached udp fuel c) = Returned.
Proof. exact handle_memcached_returns. Qed.

(* adb finishes: returns, or panics on a timeout / short packet and is recovered *)
Theorem C09_terminates_adb : forall fuel c, (weight c < fuel)%nat -> finished (h_out (handle_adb fuel c)) = true.
Proof. exact handle_adb_ends. Qed.

(* ftp: the control loop returns, panics (PASV on an IPv6 local address; recovered) or the
   dialogue leaves the modelled command set - it neither spins nor waits for ever *)
Theorem C09_terminates_ftp : forall v6 dial fuel c,
  (weight c + 3 <= fuel)%nat -> ftp_end (h_out (handle_ftp v6 dial fuel c)).
Proof. exact handle_ftp_ends. Qed.

(* smtp returns (or the dialogue leaves the modelled fragment) *)
Theorem C09_terminates_smtp : forall fuel c,
  (weight c + 3 <= fuel)%nat -> smtp_end (h_out (handle_smtp fuel c)).
Proof. exact handle_smtp_ends. Qed.

(* idle deadlines waited out: at most one for the io.Copy handlers, dummy and ftp's control
   loop, for any fuel *)
Theorem C09_one_deadline_copy : forall fuel wr c,
  (m_timeouts (c_m (snd (io_copy fuel wr c))) <= m_timeouts (c_m c) + 1)%N.
Proof. exact io_copy_one_deadline. Qed.
Theorem C09_one_deadline_dummy : forall fuel c,
  (m_timeouts (c_m (h_conn (handle_dummy fuel c))) <= m_timeouts (c_m c) + 1)%N.
Proof. exact handle_dummy_one_deadline. Qed.
Theorem C09_one_deadline_ftp : forall v6 dial fuel c,
  (m_timeouts (c_m (h_conn (handle_ftp v6 dial fuel c))) <= m_timeouts (c_m c) + 1)%N.
Proof. exact handle_ftp_one_deadline. Qed.

(* the write side.  Every Write through server.TimeoutConn comes back, at the cost of at most
   one write deadline, and only if the peer did not take the bytes *)
Theorem C09_write_one_deadline : forall c k,
  (m_wtimeouts (c_m (fst (cwrite_e c k))) <= m_wtimeouts (c_m c) + 1)%N /\
  (snd (cwrite_e c k) = true -> m_wtimeouts (c_m (fst (cwrite_e c k))) = m_wtimeouts (c_m c)).
Proof. exact cwrite_e_deadline. Qed.

(* handlers that answer through a bufio.Writer (ftp control connection, smtp) wait out at most
   ONE write deadline per writer: after the first failed Flush nothing reaches the connection *)
Theorem C09_buffered_writer_one_deadline : forall c k,
  (c_wdead c = true -> swrite c k = c) /\
  (m_wtimeouts (c_m (swrite c k)) <= m_wtimeouts (c_m c) + 1)%N /\
  (m_wtimeouts (c_m (swrite c k)) = m_wtimeouts (c_m c) + 1 -> c_wdead (swrite c k) = true)%N.
Proof. exact swrite_once. Qed.

(* ssh-simulator: the loop that decodes the payload of env / exec channel requests ends for
   EVERY payload - every truncation point, stray tails, absurd lengths - within length+1 rounds,
   and makes nothing up *)
Theorem C09_ssh_payload_loop_ends : forall data, exists l, ssh_decode data = Some l.
Proof. exact ssh_decode_total. Qed.

Theorem C09_ssh_payload_sound : forall fuel data acc l,
  ssh_strings fuel data acc = Some l ->
  (length (concat l) + 4 * length l <= length (concat acc) + 4 * length acc + length data)%nat.
Proof. exact ssh_strings_sound. Qed.

(* ipp: the two loops that walk the attribute groups of a request body end for EVERY body, cut
   at any position - exactly at a group boundary included - within (bytes left + 3) rounds,
   whatever the value decoders do as long as they keep the data, never move the offset back or
   past the end, and never clear the decoder's error *)
Theorem C09_ipp_group_loops_end : forall (vdecode : N -> idec -> idec),
  (forall t d, i_data (vdecode t d) = i_data d) ->
  (forall t d, (i_off d <= length (i_data d))%nat ->
               (i_off d <= i_off (vdecode t d) <= length (i_data d))%nat) ->
  (forall t d, i_err d = true -> i_err (vdecode t d) = true) ->
  forall fuel d, (i_off d <= length (i_data d))%nat ->
                 (length (i_data d) - i_off d + 3 <= fuel)%nat ->
  ipp_groups vdecode fuel d <> IFuel.
Proof. exact ipp_groups_ends. Qed.

(* ftp resources: the counters kept by the model (spawned minus released on every path) are at
   every step exactly what the data socket in hand accounts for plus the pump; so a returning
   control loop holds nothing, and the recovered panic holds exactly one unconnected passive
   socket (Accept goroutine + listener), which is on its 30 s Accept deadline *)
Theorem C09_released_ftp : forall v6 dial fuel c,
  let h := handle_ftp v6 dial fuel c in
  finished (h_out h) = true -> h_res h = res0 /\ h_late h = res0.
Proof. exact handle_ftp_res. Qed.

(* every other service holds nothing when Handle is over, for any fuel and connection *)
Theorem C09_released_other_services : forall s fuel c,
  sc_svc s <> Ftp -> h_res (handle s fuel c) = res0 /\ h_late (handle s fuel c) = res0.
Proof. exact handle_other_res. Qed.

(* histories *)
Theorem C09_history_additive : forall s a b, history s (a ++ b) = res_add (history s a) (history s b).
Proof. exact history_app. Qed.

(* N connections of the same kind: slope 0, for all N *)
Theorem C09_history_flat : forall s c n, in_fragment s c -> history s (repeat c n) = res0.
Proof. exact history_repeat_zero. Qed.

(* ---- vnc update-request queue (the service itself is only observed, part "sweep") ---- *)

(* the send selects on 'pusher gone' (repo commit 6a3f962; [fixed] = true is the code):
   serve() never waits for ever: for every number of buffered requests, queue filling, pusher
   state and schedule of the pusher *)
Theorem C09_vnc_queue_never_blocks_with_fix : forall sched reqs q p,
  serve_queue true sched reqs q p <> QBlocked.
Proof. exact serve_queue_fixed_never_blocks. Qed.

(* the witness replayed on the implementation (sweep, vnc scenario 5): the pusher takes the
   first request and gives up; 129 pipelined requests still fit, at the 130th serve() sees that
   the pusher is gone and ends (before the fix it waited for ever) *)
Example C09_vnc_queue_130 :
  let sched := [mkPact 0 false; mkPact 1 true] in
  serve_queue true sched 129 0 PAlive = QDone 128 PGone /\
  serve_queue true sched 130 0 PAlive = QFailed.
Proof. vm_compute. repeat split; reflexivity. Qed.

(* ---- non-vacuity and the former witnesses, now as positive examples ---- *)

Definition str_USER := [85;83;69;82;32;97;110;111;110;121;109;111;117;115;13;10]%N.
Definition str_PASS := [80;65;83;83;32;97;110;111;110;121;109;111;117;115;13;10]%N.
Definition str_PASV := [80;65;83;86;13;10]%N.
Definition str_LIST := [76;73;83;84;13;10]%N.
Definition str_QUIT := [81;85;73;84;13;10]%N.

(* PASV never connected to, then LIST, then close: one passive-socket timeout is waited out,
   then the handler returns and holds nothing *)
Example C09_ftp_passive_wait_now_returns :
  let c := mkConn [str_USER; str_PASS; str_PASV; str_LIST] TEof m0 in
  let '(o, s, _) := handle_ftp_st false DialNone (fuel_for c) c in
  o = Returned /\ f_pwaits s = 1%N /\
  h_res (handle (mkScn Ftp false false DialNone) (fuel_for c) c) = res0.
Proof. vm_compute. repeat split; reflexivity. Qed.

(* three PASV in a row, never connected to, client goes silent: everything is released *)
Example C09_ftp_replaced_sockets_released :
  let c := mkConn [str_USER; str_PASS; str_PASV; str_PASV; str_PASV] TTimeout m0 in
  let h := handle (mkScn Ftp false false DialNone) (fuel_for c) c in
  in_fragment (mkScn Ftp false false DialNone) c /\ h_out h = Returned /\ h_res h = res0 /\
  m_timeouts (c_m (h_conn h)) = 1%N.
Proof. split; [unfold in_fragment; vm_compute; discriminate|vm_compute; repeat split; reflexivity]. Qed.

(* PASV on an IPv6 local address: recovered panic; the socket opened just before is closed by the
   deferred Close (before c799f65 it was left to its 30 s Accept deadline) *)
Example C09_ftp_ipv6_pasv_panic :
  let c := mkConn [str_USER; str_PASS; str_PASV] TEof m0 in
  let h := handle (mkScn Ftp false true DialNone) (fuel_for c) c in
  h_out h = Panicked /\ h_res h = res0.
Proof. vm_compute. repeat split; reflexivity. Qed.

(* datagrams (the consumed datagram ends the stream): ntp, echo, adb CNXN, memcached store
   command announcing more than the datagram holds - all return *)
Example C09_datagram_witnesses_now_return :
  let d1 := [27;0;0;0]%N in
  let d2 := (s_CNXN ++ repeat 0 20)%N in
  let d3 := ([0;1;0;0;0;1;0;0] ++ [115;101;116;32;107;32;48;32;48;32;57;13;10])%N in
  (* the zero-length datagram: no segment at all, the stream is at its end at once *)
  h_out (handle (mkScn Ntp true false DialNone) (fuel_for (mkConn [] TEof m0)) (mkConn [] TEof m0)) = Returned /\
  m_reads (c_m (h_conn (handle (mkScn Ntp true false DialNone) (fuel_for (mkConn [] TEof m0)) (mkConn [] TEof m0)))) = 1%N /\
  h_out (handle (mkScn Ntp true false DialNone) (fuel_for (mkConn [d1] TEof m0)) (mkConn [d1] TEof m0)) = Returned /\
  h_out (handle (mkScn Echo true false DialNone) (fuel_for (mkConn [d1] TEof m0)) (mkConn [d1] TEof m0)) = Returned /\
  h_out (handle (mkScn Adb true false DialNone) (fuel_for (mkConn [d2] TEof m0)) (mkConn [d2] TEof m0)) = Returned /\
  h_out (handle (mkScn Memcached true false DialNone) (fuel_for (mkConn [d3] TEof m0)) (mkConn [d3] TEof m0)) = Returned.
Proof. vm_compute. repeat split; reflexivity. Qed.

(* a peer that reads nothing and holds the connection open: echo gives up after one write
   deadline; dummy (which ignores Write errors) waits one per line and then the idle deadline;
   ftp's buffered control writer waits once, for the banner, and drops every later reply *)
Example C09_peer_stops_reading :
  let stalled segs := mkConn5 segs TTimeout m0 (Some 0%N) false in
  let run s c := let h := handle s (fuel_for c) c in (h_out h, m_wtimeouts (c_m (h_conn h)), m_timeouts (c_m (h_conn h))) in
  run (mkScn Echo false false DialNone) (stalled [[104;105]%N; [33]%N]) = (Returned, 1%N, 0%N) /\
  run (mkScn Dummy false false DialNone) (stalled [[97;10;98;10;99;10]%N]) = (Returned, 3%N, 1%N) /\
  run (mkScn Ftp false false DialNone) (stalled [str_USER; str_PASS; str_PASV; str_QUIT]) = (Returned, 1%N, 0%N).
Proof. vm_compute. repeat split; reflexivity. Qed.

(* ssh env payloads: two strings; cut inside the second length prefix; three stray bytes *)
Example C09_ssh_payload_examples :
  ssh_decode [0;0;0;1;65;0;0;0;2;66;67]%N = Some [[65]%N; [66;67]%N] /\
  ssh_decode [0;0;0;1;65;0;0]%N = Some [[65]%N] /\
  ssh_decode [0;0;0]%N = Some [] /\
  ssh_decode [255;255;255;255;1]%N = Some [].
Proof. vm_compute. repeat split; reflexivity. Qed.

(* smtp, silence in the middle of a command: the partial line is taken as a command after the
   first idle deadline, the error only shows after a second one; nothing is held *)
Example C09_smtp_two_deadlines :
  let c := mkConn [[72;69;76;79;32;120;13;10]%N; [78;79;79]%N] TTimeout m0 in
  let h := handle (mkScn Smtp false false DialNone) (fuel_for c) c in
  h_out h = Returned /\ m_timeouts (c_m (h_conn h)) = 2%N /\ h_res h = res0.
Proof. vm_compute. repeat split; reflexivity. Qed.

(* memcached, silence inside the data block of a store command: ReadFull, Discard and the
   next ReadBytes each wait out a deadline of their own *)
Example C09_memcached_three_deadlines :
  let c := mkConn [[115;101;116;32;107;32;48;32;48;32;57;13;10;97]%N] TTimeout m0 in
  let h := handle (mkScn Memcached false false DialNone) (fuel_for c) c in
  h_out h = Returned /\ m_timeouts (c_m (h_conn h)) = 3%N.
Proof. vm_compute. split; reflexivity. Qed.

(* sessions that end in a recovered panic release everything: smtp BDAT without a chunk size,
   ftp PORT with two fields, and - the regression witness of c799f65 - PORT 1,2 after PASV and a
   client that connected (the accepted data connection used to stay); replayed by the corpus *)
Example C09_recovered_panics :
  let port12 := [80;79;82;84;32;49;44;50;13;10]%N in
  let smtp_c := mkConn [[72;69;76;79;32;120;13;10]%N; [77;65;73;76;32;70;82;79;77;58;60;97;64;98;62;13;10]%N; [66;68;65;84;13;10]%N] TEof m0 in
  let ftp_c := mkConn [str_USER; str_PASS; port12] TEof m0 in
  let ftp_k := mkConn [str_USER; str_PASS; str_PASV; port12] TEof m0 in
  let run s c := let h := handle s (fuel_for c) c in (h_out h, h_res h) in
  run (mkScn Smtp false false DialNone) smtp_c = (Panicked, res0) /\
  run (mkScn Ftp false false DialNone) ftp_c = (Panicked, res0) /\
  run (mkScn Ftp false false DialKnock) ftp_k = (Panicked, res0) /\
  run (mkScn Ftp false false DialNone) ftp_k = (Panicked, res0).
Proof. vm_compute. repeat split; reflexivity. Qed.

(* ipp bodies (after the 8-byte header) that end exactly at a group boundary: one group tag and
   nothing else; an empty body; a complete one.  The value decoder here skips a 2-byte value. *)
Example C09_ipp_cut_at_group_boundary :
  let vd := fun (_ : N) (d : idec) =>
              if (i_off d + 2 <=? length (i_data d))%nat then mkD (i_data d) (i_off d + 2) (i_err d)
              else mkD (i_data d) (i_off d) true in
  (exists d, ipp_groups vd 10 (mkD [1]%N 0 false) = IErr d) /\
  (exists d, ipp_groups vd 10 (mkD [] 0 false) = IErr d) /\
  (exists d, ipp_groups vd 10 (mkD [1;68;0;0;2;3]%N 0 false) = IOk d).
Proof. cbv zeta. repeat split; eexists; vm_compute; reflexivity. Qed.

(* the fragment hypothesis is not vacuous for ftp/smtp, and it does exclude something *)
Example C09_fragment_nonvacuous :
  in_fragment (mkScn Smtp false false DialNone) (mkConn [[72;69;76;79;32;120;13;10]%N] TEof m0) /\
  ~ in_fragment (mkScn Ftp false false DialNone) (mkConn [[82;69;84;82;32;120;13;10]%N] TEof m0).
Proof. unfold in_fragment; split; vm_compute; [discriminate|intros H; apply H; reflexivity]. Qed.

(* ------------------------------------------------------------------ *)
(* Datagrams that sit exactly on a buffer boundary.  The relaying services (copy, dns-proxy)
   collect their datagram with
       for n < len(buff) { k, err := conn.Read(buff[n:]); n += k; if err != nil { break } }
   from listener.DummyUDPConn - possibly behind the server's peek wrapper, which hands the
   datagram out in pieces - whose Read answers (0, nil), not end of stream, when it is given an
   EMPTY slice ([dg_read]).  For ALL buffer sizes b >= 1, ALL datagrams (any length l, also
   l = b and l > b) and ALL ways the datagram is cut into pieces, the loop ends - with the first
   min(l, b) bytes - after at most l + pieces + 1 Reads and at most b + pieces + 1 Reads. *)
Theorem C09_dgram_fill_loop_ends :
  forall (b : nat) (c : dgconn) (fuel : nat),
    (1 <= b)%nat -> (dg_weight c + 2 <= fuel)%nat ->
    exists r, dg_loop true fuel b [] c 0 = Some (firstn (min (length (concat c)) b) (concat c), r) /\
              (r <= length (concat c) + length c + 1)%nat /\ (r <= b + length c + 1)%nat.
Proof.
  intros b c fuel Hb Hf.
  destruct (dg_loop_bounded_ends fuel b [] c 0) as (r & Hr & _ & H2 & H3); [cbn; lia|exact Hf|].
  exists r. cbn [app length] in *. unfold dg_weight in H2.
  replace (firstn (min (length (concat c)) b) (concat c)) with (firstn b (concat c)).
  - repeat split; [exact Hr|lia|lia].
  - destruct (Nat.le_ge_cases (length (concat c)) b).
    + rewrite Nat.min_l by lia. now rewrite !firstn_all2 by lia.
    + now rewrite Nat.min_r by lia.
Qed.

(* one datagram as the socket listener hands it over (one piece; none for a zero-length one):
   ONE Read when it fills the buffer exactly or is longer, two when it is shorter - the exact
   figures the correspondence run compares with the Read calls of the real handlers *)
Theorem C09_dgram_one_datagram_reads :
  forall (b : nat) (d : bytes) (f : nat),
    (1 <= b)%nat ->
    dg_loop true (S (S f)) b [] (dg_of d) 0 =
    Some (firstn b d, match d with [] => 1 | _ => if (length d <? b)%nat then 2 else 1 end)%nat.
Proof. exact dg_loop_one_datagram. Qed.

(* the same loop without its condition ("for { ... }", relying on the connection to report
   its end) is the same function on every datagram shorter than the buffer ... *)
Theorem C09_dgram_bare_loop_same_below_fill :
  forall (b : nat) (c : dgconn) (fuel : nat),
    (length (concat c) < b)%nat ->
    dg_loop false fuel b [] c 0 = dg_loop true fuel b [] c 0.
Proof. intros; apply dg_loop_bare_same; cbn [length]; lia. Qed.

(* ... and never ends on a datagram that fills the buffer: seeded change C09-g2 (buffer
   65535 -> 65507 = the largest IPv4 datagram, loop condition dropped), kept as the witness
   of the class; found by the size-boundary family of part 'dgram' *)
Theorem C09_dgram_bare_loop_never_ends_on_fill :
  forall (b : nat) (c : dgconn) (fuel : nat),
    (b <= length (concat c))%nat -> dg_loop false fuel b [] c 0 = None.
Proof. intros; apply dg_loop_bare_spins; cbn [length]; lia. Qed.

Example C09_dgram_bare_loop_refuted :
  forall fuel, dg_loop false fuel (N.to_nat 65507) [] [repeat 0%N (N.to_nat 65507)] 0 = None.
Proof.
  intros fuel; apply C09_dgram_bare_loop_never_ends_on_fill.
  cbn [concat]; rewrite app_nil_r, repeat_length; lia.
Qed.

(* non-vacuity: exact fill, one byte less, one byte more, a peeked datagram, a zero-length one;
   the bare loop on the exact fill, with plenty of fuel *)
Example C09_dgram_loop_examples :
  dg_loop true 10 4 [] [[1;2;3;4]%N] 0 = Some ([1;2;3;4]%N, 1%nat) /\
  dg_loop true 10 4 [] [[1;2;3]%N] 0 = Some ([1;2;3]%N, 2%nat) /\
  dg_loop true 10 4 [] [[1;2;3;4;5]%N] 0 = Some ([1;2;3;4]%N, 1%nat) /\
  dg_loop true 10 4 [] [[1;2]%N; [3;4]%N] 0 = Some ([1;2;3;4]%N, 2%nat) /\
  dg_loop true 10 4 [] [] 0 = Some ([], 1%nat) /\
  dg_loop false 1000 4 [] [[1;2;3;4]%N] 0 = None /\
  dg_loop false 10 4 [] [[1;2;3]%N] 0 = Some ([1;2;3]%N, 2%nat) /\
  dg_relay [7;7;7]%N = Some ([7;7;7]%N, 2%nat).
Proof. vm_compute. repeat split; reflexivity. Qed.

Print Assumptions C09_terminates.
Print Assumptions C09_released.
Print Assumptions C09_history_flat_all.
Print Assumptions C09_full_holds.
Print Assumptions C09_fragment_other_services.
Print Assumptions C09_copy_returns.
Print Assumptions C09_terminates_dummy.
Print Assumptions C09_terminates_tftp.
Print Assumptions C09_terminates_memcached.
Print Assumptions C09_terminates_adb.
Print Assumptions C09_terminates_ftp.
Print Assumptions C09_terminates_smtp.
Print Assumptions C09_one_deadline_copy.
Print Assumptions C09_one_deadline_dummy.
Print Assumptions C09_one_deadline_ftp.
Print Assumptions C09_write_one_deadline.
Print Assumptions C09_buffered_writer_one_deadline.
Print Assumptions C09_ssh_payload_loop_ends.
Print Assumptions C09_ssh_payload_sound.
Print Assumptions C09_ipp_group_loops_end.
Print Assumptions C09_released_ftp.
Print Assumptions C09_released_other_services.
Print Assumptions C09_history_additive.
Print Assumptions C09_history_flat.
Print Assumptions C09_vnc_queue_never_blocks_with_fix.
Print Assumptions C09_dgram_fill_loop_ends.
Print Assumptions C09_dgram_one_datagram_reads.
Print Assumptions C09_dgram_bare_loop_same_below_fill.
Print Assumptions C09_dgram_bare_loop_never_ends_on_fill.
