(* C09 - property theorems (stub). *)
From HT Require Import Common.Bytes C09.Model C09.Check C09.Proofs.
Open Scope Z_scope.
