(* C09 - handlers finish and release everything once the peer is gone: theorems.

   The statement of the property on the model: for every service scenario [s] and every
   connection [c] (pending segments, then client close / drained datagram wrapper /
   silence), the handler finishes - with the explicit fuel bound [fuel_for c], linear
   in the input - and holds nothing afterwards. *)
From HT Require Import Common.Bytes C09.Model C09.Check C09.Proofs.
Open Scope Z_scope.

Definition finishes (s : scn) (c : conn) : Prop := finished (h_out (handle s (fuel_for c) c)) = true.
Definition releases (s : scn) (c : conn) : Prop := h_res (handle s (fuel_for c) c) = res0.
Definition C09_full : Prop := forall s c, finishes s c /\ releases s c.

(* ---- the unchanged code violates it; the classes of violations ---- *)

(* io.Copy over the drained datagram wrapper never ends, for any amount of fuel *)
Theorem C09_copy_on_drained_datagram_never_returns : forall fuel wr c,
  c_term c = TZero -> fst (io_copy fuel wr c) = OutOfFuel.
Proof. exact io_copy_zero_spins. Qed.

(* ntp and echo on a datagram port: refuted for EVERY datagram; each unit of fuel is one more Read *)
Theorem C09_terminates_ntp_echo_datagram_refuted : forall s fuel c,
  copy_svc (sc_svc s) = true -> c_term c = TZero ->
  h_out (handle s fuel c) = OutOfFuel /\
  m_reads (c_m (h_conn (handle s fuel c))) = (m_reads (c_m c) + N.of_nat fuel)%N.
Proof. exact handle_copy_spins. Qed.

(* adb on a datagram port: a datagram that starts with CNXN and carries a full header makes
   the handler answer for ever: at least one 24-byte packet per unit of fuel *)
Theorem C09_terminates_adb_datagram_refuted : forall fuel d m,
  starts_with s_CNXN d = true -> (24 <= length d)%nat -> (length d <= ADBSZ)%nat ->
  h_out (handle_adb fuel (mkConn [d] TZero m)) = OutOfFuel /\
  (N.of_nat fuel <= m_writes (c_m (h_conn (handle_adb fuel (mkConn [d] TZero m)))))%N.
Proof. exact handle_adb_datagram_flood. Qed.

(* memcached on a datagram port (since the data block of a store command is read with
   io.ReadFull): ReadFull over bufio over the drained wrapper never ends while bytes are
   missing - a store command announcing more bytes than the datagram holds *)
Theorem C09_readfull_on_drained_datagram_never_returns : forall fuel want got b,
  b_buf b = [] -> b_err b = ENone -> c_segs (b_c b) = [] -> c_term (b_c b) = TZero ->
  (got < want)%nat -> read_full fuel want got b = None.
Proof. exact read_full_drained_zero. Qed.

(* ftp holds on to its pump goroutine after every connection whatsoever, never gives a
   listener back, and descriptors never fall below listeners *)
Theorem C09_released_ftp_refuted : forall v6 dial fuel c,
  let r := h_res (handle_ftp v6 dial fuel c) in 1 <= r_gor r /\ 0 <= r_lis r /\ r_lis r <= r_fds r.
Proof. exact handle_ftp_keeps. Qed.

(* smtp: exactly one goroutine per connection, whatever was said on it *)
Theorem C09_released_smtp_refuted : forall fuel c, h_res (handle_smtp fuel c) = mkRes 1 0 0.
Proof. exact handle_smtp_res. Qed.

Theorem C09_full_refuted : ~ C09_full.
Proof.
  intros H. destruct (H (mkScn Smtp false false DialNone) (mkConn [] TEof m0)) as [_ Hr].
  unfold releases, handle in Hr; cbn [sc_svc] in Hr. rewrite handle_smtp_res in Hr. discriminate.
Qed.

(* ---- and holds everywhere else ---- *)

(* outside the finding classes (ntp/echo/adb/memcached behind the datagram wrapper; ftp; smtp) every
   handler finishes within [fuel_for c] and releases everything *)
Theorem C09_outside_findings : forall s c, ~ finding_class s c -> finishes s c /\ releases s c.
Proof. exact outside_findings. Qed.

(* stream connections, closed or silent: io.Copy-based handlers return, after waiting out
   at most one idle deadline *)
Theorem C09_terminates_ntp_echo_stream : forall s c,
  copy_svc (sc_svc s) = true -> c_term c <> TZero ->
  h_out (handle s (fuel_for c) c) = Returned /\
  (m_timeouts (c_m (h_conn (handle s (fuel_for c) c))) <= m_timeouts (c_m c) + 1)%N.
Proof. exact handle_copy_returns. Qed.

(* bufio-based handlers return on EVERY connection end, the drained datagram wrapper
   included *)
Theorem C09_terminates_bufio_services : forall s c,
  bufio_svc (sc_svc s) = true -> h_out (handle s (fuel_for c) c) = Returned.
Proof. exact handle_bufio_returns. Qed.

(* memcached returns on every stream connection (closed or silent) *)
Theorem C09_terminates_memcached_stream : forall s c,
  sc_svc s = Memcached -> c_term c <> TZero -> h_out (handle s (fuel_for c) c) = Returned.
Proof. exact handle_memcached_scn_returns. Qed.

(* ... because of the cut-off in bufio's fill: exactly [i] empty reads, then ErrNoProgress *)
Theorem C09_bufio_cutoff : forall i buf c,
  c_segs c = [] -> c_term c = TZero ->
  exists c', fill_loop i buf c = (buf, ENoProgress, c') /\ c_segs c' = [] /\ c_term c' = TZero /\
             m_zero (c_m c') = (m_zero (c_m c) + N.of_nat i)%N /\
             m_reads (c_m c') = (m_reads (c_m c) + N.of_nat i)%N.
Proof. exact fill_loop_drained_zero. Qed.

(* adb on stream connections finishes (returns, or panics on a timeout / short packet and
   is recovered by server.handle) *)
Theorem C09_terminates_adb_stream : forall fuel c,
  c_term c <> TZero -> (weight c < fuel)%nat -> finished (h_out (handle_adb fuel c)) = true.
Proof. exact handle_adb_ends. Qed.

(* ftp and smtp never spin, on any connection end: ftp returns, panics (recovered) or blocks
   in a data command; smtp returns (or the dialogue leaves the modelled fragment) *)
Theorem C09_ftp_never_spins : forall s c,
  sc_svc s = Ftp -> h_out (handle s (fuel_for c) c) <> OutOfFuel.
Proof. exact handle_ftp_scn_ends. Qed.

Theorem C09_terminates_smtp : forall s c,
  sc_svc s = Smtp ->
  (h_out (handle s (fuel_for c) c) = Returned \/ h_out (handle s (fuel_for c) c) = Unmodelled) /\
  h_res (handle s (fuel_for c) c) = mkRes 1 0 0.
Proof. exact handle_smtp_scn_ends. Qed.

(* the line-loop handlers wait out at most ONE idle deadline on any connection, with any
   fuel: the first Read that times out ends dummy's loop and ftp's control loop *)
Theorem C09_one_deadline_dummy : forall fuel c,
  (m_timeouts (c_m (h_conn (handle_dummy fuel c))) <= m_timeouts (c_m c) + 1)%N.
Proof. exact handle_dummy_one_deadline. Qed.

Theorem C09_one_deadline_ftp : forall v6 dial fuel c,
  (m_timeouts (c_m (h_conn (handle_ftp v6 dial fuel c))) <= m_timeouts (c_m c) + 1)%N.
Proof. exact handle_ftp_one_deadline. Qed.

(* nothing is kept by the other services, for any fuel and connection *)
Theorem C09_released_clean_services : forall s fuel c,
  clean_svc (sc_svc s) = true -> h_res (handle s fuel c) = res0.
Proof. exact handle_clean_res. Qed.

(* ---- histories of sequential connections ---- *)

Theorem C09_history_additive : forall s a b, history s (a ++ b) = res_add (history s a) (history s b).
Proof. exact history_app. Qed.

(* N connections of the same kind hold N times what one holds: the slope the harness measures *)
Theorem C09_history_flat : forall s c n,
  history s (repeat c n) = res_scale (Z.of_nat n) (h_res (handle s (fuel_for c) c)).
Proof. exact history_repeat. Qed.

(* any history at all leaves a clean service as it was *)
Theorem C09_history_clean_services : forall s cs, clean_svc (sc_svc s) = true -> history s cs = res0.
Proof. exact history_clean. Qed.

Theorem C09_history_smtp_grows : forall u v6 d cs,
  history (mkScn Smtp u v6 d) cs = mkRes (Z.of_nat (length cs)) 0 0.
Proof. exact history_smtp. Qed.

Theorem C09_history_ftp_grows : forall u v6 d cs,
  let r := history (mkScn Ftp u v6 d) cs in
  Z.of_nat (length cs) <= r_gor r /\ 0 <= r_lis r /\ r_lis r <= r_fds r.
Proof. exact history_ftp. Qed.

(* ---- non-vacuity and concrete witnesses (replayed on the implementation by the corpus) ---- *)

Definition str_USER := [85;83;69;82;32;97;110;111;110;121;109;111;117;115;13;10]%N.
Definition str_PASS := [80;65;83;83;32;97;110;111;110;121;109;111;117;115;13;10]%N.
Definition str_PASV := [80;65;83;86;13;10]%N.
Definition str_LIST := [76;73;83;84;13;10]%N.
Definition str_QUIT := [81;85;73;84;13;10]%N.

(* PASV never connected to, then LIST: the handler blocks for ever with the pump, the accept
   goroutine, itself, one listener and the directory handle *)
Example C09_ftp_passive_wait_witness :
  let c := mkConn [str_USER; str_PASS; str_PASV; str_LIST] TEof m0 in
  let h := handle (mkScn Ftp false false DialNone) (fuel_for c) c in
  h_out h = Blocked /\ h_res h = mkRes 3 1 2.
Proof. vm_compute. split; reflexivity. Qed.

(* PASV, QUIT, client never connects: one listener and two goroutines stay behind; ten such
   connections leave ten listeners and twenty goroutines *)
Example C09_ftp_listener_witness :
  let c := mkConn [str_USER; str_PASS; str_PASV; str_QUIT] TEof m0 in
  let s := mkScn Ftp false false DialNone in
  h_out (handle s (fuel_for c) c) = Returned /\
  history s (repeat c 10) = mkRes 20 10 10.
Proof. vm_compute. split; reflexivity. Qed.

(* a closed stream to a clean bufio service: hypotheses of the positive theorems are met *)
Example C09_nonvacuous_dummy :
  let c := mkConn [[97;98;10;99]%N] TZero m0 in
  ~ finding_class (mkScn Dummy true false DialNone) c /\
  h_out (handle (mkScn Dummy true false DialNone) (fuel_for c) c) = Returned /\
  m_zero (c_m (h_conn (handle (mkScn Dummy true false DialNone) (fuel_for c) c))) = 100%N.
Proof.
  split.
  - unfold finding_class; cbn. intros [[_ [H|[H|[H|H]]]]|[H|H]]; discriminate.
  - vm_compute. split; reflexivity.
Qed.

(* memcached datagram: 8-byte frame header, "set k 0 0 9", no data block: still reading when
   the fuel that suffices for every terminating run is spent; other datagrams are fine *)
Example C09_memcached_store_spin_witness :
  let d := ([0;1;0;0;0;1;0;0] ++ [115;101;116;32;107;32;48;32;48;32;57;13;10])%N in
  let s := mkScn Memcached true false DialNone in
  h_out (handle s (fuel_for (mkConn [d] TZero m0)) (mkConn [d] TZero m0)) = OutOfFuel /\
  h_out (handle s (1000 + fuel_for (mkConn [d] TZero m0)) (mkConn [d] TZero m0)) = OutOfFuel /\
  h_out (handle s (fuel_for (mkConn [d] TEof m0)) (mkConn [d] TEof m0)) = Returned.
Proof. vm_compute. repeat split; reflexivity. Qed.

(* smtp, silence in the middle of a command: the partial line is taken as a command after the
   first idle deadline, the error only shows after a second one *)
Example C09_smtp_two_deadlines :
  let c := mkConn [[72;69;76;79;32;120;13;10]%N; [78;79;79]%N] TTimeout m0 in
  let h := handle (mkScn Smtp false false DialNone) (fuel_for c) c in
  h_out h = Returned /\ m_timeouts (c_m (h_conn h)) = 2%N.
Proof. vm_compute. split; reflexivity. Qed.

(* memcached, silence inside the data block of a store command: ReadFull, Discard and the
   next ReadBytes each wait out a deadline of their own *)
Example C09_memcached_three_deadlines :
  let c := mkConn [[115;101;116;32;107;32;48;32;48;32;57;13;10;97]%N] TTimeout m0 in
  let h := handle (mkScn Memcached false false DialNone) (fuel_for c) c in
  h_out h = Returned /\ m_timeouts (c_m (h_conn h)) = 3%N.
Proof. vm_compute. split; reflexivity. Qed.

Example C09_adb_flood_hypotheses :
  let d := (s_CNXN ++ repeat 0 20)%N in
  starts_with s_CNXN d = true /\ (24 <= length d)%nat /\ (length d <= ADBSZ)%nat.
Proof. cbv zeta. split; [vm_compute; reflexivity|]. split; apply Nat.leb_le; vm_compute; reflexivity. Qed.

Print Assumptions C09_copy_on_drained_datagram_never_returns.
Print Assumptions C09_terminates_ntp_echo_datagram_refuted.
Print Assumptions C09_terminates_adb_datagram_refuted.
Print Assumptions C09_readfull_on_drained_datagram_never_returns.
Print Assumptions C09_released_ftp_refuted.
Print Assumptions C09_released_smtp_refuted.
Print Assumptions C09_full_refuted.
Print Assumptions C09_outside_findings.
Print Assumptions C09_terminates_ntp_echo_stream.
Print Assumptions C09_terminates_bufio_services.
Print Assumptions C09_terminates_memcached_stream.
Print Assumptions C09_bufio_cutoff.
Print Assumptions C09_terminates_adb_stream.
Print Assumptions C09_ftp_never_spins.
Print Assumptions C09_terminates_smtp.
Print Assumptions C09_one_deadline_dummy.
Print Assumptions C09_one_deadline_ftp.
Print Assumptions C09_released_clean_services.
Print Assumptions C09_history_additive.
Print Assumptions C09_history_flat.
Print Assumptions C09_history_clean_services.
Print Assumptions C09_history_smtp_grows.
Print Assumptions C09_history_ftp_grows.
