(* C09, part "sweep" - services and code paths of C01 that have no full model:
   vnc (frame pusher and ticker goroutines), ssh-simulator (ssh.DiscardRequests, per-channel
   goroutines, channel-request payload decoding), ipp, and the ftp data channel in every mode
   (passive / active x plain / TLS x peer absent / knocks / holds still x LIST / RETR / STOR).
   The property is judged on the observation alone; the one piece of logic that is modelled -
   the string-list loop over env / exec payloads - is compared with the model.
   One case = one service instance, one client behaviour repeated N times sequentially; per
   connection: how Handle ended and the honeytrap goroutines / listening sockets / descriptors
   above the baseline after it. *)
From HT Require Import Common.Bytes C09.Model.
Open Scope Z_scope.

(* w_out: 0 returned, 1 panicked (recovered), 2 still running and burning CPU, 3 still running and idle *)
Record wobs := mkW { w_out : N; w_gor : Z; w_lis : Z; w_fds : Z }.

Record case := mkSweep {
  w_id : N;
  w_svc : N;            (* 1 vnc, 2 ssh-simulator, 3 ipp, 4 ftp data channel without certificate, 5 with,
                           6 the real server (recovered panics, shared port), 7 redis, 8 ldap, 9 snmp, 10 memcached,
                           11 telnet, 12 dns-proxy/udp, 13 dns-proxy/tcp, 14 copy/udp, 15 copy/tcp, 16 http-proxy/tcp
                           (scenario = backend: 0 refuses, 1 silent, 2 closes, 3 resets, 4 answers),
                           17 tftp uploads, 18 the real server with its socket listener on UDP ports: datagrams
                           of buffer-boundary sizes, one observation per port and one at the end *)
  w_scenario : N;       (* which client behaviour (see the harness) *)
  w_silent : bool;      (* the client goes silent instead of closing *)
  w_n : N;
  w_obs : list wobs;
  w_req : N;                     (* ssh channel request type: 0 none, 1 env, 2 exec, 3 another type *)
  w_payloads : list bytes;       (* request payloads sent, one request each *)
  w_lists : list (list bytes)    (* the string lists the simulator reported for them, in order *)
}.

Definition SIG_NO_RETURN := 7%N.
Definition SIG_GOROUTINES := 8%N.
Definition SIG_LISTENERS := 9%N.
Definition SIG_DESCRIPTORS := 10%N.
(* repaired in /repo (6a3f962), code kept so that a regression is reported under its name:
   vnc: serve() goes on parsing update requests it has already buffered after the frame pusher
   has given up, and waits for ever on the full 128-slot queue (scenario 5: SetPixelFormat
   with true-colour = 0, then 140 update requests in one write) *)
Definition SIG_VNC_QUEUE := 15%N.
(* ftp: an active-mode data connection (PORT) carries no deadline: STOR from a client that
   accepts the connection and then neither sends nor closes waits for ever (scenario 17) *)
Definition SIG_FTP_ACTIVE_NO_DEADLINE := 16%N.

(* ssh-simulator: the shell's line editor spins on a key sequence that fills its 256-byte input
   buffer (scenario 4: shell, ESC + 255 bytes without a final letter) *)
Definition SIG_SSH_KEYSEQ := 18%N.

(* dns-proxy (stream branch) and http-proxy read the backend's reply without any deadline: a
   backend that takes the request and stays silent pins the handler (scenario 1 = silent backend) *)
Definition SIG_PROXY_BACKEND := 19%N.

(* tftp (service 17: whole uploads): the "listeners" slot carries the number of completed uploads
   whose state the service still holds (last block not acknowledged, or a further DATA block
   from the same address still accepted) *)
Definition SIG_TFTP_UPLOAD_KEPT := 20%N.

(* the real server, UDP ports (service 18): a handler goroutine that is still there after the
   bounded wait and burns CPU - it spins on a datagram that has long been consumed *)
Definition SIG_DGRAM_SPIN_DEPLOYED := 21%N.

Definition all_back (k : case) : bool := forallb (fun o => (w_out o <? 2)%N) (w_obs k).

Fixpoint lists_eqb (a b : list (list bytes)) : bool :=
  match a, b with
  | [], [] => true
  | x :: a', y :: b' => (if list_eq_dec (list_eq_dec N.eq_dec) x y then true else false) && lists_eqb a' b'
  | _, _ => false
  end.

Definition model_lists (k : case) : list (list bytes) :=
  map (fun p => match ssh_decode p with Some l => l | None => [] end) (w_payloads k).

(* the model's part: env / exec payloads must have been decoded into exactly the lists the
   model computes; and a history that is not as long as requested although every handler came
   back would be a harness problem *)
Definition mismatches (cs : list case) : list N :=
  map w_id (filter (fun k =>
    all_back k &&
    (negb (length (w_obs k) =? N.to_nat (w_n k))%nat ||
     (((w_req k =? 1) || (w_req k =? 2))%N && negb (lists_eqb (w_lists k) (model_lists k))))) cs).

(* the observation that decides: the first handler that did not come back, else the last one
   (the deltas are cumulative) *)
Definition deciding (k : case) : option wobs :=
  match find (fun o => (2 <=? w_out o)%N) (w_obs k) with
  | Some o => Some o
  | None => last (map Some (w_obs k)) None
  end.

Definition case_sigs (k : case) : list N :=
  match deciding k with
  | None => [SIG_NO_RETURN]
  | Some o =>
      if (2 <=? w_out o)%N then
        [if (w_out o =? 3)%N && (w_svc k =? 1)%N && (w_scenario k =? 5)%N then SIG_VNC_QUEUE
         else if (w_out o =? 3)%N && ((w_svc k =? 4) || (w_svc k =? 5))%N && (w_scenario k =? 17)%N then SIG_FTP_ACTIVE_NO_DEADLINE
         else if (w_out o =? 2)%N && (w_svc k =? 2)%N && (w_scenario k =? 4)%N then SIG_SSH_KEYSEQ
         else if (w_out o =? 3)%N && ((w_svc k =? 13) || (w_svc k =? 16))%N && (w_scenario k =? 1)%N then SIG_PROXY_BACKEND
         else if (w_out o =? 2)%N && (w_svc k =? 18)%N then SIG_DGRAM_SPIN_DEPLOYED
         else SIG_NO_RETURN]
      else (if w_gor o =? 0 then [] else [SIG_GOROUTINES]) ++
           (if w_lis o =? 0 then [] else [if (w_svc k =? 17)%N then SIG_TFTP_UPLOAD_KEPT else SIG_LISTENERS]) ++
           (if (if (w_svc k =? 17)%N then w_fds o else w_fds o - w_lis o) =? 0 then [] else [SIG_DESCRIPTORS])
  end.

Definition violations (cs : list case) : list (N * N) :=
  flat_map (fun k => map (fun s => (w_id k, s)) (case_sigs k)) cs.

Definition tags (cs : list case) : list (N * N) :=
  map (fun k => (w_id k, (w_svc k + (if w_silent k then 8 else 0) + (if (1 <? w_n k) then 16 else 0) +
                          (if (0 <? w_req k) then 32 else 0))%N)) cs.
