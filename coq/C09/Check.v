(* C09 - executable check over observations of the implementation.
   One case = one service instance, one connection behaviour repeated N times
   (sequentially), with what the harness saw on every connection: how Handle ended,
   what it did on the connection (reads, empty reads, idle deadlines waited out,
   writes) and the honeytrap goroutines / listening sockets / descriptors held above
   the baseline right after it. *)
From HT Require Import Common.Bytes C09.Model.
Open Scope Z_scope.

(* o_out: 0 returned, 1 panicked (recovered), 2 still running and burning CPU, 3 still
   running and idle *)
Record obs := mkObs {
  o_out : N;
  o_reads : N; o_zero : N; o_timeouts : N; o_eofs : N; o_writes : N; o_wbytes : N;
  o_wtimeouts : N;       (* Write calls that ended in a timeout: the peer had stopped reading *)
  o_gor : Z; o_lis : Z; o_fds : Z
}.

Record case := mkCase {
  k_id : N;
  k_scn : scn;
  k_segs : list bytes;
  k_term : term;
  k_room : option N;             (* bytes the peer still reads before it stops reading (None: it keeps reading) *)
  k_n : N;                       (* connections requested *)
  k_obs : list obs;              (* connections run (the history stops at a handler that does not return) *)
  k_gc : Z * Z * Z;              (* goroutines, listeners, descriptors after a forced GC (0,0,0 if the history stopped) *)
  k_settled : option (Z * Z * Z) (* the same once one passive-socket timeout has passed; measured only
                                    when a recovered panic left something behind *)
}.

Definition conn_of (k : case) : conn := mkConn5 (k_segs k) (k_term k) m0 (k_room k) false.
Definition pred_of (k : case) : hres := handle (k_scn k) (fuel_for (conn_of k)) (conn_of k).

Definition out_code (o : outcome) : N :=
  match o with Returned => 0 | Panicked => 1 | OutOfFuel => 2 | Blocked => 3 | Unmodelled => 9 end%N.

(* write lengths are modelled for these services only *)
Definition wbytes_modelled (s : svc) : bool :=
  match s with Ftp | Smtp => false | _ => true end.

Definition res_eqb (r : res) (g l f : Z) : bool := (r_gor r =? g) && (r_lis r =? l) && (r_fds r =? f).
Definition triple_eqb (r : res) (t : Z * Z * Z) : bool := let '(g, l, f) := t in res_eqb r g l f.

(* does observation [o] of the j-th connection (j >= 1) agree with the model? *)
Definition obs_agrees (k : case) (h : hres) (j : Z) (o : obs) : bool :=
  let m := c_m (h_conn h) in
  (o_out o =? out_code (h_out h))%N && finished (h_out h) &&
  (o_reads o =? m_reads m)%N && (o_zero o =? m_zero m)%N && (o_timeouts o =? m_timeouts m)%N &&
  (o_eofs o =? m_eofs m)%N && (o_writes o =? m_writes m)%N && (o_wtimeouts o =? m_wtimeouts m)%N &&
  (if wbytes_modelled (sc_svc (k_scn k)) then (o_wbytes o =? m_wbytes m)%N else true) &&
  res_eqb (res_scale j (h_res h)) (o_gor o) (o_lis o) (o_fds o).

Fixpoint all_agree (k : case) (h : hres) (j : Z) (os : list obs) : bool :=
  match os with
  | [] => true
  | o :: r => obs_agrees k h j o && all_agree k h (j + 1) r
  end.

(* right after the history (and a forced GC) N times what one connection leaves is there;
   one passive-socket timeout later only what is on no timer *)
Definition case_agrees (k : case) : bool :=
  let h := pred_of k in
  let n := Z.of_N (k_n k) in
  (length (k_obs k) =? N.to_nat (k_n k))%nat && all_agree k h 1 (k_obs k) &&
  (let '(g, l, _) := k_gc k in (g =? n * r_gor (h_res h)) && (l =? n * r_lis (h_res h))) &&
  match k_settled k with
  | Some t => triple_eqb (res_scale n (kept h)) t
  | None => res_eqb (h_late h) 0 0 0
  end.

Definition mismatches (cs : list case) : list N :=
  map k_id (filter (fun k => negb (case_agrees k)) cs).

(* ---- the property, judged on the observation alone ---- *)
(* "within a bounded time": at most three idle deadlines (smtp needs two when a command is cut
   short, memcached three when the data block of a store command is cut short) *)
Definition MAX_DEADLINES : N := 3.

Definition last_obs (k : case) : option obs := last (map Some (k_obs k)) None.

(* signature codes: 1-6 and 12-14 are the defects repaired in /repo; a regression is
   reported under the old name, with the connection script as replay *)
Definition SIG_SPIN_DRAINED_DATAGRAM := 1%N.  (* ntp / echo on a datagram port: io.Copy on (0, nil) *)
Definition SIG_ADB_DATAGRAM_FLOOD := 2%N.     (* adb: reply loop on (0, nil) *)
Definition SIG_FTP_PASSIVE_WAIT := 3%N.       (* ftp: data command waits for ever for a passive client *)
Definition SIG_FTP_GOROUTINES := 4%N.         (* ftp: event pump / accept goroutine per past connection *)
Definition SIG_FTP_LISTENERS := 5%N.          (* ftp: passive listener never closed *)
Definition SIG_SMTP_GOROUTINE := 6%N.         (* smtp: pump goroutine per connection *)
Definition SIG_NO_RETURN := 7%N.
Definition SIG_GOROUTINES := 8%N.
Definition SIG_LISTENERS := 9%N.
Definition SIG_DESCRIPTORS := 10%N.
Definition SIG_DEADLINES := 11%N.
Definition SIG_FTP_DATA_CONN := 12%N.         (* ftp: accepted data connection forgotten *)
Definition SIG_FTP_DIR_HANDLE := 13%N.        (* ftp: ListDir leaves the directory open *)
Definition SIG_MEMCACHED_STORE_SPIN := 14%N.
Definition SIG_FTP_PANIC_DATA_CONN := 17%N.   (* ftp: a session that ends in a recovered panic keeps its accepted data connection *)  (* memcached: io.ReadFull for a data block the datagram does not hold *)

Definition is_svc (k : case) (s : svc) : bool :=
  match sc_svc (k_scn k), s with
  | Ntp, Ntp | Echo, Echo | Dummy, Dummy | Adb, Adb | Tftp, Tftp | Memcached, Memcached | Ftp, Ftp | Smtp, Smtp => true
  | _, _ => false
  end.

Definition is_udp (k : case) : bool := sc_udp (k_scn k).
Definition dialled (k : case) : bool := connected (sc_dial (k_scn k)).

(* what the process holds in the end: one passive-socket timeout after the history where
   that was measured, else right after it *)
Definition final_held (k : case) (o : obs) : Z * Z * Z :=
  match k_settled k with Some t => t | None => (o_gor o, o_lis o, o_fds o) end.

Definition case_sigs (k : case) : list N :=
  match last_obs k with
  | None => [SIG_NO_RETURN]
  | Some o =>
      if (o_out o =? 2)%N || (o_out o =? 3)%N then
        [if (o_out o =? 2)%N && is_udp k && (is_svc k Ntp || is_svc k Echo) then SIG_SPIN_DRAINED_DATAGRAM
         else if (o_out o =? 2)%N && is_udp k && is_svc k Adb then SIG_ADB_DATAGRAM_FLOOD
         else if (o_out o =? 2)%N && is_udp k && is_svc k Memcached then SIG_MEMCACHED_STORE_SPIN
         else if (o_out o =? 3)%N && is_svc k Ftp then SIG_FTP_PASSIVE_WAIT
         else SIG_NO_RETURN]
      else
        let '(g, l, f) := final_held k o in
        (if existsb (fun o' => (MAX_DEADLINES <? o_timeouts o')%N) (k_obs k) then [SIG_DEADLINES] else []) ++
        (if g =? 0 then []
         else [if is_svc k Ftp then SIG_FTP_GOROUTINES else if is_svc k Smtp then SIG_SMTP_GOROUTINE else SIG_GOROUTINES]) ++
        (if l =? 0 then [] else [if is_svc k Ftp then SIG_FTP_LISTENERS else SIG_LISTENERS]) ++
        (if f - l =? 0 then []
         else [if is_svc k Ftp then (if (o_out o =? 1)%N && dialled k then SIG_FTP_PANIC_DATA_CONN
                                     else if dialled k then SIG_FTP_DATA_CONN else SIG_FTP_DIR_HANDLE)
               else SIG_DESCRIPTORS])
  end.

Definition violations (cs : list case) : list (N * N) :=
  flat_map (fun k => map (fun s => (k_id k, s)) (case_sigs k)) cs.

(* tags: 1 datagram, 2 silent source, 4 history longer than one connection,
   8 recovered panic predicted, 16 something held when Handle is over, 32 peer stops reading *)
Definition tags (cs : list case) : list (N * N) :=
  map (fun k =>
    let h := pred_of k in
    (k_id k,
     (if is_udp k then 1 else 0) +
     (match k_term k with TTimeout => 2 | TEof => 0 end) +
     (if (1 <? k_n k) then 4 else 0) +
     (match h_out h with Panicked => 8 | _ => 0 end) +
     (if res_eqb (h_res h) 0 0 0 then 0 else 16) +
     (match k_room k with Some _ => 32 | None => 0 end))%N) cs.
