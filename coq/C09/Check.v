(* C09 - executable check over observations of the implementation.
   One case = one service instance, one connection behaviour repeated N times
   (sequentially), with what the harness saw on every connection: how Handle ended,
   what it did on the connection (reads, empty reads, idle deadlines waited out,
   writes) and the honeytrap goroutines / listening sockets / descriptors held above
   the baseline after it. *)
From HT Require Import Common.Bytes C09.Model.
Open Scope Z_scope.

(* o_out: 0 returned, 1 panicked (recovered), 2 still running and burning CPU, 3 still
   running and idle *)
Record obs := mkObs {
  o_out : N;
  o_reads : N; o_zero : N; o_timeouts : N; o_eofs : N; o_writes : N; o_wbytes : N;
  o_gor : Z; o_lis : Z; o_fds : Z
}.

Record case := mkCase {
  k_id : N;
  k_scn : scn;
  k_segs : list bytes;
  k_term : term;
  k_n : N;                 (* connections requested *)
  k_obs : list obs;        (* connections run (the history stops at a handler that does not return) *)
  k_gc : Z * Z * Z         (* goroutines, listeners, descriptors after a forced GC (0,0,0 if the history stopped) *)
}.

Definition conn_of (k : case) : conn := mkConn (k_segs k) (k_term k) m0.
Definition pred_of (k : case) : hres := handle (k_scn k) (fuel_for (conn_of k)) (conn_of k).

Definition out_code (o : outcome) : N :=
  match o with Returned => 0 | Panicked => 1 | OutOfFuel => 2 | Blocked => 3 | Unmodelled => 9 end%N.

(* write lengths are modelled for these services only *)
Definition wbytes_modelled (s : svc) : bool :=
  match s with Ftp | Smtp => false | _ => true end.

Definition res_eqb (r : res) (g l f : Z) : bool := (r_gor r =? g) && (r_lis r =? l) && (r_fds r =? f).

(* does observation [o] of the j-th connection (j >= 1) agree with the model? *)
Definition obs_agrees (k : case) (h : hres) (j : Z) (o : obs) : bool :=
  let m := c_m (h_conn h) in
  (o_out o =? out_code (h_out h))%N &&
  match h_out h with
  | OutOfFuel => (1000 <? o_reads o)%N        (* looping: only "it keeps reading" is compared *)
  | Unmodelled => false
  | _ =>
      (o_reads o =? m_reads m)%N && (o_zero o =? m_zero m)%N && (o_timeouts o =? m_timeouts m)%N &&
      (o_eofs o =? m_eofs m)%N && (o_writes o =? m_writes m)%N &&
      (if wbytes_modelled (sc_svc (k_scn k)) then (o_wbytes o =? m_wbytes m)%N else true) &&
      (* descriptors of a blocked handler are not compared (its own connection is still open) *)
      match h_out h with
      | Blocked => (o_gor o =? r_gor (h_res h)) && (o_lis o =? r_lis (h_res h))
      | _ => res_eqb (res_scale j (h_res h)) (o_gor o) (o_lis o) (o_fds o)
      end
  end.

Fixpoint all_agree (k : case) (h : hres) (j : Z) (os : list obs) : bool :=
  match os with
  | [] => true
  | o :: r => obs_agrees k h j o && all_agree k h (j + 1) r
  end.

(* goroutines and listeners pinned by a goroutine survive a GC; a listener whose accept
   goroutine has finished is closed by its finalizer - the model cannot exhibit the
   collector, it only says which are pinned: the unconnected ones (= goroutines - pump) *)
Definition case_agrees (k : case) : bool :=
  let h := pred_of k in
  let want := if finished (h_out h) then N.to_nat (k_n k) else 1%nat in
  (length (k_obs k) =? want)%nat && all_agree k h 1 (k_obs k) &&
  (if finished (h_out h)
   then let '(g, l, _) := k_gc k in
        (g =? Z.of_N (k_n k) * r_gor (h_res h)) &&
        match sc_svc (k_scn k) with
        | Ftp => (l =? Z.of_N (k_n k) * (r_gor (h_res h) - 1))
        | _ => (l =? Z.of_N (k_n k) * r_lis (h_res h))
        end
   else true).

Definition mismatches (cs : list case) : list N :=
  map k_id (filter (fun k => negb (case_agrees k)) cs).

(* ---- the property, judged on the observation alone ---- *)
(* "within a bounded time": at most three idle deadlines (smtp needs two when a command is cut
   short, memcached three when the data block of a store command is cut short) *)
Definition MAX_DEADLINES : N := 3.

Definition last_obs (k : case) : option obs := last (map Some (k_obs k)) None.

Definition SIG_SPIN_DRAINED_DATAGRAM := 1%N.  (* ntp / echo behind the wrapper: io.Copy on (0, nil) *)
Definition SIG_ADB_DATAGRAM_FLOOD := 2%N.     (* adb: reply loop on (0, nil) *)
Definition SIG_FTP_PASSIVE_WAIT := 3%N.       (* ftp: data command waits for ever for a passive client *)
Definition SIG_FTP_GOROUTINES := 4%N.         (* ftp: event pump (+ accept goroutine per unconnected passive socket) *)
Definition SIG_FTP_LISTENERS := 5%N.          (* ftp: passive listener never closed *)
Definition SIG_SMTP_GOROUTINE := 6%N.         (* smtp: pump goroutine per connection *)
Definition SIG_NO_RETURN := 7%N.
Definition SIG_GOROUTINES := 8%N.
Definition SIG_LISTENERS := 9%N.
Definition SIG_DESCRIPTORS := 10%N.
Definition SIG_DEADLINES := 11%N.
Definition SIG_FTP_DATA_CONN := 12%N.         (* ftp: accepted data connection forgotten when the socket is replaced *)
Definition SIG_FTP_DIR_HANDLE := 13%N.        (* ftp: ListDir leaves the directory open *)
Definition SIG_MEMCACHED_STORE_SPIN := 14%N.  (* memcached: io.ReadFull for a data block the datagram does not hold *)

(* which of the two descriptor defects of ftp the faithful model sees in this case *)
Definition ftp_fd_sigs (k : case) : list N :=
  let '(_, s, _) := handle_ftp_st (sc_v6 (k_scn k)) (sc_dial (k_scn k)) (fuel_for (conn_of k)) (conn_of k) in
  (if 0 <? f_dconns s then [SIG_FTP_DATA_CONN] else []) ++ (if 0 <? f_dirs s then [SIG_FTP_DIR_HANDLE] else []).

Definition is_svc (k : case) (s : svc) : bool :=
  match sc_svc (k_scn k), s with
  | Ntp, Ntp | Echo, Echo | Dummy, Dummy | Adb, Adb | Tftp, Tftp | Memcached, Memcached | Ftp, Ftp | Smtp, Smtp => true
  | _, _ => false
  end.

Definition is_zero_term (k : case) : bool := match k_term k with TZero => true | _ => false end.

(* a pinned-down defect gets its own signature only when the whole case is exactly what
   the faithful model predicts; anything else keeps the generic signature *)
Definition case_sigs (k : case) : list N :=
  let ok := case_agrees k in
  match last_obs k with
  | None => [SIG_NO_RETURN]
  | Some o =>
      (if (o_out o =? 2)%N || (o_out o =? 3)%N then
         [if ok && (o_out o =? 2)%N && is_zero_term k && (is_svc k Ntp || is_svc k Echo) then SIG_SPIN_DRAINED_DATAGRAM
          else if ok && (o_out o =? 2)%N && is_zero_term k && is_svc k Adb then SIG_ADB_DATAGRAM_FLOOD
          else if ok && (o_out o =? 2)%N && is_zero_term k && is_svc k Memcached then SIG_MEMCACHED_STORE_SPIN
          else if ok && (o_out o =? 3)%N && is_svc k Ftp then SIG_FTP_PASSIVE_WAIT
          else SIG_NO_RETURN]
       else
         (if existsb (fun o' => (MAX_DEADLINES <? o_timeouts o')%N) (k_obs k) then [SIG_DEADLINES] else []) ++
         (if o_gor o =? 0 then []
          else [if ok && is_svc k Ftp then SIG_FTP_GOROUTINES
                else if ok && is_svc k Smtp then SIG_SMTP_GOROUTINE else SIG_GOROUTINES]) ++
         (if o_lis o =? 0 then [] else [if ok && is_svc k Ftp then SIG_FTP_LISTENERS else SIG_LISTENERS]) ++
         (if o_fds o - o_lis o =? 0 then []
          else if ok && is_svc k Ftp then ftp_fd_sigs k else [SIG_DESCRIPTORS]))
  end.

Definition violations (cs : list case) : list (N * N) :=
  flat_map (fun k => map (fun s => (k_id k, s)) (case_sigs k)) cs.

(* tags: 1 TZero source, 2 silent source, 4 history longer than one connection,
   8 the model predicts a handler that does not finish, 16 resources predicted *)
Definition tags (cs : list case) : list (N * N) :=
  map (fun k =>
    let h := pred_of k in
    (k_id k,
     (match k_term k with TZero => 1 | TTimeout => 2 | TEof => 0 end) +
     (if (1 <? k_n k) then 4 else 0) +
     (if finished (h_out h) then 0 else 8) +
     (if res_eqb (h_res h) 0 0 0 then 0 else 16))%N) cs.
