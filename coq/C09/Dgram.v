(* C09, part "dgram" - datagrams whose size sits on an internal buffer boundary.
   One case = one datagram service x one cluster of adjacent sizes (b-1, b, b+1 for every
   boundary b: the receive-buffer sizes found in the service's source plus a fixed list), each
   size with a valid protocol head padded to it and as raw bytes, handed to Handle the way
   the server does: server.TimeoutConn(&listener.DummyUDPConn{Buffer: buf[:n], ...}, d) - and,
   for the boundary sizes a loopback socket carries, after a trip through a real UDP socket.
   The property is judged on the observation alone: every handler is over within the bounded
   wait, does not spin, nothing is kept, and a relaying service hands the backend the datagram
   whole.  For the relaying services (copy, dns-proxy) the Read calls and the forwarded length
   are compared with the model of their read loop ([dg_relay]); and the model of
   DummyUDPConn.Read itself ([dg_read]) is compared with the real type on scripted Reads,
   empty slices included. *)
From HT Require Import Common.Bytes C09.Model.
Open Scope Z_scope.

Record dobs := mkDo {
  o_size : N;       (* length of the datagram *)
  o_content : N;    (* 0 raw bytes, 1 valid protocol head padded, 2 a second valid shape *)
  o_via : N;        (* 0 DummyUDPConn built as listener/socket builds it, 1 the same after a real loopback socket *)
  o_out : N;        (* 0 returned, 1 panicked (recovered), 2 still running and burning CPU, 3 still running and idle *)
  o_reads : N;      (* Read calls that reached DummyUDPConn *)
  o_zero : N;       (* ... answered (0, nil) *)
  o_eofs : N;       (* ... answered (0, EOF) *)
  o_gor : Z; o_lis : Z; o_fds : Z;   (* honeytrap goroutines / listening sockets / descriptors: change over this datagram *)
  o_relay : N;      (* relaying services, when the backend can be reached with this size:
                       1 the backend got the datagram whole, 2 it got something else, 3 nothing; 0 not applicable *)
  o_fwd : N         (* length of what the backend got *)
}.

Inductive case :=
| CDg (id : N) (svc : N) (relays : bool) (n : N) (obs : list dobs)
| CProbe (id : N) (len : N) (caps : list N) (got : list (N * bool)).
  (* the real DummyUDPConn holding len bytes, Read with slices of the given sizes: per Read the
     number of bytes returned and whether end of stream was reported *)

Definition case_id (k : case) : N := match k with CDg id _ _ _ _ => id | CProbe id _ _ _ => id end.

Definition SIG_NO_RETURN := 7%N.
Definition SIG_GOROUTINES := 8%N.
Definition SIG_LISTENERS := 9%N.
Definition SIG_DESCRIPTORS := 10%N.
(* the handler never comes back and keeps calling Read, answered (0, nil) every time: a read
   loop that waits for an error the connection never reports (a buffer filled exactly leaves
   an empty slice to read into; seeded change C09-g2) *)
Definition SIG_DGRAM_EMPTY_READS := 21%N.
Definition SIG_DGRAM_SPIN := 22%N.          (* burns CPU without reading *)
Definition SIG_DGRAM_NOT_WHOLE := 23%N.     (* the backend did not get the datagram as it was sent *)

Definition zeros (n : N) : bytes := repeat 0%N (N.to_nat n).

Fixpoint probe_model (c : dgconn) (caps : list N) : list (N * bool) :=
  match caps with
  | [] => []
  | k :: r => let '(d, e, c') := dg_read c (N.to_nat k) in (N.of_nat (length d), e) :: probe_model c' r
  end.

Fixpoint pairs_eqb (a b : list (N * bool)) : bool :=
  match a, b with
  | [], [] => true
  | (x, e) :: a', (y, f) :: b' => (x =? y)%N && Bool.eqb e f && pairs_eqb a' b'
  | _, _ => false
  end.

(* relaying services: Read calls and forwarded length as the model of the loop has them.  At and
   above the buffer size the count depends on the buffer size itself (one Read when the buffer
   is full, else a second one that reports the end): there only "at most two" is compared *)
Definition relay_differs (o : dobs) : bool :=
  match dg_relay (zeros (o_size o)) with
  | None => true
  | Some (d, r) =>
      negb ((o_reads o =? N.of_nat r)%N || ((N.of_nat DGBUF <=? o_size o)%N && (o_reads o <=? 2)%N)) ||
      ((0 <? o_relay o)%N && negb (o_fwd o =? N.of_nat (length d))%N)
  end.

Definition back (o : dobs) : bool := (o_out o <? 2)%N.

Definition mismatches (cs : list case) : list N :=
  map case_id (filter (fun k =>
    match k with
    | CProbe _ len caps got => negb (pairs_eqb got (probe_model (dg_of (zeros len)) caps))
    | CDg _ _ relays n obs =>
        (forallb back obs && negb (N.of_nat (length obs) =? n)%N) ||
        (relays && existsb (fun o => (o_out o =? 0)%N && relay_differs o) obs)
    end) cs).

Definition obs_sigs (o : dobs) : list N :=
  if (o_out o =? 2)%N then [if (100 <? o_zero o)%N then SIG_DGRAM_EMPTY_READS else SIG_DGRAM_SPIN]
  else if (o_out o =? 3)%N then [SIG_NO_RETURN]
  else (if 0 <? o_gor o then [SIG_GOROUTINES] else []) ++
       (if 0 <? o_lis o then [SIG_LISTENERS] else []) ++
       (if 0 <? o_fds o then [SIG_DESCRIPTORS] else []) ++
       (if (2 <=? o_relay o)%N then [SIG_DGRAM_NOT_WHOLE] else []).

Definition case_sigs (k : case) : list N :=
  match k with
  | CProbe _ _ _ _ => []
  | CDg _ _ _ _ obs => nodup N.eq_dec (flat_map obs_sigs obs)
  end.

Definition violations (cs : list case) : list (N * N) :=
  flat_map (fun k => map (fun s => (case_id k, s)) (case_sigs k)) cs.

(* every datagram case is non-trivial; the tag tells the service and whether a loopback socket
   was involved; probes are tagged 64 *)
Definition tags (cs : list case) : list (N * N) :=
  map (fun k => (case_id k,
                 match k with
                 | CProbe _ _ _ _ => 64%N
                 | CDg _ svc _ _ obs => (svc + (if existsb (fun o => (o_via o =? 1)%N) obs then 32 else 0))%N
                 end)) cs.
