(* C09 - handlers finish and release everything once the peer is gone.
   Executable definitions only.

   A connection, as a handler sees it, is a list of pending segments (one Read
   returns at most one - possibly partial - segment) followed by a terminal
   behaviour:
     TEof      client closed, or the datagram of listener.DummyUDPConn is consumed:
               every further Read returns (0, io.EOF)  (listener/udp_conn.go, since the
               fix "DummyUDPConn.Read reports end of stream once the datagram is consumed")
     TTimeout  silent client: every further Read returns (0, timeout) after one idle
               deadline (server/timeout_conn.go; 30 s in server/honeytrap.go)
   An empty segment is a Read that returns (0, nil) once.
   The meter counts what the handler did on the connection; it is what the
   harness observes on the real code.

   Library loops (io.Copy, bufio.Reader fill/ReadSlice/ReadBytes/Read/Discard/ReadLine,
   textproto ReadLine) are executable definitions following go1.23 src/io/io.go and
   src/bufio/bufio.go branch by branch.  Loops without a syntactic bound take fuel;
   running out is the outcome [OutOfFuel]. *)
From HT Require Import Common.Bytes.
Open Scope Z_scope.

Inductive term := TEof | TTimeout.
Inductive rerr := ENone | EEOF | ETimeout | ENoProgress | EBufFull.

Record meter := mkM {
  m_reads : N;      (* Read calls *)
  m_zero : N;       (* ... that returned (0, nil) *)
  m_timeouts : N;   (* ... that returned a timeout error = idle deadlines waited out *)
  m_eofs : N;       (* ... that returned (0, EOF) *)
  m_writes : N;     (* Write calls *)
  m_wbytes : N;     (* bytes handed to Write *)
  m_wtimeouts : N   (* Write calls that ended in a timeout = write deadlines waited out *)
}.
Definition m0 : meter := mkM 0 0 0 0 0 0 0.

(* c_room: how many more bytes the peer will take (None: it keeps reading).  A peer that has
   stopped reading makes Write block; server.TimeoutConn arms the write deadline before every
   Write (server/timeout_conn.go), so the Write returns a timeout error one deadline later.
   c_wdead: the handler's buffered writer (bufio.Writer) has seen an error and drops everything
   from then on. *)
Record conn := mkConn5 { c_segs : list bytes; c_term : term; c_m : meter; c_room : option N; c_wdead : bool }.
Definition mkConn (segs : list bytes) (t : term) (m : meter) : conn := mkConn5 segs t m None false.

Definition nlen (l : bytes) : N := N.of_nat (length l).

Definition tick_read (m : meter) (z t e : bool) : meter :=
  mkM (m_reads m + 1)
      (if z then m_zero m + 1 else m_zero m)
      (if t then m_timeouts m + 1 else m_timeouts m)
      (if e then m_eofs m + 1 else m_eofs m)
      (m_writes m) (m_wbytes m) (m_wtimeouts m).

Definition isnil {A} (l : list A) : bool := match l with [] => true | _ => false end.

(* one Read(p), len p = n *)
Definition cread (c : conn) (n : nat) : bytes * rerr * conn :=
  match c_segs c with
  | [] =>
      match c_term c with
      | TEof => ([], EEOF, mkConn5 [] TEof (tick_read (c_m c) false false true) (c_room c) (c_wdead c))
      | TTimeout => ([], ETimeout, mkConn5 [] TTimeout (tick_read (c_m c) false true false) (c_room c) (c_wdead c))
      end
  | s :: r =>
      let d := firstn n s in
      let segs' := match skipn n s with [] => r | rest => rest :: r end in
      (d, ENone, mkConn5 segs' (c_term c) (tick_read (c_m c) (isnil d) false false) (c_room c) (c_wdead c))
  end.

(* one Write of k bytes through server.TimeoutConn: [true] if the peer took all of it; else it
   took what it had room for, the Write waited out the write deadline and failed *)
Definition cwrite_e (c : conn) (k : N) : conn * bool :=
  let m := c_m c in
  let mw (wt : N) := mkM (m_reads m) (m_zero m) (m_timeouts m) (m_eofs m) (m_writes m + 1)%N (m_wbytes m + k)%N (m_wtimeouts m + wt)%N in
  match c_room c with
  | None => (mkConn5 (c_segs c) (c_term c) (mw 0%N) None (c_wdead c), true)
  | Some r =>
      if (k <=? r)%N then (mkConn5 (c_segs c) (c_term c) (mw 0%N) (Some (r - k)%N) (c_wdead c), true)
      else (mkConn5 (c_segs c) (c_term c) (mw 1%N) (Some 0%N) (c_wdead c), false)
  end.

(* handlers that call conn.Write directly and ignore its error *)
Definition cwrite (c : conn) (k : N) : conn := fst (cwrite_e c k).

(* handlers that write through a bufio.Writer (ftp control connection, smtp textproto): the
   first failed Flush sticks, later replies never reach the connection *)
Definition swrite (c : conn) (k : N) : conn :=
  if c_wdead c then c
  else let '(c', ok) := cwrite_e c k in
       if ok then c' else mkConn5 (c_segs c') (c_term c') (c_m c') (c_room c') true.

(* termination measure: bytes still to come + segments still to come *)
Definition weight (c : conn) : nat := length (concat (c_segs c)) + length (c_segs c).

Inductive outcome :=
| Returned          (* Handle returned *)
| Panicked          (* Handle panicked; server.handle recovers, closes the connection *)
| Blocked           (* waits on something that can never happen once the peer is gone *)
| OutOfFuel         (* still looping *)
| Unmodelled.       (* the input leaves the modelled fragment of the protocol *)

Definition finished (o : outcome) : bool :=
  match o with Returned | Panicked => true | _ => false end.

(* resources created on the connection's behalf minus those the code releases *)
Record res := mkRes { r_gor : Z; r_lis : Z; r_fds : Z }.
Definition res0 := mkRes 0 0 0.
Definition res_add (a b : res) := mkRes (r_gor a + r_gor b) (r_lis a + r_lis b) (r_fds a + r_fds b).
Definition res_scale (n : Z) (a : res) := mkRes (n * r_gor a) (n * r_lis a) (n * r_fds a).

Definition res_sub (a b : res) := mkRes (r_gor a - r_gor b) (r_lis a - r_lis b) (r_fds a - r_fds b).

(* h_res: what is still held when Handle is over; h_late: the part of it that sits on a
   timer of its own and goes away within one passive-socket timeout without anybody's help *)
Record hres := mkH4 { h_out : outcome; h_conn : conn; h_res : res; h_late : res }.
Definition mkH (o : outcome) (c : conn) (r : res) : hres := mkH4 o c r res0.

(* ------------------------------------------------------------------ *)
(* io.Copy(dst, src) with the generic 32 KiB buffer loop; [wr]: dst is the connection *)
Definition COPYSZ : nat := N.to_nat 32768.

Fixpoint io_copy (fuel : nat) (wr : bool) (c : conn) : outcome * conn :=
  match fuel with
  | O => (OutOfFuel, c)
  | S f =>
      let '(d, e, c1) := cread c COPYSZ in
      let '(c2, ok) := match d with
                       | [] => (c1, true)
                       | _ => if wr then cwrite_e c1 (nlen d) else (c1, true)
                       end in
      if ok then
        match e with
        | ENone => io_copy f wr c2       (* (n, nil), also n = 0: keep going *)
        | _ => (Returned, c2)
        end
      else (Returned, c2)                (* the Write failed: io.Copy stops *)
  end.

(* ------------------------------------------------------------------ *)
(* bufio.Reader, default size 4096 *)
Definition BUFSZ : nat := N.to_nat 4096.
Definition MAX_EMPTY : nat := 100.   (* maxConsecutiveEmptyReads *)

Record brd := mkBr { b_buf : bytes; b_err : rerr; b_c : conn }.
Definition new_reader (c : conn) : brd := mkBr [] ENone c.

Fixpoint fill_loop (i : nat) (buf : bytes) (c : conn) : bytes * rerr * conn :=
  match i with
  | O => (buf, ENoProgress, c)
  | S i' =>
      let '(d, e, c') := cread c (BUFSZ - length buf) in
      match e with
      | ENone => match d with [] => fill_loop i' buf c' | _ => (buf ++ d, ENone, c') end
      | _ => (buf ++ d, e, c')
      end
  end.

Definition fill (b : brd) : brd :=
  let '(buf, e, c) := fill_loop MAX_EMPTY (b_buf b) (b_c b) in
  mkBr buf (match e with ENone => b_err b | _ => e end) c.      (* b.err is only ever overwritten by an error *)

Fixpoint find_idx (x : N) (l : bytes) : option nat :=
  match l with
  | [] => None
  | y :: r => if (x =? y)%N then Some O else option_map S (find_idx x r)
  end.

Inductive rs_res :=
| RsOk (line : bytes) (e : rerr) (b : brd)
| RsFuel.

(* ReadSlice(delim) *)
Fixpoint read_slice (fuel : nat) (delim : N) (b : brd) : rs_res :=
  match fuel with
  | O => RsFuel
  | S f =>
      match find_idx delim (b_buf b) with
      | Some i => RsOk (firstn (S i) (b_buf b)) ENone (mkBr (skipn (S i) (b_buf b)) (b_err b) (b_c b))
      | None =>
          match b_err b with
          | ENone =>
              if (BUFSZ <=? length (b_buf b))%nat
              then RsOk (b_buf b) EBufFull (mkBr [] ENone (b_c b))
              else read_slice f delim (fill b)
          | e => RsOk (b_buf b) e (mkBr [] ENone (b_c b))     (* readErr() clears the error *)
          end
      end
  end.

(* ReadBytes / ReadString (collectFragments): full buffers are accumulated *)
Fixpoint read_bytes (fuel : nat) (delim : N) (acc : bytes) (b : brd) : rs_res :=
  match fuel with
  | O => RsFuel
  | S f =>
      match read_slice (S f) delim b with
      | RsFuel => RsFuel
      | RsOk frag EBufFull b' => read_bytes f delim (acc ++ frag) b'
      | RsOk frag e b' => RsOk (acc ++ frag) e b'
      end
  end.

(* Read(p), len p = n > 0 *)
Definition bread (b : brd) (n : nat) : bytes * rerr * brd :=
  match b_buf b with
  | [] =>
      match b_err b with
      | ENone =>
          if (BUFSZ <=? n)%nat
          then let '(d, e, c') := cread (b_c b) n in (d, e, mkBr [] ENone c')
          else let '(d, e, c') := cread (b_c b) BUFSZ in
               match d with
               | [] => ([], e, mkBr [] ENone c')
               | _ => (firstn n d, ENone, mkBr (skipn n d) e c')
               end
      | e => ([], e, mkBr [] ENone (b_c b))
      end
  | buf => (firstn n buf, ENone, mkBr (skipn n buf) (b_err b) (b_c b))
  end.

(* Discard(n): result is the reader only (callers ignore the count and the error) *)
Fixpoint discard_loop (fuel : nat) (remain : nat) (b : brd) : option brd :=
  match fuel with
  | O => None
  | S f =>
      let b1 := match b_buf b with [] => fill b | _ => b end in
      let skip := Nat.min (length (b_buf b1)) remain in
      let b2 := mkBr (skipn skip (b_buf b1)) (b_err b1) (b_c b1) in
      let remain' := (remain - skip)%nat in
      match remain' with
      | O => Some b2
      | _ => match b_err b2 with
             | ENone => discard_loop f remain' b2
             | _ => Some (mkBr (b_buf b2) ENone (b_c b2))
             end
      end
  end.

Definition discard (fuel : nat) (n : Z) (b : brd) : option brd :=
  if n <=? 0 then Some b else discard_loop fuel (Z.to_nat n) b.

Definition bwrite (b : brd) (k : N) : brd := mkBr (b_buf b) (b_err b) (cwrite (b_c b) k).
(* a reply through the handler's bufio.Writer; its length is not modelled: "some bytes" *)
Definition bswrite (b : brd) : brd := mkBr (b_buf b) (b_err b) (swrite (b_c b) 1).

(* bufio.ReadLine + textproto.Reader.ReadLine: a partial last line is returned WITHOUT
   its error (ReadSlice already cleared it); the error shows up on the next call after
   another Read of the connection *)
Definition strip_eol (l : bytes) : bytes :=
  match rev l with
  | 10%N :: 13%N :: r => rev r
  | 10%N :: r => rev r
  | _ => l
  end.

(* "\r\n" straddling the buffer: the '\r' is put back *)
Definition unread_cr (frag : bytes) (b : brd) : bytes * brd :=
  match rev frag with
  | y :: r => if (y =? 13)%N then (rev r, mkBr (13%N :: b_buf b) (b_err b) (b_c b)) else (frag, b)
  | [] => (frag, b)
  end.

Definition oapp (acc : option bytes) (l : bytes) : bytes :=
  match acc with Some a => a ++ l | None => l end.

Fixpoint text_line (fuel : nat) (acc : option bytes) (b : brd) : rs_res :=
  match fuel with
  | O => RsFuel
  | S f =>
      match read_slice (S f) 10 b with
      | RsFuel => RsFuel
      | RsOk frag e b' =>
          match e with
          | EBufFull => let '(frag', b'') := unread_cr frag b' in text_line f (Some (oapp acc frag')) b''
          | _ =>
              match frag with
              | [] => match e with
                      | ENone => RsOk (oapp acc []) ENone b'
                      | _ => RsOk [] e b'
                      end
              | _ => RsOk (oapp acc (strip_eol frag)) ENone b'
              end
          end
      end
  end.

(* ------------------------------------------------------------------ *)
(* small string helpers *)
Fixpoint starts_with (p l : bytes) : bool :=
  match p, l with
  | [], _ => true
  | x :: p', y :: l' => (x =? y)%N && starts_with p' l'
  | _ :: _, [] => false
  end.

Definition upper (b : N) : N := if ((97 <=? b) && (b <=? 122))%N then (b - 32)%N else b.

Fixpoint split_on (sep : N) (cur : bytes) (l : bytes) : list bytes :=
  match l with
  | [] => [rev cur]
  | x :: r => if (x =? sep)%N then rev cur :: split_on sep [] r else split_on sep (x :: cur) r
  end.

Fixpoint contains (x : N) (l : bytes) : bool :=
  match l with [] => false | y :: r => (x =? y)%N || contains x r end.

(* strconv.Atoi: optional sign, one or more decimal digits, value within int64 *)
Fixpoint digits_val (acc : Z) (l : bytes) : option Z :=
  match l with
  | [] => Some acc
  | d :: r => if ((48 <=? d) && (d <=? 57))%N then digits_val (acc * 10 + Z.of_N (d - 48)) r else None
  end.
Definition atoi (l : bytes) : option Z :=
  let '(neg, ds) := match l with
                    | 45%N :: r => (true, r)
                    | 43%N :: r => (false, r)
                    | _ => (false, l)
                    end in
  match ds with
  | [] => None
  | _ => match digits_val 0 ds with
         | Some v => if neg then (if v <=? 2 ^ 63 then Some (- v) else None)
                     else (if v <? 2 ^ 63 then Some v else None)
         | None => None
         end
  end.

(* ================================================================== *)
(* services *)

(* services/ntp.go:46-50   io.Copy(os.Stdout, conn) *)
Definition handle_ntp (fuel : nat) (c : conn) : hres :=
  let '(o, c') := io_copy fuel false c in mkH o c' res0.

(* services/echo.go:47-51: the connection handed over by the server is always the
   timeout wrapper, never *listener.DummyUDPConn, so the datagram branch is dead code *)
Definition handle_echo (fuel : nat) (c : conn) : hres :=
  let '(o, c') := io_copy fuel true c in mkH o c' res0.

(* services/dummy.go:42-61 *)
Fixpoint dummy_loop (fuel : nat) (b : brd) : outcome * brd :=
  match fuel with
  | O => (OutOfFuel, b)
  | S f =>
      match read_bytes (S f) 10 [] b with
      | RsFuel => (OutOfFuel, b)
      | RsOk line ENone b' => dummy_loop f (bwrite b' (nlen line))
      | RsOk _ _ b' => (Returned, b')
      end
  end.
Definition handle_dummy (fuel : nat) (c : conn) : hres :=
  let '(o, b) := dummy_loop fuel (new_reader c) in mkH o (b_c b) res0.

(* services/adb.go *)
Definition s_CNXN : bytes := [67;78;88;78]%N.
Definition s_OPEN : bytes := [79;80;69;78]%N.
Definition s_WRTE : bytes := [87;82;84;69]%N.
Definition s_OKAY : bytes := [79;75;65;89]%N.
Definition s_CLSE : bytes := [67;76;83;69]%N.

(* buf[0:4] after a Read of [d] into buf (the slice payload[:4] reaches into stale bytes) *)
Definition upd4 (old d : bytes) : bytes := firstn 4 (d ++ skipn (length d) old).

Definition ADBSZ : nat := N.to_nat 4096.

Fixpoint adb_loop (fuel : nat) (buf4 cb : bytes) (c : conn) : outcome * conn :=
  match fuel with
  | O => (OutOfFuel, c)
  | S f =>
      let '(d, e, c1) := cread c ADBSZ in
      match e with
      | EEOF => (Returned, c1)
      | ENone =>
          let b4 := upd4 buf4 d in
          let short := (length d <? 24)%nat in
          if eqb_bytes b4 s_OPEN then
            if short then (Panicked, c1)
            else adb_loop f b4 cb (cwrite (cwrite c1 24) 43)
          else if eqb_bytes b4 s_WRTE then
            if short then (Panicked, c1)
            else
              let resp := skipn 24 d in
              let cb' := cb ++ resp in
              let c2 := cwrite c1 24 in
              if contains 13 cb'
              then adb_loop f b4 [] (cwrite c2 (24 + nlen resp + 21))
              else adb_loop f b4 cb' (cwrite c2 (24 + nlen resp))
          else if eqb_bytes b4 s_OKAY then adb_loop f b4 cb c1
          else if eqb_bytes b4 s_CLSE then (Returned, c1)
          else adb_loop f b4 cb (cwrite c1 24)
      | _ => (Panicked, c1)              (* panic(err) for every error but EOF *)
      end
  end.

Definition handle_adb (fuel : nat) (c : conn) : hres :=
  let '(d, e, c1) := cread c ADBSZ in
  match e with
  | EEOF => mkH Returned c1 res0
  | ENone =>
      let b4 := upd4 [0;0;0;0]%N d in
      if eqb_bytes b4 s_CNXN then
        if (length d <? 24)%nat then mkH Panicked c1 res0
        else let '(o, c2) := adb_loop fuel b4 [] (cwrite c1 113) in mkH o c2 res0
      else mkH Returned c1 res0
  | _ => mkH Panicked c1 res0
  end.

(* services/tftp.go (every connection comes from a fresh address: the limiter admits it
   and no earlier WRQ is on record for it) *)
Definition handle_tftp (fuel : nat) (c : conn) : hres :=
  let b := new_reader c in
  let '(pt, e, b1) := bread b 2 in
  match e with
  | ENone =>
      let two (k : N) :=
        match read_bytes fuel 0 [] b1 with
        | RsFuel => mkH OutOfFuel (b_c b1) res0
        | RsOk _ ENone b2 =>
            match read_bytes fuel 0 [] b2 with
            | RsFuel => mkH OutOfFuel (b_c b2) res0
            | RsOk _ ENone b3 => mkH Returned (cwrite (b_c b3) k) res0
            | RsOk _ _ b3 => mkH Returned (b_c b3) res0
            end
        | RsOk _ _ b2 => mkH Returned (b_c b2) res0
        end in
      let op := nth 1 pt 0%N in
      if (op =? 1)%N then two 5%N
      else if (op =? 2)%N then two 4%N
      else if (op =? 3)%N then
          let '(_, e2, b2) := bread b1 2 in
          match e2 with
          | ENone =>
              let '(_, e3, b3) := bread b2 512 in
              match e3 with
              | ENone | EEOF => mkH Returned (cwrite (b_c b3) 5) res0   (* an empty last block is data too; no matching buffer *)
              | _ => mkH Returned (b_c b3) res0
              end
          | _ => mkH Returned (b_c b2) res0
          end
      else mkH Returned (b_c b1) res0
  | _ => mkH Returned (b_c b1) res0
  end.

(* io.ReadFull(b, buf), len buf = want (io.ReadAtLeast): Read until [want] bytes are there or
   an error comes; a Read that returns (0, nil) changes nothing and the loop goes on *)
Fixpoint read_full (fuel : nat) (want got : nat) (b : brd) : option (nat * rerr * brd) :=
  if (want <=? got)%nat then Some (got, ENone, b)
  else match fuel with
       | O => None
       | S f =>
           let '(d, e, b') := bread b (want - got) in
           match e with
           | ENone => read_full f want (got + length d) b'
           | _ => Some ((got + length d)%nat, e, b')
           end
       end.

(* services/memcached.go; [udp]: 8-byte header read first, every command costs a
   limiter token (burst 4, no refill within a connection).  Store commands read the
   first min(count, 80) bytes of the data block with io.ReadFull and discard the rest
   and the trailing CR LF. *)
Definition MC_STATS_LEN : N := 1033.

Definition is_store (w : bytes) : bool :=
  eqb_bytes w [97;100;100]%N || eqb_bytes w [114;101;112;108;97;99;101]%N ||
  eqb_bytes w [112;114;101;112;101;110;100]%N || eqb_bytes w [97;112;112;101;110;100]%N ||
  eqb_bytes w [99;97;115]%N || eqb_bytes w [115;101;116]%N.

Definition is_enone (e : rerr) : bool := match e with ENone => true | _ => false end.

Fixpoint mc_loop (fuel : nat) (udp : bool) (tokens : nat) (b : brd) : outcome * brd :=
  match fuel with
  | O => (OutOfFuel, b)
  | S f =>
      match read_bytes (S f) 10 [] b with
      | RsFuel => (OutOfFuel, b)
      | RsOk line ENone b1 =>
          let cmd := if (2 <=? length line)%nat then firstn (length line - 2) line else line in
          match udp, tokens with
          | true, O => (Returned, b1)
          | _, _ =>
              let tokens' := if udp then pred tokens else tokens in
              let parts := split_on 32 [] cmd in
              let w := hd [] parts in
              if eqb_bytes w [102;108;117;115;104;95;97;108;108]%N then mc_loop f udp tokens' (bwrite b1 6)
              else if eqb_bytes w [115;116;97;116;115]%N then mc_loop f udp tokens' (bwrite b1 MC_STATS_LEN)
              else if is_store w then
                if (length parts <? 5)%nat then (Returned, b1)
                else match atoi (nth 4 parts []) with
                     | None => (Returned, b1)
                     | Some v =>
                         if v <? 0 then (Returned, b1)
                         else
                           match read_full (S f) (Z.to_nat (Z.min v 80)) 0 b1 with
                           | None => (OutOfFuel, b1)
                           | Some (n, e, b2) =>
                               if negb (is_enone e) && (n =? 0)%nat && (0 <? v) then (Returned, b2)
                               else match discard (S f) (v - Z.of_nat n + 2) b2 with
                                    | None => (OutOfFuel, b2)
                                    | Some b3 => mc_loop f udp tokens' (bwrite b3 8)
                                    end
                           end
                     end
              else mc_loop f udp tokens' (bwrite b1 7)
          end
      | RsOk _ _ b1 => (Returned, b1)
      end
  end.

Definition handle_memcached (udp : bool) (fuel : nat) (c : conn) : hres :=
  let b := new_reader c in
  let b1 := if udp then let '(_, _, b') := bread b 8 in b' else b in
  let '(o, b2) := mc_loop fuel udp 4 b1 in
  mkH o (b_c b2) res0.

(* ------------------------------------------------------------------ *)
(* services/ftp: ftp.go Handle, conn.go Serve/receiveLine/Close, cmd.go PASV/EPSV/
   LIST/NLST/USER/PASS/QUIT, socket.go.  Only the control flow that decides about
   blocking and resources is modelled; replies are counted as writes. *)
(* what the client does with a passive port it is told about *)
Inductive dialmode :=
| DialNone      (* never connects *)
| DialKnock     (* connects and closes the data connection at once *)
| DialHold.     (* connects and stays silent on the data connection *)

Inductive dsock :=
| DNone
| DPassive (d : dialmode).        (* ftpPassiveSocket *)

Definition connected (d : dialmode) : bool := match d with DialNone => false | _ => true end.

Record ftp_st := mkF {
  f_user : bool;          (* conn.user <> "" *)
  f_req : bytes;          (* conn.reqUser *)
  f_data : dsock;
  f_gor : Z;              (* goroutines started and not finished: event pump, Accept goroutines *)
  f_lis : Z;              (* passive listeners open *)
  f_dconns : Z;           (* accepted data connections open *)
  f_pwaits : N            (* passive-socket timeouts (30 s each) waited out by data commands *)
}.

Definition s_anonymous : bytes := [97;110;111;110;121;109;111;117;115]%N.

Definition is_space (b : N) : bool := (b =? 32)%N || (b =? 9)%N || (b =? 10)%N || (b =? 13)%N || (b =? 11)%N || (b =? 12)%N.
Fixpoint ltrim (l : bytes) : bytes := match l with x :: r => if is_space x then ltrim r else l | [] => [] end.
Definition trim_space (l : bytes) : bytes := rev (ltrim (rev (ltrim l))).
Definition is_crlf (b : N) : bool := (b =? 10)%N || (b =? 13)%N.
Fixpoint ltrim_crlf (l : bytes) : bytes := match l with x :: r => if is_crlf x then ltrim_crlf r else l | [] => [] end.
Definition trim_crlf (l : bytes) : bytes := rev (ltrim_crlf (rev (ltrim_crlf l))).

(* parseLine: strings.SplitN(strings.Trim(line, "\r\n"), " ", 2) *)
Fixpoint split_first_space (cur : bytes) (l : bytes) : bytes * option bytes :=
  match l with
  | [] => (rev cur, None)
  | x :: r => if (x =? 32)%N then (rev cur, Some r) else split_first_space (x :: cur) r
  end.
Definition parse_line (line : bytes) : bytes * bytes :=
  match split_first_space [] (trim_crlf line) with
  | (c, None) => (c, [])
  | (c, Some p) => (c, trim_space p)
  end.

Inductive fcmd := FUser | FPass | FPasv | FEpsv | FList | FQuit | FPort | FEprt | FOtherAuth | FOtherNoAuth | FUnknown | FUnmodelled.

Definition ucmd (c : bytes) : bytes := map upper c.

(* the keys of the commands map of cmd.go *)
Definition ftp_known : list bytes :=
  [[65;68;65;84]%N;
   [65;76;76;79]%N;
   [65;80;80;69]%N;
   [65;85;84;72]%N;
   [67;68;85;80]%N;
   [67;87;68]%N;
   [67;67;67]%N;
   [67;79;78;70]%N;
   [68;69;76;69]%N;
   [69;78;67]%N;
   [69;80;82;84]%N;
   [69;80;83;86]%N;
   [70;69;65;84]%N;
   [76;73;83;84]%N;
   [78;76;83;84]%N;
   [77;68;84;77]%N;
   [77;73;67]%N;
   [77;75;68]%N;
   [77;79;68;69]%N;
   [78;79;79;80]%N;
   [79;80;84;83]%N;
   [80;65;83;83]%N;
   [80;65;83;86]%N;
   [80;66;83;90]%N;
   [80;79;82;84]%N;
   [80;82;79;84]%N;
   [80;87;68]%N;
   [81;85;73;84]%N;
   [82;69;84;82]%N;
   [82;69;83;84]%N;
   [82;78;70;82]%N;
   [82;78;84;79]%N;
   [82;77;68]%N;
   [83;73;90;69]%N;
   [83;84;79;82]%N;
   [83;84;82;85]%N;
   [83;89;83;84]%N;
   [84;89;80;69]%N;
   [85;83;69;82]%N;
   [88;67;85;80]%N;
   [88;67;87;68]%N;
   [88;80;87;68]%N;
   [88;82;77;68]%N].

Definition in_list (w : bytes) (l : list bytes) : bool := existsb (eqb_bytes w) l.

(* FOtherAuth / FOtherNoAuth: commands that answer with one reply and neither touch the
   data socket nor block (NOOP; SYST, PWD, XPWD).  FUnmodelled: every other key of the
   map (file system, dial-out PORT/EPRT, TLS upgrade, file data) - outside the model. *)
Definition classify (c : bytes) : fcmd :=
  let u := ucmd c in
  if eqb_bytes u [85;83;69;82]%N then FUser
  else if eqb_bytes u [80;65;83;83]%N then FPass
  else if eqb_bytes u [80;65;83;86]%N then FPasv
  else if eqb_bytes u [69;80;83;86]%N then FEpsv
  else if eqb_bytes u [76;73;83;84]%N then FList
  else if eqb_bytes u [78;76;83;84]%N then FList
  else if eqb_bytes u [81;85;73;84]%N then FQuit
  else if eqb_bytes u [80;79;82;84]%N then FPort
  else if eqb_bytes u [69;80;82;84]%N then FEprt
  else if eqb_bytes u [78;79;79;80]%N then FOtherNoAuth
  else if eqb_bytes u [83;89;83;84]%N || eqb_bytes u [80;87;68]%N || eqb_bytes u [88;80;87;68]%N then FOtherAuth
  else if in_list u ftp_known then FUnmodelled
  else FUnknown.

Inductive fstep := FGo (s : ftp_st) | FClosed (s : ftp_st) | FPanic (s : ftp_st) | FOut.

Definition set_data (s : ftp_st) (d : dsock) (g l dc : Z) : ftp_st :=
  mkF (f_user s) (f_req s) d (f_gor s + g) (f_lis s + l) (f_dconns s + dc) (f_pwaits s).

(* ftpPassiveSocket.Close(): closes the listener (which ends a pending Accept; the Accept
   goroutine closes the listener itself when it ends), waits for that goroutine, closes an
   accepted connection *)
Definition close_data (s : ftp_st) : ftp_st :=
  match f_data s with
  | DNone => s
  | DPassive DialNone => set_data s DNone (-1) (-1) 0
  | DPassive _ => set_data s DNone 0 0 (-1)
  end.

(* [v6]: the local address is IPv6 (its String() contains ':'); [dial]: what the client does
   with every passive port announced.  PASV/EPSV first close a socket still referenced by
   conn.dataConn, then net.ListenTCP (Accept deadline 30 s) + go Accept(): one listener and
   one goroutine until a client connects or the deadline passes; a client that connects
   leaves one accepted connection (deadline 30 s) and no listener.  The service always has
   a certificate (storage generates one), so the listener is a TLS listener: the first Write
   on the data connection starts a handshake and waits for the client's hello. *)
Definition open_passive (dial : dialmode) (s : ftp_st) : ftp_st :=
  let s := close_data s in
  if connected dial then set_data s (DPassive dial) 0 0 1 else set_data s (DPassive dial) 1 1 0.

Definition set_user (s : ftp_st) (u : bool) (req : bytes) : ftp_st :=
  mkF u req (f_data s) (f_gor s) (f_lis s) (f_dconns s) (f_pwaits s).

Definition pwait (s : ftp_st) : ftp_st :=
  mkF (f_user s) (f_req s) (f_data s) (f_gor s) (f_lis s) (f_dconns s) (f_pwaits s + 1).

Definition ftp_cmd (v6 : bool) (dial : dialmode) (s : ftp_st) (line : bytes) : fstep * N (* replies written *) :=
  let '(c, p) := parse_line line in
  match classify c with
  | FUnknown => (FGo s, 1%N)                                   (* 500 *)
  | FUnmodelled => (FOut, 0%N)
  | FUser => if isnil p then (FGo s, 1%N)                      (* 553 *)
             else (FGo (set_user s (f_user s) p), 1%N)
  | FPass => if isnil p then (FGo s, 1%N)
             else if eqb_bytes (f_req s) s_anonymous && eqb_bytes p s_anonymous
                  then (FGo (set_user s true []), 1%N)
                  else (FGo s, 1%N)
  | FQuit => (FClosed (close_data s), 1%N)
  | FOtherNoAuth => (FGo s, 1%N)
  | FOtherAuth => (FGo s, 1%N)
  | FPasv => if negb (f_user s) then (FGo s, 1%N)              (* 530 *)
             else if v6 then (FPanic (open_passive DialNone s), 0%N) (* quads[1] of an IPv6 literal; no reply, so nobody dials *)
             else (FGo (open_passive dial s), 1%N)
  | FEpsv => if negb (f_user s) then (FGo s, 1%N)
             else if v6 then (FGo (open_passive dial s), 1%N)
             else (FGo s, 1%N)                                  (* no ':' in the address: 425 *)
  (* PORT: strings.Split(param, ","), nums[4] and nums[5] without a length check: fewer than six
     fields panic (recovered by server.handle; the deferred ftpConn.Close() of Handle runs).  A
     well-formed PORT dials out: outside the model. *)
  | FPort => if isnil p then (FGo s, 1%N)                      (* 553 *)
             else if negb (f_user s) then (FGo s, 1%N)         (* 530 *)
             else if (length (split_on 44 [] p) <? 6)%nat then (FPanic s, 0%N)
             else (FOut, 0%N)
  (* EPRT: delim := param[0:1]; parts := Split(param, delim); Atoi(parts[1]) (450 if not a
     number), parts[2], parts[3] without a length check *)
  | FEprt => if isnil p then (FGo s, 1%N)
             else if negb (f_user s) then (FGo s, 1%N)
             else let parts := split_on (hd 0%N p) [] p in
                  if (4 <=? length parts)%nat then (FOut, 0%N)
                  else match atoi (nth 1 parts []) with
                       | None => (FGo s, 1%N)                  (* 450 Invalid addr *)
                       | Some _ => (FPanic s, 0%N)
                       end
  | FList => if negb (f_user s) then (FGo s, 1%N)
             else match f_data s with                           (* 150, data, socket closed, 226 *)
                  | DNone => (FGo s, 2%N)
                  | DPassive DialKnock => (FGo (close_data s), 2%N)          (* handshake fails at once *)
                  | DPassive DialNone => (FGo (close_data (pwait s)), 2%N)   (* Accept deadline passes *)
                  | DPassive DialHold => (FGo (close_data (pwait s)), 2%N)   (* handshake read deadline passes *)
                  end
  end.

Fixpoint nwrites (k : nat) (b : brd) : brd :=
  match k with O => b | S k' => nwrites k' (bswrite b) end.

Fixpoint ftp_loop (fuel : nat) (v6 : bool) (dial : dialmode) (s : ftp_st) (b : brd) : outcome * ftp_st * brd :=
  match fuel with
  | O => (OutOfFuel, s, b)
  | S f =>
      match read_bytes (S f) 10 [] b with
      | RsFuel => (OutOfFuel, s, b)
      | RsOk line ENone b1 =>
          let '(st, k) := ftp_cmd v6 dial s line in
          let b2 := nwrites (N.to_nat k) b1 in
          match st with
          | FGo s' => ftp_loop f v6 dial s' b2
          | FClosed s' => (Returned, s', b2)
          | FPanic s' => (Panicked, close_data s', b2)         (* Handle: defer ftpConn.Close() *)
          | FOut => (Unmodelled, s, b2)
          end
      | RsOk _ _ b1 => (Returned, close_data s, b1)            (* Serve: break; conn.Close() *)
      end
  end.

(* Handle: recv := make(chan string); defer close(recv); ...; defer ftpConn.Close(); go func() { for msg := range recv ... }() *)
Definition ftp_init : ftp_st := mkF false [] DNone 1 0 0 0.

(* when Handle is over (also by a panic: the deferred close(recv) runs) the pump ends *)
Definition ftp_res (s : ftp_st) : res :=
  mkRes (f_gor s - 1) (f_lis s) (f_lis s + f_dconns s).

(* nothing sits on a timer of its own any more: Handle defers ftpConn.Close(), so a session
   that ends in a recovered panic closes its data socket like any other *)
Definition ftp_late (o : outcome) (s : ftp_st) : res := res0.

Definition handle_ftp_st (v6 : bool) (dial : dialmode) (fuel : nat) (c : conn) : outcome * ftp_st * brd :=
  ftp_loop fuel v6 dial ftp_init (bswrite (new_reader c)).       (* 220 banner *)

(* the data socket the session still holds when its control loop is over *)
Definition ftp_final_data (v6 : bool) (dial : dialmode) (fuel : nat) (c : conn) : dsock :=
  f_data (snd (fst (handle_ftp_st v6 dial fuel c))).
Definition data_connected (d : dsock) : bool :=
  match d with DPassive m => connected m | DNone => false end.

Definition handle_ftp (v6 : bool) (dial : dialmode) (fuel : nat) (c : conn) : hres :=
  let '(o, s, b') := handle_ftp_st v6 dial fuel c in
  mkH4 o (b_c b') (ftp_res s) (ftp_late o s).

(* ------------------------------------------------------------------ *)
(* services/smtp: smtp.go Handle (pump goroutine: for { select { case <-done: return ... } },
   done closed by a defer when Handle is over),
   conn.go state machine.  The service always has a certificate (storage generates one):
   EHLO announces STARTTLS.  STARTTLS and DATA/BDAT bodies are outside the model. *)
Inductive sstate := SHello | SLoop | SMail.

Definition uline (l : bytes) : bytes := map upper l.
Definition is_cmd (line pfx : bytes) : bool := starts_with pfx (uline line).

Definition c_HELO : bytes := [72;69;76;79]%N.
Definition c_EHLO : bytes := [69;72;76;79]%N.
Definition c_HELP : bytes := [72;69;76;80]%N.
Definition c_MAIL : bytes := [77;65;73;76;32;70;82;79;77]%N.
Definition c_STARTTLS : bytes := [83;84;65;82;84;84;76;83]%N.
Definition c_RSET : bytes := [82;83;69;84]%N.
Definition c_QUIT : bytes := [81;85;73;84]%N.
Definition c_NOOP : bytes := [78;79;79;80]%N.
Definition c_RCPT : bytes := [82;67;80;84;32;84;79]%N.
Definition c_BDAT : bytes := [66;68;65;84]%N.
Definition c_DATA : bytes := [68;65;84;65]%N.

(* parseHelloArgument: the domain is what follows the first space, else the whole line *)
Definition hello_domain_ok (line : bytes) : bool :=
  match split_first_space [] line with
  | (_, Some d) => negb (isnil d)
  | (l, None) => negb (isnil l)
  end.

Definition LOOP_THRESHOLD : N := 100.

Fixpoint smtp_loop (fuel : nat) (st : sstate) (i : N) (b : brd) : outcome * brd :=
  match fuel with
  | O => (OutOfFuel, b)
  | S f =>
      match text_line (S f) None b with
      | RsFuel => (OutOfFuel, b)
      | RsOk line ENone b1 =>
          match st with
          | SHello =>
              if is_cmd line c_HELO then
                if hello_domain_ok line then smtp_loop f SLoop i (bswrite b1) else (Returned, bswrite b1)
              else if is_cmd line c_EHLO then
                if hello_domain_ok line then smtp_loop f SLoop i (nwrites 9 b1) else (Returned, bswrite b1)
              else if is_cmd line c_HELP then smtp_loop f SHello i (nwrites 2 b1)
              else (Returned, bswrite b1)
          | SLoop =>
              if isnil line then smtp_loop f SLoop i b1
              else
                let i' := (i + 1)%N in
                if (LOOP_THRESHOLD <? i')%N then (Returned, bswrite b1)
                else if is_cmd line c_MAIL then smtp_loop f SMail i' (bswrite b1)
                else if is_cmd line c_STARTTLS then (Unmodelled, bswrite b1)             (* TLS handshake on the connection *)
                else if is_cmd line c_RSET then smtp_loop f SLoop i' (bswrite b1)
                else if is_cmd line c_HELP then smtp_loop f SLoop i' (nwrites 2 b1)
                else if is_cmd line c_QUIT then (Returned, bswrite b1)
                else if is_cmd line c_NOOP then smtp_loop f SLoop i' (bswrite b1)
                else if forallb (fun x => (x =? 32)%N || (x =? 13)%N || (x =? 10)%N) line then smtp_loop f SLoop i' b1
                else smtp_loop f SLoop i' (bswrite b1)                                    (* 500, back to loopState *)
          | SMail =>
              if isnil line then smtp_loop f SLoop i b1
              else if is_cmd line c_RSET then smtp_loop f SLoop i (bswrite b1)
              else if is_cmd line c_RCPT then smtp_loop f SMail i (bswrite b1)
              else if is_cmd line c_BDAT then
                (* parts := strings.Split(line, " "); parts[1]: no chunk size, no second field: panic *)
                if contains 32 line then (Unmodelled, b1) else (Panicked, b1)
              else if is_cmd line c_DATA then (Unmodelled, b1)
              else if is_cmd line c_HELP then smtp_loop f SMail i (nwrites 2 b1)
              else smtp_loop f SLoop i (bswrite b1)
          end
      | RsOk _ _ b1 => (Returned, bswrite b1)                      (* errorState: "500 ..." then nil *)
      end
  end.

Definition handle_smtp (fuel : nat) (c : conn) : hres :=
  let b := bswrite (new_reader c) in                               (* 220 banner *)
  let '(o, b') := smtp_loop fuel SHello 0 b in
  mkH o (b_c b') res0.

(* ------------------------------------------------------------------ *)
(* dispatch *)
Inductive svc := Ntp | Echo | Dummy | Adb | Tftp | Memcached | Ftp | Smtp.

Record scn := mkScn { sc_svc : svc; sc_udp : bool; sc_v6 : bool; sc_dial : dialmode }.

Definition handle (s : scn) (fuel : nat) (c : conn) : hres :=
  match sc_svc s with
  | Ntp => handle_ntp fuel c
  | Echo => handle_echo fuel c
  | Dummy => handle_dummy fuel c
  | Adb => handle_adb fuel c
  | Tftp => handle_tftp fuel c
  | Memcached => handle_memcached (sc_udp s) fuel c
  | Ftp => handle_ftp (sc_v6 s) (sc_dial s) fuel c
  | Smtp => handle_smtp fuel c
  end.

(* enough fuel for every loop that has a bound at all *)
Definition fuel_for (c : conn) : nat := weight c + 4.

(* what stays for good: held when Handle is over and on no timer *)
Definition kept (h : hres) : res := res_sub (h_res h) (h_late h).

(* history: N sequential connections to one service instance; resources add up *)
Fixpoint history (s : scn) (cs : list conn) : res :=
  match cs with
  | [] => res0
  | c :: r => res_add (kept (handle s (fuel_for c) c)) (history s r)
  end.

(* ------------------------------------------------------------------ *)
(* services/vnc/rfb.go, the update-request queue (the service itself is not modelled, see
   part "sweep"): serve() - the producer - parses FramebufferUpdateRequests and sends each to
   pushFramesLoop - the consumer - over the channel fbupc of capacity 128.  The pusher may end
   on its own (unsupported pixel format: recover, close the socket, return).  Requests that
   serve() has already read into its 4 KiB bufio.Reader keep coming after that.
   [fixed]: the send selects on a 'pusher gone' channel - the code since repo commit 6a3f962
   ([fixed] = false is the code before it, kept for the regression witness).
   Schedule: before each send the pusher (while alive) takes some requests and may end. *)
Definition VNC_QCAP : nat := 128.
Inductive pusher := PAlive | PGone.
Record pact := mkPact { pa_take : nat; pa_die : bool }.

Inductive qout :=
| QDone (q : nat) (p : pusher)   (* every buffered request handed over; serve() goes back to Read *)
| QFailed                        (* serve() sees that the pusher is gone and ends (failf, recovered) *)
| QBlocked.                      (* queue full and nobody left to take from it: the send waits for ever *)

Fixpoint serve_queue (fixed : bool) (sched : list pact) (reqs : nat) (q : nat) (p : pusher) : qout :=
  match reqs with
  | O => QDone q p
  | S r =>
      let a := hd (mkPact 0 false) sched in
      let q1 := match p with PAlive => (q - Nat.min (pa_take a) q)%nat | PGone => q end in
      let p1 := match p with PAlive => if pa_die a then PGone else PAlive | PGone => PGone end in
      if (q1 <? VNC_QCAP)%nat
      then serve_queue fixed (tl sched) r (S q1) p1   (* room: the send goes through (with the fix and
                                                       a gone pusher the select may as well end serve()) *)
      else match p1 with
           | PAlive => serve_queue fixed (tl sched) r q1 p1   (* full: waits until the pusher, which is in
                                                               its receive loop, takes one; then sends *)
           | PGone => if fixed then QFailed else QBlocked
           end
  end.

(* ------------------------------------------------------------------ *)
(* services/ssh/ssh-simulator.go: the payload of an "env" / "exec" channel request is decoded
   as a list of strings by a loop over services/decoder: while Available() > 0 { String() =
   Uint32 length (4 bytes, else the decoder's error is set and nothing is consumed), Copy(length)
   (else the error is set); if LastError() != nil break }.  (The service itself is observed in
   part "sweep"; this loop is logic.) *)
Fixpoint ssh_strings (fuel : nat) (data : bytes) (acc : list bytes) : option (list bytes) :=
  match fuel with
  | O => None                                   (* still looping *)
  | S f =>
      match data with
      | [] => Some (rev acc)
      | _ =>
          if (length data <? 4)%nat then Some (rev acc)          (* cut inside the length prefix *)
          else let z := be_val (firstn 4 data) in
               let rest := skipn 4 data in
               if Z.of_nat (length rest) <? z then Some (rev acc)      (* cut inside the string *)
               else let n := Z.to_nat z in ssh_strings f (skipn n rest) (firstn n rest :: acc)
      end
  end.

Definition ssh_decode (data : bytes) : option (list bytes) := ssh_strings (S (length data)) data [].

(* ------------------------------------------------------------------ *)
(* services/ipp/message.go ippMsg.decode and group.go attribGroup.decode: the two loops
   over services/decoder that walk an IPP body (the service itself is observed in part "sweep",
   the body cut at every position).  The decoders of the individual values
   (services/ipp/values.go) are a parameter [vdecode] with the contract used by the termination
   proof: the data stays, the offset never goes back or past the end, the error sticks. *)
Record idec := mkD { i_data : bytes; i_off : nat; i_err : bool }.

(* Byte(): one byte, or the error and 0 without moving *)
Definition i_byte (d : idec) : idec * N :=
  if (i_off d <? length (i_data d))%nat
  then (mkD (i_data d) (S (i_off d)) (i_err d), nth (i_off d) (i_data d) 0%N)
  else (mkD (i_data d) (i_off d) true, 0%N).

(* Seek(-1): one step back, or the error *)
Definition i_unread (d : idec) : idec :=
  match i_off d with
  | O => mkD (i_data d) O true
  | S o => mkD (i_data d) o (i_err d)
  end.

Inductive iout := IOk (d : idec) | IErr (d : idec) | IFuel.

Section IppLoops.
  Variable vdecode : N -> idec -> idec.

  (* attribGroup.decode: for vtag := Byte(); vtag > unsupported-attributes-tag (5); vtag = Byte()
     { if LastError() != nil return err; v.decode(dec) }; Seek(-1) *)
  Fixpoint ipp_group (fuel : nat) (d : idec) : iout :=
    match fuel with
    | O => IFuel
    | S f =>
        let '(d1, vtag) := i_byte d in
        if (5 <? vtag)%N
        then if i_err d1 then IErr d1 else ipp_group f (vdecode vtag d1)
        else IOk (i_unread d1)
    end.

  (* ippMsg.decode after the header: for dtag := Byte(); dtag != end-of-attributes-tag (3);
     dtag = Byte() { if LastError() != nil return err; group.decode } *)
  Fixpoint ipp_groups (fuel : nat) (d : idec) : iout :=
    match fuel with
    | O => IFuel
    | S f =>
        let '(d1, dtag) := i_byte d in
        if (dtag =? 3)%N then IOk d1
        else if i_err d1 then IErr d1
        else match ipp_group (S f) d1 with
             | IOk d2 => ipp_groups f d2
             | r => r
             end
    end.
End IppLoops.

(* ------------------------------------------------------------------ *)
(* Datagram connections and the read loop of the relaying services (services/copy.go,
   services/dns-proxy.go, UDP branch).

   What a handler reads from is listener.DummyUDPConn (listener/udp_conn.go), possibly behind
   the server's peek wrapper (server/peek-connection.go: the bytes already peeked are handed
   out first, then the wrapped connection is read); server.TimeoutConn passes every Read
   through.  [dgconn] is the list of pending pieces: [[datagram]], or [[peeked; rest]], and []
   once everything is consumed (a zero-length datagram is [] from the start).

   DummyUDPConn.Read(p):
       if len(dc.Buffer) == 0 && len(p) > 0 { return 0, io.EOF }
       n := copy(p, dc.Buffer); dc.Buffer = dc.Buffer[n:]; return n, nil
   so a Read into an EMPTY slice is answered (0, nil) - also when the datagram is consumed.
   The result is (bytes handed out, end of stream reported, connection afterwards). *)
Definition dgconn := list bytes.

Definition dg_read (c : dgconn) (k : nat) : bytes * bool * dgconn :=
  match c with
  | [] => match k with
          | O => ([], false, [])       (* (0, nil): nothing to copy into, no end of stream *)
          | S _ => ([], true, [])      (* (0, io.EOF) *)
          end
  | s :: r => (firstn k s, false, match skipn k s with [] => r | rest => rest :: r end)
  end.

Definition dg_weight (c : dgconn) : nat := (length (concat c) + length c)%nat.

(* buff := make([]byte, b); n := 0
   for n < len(buff) { k, err := conn.Read(buff[n:]); n += k; if err != nil { break } }
   [bounded = false] is the same loop without its condition, "for { ... }", which leaves it
   to the connection to report its end.  Result: buff[:n] and the number of Read calls;
   None = still looping when the fuel is gone. *)
Fixpoint dg_loop (bounded : bool) (fuel : nat) (b : nat) (acc : bytes) (c : dgconn) (reads : nat)
  : option (bytes * nat) :=
  match fuel with
  | O => None
  | S f =>
      if bounded && negb (length acc <? b)%nat then Some (acc, reads)
      else let '(d, eof, c') := dg_read c (b - length acc) in
           if eof then Some (acc ++ d, S reads)
           else dg_loop bounded f b (acc ++ d) c' (S reads)
  end.

(* the receive buffer of copyService.Handle / dnsProxy.Handle *)
Definition DGBUF : nat := N.to_nat 65535.

(* the datagram as the socket listener hands it over: one piece, none for a zero-length one *)
Definition dg_of (d : bytes) : dgconn := match d with [] => [] | _ => [d] end.

(* what the relaying handlers do with a datagram: the bytes they forward (nothing is dialled
   for n = 0) and the Read calls they make *)
Definition dg_relay (d : bytes) : option (bytes * nat) :=
  dg_loop true 4 DGBUF [] (dg_of d) 0.
