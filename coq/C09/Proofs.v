(* C09 - lemmas. *)
From HT Require Import Common.Bytes C09.Model.
From Coq Require Import ZifyBool ZifyN ZifyNat.
Open Scope Z_scope.

(* ------------------------------------------------------------------ *)
(* Read on a connection *)

Lemma BUFSZ_pos : (2 <= BUFSZ)%nat.
Proof. unfold BUFSZ; lia. Qed.
Lemma COPYSZ_pos : (1 <= COPYSZ)%nat.
Proof. unfold COPYSZ; lia. Qed.
Lemma ADBSZ_pos : (1 <= ADBSZ)%nat.
Proof. unfold ADBSZ; lia. Qed.
Global Opaque BUFSZ COPYSZ ADBSZ.

Lemma weight_cons s r t m rm wd :
  weight (mkConn5 (s :: r) t m rm wd) = (length s + length (concat r) + S (length r))%nat.
Proof. unfold weight; cbn [c_segs concat length]; rewrite app_length; lia. Qed.

(* data leaves the connection: what was read plus what remains never exceeds what was there *)
Lemma cread_pot c n d e c' :
  cread c n = (d, e, c') -> (length d + weight c' <= weight c)%nat.
Proof.
  unfold cread; destruct c as [segs t m rm wd]; cbn [c_segs c_term c_m c_room c_wdead].
  destruct segs as [|s r].
  - destruct t; intros H; inversion H; subst; cbn; lia.
  - intros H; inversion H; subst; clear H.
    rewrite weight_cons.
    pose proof (firstn_skipn n s) as Hs.
    assert (length s = length (firstn n s) + length (skipn n s))%nat as Hl
      by (rewrite <- app_length, Hs; reflexivity).
    destruct (skipn n s) as [|x rest] eqn:Hk.
    + unfold weight; cbn [c_segs]; cbn [length] in Hl; lia.
    + rewrite weight_cons; cbn [length] in *; lia.
Qed.

Lemma cread_weight c n d e c' : cread c n = (d, e, c') -> (weight c' <= weight c)%nat.
Proof. intros H; apply cread_pot in H; lia. Qed.

(* a Read that finds a pending segment makes progress, whatever it returns *)
Lemma cread_progress c n d e c' :
  (0 < n)%nat -> c_segs c <> [] -> cread c n = (d, e, c') -> (weight c' < weight c)%nat.
Proof.
  unfold cread; destruct c as [segs t m rm wd]; cbn [c_segs c_term c_m c_room c_wdead].
  destruct segs as [|s r]; [congruence|]; intros Hn _ H; inversion H; subst; clear H.
  rewrite weight_cons.
  destruct (skipn n s) as [|x rest] eqn:Hk.
  - unfold weight; cbn [c_segs]; lia.
  - rewrite weight_cons.
    assert (length (x :: rest) = length s - n)%nat by (rewrite <- Hk; apply skipn_length).
    cbn [length] in *; lia.
Qed.

Lemma cread_term c n d e c' : cread c n = (d, e, c') -> c_term c' = c_term c.
Proof.
  unfold cread; destruct (c_segs c); [destruct (c_term c) eqn:E|]; intros H; inversion H; subst; cbn; congruence.
Qed.

(* with pending segments a Read never fails; without, the terminal behaviour decides *)
Lemma cread_pending c n d e c' : c_segs c <> [] -> cread c n = (d, e, c') -> e = ENone.
Proof. unfold cread; destruct (c_segs c); [congruence|]; intros _ H; inversion H; reflexivity. Qed.

Lemma cread_drained c n d e c' :
  c_segs c = [] -> cread c n = (d, e, c') ->
  d = [] /\ c_segs c' = [] /\
  e = match c_term c with TEof => EEOF | TTimeout => ETimeout end.
Proof.
  unfold cread; intros ->; destruct (c_term c); intros H; inversion H; subst; cbn; auto.
Qed.

Lemma cread_err_nodata c n d e c' : cread c n = (d, e, c') -> e <> ENone -> d = [] /\ c_segs c = [].
Proof.
  intros H He; destruct (c_segs c) eqn:E.
  - destruct (cread_drained _ _ _ _ _ E H) as (? & _ & _); auto.
  - exfalso; apply He; eapply cread_pending; eauto; congruence.
Qed.

Lemma cread_data_progress c n d e c' :
  cread c n = (d, e, c') -> d <> [] -> (weight c' < weight c)%nat.
Proof.
  intros H Hd; destruct (c_segs c) eqn:E.
  - destruct (cread_drained _ _ _ _ _ E H) as (? & _ & _); congruence.
  - destruct n.
    + unfold cread in H; rewrite E in H; inversion H; subst; cbn in Hd; congruence.
    + apply (cread_progress c (S n) d e c'); [lia|congruence|exact H].
Qed.

Lemma cread_drained_fails c n d e c' : c_segs c = [] -> cread c n = (d, e, c') -> e <> ENone.
Proof.
  intros Es E; destruct (cread_drained _ _ _ _ _ Es E) as (_ & _ & ->); destruct (c_term c); congruence.
Qed.

Lemma cread_timeouts c n d e c' :
  cread c n = (d, e, c') ->
  m_timeouts (c_m c') = (m_timeouts (c_m c) + match e with ETimeout => 1 | _ => 0 end)%N.
Proof.
  unfold cread; destruct (c_segs c); [destruct (c_term c)|]; intros H; inversion H; subst; cbn; lia.
Qed.

Lemma cread_reads c n d e c' :
  cread c n = (d, e, c') -> m_reads (c_m c') = (m_reads (c_m c) + 1)%N.
Proof.
  unfold cread; destruct (c_segs c); [destruct (c_term c)|]; intros H; inversion H; subst; cbn; lia.
Qed.

Lemma cwrite_e_same c k :
  c_segs (fst (cwrite_e c k)) = c_segs c /\ c_term (fst (cwrite_e c k)) = c_term c /\
  m_timeouts (c_m (fst (cwrite_e c k))) = m_timeouts (c_m c) /\ c_wdead (fst (cwrite_e c k)) = c_wdead c.
Proof. unfold cwrite_e. destruct (c_room c) as [r|]; [destruct (k <=? r)%N|]; cbn; auto. Qed.

Lemma cwrite_segs c k : c_segs (cwrite c k) = c_segs c.
Proof. apply cwrite_e_same. Qed.
Lemma cwrite_weight c k : weight (cwrite c k) = weight c.
Proof. unfold weight; rewrite cwrite_segs; reflexivity. Qed.
Lemma cwrite_term c k : c_term (cwrite c k) = c_term c.
Proof. apply cwrite_e_same. Qed.
Lemma cwrite_timeouts c k : m_timeouts (c_m (cwrite c k)) = m_timeouts (c_m c).
Proof. apply cwrite_e_same. Qed.

Lemma swrite_same c k :
  c_segs (swrite c k) = c_segs c /\ c_term (swrite c k) = c_term c /\
  m_timeouts (c_m (swrite c k)) = m_timeouts (c_m c).
Proof.
  unfold swrite. destruct (c_wdead c); [auto|].
  pose proof (cwrite_e_same c k) as (A & B & C & _).
  destruct (cwrite_e c k) as [c' ok]; cbn [fst] in *. destruct ok; cbn; auto.
Qed.
Lemma swrite_weight c k : weight (swrite c k) = weight c.
Proof. unfold weight; destruct (swrite_same c k) as (-> & _); reflexivity. Qed.

(* a Write through the wrapper always comes back: at the cost of at most one write deadline *)
Lemma cwrite_e_deadline c k :
  (m_wtimeouts (c_m (fst (cwrite_e c k))) <= m_wtimeouts (c_m c) + 1)%N /\
  (snd (cwrite_e c k) = true -> m_wtimeouts (c_m (fst (cwrite_e c k))) = m_wtimeouts (c_m c)).
Proof. unfold cwrite_e. destruct (c_room c) as [r|]; [destruct (k <=? r)%N|]; cbn; split; intros; try lia; congruence. Qed.

(* a buffered writer waits out at most ONE write deadline in its whole life *)
Lemma swrite_once c k :
  (c_wdead c = true -> swrite c k = c) /\
  (m_wtimeouts (c_m (swrite c k)) <= m_wtimeouts (c_m c) + 1)%N /\
  (m_wtimeouts (c_m (swrite c k)) = m_wtimeouts (c_m c) + 1 -> c_wdead (swrite c k) = true)%N.
Proof.
  unfold swrite. destruct (c_wdead c) eqn:E; [repeat split; auto; lia|].
  split; [congruence|].
  pose proof (cwrite_e_deadline c k) as [A B]. pose proof (cwrite_e_same c k) as (_ & _ & _ & D).
  destruct (cwrite_e c k) as [c' ok]; cbn [fst snd] in *. destruct ok; cbn [c_m c_wdead]; split; auto; try lia;
    try (specialize (B eq_refl); lia).
Qed.

(* ------------------------------------------------------------------ *)
(* io.Copy *)

Lemma io_copy_step_conn (wr : bool) (d : bytes) (c1 : conn) :
  let r := match d with
           | [] => (c1, true)
           | _ => if wr then cwrite_e c1 (nlen d) else (c1, true)
           end in
  weight (fst r) = weight c1 /\ m_timeouts (c_m (fst r)) = m_timeouts (c_m c1).
Proof.
  destruct d; [cbn; auto|]. destruct wr; [|cbn; auto]. cbv zeta.
  pose proof (cwrite_e_same c1 (nlen (n :: d))) as (A & _ & C & _).
  split; [unfold weight; rewrite A; reflexivity|exact C].
Qed.

Lemma io_copy_returns fuel wr c :
  (weight c < fuel)%nat -> fst (io_copy fuel wr c) = Returned.
Proof.
  revert c; induction fuel as [|f IH]; intros c Hw; [lia|]; cbn [io_copy].
  destruct (cread c COPYSZ) as [[d e] c1] eqn:E.
  pose proof (io_copy_step_conn wr d c1) as [W _]. cbv zeta in W.
  destruct (match d with [] => (c1, true) | _ :: _ => if wr then cwrite_e c1 (nlen d) else (c1, true) end) as [c2 ok].
  cbn [fst] in W. destruct ok; [|reflexivity].
  destruct (c_segs c) eqn:Es.
  - destruct (cread_drained _ _ _ _ _ Es E) as (_ & _ & ->). destruct (c_term c); reflexivity.
  - assert (e = ENone) as -> by (eapply cread_pending; eauto; congruence).
    assert (weight c1 < weight c)%nat
      by (apply (cread_progress c COPYSZ d ENone c1); [pose proof COPYSZ_pos; lia|congruence|exact E]).
    apply IH. lia.
Qed.

Lemma io_copy_one_deadline fuel wr c :
  (m_timeouts (c_m (snd (io_copy fuel wr c))) <= m_timeouts (c_m c) + 1)%N.
Proof.
  revert c; induction fuel as [|f IH]; intros c; cbn [io_copy]; [cbn; lia|].
  destruct (cread c COPYSZ) as [[d e] c1] eqn:E.
  pose proof (cread_timeouts _ _ _ _ _ E) as Ht.
  pose proof (io_copy_step_conn wr d c1) as [_ T]. cbv zeta in T.
  destruct (match d with [] => (c1, true) | _ :: _ => if wr then cwrite_e c1 (nlen d) else (c1, true) end) as [c2 ok].
  cbn [fst] in T. destruct ok; [|cbn [snd]; destruct e; lia].
  destruct e; cbn [snd]; try lia.
  specialize (IH c2). lia.
Qed.

(* ------------------------------------------------------------------ *)
(* bufio.Reader *)

Definition pot (b : brd) : nat := (length (b_buf b) + weight (b_c b))%nat.

Lemma cread_err_kind c n d e c' : cread c n = (d, e, c') -> e <> EBufFull /\ e <> ENoProgress.
Proof.
  unfold cread; destruct (c_segs c); [destruct (c_term c)|]; intros H; inversion H; subst; split; congruence.
Qed.

Lemma fill_loop_spec i buf c buf' e c' :
  fill_loop i buf c = (buf', e, c') ->
  (length buf' + weight c' <= length buf + weight c)%nat /\
  c_term c' = c_term c /\
  (e = ENone -> (weight c' < weight c)%nat) /\
  (e <> ENone -> buf' = buf) /\ e <> EBufFull.
Proof.
  revert buf c; induction i as [|i IH]; intros buf c; cbn [fill_loop].
  - intros H; inversion H; subst; repeat split; try lia; congruence.
  - destruct (cread c (BUFSZ - length buf)) as [[d e0] c1] eqn:E.
    pose proof (cread_pot _ _ _ _ _ E) as Hp.
    pose proof (cread_term _ _ _ _ _ E) as Ht.
    pose proof (cread_err_kind _ _ _ _ _ E) as [Hk _].
    destruct e0.
    + destruct d as [|x d].
      * intros H; apply IH in H; destruct H as (H1 & H2 & H3 & H4 & H5).
        cbn [length] in Hp. split; [lia|]. split; [congruence|].
        split; [intros He; specialize (H3 He); lia|]. split; assumption.
      * intros H; inversion H; subst.
        assert (weight c' < weight c)%nat by (eapply cread_data_progress; eauto; congruence).
        rewrite app_length. repeat split; try lia; try congruence.
    + intros H; inversion H; subst. destruct (cread_err_nodata _ _ _ _ _ E) as [-> _]; [congruence|].
      rewrite app_nil_r; cbn [length] in Hp. repeat split; try lia; congruence.
    + intros H; inversion H; subst. destruct (cread_err_nodata _ _ _ _ _ E) as [-> _]; [congruence|].
      rewrite app_nil_r; cbn [length] in Hp. repeat split; try lia; congruence.
    + intros H; inversion H; subst. destruct (cread_err_nodata _ _ _ _ _ E) as [-> _]; [congruence|].
      rewrite app_nil_r; cbn [length] in Hp. repeat split; try lia; congruence.
    + congruence.
Qed.

Lemma fill_spec b :
  (pot (fill b) <= pot b)%nat /\ c_term (b_c (fill b)) = c_term (b_c b) /\
  (b_err b = ENone -> b_err (fill b) = ENone -> (weight (b_c (fill b)) < weight (b_c b))%nat) /\
  (b_err b = ENone -> b_err (fill b) <> ENone -> b_buf (fill b) = b_buf b) /\
  (b_err b <> EBufFull -> b_err (fill b) <> EBufFull).
Proof.
  unfold fill, pot. destruct (fill_loop MAX_EMPTY (b_buf b) (b_c b)) as [[buf e] c] eqn:E.
  apply fill_loop_spec in E; destruct E as (H1 & H2 & H3 & H4 & H5); cbn [b_buf b_err b_c].
  repeat split; auto.
  - intros Hb; rewrite Hb; destruct e; intros; try congruence; auto.
  - intros Hb; rewrite Hb; destruct e; intros; try congruence; apply H4; congruence.
  - destruct e; congruence.
Qed.

Lemma find_idx_lt x l i : find_idx x l = Some i -> (i < length l)%nat.
Proof.
  revert i; induction l as [|y r IH]; cbn [find_idx]; intros i; [congruence|].
  destruct (x =? y)%N.
  - intros H; inversion H; cbn; lia.
  - destruct (find_idx x r) eqn:E; cbn [option_map]; intros H; inversion H; subst.
    specialize (IH _ eq_refl); cbn; lia.
Qed.

Definition need (b : brd) : nat := match b_err b with ENone => weight (b_c b) + 2 | _ => 1 end.

Lemma need_le_pot b : (need b <= pot b + 2)%nat.
Proof. unfold need, pot; destruct (b_err b); lia. Qed.

Lemma read_slice_spec fuel delim b :
  b_err b <> EBufFull -> (need b <= fuel)%nat ->
  exists line e b', read_slice fuel delim b = RsOk line e b' /\
    (pot b' + length line <= pot b)%nat /\
    (e = ENone -> line <> []) /\
    (e = EBufFull -> (BUFSZ <= length line)%nat /\ b_err b' = ENone) /\
    b_err b' <> EBufFull /\
    c_term (b_c b') = c_term (b_c b).
Proof.
  revert b; induction fuel as [|f IH]; intros b Hnf Hn.
  - unfold need in Hn; destruct (b_err b); lia.
  - cbn [read_slice]. destruct (find_idx delim (b_buf b)) as [i|] eqn:Ef.
    + apply find_idx_lt in Ef.
      eexists _, _, _; split; [reflexivity|]. unfold pot; cbn [b_buf b_c b_err].
      rewrite firstn_length, skipn_length. repeat split; auto; try congruence; try lia.
      intros _ Hc. apply (f_equal (@length N)) in Hc; rewrite firstn_length in Hc; cbn [length] in Hc; lia.
    + destruct (b_err b) eqn:Eb; try congruence;
        try (eexists _, _, _; split; [reflexivity|]; unfold pot; cbn [b_buf b_c b_err length];
             repeat split; auto; try congruence; lia).
      destruct (BUFSZ <=? length (b_buf b))%nat eqn:Efull.
      * apply Nat.leb_le in Efull.
        eexists _, _, _; split; [reflexivity|]; unfold pot; cbn [b_buf b_c b_err length].
        repeat split; auto; try congruence; lia.
      * destruct (fill_spec b) as (F1 & F2 & F3 & F4 & F5).
        assert (need (fill b) <= f)%nat as Hn'.
        { unfold need in *; rewrite Eb in Hn.
          destruct (b_err (fill b)) eqn:Ee; [specialize (F3 Eb eq_refl); lia|lia..]. }
        assert (b_err b <> EBufFull) as Hnf' by (rewrite Eb; congruence).
        destruct (IH (fill b) (F5 Hnf') Hn') as (line & e & b' & H & P1 & P2 & P3 & P4 & P5).
        exists line, e, b'; split; [exact H|].
        split; [lia|]. split; [exact P2|]. split; [exact P3|]. split; [exact P4|]. congruence.
Qed.

Lemma read_bytes_spec fuel delim acc b :
  b_err b <> EBufFull -> (pot b + 3 <= fuel)%nat ->
  exists line e b', read_bytes fuel delim acc b = RsOk line e b' /\
    (pot b' <= pot b)%nat /\ (e = ENone -> (pot b' < pot b)%nat) /\ e <> EBufFull /\
    b_err b' <> EBufFull /\ c_term (b_c b') = c_term (b_c b).
Proof.
  revert acc b; induction fuel as [|f IH]; intros acc b Hnf Hp; [lia|].
  cbn [read_bytes].
  destruct (read_slice_spec (S f) delim b Hnf) as (line & e & b1 & H & P1 & P2 & P3 & P4 & P5).
  { pose proof (need_le_pot b); lia. }
  rewrite H.
  assert (e = ENone -> (pot b1 < pot b)%nat) as Hstrict.
  { intros He; specialize (P2 He); destruct line; [congruence|cbn [length] in P1; lia]. }
  destruct e;
    try (exists (acc ++ line); eexists; exists b1; split; [reflexivity|];
         split; [lia|]; split; [exact Hstrict|]; split; [congruence|]; split; assumption).
  destruct (P3 eq_refl) as [Q1 Q2]. pose proof BUFSZ_pos.
  destruct (IH (acc ++ line) b1) as (l2 & e2 & b2 & H2 & R1 & R2 & R3 & R4 & R5); [congruence|lia|].
  exists l2, e2, b2; split; [exact H2|].
  split; [lia|]. split; [intros He; specialize (R2 He); lia|]. split; [exact R3|]. split; [exact R4|]. congruence.
Qed.

Lemma bwrite_pot b k : pot (bwrite b k) = pot b.
Proof. unfold pot, bwrite; cbn [b_buf b_c]. rewrite cwrite_weight; reflexivity. Qed.
Lemma bwrite_err b k : b_err (bwrite b k) = b_err b.
Proof. reflexivity. Qed.
Lemma bwrite_term b k : c_term (b_c (bwrite b k)) = c_term (b_c b).
Proof. unfold bwrite; cbn [b_c]; apply cwrite_term. Qed.
Lemma bswrite_pot b : pot (bswrite b) = pot b.
Proof. unfold pot, bswrite; cbn [b_buf b_c]. rewrite swrite_weight; reflexivity. Qed.
Lemma bswrite_err b : b_err (bswrite b) = b_err b.
Proof. reflexivity. Qed.
Lemma nwrites_pot k b : pot (nwrites k b) = pot b.
Proof. revert b; induction k; intros b; cbn [nwrites]; [reflexivity|]. rewrite IHk; apply bswrite_pot. Qed.
Lemma nwrites_err k b : b_err (nwrites k b) = b_err b.
Proof. revert b; induction k; intros b; cbn [nwrites]; [reflexivity|]. rewrite IHk; apply bswrite_err. Qed.

Lemma bread_spec b n d e b' :
  b_err b <> EBufFull -> bread b n = (d, e, b') ->
  (pot b' <= pot b)%nat /\ b_err b' <> EBufFull /\ c_term (b_c b') = c_term (b_c b).
Proof.
  intros Hnf; unfold bread, pot.
  destruct (b_buf b) as [|x buf] eqn:Eb.
  - destruct (b_err b) eqn:Ee; try congruence;
      try (intros H; inversion H; subst; cbn [b_buf b_c b_err length]; repeat split; try lia; congruence).
    destruct (BUFSZ <=? n)%nat.
    + destruct (cread (b_c b) n) as [[d0 e0] c'] eqn:E. intros H; inversion H; subst.
      pose proof (cread_weight _ _ _ _ _ E). pose proof (cread_term _ _ _ _ _ E).
      cbn [b_buf b_c b_err length]; repeat split; try lia; congruence.
    + destruct (cread (b_c b) BUFSZ) as [[d0 e0] c'] eqn:E.
      pose proof (cread_pot _ _ _ _ _ E). pose proof (cread_term _ _ _ _ _ E).
      pose proof (cread_err_kind _ _ _ _ _ E) as [? _].
      destruct d0; intros H'; inversion H'; subst; cbn [b_buf b_c b_err length] in *.
      * repeat split; try lia; congruence.
      * rewrite skipn_length; cbn [length]. repeat split; try lia; congruence.
  - intros H; inversion H; subst; cbn [b_buf b_c b_err].
    rewrite skipn_length. repeat split; auto; lia.
Qed.

Lemma discard_loop_spec fuel remain b :
  (0 < remain)%nat -> b_err b <> EBufFull -> (pot b + 1 <= fuel)%nat ->
  exists b', discard_loop fuel remain b = Some b' /\
    (pot b' <= pot b)%nat /\ b_err b' <> EBufFull /\ c_term (b_c b') = c_term (b_c b).
Proof.
  revert remain b; induction fuel as [|f IH]; intros remain b Hr Hnf Hp; [lia|].
  cbn [discard_loop].
  set (b1 := match b_buf b with [] => fill b | _ => b end).
  assert ((pot b1 <= pot b)%nat /\ b_err b1 <> EBufFull /\ c_term (b_c b1) = c_term (b_c b) /\
          (b_err b1 = ENone -> (length (b_buf b1) = 0)%nat -> (pot b1 < pot b)%nat \/ (pot b1 + 1 <= f)%nat)) as (A1 & A2 & A3 & A4).
  { subst b1; destruct (b_buf b) eqn:Eb.
    - destruct (fill_spec b) as (F1 & F2 & F3 & F4 & F5). repeat split; auto.
      intros He Hl. destruct (b_err b) eqn:Ee.
      + left. specialize (F3 eq_refl He). unfold pot in *; rewrite Eb, Hl in *; cbn [length] in *; lia.
      + exfalso; revert He; unfold fill; destruct (fill_loop MAX_EMPTY (b_buf b) (b_c b)) as [[? e] ?]; cbn [b_err]; rewrite Ee; destruct e; congruence.
      + exfalso; revert He; unfold fill; destruct (fill_loop MAX_EMPTY (b_buf b) (b_c b)) as [[? e] ?]; cbn [b_err]; rewrite Ee; destruct e; congruence.
      + exfalso; revert He; unfold fill; destruct (fill_loop MAX_EMPTY (b_buf b) (b_c b)) as [[? e] ?]; cbn [b_err]; rewrite Ee; destruct e; congruence.
      + congruence.
    - repeat split; auto. intros _ Hl; rewrite Eb in Hl; cbn in Hl; lia. }
  clearbody b1.
  set (skip := Nat.min (length (b_buf b1)) remain).
  destruct (remain - skip)%nat as [|r'] eqn:Er.
  - eexists; split; [reflexivity|]. unfold pot in *; cbn [b_buf b_c b_err]; rewrite skipn_length.
    repeat split; auto; lia.
  - cbn [b_err b_buf b_c].
    destruct (b_err b1) eqn:Ee;
      try (eexists; split; [reflexivity|]; unfold pot in *; cbn [b_buf b_c b_err]; rewrite skipn_length;
           repeat split; auto; try congruence; lia).
    assert (pot (mkBr (skipn skip (b_buf b1)) ENone (b_c b1)) + 1 <= f)%nat as Hp2.
    { unfold pot in *; cbn [b_buf b_c]; rewrite skipn_length.
      destruct (length (b_buf b1)) eqn:El.
      - destruct (A4 eq_refl eq_refl); lia.
      - subst skip; lia. }
    destruct (IH (S r') (mkBr (skipn skip (b_buf b1)) ENone (b_c b1))) as (b' & H & R1 & R2 & R3);
      [lia|cbn; congruence|exact Hp2|].
    exists b'; split; [exact H|]. unfold pot in *; cbn [b_buf b_c] in *; rewrite skipn_length in R1.
    repeat split; auto; try lia. rewrite R3; exact A3.
Qed.

Lemma discard_spec fuel n b :
  b_err b <> EBufFull -> (pot b + 1 <= fuel)%nat ->
  exists b', discard fuel n b = Some b' /\
    (pot b' <= pot b)%nat /\ b_err b' <> EBufFull /\ c_term (b_c b') = c_term (b_c b).
Proof.
  intros Hnf Hp; unfold discard. destruct (n <=? 0) eqn:E.
  - exists b; repeat split; auto.
  - apply discard_loop_spec; auto; lia.
Qed.

Lemma unread_cr_spec frag b frag' b' :
  unread_cr frag b = (frag', b') ->
  (pot b' <= pot b + 1)%nat /\ b_err b' = b_err b /\ c_term (b_c b') = c_term (b_c b).
Proof.
  unfold unread_cr. destruct (rev frag) as [|y r].
  - intros H; inversion H; subst; repeat split; lia.
  - destruct (y =? 13)%N; intros H; inversion H; subst; unfold pot; cbn [b_buf b_c b_err length];
      repeat split; lia.
Qed.

Lemma text_line_spec fuel acc b :
  b_err b <> EBufFull -> (pot b + 3 <= fuel)%nat ->
  exists line e b', text_line fuel acc b = RsOk line e b' /\
    (pot b' <= pot b)%nat /\ (e = ENone -> (pot b' < pot b)%nat) /\ e <> EBufFull /\
    b_err b' <> EBufFull /\ c_term (b_c b') = c_term (b_c b).
Proof.
  revert acc b; induction fuel as [|f IH]; intros acc b Hnf Hp; [lia|].
  cbn [text_line].
  destruct (read_slice_spec (S f) 10 b Hnf) as (line & e & b1 & H & P1 & P2 & P3 & P4 & P5).
  { pose proof (need_le_pot b); lia. }
  rewrite H.
  assert (line <> [] -> (pot b1 < pot b)%nat) as Hstrict.
  { destruct line; [congruence|cbn [length] in P1; lia]. }
  destruct e.
  - destruct line as [|x l]; [exfalso; apply P2; auto|].
    eexists _, _, _; split; [reflexivity|]. split; [lia|]. split; [intros _; apply Hstrict; congruence|].
    split; [congruence|]. split; assumption.
  - destruct line as [|x l].
    + eexists _, _, _; split; [reflexivity|]. split; [lia|]. split; [congruence|]. split; [congruence|]. split; assumption.
    + eexists _, _, _; split; [reflexivity|]. split; [lia|]. split; [intros _; apply Hstrict; congruence|].
      split; [congruence|]. split; assumption.
  - destruct line as [|x l].
    + eexists _, _, _; split; [reflexivity|]. split; [lia|]. split; [congruence|]. split; [congruence|]. split; assumption.
    + eexists _, _, _; split; [reflexivity|]. split; [lia|]. split; [intros _; apply Hstrict; congruence|].
      split; [congruence|]. split; assumption.
  - destruct line as [|x l].
    + eexists _, _, _; split; [reflexivity|]. split; [lia|]. split; [congruence|]. split; [congruence|]. split; assumption.
    + eexists _, _, _; split; [reflexivity|]. split; [lia|]. split; [intros _; apply Hstrict; congruence|].
      split; [congruence|]. split; assumption.
  - destruct (P3 eq_refl) as [Q1 Q2]. pose proof BUFSZ_pos.
    destruct (unread_cr line b1) as [frag' b''] eqn:Eu.
    destruct (unread_cr_spec _ _ _ _ Eu) as (U1 & U2 & U3).
    destruct (IH (Some (oapp acc frag')) b'') as (l2 & e2 & b2 & H2 & R1 & R2 & R3 & R4 & R5);
      [congruence|lia|].
    exists l2, e2, b2; split; [exact H2|].
    split; [lia|]. split; [intros He; specialize (R2 He); lia|]. split; [exact R3|]. split; [exact R4|]. congruence.
Qed.

(* ------------------------------------------------------------------ *)
(* handlers over bufio: they finish on EVERY kind of connection end, the drained datagram
   wrapper included (fill's 100-empty-reads cut-off turns (0, nil) into ErrNoProgress) *)

Lemma dummy_loop_returns fuel b :
  b_err b <> EBufFull -> (pot b + 3 <= fuel)%nat -> fst (dummy_loop fuel b) = Returned.
Proof.
  revert b; induction fuel as [|f IH]; intros b Hnf Hp; [lia|]. cbn [dummy_loop].
  destruct (read_bytes_spec (S f) 10 [] b Hnf Hp) as (line & e & b1 & H & P1 & P2 & P3 & P4 & P5).
  rewrite H. destruct e; try reflexivity; try congruence.
  apply IH; [rewrite bwrite_err; exact P4|]. rewrite bwrite_pot. specialize (P2 eq_refl); lia.
Qed.

Lemma pot_new_reader c : pot (new_reader c) = weight c.
Proof. reflexivity. Qed.
Lemma new_reader_err c : b_err (new_reader c) <> EBufFull.
Proof. cbn; congruence. Qed.

Lemma handle_dummy_returns fuel c :
  (weight c + 3 <= fuel)%nat -> h_out (handle_dummy fuel c) = Returned.
Proof.
  intros Hf; unfold handle_dummy.
  pose proof (dummy_loop_returns fuel (new_reader c)) as H.
  destruct (dummy_loop fuel (new_reader c)) as [o b]; cbn [fst h_out] in *.
  apply H; [cbn; congruence|rewrite pot_new_reader; lia].
Qed.

Lemma handle_tftp_returns fuel c :
  (weight c + 3 <= fuel)%nat -> h_out (handle_tftp fuel c) = Returned.
Proof.
  intros Hf; unfold handle_tftp.
  destruct (bread (new_reader c) 2) as [[pt e] b1] eqn:E1.
  destruct (bread_spec _ _ _ _ _ (new_reader_err c) E1) as (A1 & A2 & A3).
  rewrite pot_new_reader in A1.
  assert (forall k, h_out
     match read_bytes fuel 0 [] b1 with
     | RsOk _ ENone b2 =>
         match read_bytes fuel 0 [] b2 with
         | RsOk _ ENone b3 => mkH Returned (cwrite (b_c b3) k) res0
         | RsOk _ _ b3 => mkH Returned (b_c b3) res0
         | RsFuel => mkH OutOfFuel (b_c b2) res0
         end
     | RsOk _ _ b2 => mkH Returned (b_c b2) res0
     | RsFuel => mkH OutOfFuel (b_c b1) res0
     end = Returned) as Htwo.
  { intros k.
    destruct (read_bytes_spec fuel 0 [] b1 A2) as (l1 & e1 & b2 & H1 & P1 & P2 & P3 & P4 & P5); [lia|].
    rewrite H1. destruct e1; try reflexivity.
    destruct (read_bytes_spec fuel 0 [] b2 P4) as (l2 & e2 & b3 & H2 & Q1 & Q2 & Q3 & Q4 & Q5); [lia|].
    rewrite H2. destruct e2; reflexivity. }
  destruct e; try reflexivity.
  destruct (nth 1 pt 0 =? 1)%N; [apply Htwo|].
  destruct (nth 1 pt 0 =? 2)%N; [apply Htwo|].
  destruct (nth 1 pt 0 =? 3)%N; [|reflexivity].
  destruct (bread b1 2) as [[? e2] b2]. destruct e2; try reflexivity.
  destruct (bread b2 512) as [[? e3] b3]. destruct e3; reflexivity.
Qed.

(* a Read through bufio either fails or makes progress *)
Lemma bread_progress b n d b' :
  (0 < n)%nat -> bread b n = (d, ENone, b') -> (pot b' < pot b)%nat.
Proof.
  intros Hn; unfold bread, pot.
  assert (forall m d0 e0 c', (0 < m)%nat -> cread (b_c b) m = (d0, e0, c') -> e0 = ENone ->
                             (weight c' < weight (b_c b))%nat) as Hcr.
  { intros m d0 e0 c' Hm E He. destruct (c_segs (b_c b)) eqn:Es.
    - exfalso; apply (cread_drained_fails _ _ _ _ _ Es E); exact He.
    - apply (cread_progress (b_c b) m d0 e0 c'); auto; congruence. }
  destruct (b_buf b) as [|x buf] eqn:Eb.
  - destruct (b_err b) eqn:Ee; try (intros H; inversion H; fail).
    destruct (BUFSZ <=? n)%nat.
    + destruct (cread (b_c b) n) as [[d0 e0] c'] eqn:E. intros H; inversion H; subst.
      specialize (Hcr n d ENone c' Hn E eq_refl). cbn [b_buf b_c length]; lia.
    + destruct (cread (b_c b) BUFSZ) as [[d0 e0] c'] eqn:E.
      pose proof (cread_pot _ _ _ _ _ E) as Hp. pose proof BUFSZ_pos.
      destruct d0 as [|y d0]; intros H'; inversion H'; subst; cbn [b_buf b_c length] in *.
      * specialize (Hcr BUFSZ [] ENone c' ltac:(lia) E eq_refl). lia.
      * rewrite skipn_length; cbn [length]. lia.
  - intros H; inversion H; subst; cbn [b_buf b_c]. rewrite skipn_length; cbn [length]. lia.
Qed.

Lemma read_full_spec fuel want got b :
  b_err b <> EBufFull -> (pot b + 1 <= fuel)%nat ->
  exists n e b', read_full fuel want got b = Some (n, e, b') /\
    (pot b' <= pot b)%nat /\ b_err b' <> EBufFull /\ c_term (b_c b') = c_term (b_c b).
Proof.
  revert got b; induction fuel as [|f IH]; intros got b Hnf Hp; [lia|].
  cbn [read_full]. destruct (want <=? got)%nat eqn:Ew.
  - eexists _, _, _; split; [reflexivity|]. repeat split; auto.
  - apply Nat.leb_gt in Ew.
    destruct (bread b (want - got)) as [[d e] b1] eqn:E.
    destruct (bread_spec _ _ _ _ _ Hnf E) as (B1 & B2 & B3).
    destruct e; try (eexists _, _, _; split; [reflexivity|]; repeat split; auto).
    assert (pot b1 < pot b)%nat by (apply (bread_progress b (want - got) d b1); auto; lia).
    destruct (IH (got + length d)%nat b1) as (n & e & b2 & H2 & R1 & R2 & R3); [exact B2|lia|].
    exists n, e, b2; split; [exact H2|]. split; [lia|]. split; [exact R2|congruence].
Qed.

Lemma mc_loop_returns fuel udp tokens b :
  b_err b <> EBufFull -> (pot b + 3 <= fuel)%nat ->
  fst (mc_loop fuel udp tokens b) = Returned.
Proof.
  revert tokens b; induction fuel as [|f IH]; intros tokens b Hnf Hp; [lia|]. cbn [mc_loop].
  destruct (read_bytes_spec (S f) 10 [] b Hnf Hp) as (line & e & b1 & H & P1 & P2 & P3 & P4 & P5).
  rewrite H. destruct e; try reflexivity; try congruence.
  specialize (P2 eq_refl).
  assert (forall k t, fst (mc_loop f udp t (bwrite b1 k)) = Returned) as Hgo.
  { intros k t; apply IH; [rewrite bwrite_err; exact P4|rewrite bwrite_pot; lia]. }
  set (cmd := if (2 <=? length line)%nat then firstn (length line - 2) line else line).
  assert (fst
    (let tokens' := if udp then Nat.pred tokens else tokens in
     let parts := split_on 32 [] cmd in
     let w := hd [] parts in
     if eqb_bytes w [102; 108; 117; 115; 104; 95; 97; 108; 108]%N
     then mc_loop f udp tokens' (bwrite b1 6)
     else if eqb_bytes w [115; 116; 97; 116; 115]%N
       then mc_loop f udp tokens' (bwrite b1 MC_STATS_LEN)
       else if is_store w
         then if (length parts <? 5)%nat
           then (Returned, b1)
           else match atoi (nth 4 parts []) with
                | Some v =>
                    if v <? 0 then (Returned, b1)
                    else
                      match read_full (S f) (Z.to_nat (Z.min v 80)) 0 b1 with
                      | Some (n, e, b2) =>
                          if negb (is_enone e) && (n =? 0)%nat && (0 <? v) then (Returned, b2)
                          else match discard (S f) (v - Z.of_nat n + 2) b2 with
                               | Some b3 => mc_loop f udp tokens' (bwrite b3 8)
                               | None => (OutOfFuel, b2)
                               end
                      | None => (OutOfFuel, b1)
                      end
                | None => (Returned, b1)
                end
         else mc_loop f udp tokens' (bwrite b1 7)) = Returned) as Hbody.
  { cbv zeta.
    destruct (eqb_bytes _ _); [apply Hgo|].
    destruct (eqb_bytes _ _); [apply Hgo|].
    destruct (is_store _); [|apply Hgo].
    destruct (_ <? 5)%nat; [reflexivity|].
    destruct (atoi _) as [v|]; [|reflexivity].
    destruct (v <? 0); [reflexivity|].
    destruct (read_full_spec (S f) (Z.to_nat (Z.min v 80)) 0 b1 P4) as (n & e & b2 & Hr & R1 & R2 & R3); [lia|].
    rewrite Hr.
    destruct (negb (is_enone e) && (n =? 0)%nat && (0 <? v)); [reflexivity|].
    destruct (discard_spec (S f) (v - Z.of_nat n + 2) b2 R2) as (b3 & Hd & D1 & D2 & D3); [lia|].
    rewrite Hd. apply IH; [rewrite bwrite_err; exact D2|rewrite bwrite_pot; lia]. }
  destruct udp; [destruct tokens; [reflexivity|]|]; exact Hbody.
Qed.

Lemma handle_memcached_returns udp fuel c :
  (weight c + 3 <= fuel)%nat -> h_out (handle_memcached udp fuel c) = Returned.
Proof.
  intros Hf; unfold handle_memcached.
  set (b1 := if udp then let '(_, _, b') := bread (new_reader c) 8 in b' else new_reader c).
  assert (b_err b1 <> EBufFull /\ (pot b1 <= weight c)%nat /\ c_term (b_c b1) = c_term c) as (A1 & A2 & A3).
  { subst b1; destruct udp.
    - destruct (bread (new_reader c) 8) as [[d e] b'] eqn:E.
      destruct (bread_spec _ _ _ _ _ (new_reader_err c) E) as (B1 & B2 & B3).
      rewrite pot_new_reader in B1; auto.
    - split; [cbn; congruence|split; [rewrite pot_new_reader; lia|reflexivity]]. }
  pose proof (mc_loop_returns fuel udp 4 b1 A1 ltac:(lia)) as H.
  destruct (mc_loop fuel udp 4 b1) as [o b2]; cbn [fst h_out] in *; exact H.
Qed.

(* ftp: the control loop always ends: it returns, or panics (PASV on an IPv6 local address)
   and is recovered, or the dialogue leaves the modelled command set; it neither spins nor
   waits for ever *)
Definition ftp_end (o : outcome) : Prop := o = Returned \/ o = Panicked \/ o = Unmodelled.

Lemma ftp_loop_ends fuel v6 dial s b :
  b_err b <> EBufFull -> (pot b + 3 <= fuel)%nat ->
  ftp_end (fst (fst (ftp_loop fuel v6 dial s b))).
Proof.
  revert s b; induction fuel as [|f IH]; intros s b Hnf Hp; [lia|]. cbn [ftp_loop].
  destruct (read_bytes_spec (S f) 10 [] b Hnf Hp) as (line & e & b1 & H & P1 & P2 & P3 & P4 & P5).
  rewrite H. unfold ftp_end. destruct e; cbn [fst]; auto; try congruence.
  specialize (P2 eq_refl).
  destruct (ftp_cmd v6 dial s line) as [st k].
  destruct st; cbn [fst]; auto.
  apply IH; [rewrite nwrites_err; exact P4|rewrite nwrites_pot; lia].
Qed.

Lemma handle_ftp_ends v6 dial fuel c :
  (weight c + 3 <= fuel)%nat -> ftp_end (h_out (handle_ftp v6 dial fuel c)).
Proof.
  intros Hf; unfold handle_ftp, handle_ftp_st.
  pose proof (ftp_loop_ends fuel v6 dial ftp_init (bswrite (new_reader c))) as H.
  destruct (ftp_loop fuel v6 dial ftp_init (bswrite (new_reader c))) as [[o s] b]; cbn [fst h_out] in *.
  apply H; [cbn; congruence|rewrite bswrite_pot, pot_new_reader; lia].
Qed.

Definition smtp_end (o : outcome) : Prop := o = Returned \/ o = Panicked \/ o = Unmodelled.

Lemma smtp_loop_ends fuel st i b :
  b_err b <> EBufFull -> (pot b + 3 <= fuel)%nat ->
  smtp_end (fst (smtp_loop fuel st i b)).
Proof.
  revert st i b; induction fuel as [|f IH]; intros st i b Hnf Hp; [lia|]. cbn [smtp_loop].
  destruct (text_line_spec (S f) None b Hnf Hp) as (line & e & b1 & H & P1 & P2 & P3 & P4 & P5).
  rewrite H. unfold smtp_end. destruct e; cbn [fst]; auto; try congruence.
  specialize (P2 eq_refl).
  assert (forall st' i' k, smtp_end (fst (smtp_loop f st' i' (nwrites k b1)))) as Hgo.
  { intros; apply IH; [rewrite nwrites_err; exact P4|rewrite nwrites_pot; lia]. }
  pose proof (fun st' i' => Hgo st' i' O) as Hgo0.
  pose proof (fun st' i' => Hgo st' i' 1%nat) as Hgo1.
  cbn [nwrites] in Hgo0, Hgo1. unfold smtp_end in *.
  destruct st;
    repeat match goal with
           | |- context [if ?x then _ else _] => destruct x
           end;
    cbn [fst]; auto.
Qed.

Lemma handle_smtp_ends fuel c :
  (weight c + 3 <= fuel)%nat -> smtp_end (h_out (handle_smtp fuel c)).
Proof.
  intros Hf; unfold handle_smtp.
  pose proof (smtp_loop_ends fuel SHello 0 (bswrite (new_reader c))) as H.
  destruct (smtp_loop fuel SHello 0 (bswrite (new_reader c))) as [o b]; cbn [fst h_out] in *.
  apply H; [cbn; congruence|rewrite bswrite_pot, pot_new_reader; lia].
Qed.

(* ------------------------------------------------------------------ *)
(* adb: reads the connection directly *)

Lemma adb_loop_ends fuel b4 cb c :
  (weight c < fuel)%nat -> finished (fst (adb_loop fuel b4 cb c)) = true.
Proof.
  revert b4 cb c; induction fuel as [|f IH]; intros b4 cb c Hw; [lia|]. cbn [adb_loop].
  destruct (cread c ADBSZ) as [[d e] c1] eqn:E.
  pose proof (cread_term _ _ _ _ _ E) as Ht1.
  destruct (c_segs c) eqn:Es.
  - destruct (cread_drained _ _ _ _ _ Es E) as (-> & _ & ->).
    destruct (c_term c); cbn [fst finished]; reflexivity.
  - assert (e = ENone) as -> by (eapply cread_pending; eauto; congruence).
    assert (weight c1 < weight c)%nat
      by (apply (cread_progress c ADBSZ d ENone c1); [pose proof ADBSZ_pos; lia|congruence|exact E]).
    repeat match goal with
           | |- context [if ?x then _ else _] => destruct x
           end; cbn [fst finished]; try reflexivity;
      apply IH; rewrite ?cwrite_weight; lia.
Qed.

Lemma handle_adb_ends fuel c :
  (weight c < fuel)%nat -> finished (h_out (handle_adb fuel c)) = true.
Proof.
  intros Hw; unfold handle_adb.
  destruct (cread c ADBSZ) as [[d e] c1] eqn:E.
  pose proof (cread_term _ _ _ _ _ E) as Ht1. pose proof (cread_weight _ _ _ _ _ E) as Hw1.
  assert (e <> ENoProgress /\ e <> EBufFull) as [K1 K2] by (destruct (cread_err_kind _ _ _ _ _ E); auto).
  destruct e; cbn [h_out finished]; try reflexivity; try congruence.
  destruct (eqb_bytes _ _); cbn [h_out finished]; try reflexivity.
  destruct (_ <? 24)%nat; cbn [h_out finished]; try reflexivity.
  pose proof (adb_loop_ends fuel (upd4 [0; 0; 0; 0]%N d) [] (cwrite c1 113)) as H.
  destruct (adb_loop fuel (upd4 [0; 0; 0; 0]%N d) [] (cwrite c1 113)) as [o c2]; cbn [fst h_out] in *.
  apply H; rewrite ?cwrite_weight; lia.
Qed.

(* ------------------------------------------------------------------ *)
(* resources *)

Lemma handle_ntp_res fuel c : h_res (handle_ntp fuel c) = res0.
Proof. unfold handle_ntp; destruct (io_copy fuel false c); reflexivity. Qed.
Lemma handle_echo_res fuel c : h_res (handle_echo fuel c) = res0.
Proof. unfold handle_echo; destruct (io_copy fuel true c); reflexivity. Qed.
Lemma handle_dummy_res fuel c : h_res (handle_dummy fuel c) = res0.
Proof. unfold handle_dummy; destruct (dummy_loop fuel (new_reader c)); reflexivity. Qed.
Lemma handle_adb_res fuel c : h_res (handle_adb fuel c) = res0.
Proof.
  unfold handle_adb. destruct (cread c ADBSZ) as [[d e] c1].
  destruct e; try reflexivity. destruct (eqb_bytes _ _); try reflexivity.
  destruct (_ <? 24)%nat; try reflexivity. destruct (adb_loop _ _ _ _); reflexivity.
Qed.
Lemma handle_memcached_res udp fuel c : h_res (handle_memcached udp fuel c) = res0.
Proof. unfold handle_memcached. destruct (mc_loop _ _ _ _); reflexivity. Qed.
Lemma handle_tftp_res fuel c : h_res (handle_tftp fuel c) = res0.
Proof.
  unfold handle_tftp. destruct (bread (new_reader c) 2) as [[pt e] b1].
  destruct e; try reflexivity.
  assert (forall k, h_res
     match read_bytes fuel 0 [] b1 with
     | RsOk _ ENone b2 =>
         match read_bytes fuel 0 [] b2 with
         | RsOk _ ENone b3 => mkH Returned (cwrite (b_c b3) k) res0
         | RsOk _ _ b3 => mkH Returned (b_c b3) res0
         | RsFuel => mkH OutOfFuel (b_c b2) res0
         end
     | RsOk _ _ b2 => mkH Returned (b_c b2) res0
     | RsFuel => mkH OutOfFuel (b_c b1) res0
     end = res0) as Htwo.
  { intros k. destruct (read_bytes fuel 0 [] b1) as [? e1 b2|]; [|reflexivity].
    destruct e1; try reflexivity.
    destruct (read_bytes fuel 0 [] b2) as [? e2 b3|]; [|reflexivity]. destruct e2; reflexivity. }
  destruct (_ =? 1)%N; [apply Htwo|]. destruct (_ =? 2)%N; [apply Htwo|].
  destruct (_ =? 3)%N; [|reflexivity].
  destruct (bread b1 2) as [[? e2] b2]. destruct e2; try reflexivity.
  destruct (bread b2 512) as [[? e3] b3]. destruct e3; reflexivity.
Qed.

Lemma handle_smtp_res fuel c : h_res (handle_smtp fuel c) = res0.
Proof. unfold handle_smtp. destruct (smtp_loop _ _ _ _); reflexivity. Qed.

Lemma handle_tftp_late fuel c : h_late (handle_tftp fuel c) = res0.
Proof.
  unfold handle_tftp. destruct (bread (new_reader c) 2) as [[pt e] b1].
  destruct e; try reflexivity.
  assert (forall k, h_late
     match read_bytes fuel 0 [] b1 with
     | RsOk _ ENone b2 =>
         match read_bytes fuel 0 [] b2 with
         | RsOk _ ENone b3 => mkH Returned (cwrite (b_c b3) k) res0
         | RsOk _ _ b3 => mkH Returned (b_c b3) res0
         | RsFuel => mkH OutOfFuel (b_c b2) res0
         end
     | RsOk _ _ b2 => mkH Returned (b_c b2) res0
     | RsFuel => mkH OutOfFuel (b_c b1) res0
     end = res0) as Htwo.
  { intros k. destruct (read_bytes fuel 0 [] b1) as [? e1 b2|]; [|reflexivity].
    destruct e1; try reflexivity.
    destruct (read_bytes fuel 0 [] b2) as [? e2 b3|]; [|reflexivity]. destruct e2; reflexivity. }
  destruct (_ =? 1)%N; [apply Htwo|]. destruct (_ =? 2)%N; [apply Htwo|].
  destruct (_ =? 3)%N; [|reflexivity].
  destruct (bread b1 2) as [[? e2] b2]. destruct e2; try reflexivity.
  destruct (bread b2 512) as [[? e3] b3]. destruct e3; reflexivity.
Qed.

Lemma svc_eq_dec (a b : svc) : {a = b} + {a <> b}.
Proof. decide equality. Qed.

Lemma mkH_late o c r : h_late (mkH o c r) = res0.
Proof. reflexivity. Qed.

(* ftp: the counters are exactly what the data socket in hand accounts for, plus the pump *)
Definition shape (d : dsock) : Z * Z * Z :=
  match d with
  | DNone => (0, 0, 0)
  | DPassive DialNone => (1, 1, 0)       (* Accept goroutine, listener *)
  | DPassive _ => (0, 0, 1)              (* accepted connection *)
  end.

Definition ftp_inv (s : ftp_st) : Prop := (f_gor s - 1, f_lis s, f_dconns s) = shape (f_data s).

Lemma ftp_init_inv : ftp_inv ftp_init.
Proof. reflexivity. Qed.

Lemma close_data_inv s : ftp_inv s -> ftp_inv (close_data s) /\ f_data (close_data s) = DNone.
Proof.
  unfold ftp_inv, close_data. destruct (f_data s) as [|[]] eqn:E; cbn [shape]; intros H.
  - rewrite E; auto.
  - inversion H. cbn [set_data f_gor f_lis f_dconns f_data shape]. split; [f_equal; [f_equal|]; lia|reflexivity].
  - inversion H. cbn [set_data f_gor f_lis f_dconns f_data shape]. split; [f_equal; [f_equal|]; lia|reflexivity].
  - inversion H. cbn [set_data f_gor f_lis f_dconns f_data shape]. split; [f_equal; [f_equal|]; lia|reflexivity].
Qed.

Lemma open_passive_inv d s : ftp_inv s -> ftp_inv (open_passive d s) /\ f_data (open_passive d s) = DPassive d.
Proof.
  intros H. destruct (close_data_inv s H) as [Hi Hd]. unfold open_passive.
  unfold ftp_inv in Hi; rewrite Hd in Hi; cbn [shape] in Hi; inversion Hi.
  unfold ftp_inv. destruct d; cbn [connected set_data f_gor f_lis f_dconns f_data shape];
    (split; [f_equal; [f_equal|]; lia|reflexivity]).
Qed.

Lemma set_user_inv s u r : ftp_inv s -> ftp_inv (set_user s u r).
Proof. unfold ftp_inv, set_user; cbn; auto. Qed.

Lemma pwait_inv s : ftp_inv s -> ftp_inv (pwait s).
Proof. unfold ftp_inv, pwait; cbn; auto. Qed.

(* every step keeps the invariant; QUIT leaves no data socket; the only panic (PASV on an
   IPv6 local address) leaves an unconnected passive socket *)
Definition fstep_ok (st : fstep) : Prop :=
  match st with
  | FGo s => ftp_inv s
  | FClosed s => ftp_inv s /\ f_data s = DNone
  | FPanic s => ftp_inv s
  | FOut => True
  end.

Lemma ftp_cmd_inv v6 dial s line : ftp_inv s -> fstep_ok (fst (ftp_cmd v6 dial s line)).
Proof.
  intros Hi; unfold ftp_cmd.
  destruct (parse_line line) as [c p].
  pose proof (open_passive_inv dial s Hi) as [O1 O2].
  pose proof (open_passive_inv DialNone s Hi) as [O3 _].
  pose proof (close_data_inv s Hi) as C1.
  pose proof (close_data_inv (pwait s) (pwait_inv s Hi)) as [C2 _].
  destruct (classify c); cbn [fst fstep_ok];
    repeat match goal with
           | |- context [if ?x then _ else _] => destruct x
           | |- context [match atoi ?x with _ => _ end] => destruct (atoi x)
           end; cbn [fst fstep_ok]; auto using set_user_inv.
  destruct C1 as [C1 _]. destruct (f_data s) as [|[]]; cbn [fst fstep_ok]; auto.
Qed.

Lemma ftp_loop_inv fuel v6 dial s b :
  ftp_inv s ->
  let '(o, s', _) := ftp_loop fuel v6 dial s b in
  ftp_inv s' /\ (finished o = true -> f_data s' = DNone).
Proof.
  revert s b; induction fuel as [|f IH]; intros s b Hi; cbn [ftp_loop].
  - split; [assumption|cbn; congruence].
  - destruct (read_bytes (S f) 10 [] b) as [line e b1|]; [|split; [assumption|cbn; congruence]].
    pose proof (close_data_inv s Hi) as [C1 C2].
    destruct e; try (split; [assumption|intros; assumption]).
    pose proof (ftp_cmd_inv v6 dial s line Hi) as Hc.
    destruct (ftp_cmd v6 dial s line) as [st k]; cbn [fst] in Hc.
    destruct st; cbn [fstep_ok] in Hc.
    + apply IH; exact Hc.
    + destruct Hc; split; auto.
    + destruct (close_data_inv s0 Hc); split; auto.
    + split; [assumption|cbn; congruence].
Qed.

(* when the control loop is over - by returning or by a recovered panic - nothing is held *)
Lemma handle_ftp_res v6 dial fuel c :
  let h := handle_ftp v6 dial fuel c in
  finished (h_out h) = true -> h_res h = res0 /\ h_late h = res0.
Proof.
  unfold handle_ftp, handle_ftp_st.
  pose proof (ftp_loop_inv fuel v6 dial ftp_init (bswrite (new_reader c)) ftp_init_inv) as H.
  destruct (ftp_loop fuel v6 dial ftp_init (bswrite (new_reader c))) as [[o s] b].
  destruct H as (Hi & Hr). cbn [h_out h_res h_late]. unfold ftp_inv in Hi. intros Ho.
  rewrite (Hr Ho) in Hi; cbn [shape] in Hi. injection Hi as A B C.
  unfold ftp_res, ftp_late. rewrite B, C. replace (f_gor s - 1) with 0 by lia. split; reflexivity.
Qed.

Lemma handle_ftp_kept v6 dial fuel c :
  finished (h_out (handle_ftp v6 dial fuel c)) = true -> kept (handle_ftp v6 dial fuel c) = res0.
Proof.
  intros Hf. destruct (handle_ftp_res v6 dial fuel c Hf) as [A B]. unfold kept; rewrite A, B; reflexivity.
Qed.

(* every other service holds nothing when Handle is over, whatever happened *)
Lemma handle_other_res s fuel c :
  sc_svc s <> Ftp -> h_res (handle s fuel c) = res0 /\ h_late (handle s fuel c) = res0.
Proof.
  destruct s as [sv udp v6 dial]; unfold handle; cbn [sc_svc sc_udp sc_v6 sc_dial].
  destruct sv; try congruence; intros _.
  - split; [apply handle_ntp_res|]. unfold handle_ntp; destruct (io_copy _ _ _); reflexivity.
  - split; [apply handle_echo_res|]. unfold handle_echo; destruct (io_copy _ _ _); reflexivity.
  - split; [apply handle_dummy_res|]. unfold handle_dummy; destruct (dummy_loop _ _); reflexivity.
  - split; [apply handle_adb_res|]. unfold handle_adb. destruct (cread c ADBSZ) as [[d e] c1].
    destruct e; try reflexivity. destruct (eqb_bytes _ _); try reflexivity.
    destruct (_ <? 24)%nat; try reflexivity. destruct (adb_loop _ _ _ _); reflexivity.
  - split; [apply handle_tftp_res|]. apply handle_tftp_late.
  - split; [apply handle_memcached_res|]. unfold handle_memcached. destruct (mc_loop _ _ _ _); reflexivity.
  - split; [apply handle_smtp_res|]. unfold handle_smtp. destruct (smtp_loop _ _ _ _); reflexivity.
Qed.

(* ------------------------------------------------------------------ *)
(* dispatch level *)

Lemma fuel_for_ok c : (weight c + 3 <= fuel_for c)%nat /\ (weight c < fuel_for c)%nat.
Proof. unfold fuel_for; lia. Qed.

(* every handler is over within [fuel_for c]: it returned, or panicked and was recovered -
   unless the dialogue leaves the modelled fragment of ftp / smtp *)
Lemma handle_ends s c :
  h_out (handle s (fuel_for c) c) <> Unmodelled -> finished (h_out (handle s (fuel_for c) c)) = true.
Proof.
  destruct (fuel_for_ok c) as [Hf Hw].
  destruct s as [sv udp v6 dial]; unfold handle; cbn [sc_svc sc_udp sc_v6 sc_dial]. destruct sv; intros Hu.
  - unfold handle_ntp. pose proof (io_copy_returns (fuel_for c) false c Hw).
    destruct (io_copy (fuel_for c) false c); cbn [fst h_out mkH] in *; subst; reflexivity.
  - unfold handle_echo. pose proof (io_copy_returns (fuel_for c) true c Hw).
    destruct (io_copy (fuel_for c) true c); cbn [fst h_out mkH] in *; subst; reflexivity.
  - rewrite handle_dummy_returns; auto.
  - apply handle_adb_ends; exact Hw.
  - rewrite handle_tftp_returns; auto.
  - rewrite handle_memcached_returns; auto.
  - pose proof (handle_ftp_ends v6 dial (fuel_for c) c Hf) as [H|[H|H]]; rewrite H in *; auto; congruence.
  - pose proof (handle_smtp_ends (fuel_for c) c Hf) as [H|[H|H]]; rewrite H in *; auto; congruence.
Qed.

Lemma handle_kept s c :
  h_out (handle s (fuel_for c) c) <> Unmodelled -> kept (handle s (fuel_for c) c) = res0.
Proof.
  intros Hu. pose proof (handle_ends s c Hu) as Hfin.
  destruct (svc_eq_dec (sc_svc s) Ftp) as [E|E].
  - unfold handle in *; rewrite E in *. apply handle_ftp_kept; exact Hfin.
  - destruct (handle_other_res s (fuel_for c) c E) as [H1 H2]. unfold kept; rewrite H1, H2; reflexivity.
Qed.

(* a handler that is over - returned, or panicked and recovered - holds nothing at that moment *)
Lemma handle_finished_clean s c :
  finished (h_out (handle s (fuel_for c) c)) = true -> h_res (handle s (fuel_for c) c) = res0.
Proof.
  intros Ho. destruct (svc_eq_dec (sc_svc s) Ftp) as [E|E].
  - unfold handle in *; rewrite E in *. apply handle_ftp_res; exact Ho.
  - apply handle_other_res; exact E.
Qed.

(* ------------------------------------------------------------------ *)
(* histories of sequential connections *)

Lemma res_add_0_l r : res_add res0 r = r.
Proof. destruct r; reflexivity. Qed.

Lemma history_app s a b : history s (a ++ b) = res_add (history s a) (history s b).
Proof.
  induction a as [|c a IH]; cbn [app history].
  - rewrite res_add_0_l; reflexivity.
  - rewrite IH. unfold res_add; cbn [r_gor r_lis r_fds]. f_equal; lia.
Qed.

Lemma history_repeat s c n :
  history s (repeat c n) = res_scale (Z.of_nat n) (kept (handle s (fuel_for c) c)).
Proof.
  induction n as [|n IH]; cbn [repeat history].
  - unfold res_scale, res0; f_equal.
  - rewrite IH. unfold res_add, res_scale; cbn [r_gor r_lis r_fds]. f_equal; lia.
Qed.

Definition in_fragment (s : scn) (c : conn) : Prop := h_out (handle s (fuel_for c) c) <> Unmodelled.

Lemma history_zero s cs : Forall (in_fragment s) cs -> history s cs = res0.
Proof.
  induction 1 as [|c cs Hc _ IH]; cbn [history]; [reflexivity|].
  rewrite IH, (handle_kept s c Hc); reflexivity.
Qed.

Lemma history_repeat_zero s c n : in_fragment s c -> history s (repeat c n) = res0.
Proof.
  intros Hc. rewrite history_repeat, (handle_kept s c Hc). unfold res_scale, res0; cbn; f_equal; lia.
Qed.

(* ------------------------------------------------------------------ *)
(* idle deadlines waited out by the line-loop handlers (dummy, ftp): at most one *)

Definition tmo (b : brd) : N := m_timeouts (c_m (b_c b)).
Definition is_tmo (e : rerr) : N := match e with ETimeout => 1 | _ => 0 end.

Lemma fill_loop_timeouts i buf c buf' e c' :
  fill_loop i buf c = (buf', e, c') ->
  m_timeouts (c_m c') = (m_timeouts (c_m c) + is_tmo e)%N.
Proof.
  revert buf c; induction i as [|i IH]; intros buf c; cbn [fill_loop].
  - intros H; inversion H; subst; cbn; lia.
  - destruct (cread c (BUFSZ - length buf)) as [[d e0] c1] eqn:E.
    pose proof (cread_timeouts _ _ _ _ _ E) as Ht.
    destruct e0; try (intros H; inversion H; subst; cbn [is_tmo]; lia).
    destruct d; [intros H; apply IH in H; lia|intros H; inversion H; subst; cbn [is_tmo]; lia].
Qed.

Lemma fill_timeouts b :
  b_err b = ENone ->
  tmo (fill b) = (tmo b + is_tmo (b_err (fill b)))%N.
Proof.
  intros Hb; unfold fill, tmo. destruct (fill_loop MAX_EMPTY (b_buf b) (b_c b)) as [[buf e] c] eqn:E.
  apply fill_loop_timeouts in E. cbn [b_c b_err]. rewrite Hb. destruct e; cbn [is_tmo] in *; lia.
Qed.

Lemma read_slice_timeouts fuel delim b line e b' :
  b_err b = ENone -> read_slice fuel delim b = RsOk line e b' ->
  tmo b' = (tmo b + is_tmo e)%N /\ b_err b' = ENone.
Proof.
  revert b; induction fuel as [|f IH]; intros b Hb; cbn [read_slice]; [congruence|].
  destruct (find_idx delim (b_buf b)) as [i|] eqn:Ef.
  - intros H; inversion H; subst; unfold tmo; cbn [b_c b_err is_tmo]; split; [lia|exact Hb].
  - rewrite Hb. destruct (BUFSZ <=? length (b_buf b))%nat.
    + intros H; inversion H; subst; unfold tmo; cbn [b_c b_err is_tmo]; split; [lia|reflexivity].
    + pose proof (fill_timeouts b Hb) as Ft.
      destruct (fill_spec b) as (_ & _ & _ & F4 & _).
      destruct (b_err (fill b)) eqn:Ee.
      * intros H; apply IH in H; [|exact Ee]. cbn [is_tmo] in Ft. destruct H; split; [lia|assumption].
      * destruct f; cbn [read_slice]; [congruence|].
        rewrite (F4 Hb ltac:(congruence)), Ef, Ee.
        intros H; inversion H; subst; unfold tmo in *; cbn [b_c b_err is_tmo] in *; split; [lia|reflexivity].
      * destruct f; cbn [read_slice]; [congruence|].
        rewrite (F4 Hb ltac:(congruence)), Ef, Ee.
        intros H; inversion H; subst; unfold tmo in *; cbn [b_c b_err is_tmo] in *; split; [lia|reflexivity].
      * destruct f; cbn [read_slice]; [congruence|].
        rewrite (F4 Hb ltac:(congruence)), Ef, Ee.
        intros H; inversion H; subst; unfold tmo in *; cbn [b_c b_err is_tmo] in *; split; [lia|reflexivity].
      * destruct f; cbn [read_slice]; [congruence|].
        rewrite (F4 Hb ltac:(congruence)), Ef, Ee.
        intros H; inversion H; subst; unfold tmo in *; cbn [b_c b_err is_tmo] in *; split; [lia|reflexivity].
Qed.

Lemma read_bytes_timeouts fuel delim acc b line e b' :
  b_err b = ENone -> read_bytes fuel delim acc b = RsOk line e b' ->
  tmo b' = (tmo b + is_tmo e)%N /\ b_err b' = ENone.
Proof.
  revert acc b; induction fuel as [|f IH]; intros acc b Hb; cbn [read_bytes]; [congruence|].
  destruct (read_slice (S f) delim b) as [frag e1 b1|] eqn:E; [|congruence].
  destruct (read_slice_timeouts _ _ _ _ _ _ Hb E) as [T1 T2].
  destruct e1; try (intros H; inversion H; subst; split; assumption).
  intros H; apply IH in H; [|exact T2]. cbn [is_tmo] in T1. destruct H; split; [lia|assumption].
Qed.

Lemma bwrite_tmo b k : tmo (bwrite b k) = tmo b.
Proof. unfold tmo, bwrite; cbn [b_c]; apply cwrite_timeouts. Qed.
Lemma bswrite_tmo b : tmo (bswrite b) = tmo b.
Proof. unfold tmo, bswrite; cbn [b_c]. apply swrite_same. Qed.
Lemma nwrites_tmo k b : tmo (nwrites k b) = tmo b.
Proof. revert b; induction k; intros b; cbn [nwrites]; [reflexivity|]. rewrite IHk; apply bswrite_tmo. Qed.

Lemma dummy_loop_one_deadline fuel b :
  b_err b = ENone -> (tmo (snd (dummy_loop fuel b)) <= tmo b + 1)%N.
Proof.
  revert b; induction fuel as [|f IH]; intros b Hb; cbn [dummy_loop]; [cbn; lia|].
  destruct (read_bytes (S f) 10 [] b) as [line e b1|] eqn:E; [|cbn; lia].
  destruct (read_bytes_timeouts _ _ _ _ _ _ _ Hb E) as [T1 T2].
  destruct e; cbn [snd is_tmo] in *; try lia.
  specialize (IH (bwrite b1 (nlen line))). rewrite bwrite_err, bwrite_tmo in IH. specialize (IH T2). lia.
Qed.

Lemma handle_dummy_one_deadline fuel c :
  (m_timeouts (c_m (h_conn (handle_dummy fuel c))) <= m_timeouts (c_m c) + 1)%N.
Proof.
  unfold handle_dummy. pose proof (dummy_loop_one_deadline fuel (new_reader c) eq_refl) as H.
  destruct (dummy_loop fuel (new_reader c)) as [o b]; cbn [snd h_conn] in *. exact H.
Qed.

Lemma ftp_loop_one_deadline fuel v6 dial s b :
  b_err b = ENone -> (tmo (snd (ftp_loop fuel v6 dial s b)) <= tmo b + 1)%N.
Proof.
  revert s b; induction fuel as [|f IH]; intros s b Hb; cbn [ftp_loop]; [cbn; lia|].
  destruct (read_bytes (S f) 10 [] b) as [line e b1|] eqn:E; [|cbn; lia].
  destruct (read_bytes_timeouts _ _ _ _ _ _ _ Hb E) as [T1 T2].
  destruct e; cbn [snd is_tmo] in *; try lia.
  destruct (ftp_cmd v6 dial s line) as [st k].
  assert (tmo (nwrites (N.to_nat k) b1) = tmo b1) as Hn by apply nwrites_tmo.
  destruct st; cbn [snd]; try lia.
  specialize (IH s0 (nwrites (N.to_nat k) b1)). rewrite nwrites_err in IH. specialize (IH T2). lia.
Qed.

Lemma handle_ftp_one_deadline v6 dial fuel c :
  (m_timeouts (c_m (h_conn (handle_ftp v6 dial fuel c))) <= m_timeouts (c_m c) + 1)%N.
Proof.
  unfold handle_ftp, handle_ftp_st.
  pose proof (ftp_loop_one_deadline fuel v6 dial ftp_init (bswrite (new_reader c)) eq_refl) as H.
  destruct (ftp_loop fuel v6 dial ftp_init (bswrite (new_reader c))) as [[o s] b]; cbn [snd h_conn] in *.
  rewrite bswrite_tmo in H. exact H.
Qed.

(* ------------------------------------------------------------------ *)
(* vnc update-request queue *)

Lemma serve_queue_fixed_never_blocks sched reqs q p : serve_queue true sched reqs q p <> QBlocked.
Proof.
  revert sched q p; induction reqs as [|r IH]; intros sched q p; cbn [serve_queue]; [congruence|].
  destruct (_ <? VNC_QCAP)%nat; [apply IH|].
  destruct p; [destruct (pa_die _)|]; try apply IH; congruence.
Qed.

(* ------------------------------------------------------------------ *)
(* ssh-simulator: the string-list loop over a request payload ends for every payload, every
   truncation point and every stray tail included; it takes at most length/4 + 1 rounds *)
Lemma ssh_strings_ends fuel data acc :
  (length data < fuel)%nat -> exists l, ssh_strings fuel data acc = Some l.
Proof.
  revert data acc; induction fuel as [|f IH]; intros data acc Hf; [lia|]. cbn [ssh_strings].
  destruct data as [|x data']; [eexists; reflexivity|].
  destruct (length (x :: data') <? 4)%nat eqn:E4; [eexists; reflexivity|].
  destruct (Z.of_nat (length (skipn 4 (x :: data'))) <? _); [eexists; reflexivity|].
  apply IH. apply Nat.ltb_ge in E4. rewrite !skipn_length. lia.
Qed.

Lemma ssh_decode_total data : exists l, ssh_decode data = Some l.
Proof. apply ssh_strings_ends; lia. Qed.

(* nothing is made up: the decoded strings, with their 4-byte prefixes, fit in the payload *)
Lemma ssh_strings_sound fuel data acc l :
  ssh_strings fuel data acc = Some l ->
  (length (concat l) + 4 * length l <= length (concat acc) + 4 * length acc + length data)%nat.
Proof.
  revert data acc; induction fuel as [|f IH]; intros data acc; cbn [ssh_strings]; [congruence|].
  assert (forall a : list bytes, length (concat (rev a)) = length (concat a)) as Hrev.
  { induction a as [|y a IHa]; [reflexivity|]. cbn [rev]. rewrite concat_app, app_length, IHa. cbn [concat].
    rewrite !app_length. cbn [length]. lia. }
  destruct data as [|x data'].
  - intros H; inversion H; subst. rewrite Hrev, rev_length. cbn [length]. lia.
  - destruct (length (x :: data') <? 4)%nat eqn:E4.
    + intros H; inversion H; subst. rewrite Hrev, rev_length. lia.
    + destruct (Z.of_nat (length (skipn 4 (x :: data'))) <? _) eqn:En.
      * intros H; inversion H; subst. rewrite Hrev, rev_length. lia.
      * intros H; apply IH in H. apply Nat.ltb_ge in E4. apply Z.ltb_ge in En.
        cbn [concat length] in H. rewrite app_length, firstn_length, !skipn_length in H.
        rewrite skipn_length in En. lia.
Qed.

(* ------------------------------------------------------------------ *)
(* ipp: the group loops end for every body, cut anywhere - at a group boundary too *)
Section IppLoopsEnd.
  Variable vdecode : N -> idec -> idec.
  Hypothesis vd_data : forall t d, i_data (vdecode t d) = i_data d.
  Hypothesis vd_off : forall t d, (i_off d <= length (i_data d))%nat ->
    (i_off d <= i_off (vdecode t d) <= length (i_data d))%nat.
  Hypothesis vd_err : forall t d, i_err d = true -> i_err (vdecode t d) = true.

  Definition ileft (d : idec) : nat := (length (i_data d) - i_off d)%nat.
  Definition dwf (d : idec) : Prop := (i_off d <= length (i_data d))%nat.

  Lemma i_byte_spec d d1 t :
    dwf d -> i_byte d = (d1, t) ->
    i_data d1 = i_data d /\ dwf d1 /\
    ((i_off d1 = S (i_off d) /\ i_err d1 = i_err d) \/ (i_off d1 = i_off d /\ i_err d1 = true /\ t = 0%N)) /\
    (i_err d = true -> i_err d1 = true).
  Proof.
    unfold i_byte, dwf. destruct (i_off d <? length (i_data d))%nat eqn:E; intros Hw H; inversion H; subst; cbn.
    - apply Nat.ltb_lt in E. repeat split; auto; lia.
    - repeat split; auto.
  Qed.

  Lemma i_unread_spec d : dwf d -> i_data (i_unread d) = i_data d /\ dwf (i_unread d) /\
    (i_off d <= S (i_off (i_unread d)))%nat /\ (i_err d = true -> i_err (i_unread d) = true).
  Proof. unfold i_unread, dwf. destruct (i_off d) eqn:E; cbn; intros; repeat split; auto; lia. Qed.

  (* a group: ends within (bytes left + 2) rounds; afterwards either an error is on record or the
     offset has not gone back *)
  Lemma ipp_group_ends fuel d :
    dwf d -> (ileft d + 2 <= fuel)%nat ->
    exists d', (ipp_group vdecode fuel d = IOk d' \/ ipp_group vdecode fuel d = IErr d') /\
               i_data d' = i_data d /\ dwf d' /\
               (i_err d' = false -> (i_off d <= i_off d')%nat /\ i_err d = false) /\
               (i_err d = true -> i_err d' = true).
  Proof.
    revert d; induction fuel as [|f IH]; intros d Hw Hf; [lia|]. cbn [ipp_group].
    destruct (i_byte d) as [d1 vtag] eqn:E.
    destruct (i_byte_spec d d1 vtag Hw E) as (A & B & C & D).
    destruct (5 <? vtag)%N eqn:Ev.
    - destruct C as [[C1 C2]|[C1 [C2 C3]]]; [|subst vtag; discriminate].
      destruct (i_err d1) eqn:Ee.
      + exists d1. repeat split; auto; try congruence.
      + assert (dwf (vdecode vtag d1)) as Hw' by (unfold dwf in *; rewrite vd_data; apply vd_off; exact B).
        destruct (IH (vdecode vtag d1) Hw') as (d' & Hr & P1 & P2 & P3 & P4).
        { unfold ileft in *. rewrite vd_data. pose proof (vd_off vtag d1 B). unfold dwf in *. rewrite A in *. lia. }
        exists d'. split; [exact Hr|]. rewrite P1, vd_data, A. split; [reflexivity|]. split; [exact P2|].
        split.
        * intros He; destruct (P3 He) as [Q1 Q2]. pose proof (vd_off vtag d1 B). split; [lia|congruence].
        * intros He. apply P4. apply vd_err. congruence.
    - destruct (i_unread_spec d1 B) as (U1 & U2 & U3 & U4).
      exists (i_unread d1). split; [left; reflexivity|]. rewrite U1, A. split; [reflexivity|]. split; [exact U2|].
      split.
      + intros He. destruct C as [[C1 C2]|[C1 [C2 C3]]].
        * split; [lia|]. destruct (i_err d) eqn:Ed; [|reflexivity]. rewrite U4 in He; congruence.
        * rewrite U4 in He; congruence.
      + intros He. apply U4, D, He.
  Qed.

  Lemma ipp_groups_ends fuel d :
    dwf d -> (ileft d + 3 <= fuel)%nat -> ipp_groups vdecode fuel d <> IFuel.
  Proof.
    revert d; induction fuel as [|f IH]; intros d Hw Hf; [lia|]. cbn [ipp_groups].
    destruct (i_byte d) as [d1 dtag] eqn:E.
    destruct (i_byte_spec d d1 dtag Hw E) as (A & B & C & D).
    destruct (dtag =? 3)%N; [congruence|].
    destruct (i_err d1) eqn:Ee; [congruence|].
    destruct C as [[C1 C2]|[C1 [C2 C3]]]; [|congruence].
    destruct (ipp_group_ends (S f) d1 B) as (d2 & Hr & P1 & P2 & P3 & P4).
    { unfold ileft in *. rewrite A. lia. }
    destruct Hr as [Hr|Hr]; rewrite Hr; [|congruence].
    destruct (i_err d2) eqn:E2.
    - (* an error is on record: the next round ends *)
      destruct f as [|f']; [unfold ileft, dwf in *; rewrite A in *; lia|]. cbn [ipp_groups].
      destruct (i_byte d2) as [d3 t3] eqn:E3.
      destruct (i_byte_spec d2 d3 t3 P2 E3) as (_ & _ & _ & D3).
      destruct (t3 =? 3)%N; [congruence|]. rewrite (D3 E2). congruence.
    - apply IH; [exact P2|]. destruct (P3 eq_refl) as [Q _]. unfold ileft, dwf in *. rewrite P1, A in *. lia.
  Qed.
End IppLoopsEnd.

(* ------------------------------------------------------------------ *)
(* the datagram read loop of the relaying services *)

Lemma dg_read_cons_data s r k d e c' :
  dg_read (s :: r) k = (d, e, c') ->
  e = false /\ d ++ concat c' = s ++ concat r /\ (length d <= k)%nat /\ (length c' <= S (length r))%nat.
Proof.
  unfold dg_read; intros H; inversion H; subst; clear H.
  pose proof (firstn_skipn k s) as Hs.
  pose proof (firstn_le_length k s) as Hl.
  assert (Hk : (length (firstn k s) <= k)%nat) by (rewrite firstn_length; lia).
  destruct (skipn k s) as [|x rest] eqn:E.
  - rewrite app_nil_r in Hs. repeat split; try lia. now rewrite Hs.
  - repeat split; try (cbn [length]; lia).
    cbn [concat]. rewrite app_assoc, Hs. reflexivity.
Qed.

Lemma dg_read_cons_progress s r k d e c' :
  dg_read (s :: r) k = (d, e, c') -> (1 <= k)%nat ->
  (dg_weight c' < dg_weight (s :: r))%nat /\ ((1 <= length d)%nat \/ c' = r).
Proof.
  unfold dg_read; intros H Hk; inversion H; subst; clear H.
  pose proof (firstn_skipn k s) as Hs.
  apply (f_equal (@length N)) in Hs. rewrite app_length in Hs.
  unfold dg_weight. cbn [concat length]. rewrite app_length.
  destruct s as [|x s'].
  - rewrite skipn_nil. split; [lia|now right].
  - assert (Hd : (1 <= length (firstn k (x :: s')))%nat).
    { rewrite firstn_length; cbn [length]; lia. }
    destruct (skipn k (x :: s')) as [|y rest] eqn:E.
    + cbn [length] in *. split; [lia|now left].
    + cbn [concat length] in *. rewrite app_length. cbn [length] in *. split; [lia|now left].
Qed.

(* the loop as it stands: it ends, with the first min(l, b) bytes, after at most
   (bytes + pieces pending) + 1 and at most (room left in the buffer + pieces pending) + 1 Reads *)
Lemma dg_loop_bounded_ends : forall fuel b acc c reads,
  (length acc <= b)%nat ->
  (dg_weight c + 2 <= fuel)%nat ->
  exists r, dg_loop true fuel b acc c reads = Some (firstn b (acc ++ concat c), r) /\
            (reads <= r)%nat /\ (r <= reads + dg_weight c + 1)%nat /\
            (r <= reads + (b - length acc) + length c + 1)%nat.
Proof.
  induction fuel as [|f IH]; intros b acc c reads Ha Hf; [lia|].
  cbn [dg_loop andb].
  destruct (Nat.ltb_spec (length acc) b) as [Hlt|Hge]; cbn [negb].
  - destruct c as [|s r0].
    + assert (Hk : exists k', (b - length acc = S k')%nat) by (exists (b - length acc - 1)%nat; lia).
      destruct Hk as [k' Hk]. unfold dg_read. rewrite Hk.
      exists (S reads). cbn [concat]. rewrite !app_nil_r.
      rewrite firstn_all2 by lia. unfold dg_weight; cbn [concat length]. repeat split; lia.
    + destruct (dg_read (s :: r0) (b - length acc)) as [[d e] c'] eqn:E.
      destruct (dg_read_cons_data _ _ _ _ _ _ E) as (He & Hd & Hlen & Hc).
      destruct (dg_read_cons_progress _ _ _ _ _ _ E) as (Hw & Hp); [lia|].
      subst e.
      destruct (IH b (acc ++ d) c' (S reads)) as (r & Hr & H1 & H2 & H3).
      * rewrite app_length; lia.
      * lia.
      * exists r. rewrite Hr. cbn [concat]. rewrite <- app_assoc, Hd.
        split; [reflexivity|]. rewrite app_length in H3.
        repeat split; try lia.
        cbn [length]. destruct Hp as [Hp|Hp]; [lia|subst c'; lia].
  - exists reads. assert (length acc = b) by lia. subst b.
    rewrite firstn_app, Nat.sub_diag, firstn_O, app_nil_r, firstn_all.
    repeat split; lia.
Qed.

(* one datagram straight from listener.DummyUDPConn: exactly one Read when it fills the
   buffer (or is cut to it), two otherwise (the second one reports the end) *)
Lemma dg_loop_one_datagram : forall b d f,
  (1 <= b)%nat ->
  dg_loop true (S (S f)) b [] (dg_of d) 0 =
  Some (firstn b d, match d with [] => 1 | _ => if (length d <? b)%nat then 2 else 1 end)%nat.
Proof.
  intros b d f Hb.
  destruct d as [|x d'].
  - cbn [dg_of dg_loop length andb]. destruct (Nat.ltb_spec 0 b); [|lia]. cbn [negb].
    rewrite Nat.sub_0_r. destruct b; [lia|]. reflexivity.
  - cbn [dg_of]. remember (x :: d') as d eqn:Ed.
    cbn [dg_loop length andb]. destruct (Nat.ltb_spec 0 b); [|lia]. cbn [negb].
    rewrite Nat.sub_0_r. unfold dg_read at 1. cbn [app].
    pose proof (firstn_skipn b d) as Hs.
    destruct (Nat.ltb_spec (length d) b) as [Hlt|Hge].
    + rewrite skipn_all2 by lia. rewrite firstn_all2 by lia.
      destruct (Nat.ltb_spec (length d) b); [|lia]. cbn [negb andb].
      assert (Hk : exists k', (b - length d = S k')%nat) by (exists (b - length d - 1)%nat; lia).
      destruct Hk as [k' Hk]. unfold dg_read. rewrite Hk. rewrite app_nil_r.
      subst d; reflexivity.
    + assert (Hl : length (firstn b d) = b) by (rewrite firstn_length; lia).
      destruct (skipn b d); rewrite Hl, Nat.ltb_irrefl; cbn [negb andb]; subst d; reflexivity.
Qed.

(* without the loop condition: once the buffer is full every further Read is one into an
   empty slice, answered (0, nil) - the loop never sees an error *)
Lemma dg_loop_bare_spins : forall fuel b acc c reads,
  (length acc <= b)%nat -> (b <= length acc + length (concat c))%nat ->
  dg_loop false fuel b acc c reads = None.
Proof.
  induction fuel as [|f IH]; intros b acc c reads Ha Hb; [reflexivity|].
  cbn [dg_loop andb].
  destruct c as [|s r0].
  - cbn [concat length] in Hb. assert (Hk : (b - length acc = 0)%nat) by lia.
    rewrite Hk. cbn [dg_read]. apply IH; rewrite app_nil_r; cbn [concat length]; lia.
  - destruct (dg_read (s :: r0) (b - length acc)) as [[d e] c'] eqn:E.
    destruct (dg_read_cons_data _ _ _ _ _ _ E) as (He & Hd & Hlen & Hc). subst e.
    apply IH.
    + rewrite app_length; lia.
    + cbn [concat] in Hb. rewrite <- Hd in Hb. rewrite !app_length in *. lia.
Qed.

(* ... and below the fill it is the same loop *)
Lemma dg_loop_bare_same : forall fuel b acc c reads,
  (length acc + length (concat c) < b)%nat ->
  dg_loop false fuel b acc c reads = dg_loop true fuel b acc c reads.
Proof.
  induction fuel as [|f IH]; intros b acc c reads H; [reflexivity|].
  cbn [dg_loop andb].
  destruct (Nat.ltb_spec (length acc) b) as [Hlt|Hge]; [|lia]. cbn [negb].
  destruct c as [|s r0].
  - destruct (dg_read [] (b - length acc)) as [[d e] c'] eqn:E.
    unfold dg_read in E. destruct (b - length acc)%nat eqn:Ek; [lia|].
    inversion E; subst. reflexivity.
  - destruct (dg_read (s :: r0) (b - length acc)) as [[d e] c'] eqn:E.
    destruct (dg_read_cons_data _ _ _ _ _ _ E) as (He & Hd & Hlen & Hc). subst e.
    apply IH. cbn [concat] in H. rewrite <- Hd in H. rewrite !app_length in *. lia.
Qed.
