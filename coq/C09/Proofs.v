(* C09 - lemmas. *)
From HT Require Import Common.Bytes C09.Model.
From Coq Require Import ZifyBool ZifyN ZifyNat.
Open Scope Z_scope.

(* ------------------------------------------------------------------ *)
(* Read on a connection *)

Lemma BUFSZ_pos : (2 <= BUFSZ)%nat.
Proof. unfold BUFSZ; lia. Qed.
Lemma COPYSZ_pos : (1 <= COPYSZ)%nat.
Proof. unfold COPYSZ; lia. Qed.
Lemma ADBSZ_pos : (1 <= ADBSZ)%nat.
Proof. unfold ADBSZ; lia. Qed.
Global Opaque BUFSZ COPYSZ ADBSZ.

Lemma weight_cons s r t m :
  weight (mkConn (s :: r) t m) = (length s + length (concat r) + S (length r))%nat.
Proof. unfold weight; cbn [c_segs concat length]; rewrite app_length; lia. Qed.

(* data leaves the connection: what was read plus what remains never exceeds what was there *)
Lemma cread_pot c n d e c' :
  cread c n = (d, e, c') -> (length d + weight c' <= weight c)%nat.
Proof.
  unfold cread; destruct c as [segs t m]; cbn [c_segs c_term c_m].
  destruct segs as [|s r].
  - destruct t; intros H; inversion H; subst; cbn; lia.
  - intros H; inversion H; subst; clear H.
    rewrite weight_cons.
    pose proof (firstn_skipn n s) as Hs.
    assert (length s = length (firstn n s) + length (skipn n s))%nat as Hl
      by (rewrite <- app_length, Hs; reflexivity).
    destruct (skipn n s) as [|x rest] eqn:Hk.
    + unfold weight; cbn [c_segs]; cbn [length] in Hl; lia.
    + rewrite weight_cons; cbn [length] in *; lia.
Qed.

Lemma cread_weight c n d e c' : cread c n = (d, e, c') -> (weight c' <= weight c)%nat.
Proof. intros H; apply cread_pot in H; lia. Qed.

(* a Read that finds a pending segment makes progress, whatever it returns *)
Lemma cread_progress c n d e c' :
  (0 < n)%nat -> c_segs c <> [] -> cread c n = (d, e, c') -> (weight c' < weight c)%nat.
Proof.
  unfold cread; destruct c as [segs t m]; cbn [c_segs c_term c_m].
  destruct segs as [|s r]; [congruence|]; intros Hn _ H; inversion H; subst; clear H.
  rewrite weight_cons.
  destruct (skipn n s) as [|x rest] eqn:Hk.
  - unfold weight; cbn [c_segs]; lia.
  - rewrite weight_cons.
    assert (length (x :: rest) = length s - n)%nat by (rewrite <- Hk; apply skipn_length).
    cbn [length] in *; lia.
Qed.

Lemma cread_term c n d e c' : cread c n = (d, e, c') -> c_term c' = c_term c.
Proof.
  unfold cread; destruct (c_segs c); [destruct (c_term c) eqn:E|]; intros H; inversion H; subst; cbn; congruence.
Qed.

(* with pending segments a Read never fails; without, the terminal behaviour decides *)
Lemma cread_pending c n d e c' : c_segs c <> [] -> cread c n = (d, e, c') -> e = ENone.
Proof. unfold cread; destruct (c_segs c); [congruence|]; intros _ H; inversion H; reflexivity. Qed.

Lemma cread_drained c n d e c' :
  c_segs c = [] -> cread c n = (d, e, c') ->
  d = [] /\ c_segs c' = [] /\
  e = match c_term c with TEof => EEOF | TZero => ENone | TTimeout => ETimeout end.
Proof.
  unfold cread; intros ->; destruct (c_term c); intros H; inversion H; subst; cbn; auto.
Qed.

Lemma cread_err_nodata c n d e c' : cread c n = (d, e, c') -> e <> ENone -> d = [] /\ c_segs c = [].
Proof.
  intros H He; destruct (c_segs c) eqn:E.
  - destruct (cread_drained _ _ _ _ _ E H) as (? & _ & _); auto.
  - exfalso; apply He; eapply cread_pending; eauto; congruence.
Qed.

Lemma cread_data_progress c n d e c' :
  cread c n = (d, e, c') -> d <> [] -> (weight c' < weight c)%nat.
Proof.
  intros H Hd; destruct (c_segs c) eqn:E.
  - destruct (cread_drained _ _ _ _ _ E H) as (? & _ & _); congruence.
  - destruct n.
    + unfold cread in H; rewrite E in H; inversion H; subst; cbn in Hd; congruence.
    + apply (cread_progress c (S n) d e c'); [lia|congruence|exact H].
Qed.

Lemma cread_zero_never_fails c n d e c' :
  c_term c = TZero -> cread c n = (d, e, c') -> e = ENone.
Proof.
  intros Ht H; destruct (c_segs c) eqn:E.
  - destruct (cread_drained _ _ _ _ _ E H) as (_ & _ & ->); rewrite Ht; reflexivity.
  - eapply cread_pending; eauto; congruence.
Qed.

Lemma cread_timeouts c n d e c' :
  cread c n = (d, e, c') ->
  m_timeouts (c_m c') = (m_timeouts (c_m c) + match e with ETimeout => 1 | _ => 0 end)%N.
Proof.
  unfold cread; destruct (c_segs c); [destruct (c_term c)|]; intros H; inversion H; subst; cbn; lia.
Qed.

Lemma cread_reads c n d e c' :
  cread c n = (d, e, c') -> m_reads (c_m c') = (m_reads (c_m c) + 1)%N.
Proof.
  unfold cread; destruct (c_segs c); [destruct (c_term c)|]; intros H; inversion H; subst; cbn; lia.
Qed.

Lemma cwrite_weight c k : weight (cwrite c k) = weight c.
Proof. reflexivity. Qed.
Lemma cwrite_term c k : c_term (cwrite c k) = c_term c.
Proof. reflexivity. Qed.
Lemma cwrite_segs c k : c_segs (cwrite c k) = c_segs c.
Proof. reflexivity. Qed.
Lemma cwrite_timeouts c k : m_timeouts (c_m (cwrite c k)) = m_timeouts (c_m c).
Proof. reflexivity. Qed.

(* ------------------------------------------------------------------ *)
(* io.Copy *)

Lemma io_copy_zero_spins fuel wr c :
  c_term c = TZero -> fst (io_copy fuel wr c) = OutOfFuel.
Proof.
  revert c; induction fuel as [|f IH]; intros c Ht; cbn [io_copy]; [reflexivity|].
  destruct (cread c COPYSZ) as [[d e] c1] eqn:E.
  pose proof (cread_zero_never_fails _ _ _ _ _ Ht E) as ->.
  pose proof (cread_term _ _ _ _ _ E) as Ht1.
  apply IH. destruct d; [|destruct wr]; rewrite ?cwrite_term; congruence.
Qed.

(* ... and every round of the loop is one more Read *)
Lemma io_copy_zero_reads fuel wr c :
  c_term c = TZero ->
  m_reads (c_m (snd (io_copy fuel wr c))) = (m_reads (c_m c) + N.of_nat fuel)%N.
Proof.
  revert c; induction fuel as [|f IH]; intros c Ht; cbn [io_copy]; [cbn; lia|].
  destruct (cread c COPYSZ) as [[d e] c1] eqn:E.
  pose proof (cread_zero_never_fails _ _ _ _ _ Ht E) as ->.
  pose proof (cread_term _ _ _ _ _ E) as Ht1.
  pose proof (cread_reads _ _ _ _ _ E) as Hr.
  rewrite IH.
  - destruct d; [|destruct wr]; cbn [cwrite c_m m_reads]; lia.
  - destruct d; [|destruct wr]; rewrite ?cwrite_term; congruence.
Qed.

Lemma io_copy_returns fuel wr c :
  c_term c <> TZero -> (weight c < fuel)%nat -> fst (io_copy fuel wr c) = Returned.
Proof.
  revert c; induction fuel as [|f IH]; intros c Ht Hw; [lia|]; cbn [io_copy].
  destruct (cread c COPYSZ) as [[d e] c1] eqn:E.
  pose proof (cread_term _ _ _ _ _ E) as Ht1.
  destruct (c_segs c) eqn:Es.
  - destruct (cread_drained _ _ _ _ _ Es E) as (-> & _ & ->).
    destruct (c_term c); try congruence; reflexivity.
  - assert (e = ENone) as -> by (eapply cread_pending; eauto; congruence).
    assert (weight c1 < weight c)%nat
      by (apply (cread_progress c COPYSZ d ENone c1); [pose proof COPYSZ_pos; lia|congruence|exact E]).
    apply IH.
    + destruct d; [|destruct wr]; rewrite ?cwrite_term; congruence.
    + destruct d; [|destruct wr]; rewrite ?cwrite_weight; lia.
Qed.

Lemma io_copy_one_deadline fuel wr c :
  (m_timeouts (c_m (snd (io_copy fuel wr c))) <= m_timeouts (c_m c) + 1)%N.
Proof.
  revert c; induction fuel as [|f IH]; intros c; cbn [io_copy]; [cbn; lia|].
  destruct (cread c COPYSZ) as [[d e] c1] eqn:E.
  pose proof (cread_timeouts _ _ _ _ _ E) as Ht.
  destruct e; cbn [snd];
    try (destruct d; [|destruct wr]; rewrite ?cwrite_timeouts; lia).
  specialize (IH (match d with [] => c1 | _ => if wr then cwrite c1 (nlen d) else c1 end)).
  destruct d; [|destruct wr]; rewrite ?cwrite_timeouts in IH; lia.
Qed.

(* ------------------------------------------------------------------ *)
(* bufio.Reader *)

Definition pot (b : brd) : nat := (length (b_buf b) + weight (b_c b))%nat.

Lemma cread_err_kind c n d e c' : cread c n = (d, e, c') -> e <> EBufFull /\ e <> ENoProgress.
Proof.
  unfold cread; destruct (c_segs c); [destruct (c_term c)|]; intros H; inversion H; subst; split; congruence.
Qed.

Lemma fill_loop_spec i buf c buf' e c' :
  fill_loop i buf c = (buf', e, c') ->
  (length buf' + weight c' <= length buf + weight c)%nat /\
  c_term c' = c_term c /\
  (e = ENone -> (weight c' < weight c)%nat) /\
  (e <> ENone -> buf' = buf) /\ e <> EBufFull.
Proof.
  revert buf c; induction i as [|i IH]; intros buf c; cbn [fill_loop].
  - intros H; inversion H; subst; repeat split; try lia; congruence.
  - destruct (cread c (BUFSZ - length buf)) as [[d e0] c1] eqn:E.
    pose proof (cread_pot _ _ _ _ _ E) as Hp.
    pose proof (cread_term _ _ _ _ _ E) as Ht.
    pose proof (cread_err_kind _ _ _ _ _ E) as [Hk _].
    destruct e0.
    + destruct d as [|x d].
      * intros H; apply IH in H; destruct H as (H1 & H2 & H3 & H4 & H5).
        cbn [length] in Hp. split; [lia|]. split; [congruence|].
        split; [intros He; specialize (H3 He); lia|]. split; assumption.
      * intros H; inversion H; subst.
        assert (weight c' < weight c)%nat by (eapply cread_data_progress; eauto; congruence).
        rewrite app_length. repeat split; try lia; try congruence.
    + intros H; inversion H; subst. destruct (cread_err_nodata _ _ _ _ _ E) as [-> _]; [congruence|].
      rewrite app_nil_r; cbn [length] in Hp. repeat split; try lia; congruence.
    + intros H; inversion H; subst. destruct (cread_err_nodata _ _ _ _ _ E) as [-> _]; [congruence|].
      rewrite app_nil_r; cbn [length] in Hp. repeat split; try lia; congruence.
    + intros H; inversion H; subst. destruct (cread_err_nodata _ _ _ _ _ E) as [-> _]; [congruence|].
      rewrite app_nil_r; cbn [length] in Hp. repeat split; try lia; congruence.
    + congruence.
Qed.

(* the cut-off: on a drained datagram connection fill gives up after exactly [i] empty reads *)
Lemma fill_loop_drained_zero i buf c :
  c_segs c = [] -> c_term c = TZero ->
  exists c', fill_loop i buf c = (buf, ENoProgress, c') /\ c_segs c' = [] /\ c_term c' = TZero /\
             m_zero (c_m c') = (m_zero (c_m c) + N.of_nat i)%N /\
             m_reads (c_m c') = (m_reads (c_m c) + N.of_nat i)%N.
Proof.
  revert c; induction i as [|i IH]; intros c Hs Ht; cbn [fill_loop].
  - exists c; repeat split; auto; lia.
  - unfold cread; rewrite Hs, Ht.
    destruct (IH (mkConn [] TZero (tick_read (c_m c) true false false)) eq_refl eq_refl) as (c' & H1 & H2 & H3 & H4 & H5).
    exists c'; rewrite H1; repeat split; auto; cbn [c_m tick_read m_zero m_reads] in *; lia.
Qed.

Lemma fill_spec b :
  (pot (fill b) <= pot b)%nat /\ c_term (b_c (fill b)) = c_term (b_c b) /\
  (b_err b = ENone -> b_err (fill b) = ENone -> (weight (b_c (fill b)) < weight (b_c b))%nat) /\
  (b_err b = ENone -> b_err (fill b) <> ENone -> b_buf (fill b) = b_buf b) /\
  (b_err b <> EBufFull -> b_err (fill b) <> EBufFull).
Proof.
  unfold fill, pot. destruct (fill_loop MAX_EMPTY (b_buf b) (b_c b)) as [[buf e] c] eqn:E.
  apply fill_loop_spec in E; destruct E as (H1 & H2 & H3 & H4 & H5); cbn [b_buf b_err b_c].
  repeat split; auto.
  - intros Hb; rewrite Hb; destruct e; intros; try congruence; auto.
  - intros Hb; rewrite Hb; destruct e; intros; try congruence; apply H4; congruence.
  - destruct e; congruence.
Qed.

Lemma find_idx_lt x l i : find_idx x l = Some i -> (i < length l)%nat.
Proof.
  revert i; induction l as [|y r IH]; cbn [find_idx]; intros i; [congruence|].
  destruct (x =? y)%N.
  - intros H; inversion H; cbn; lia.
  - destruct (find_idx x r) eqn:E; cbn [option_map]; intros H; inversion H; subst.
    specialize (IH _ eq_refl); cbn; lia.
Qed.

Definition need (b : brd) : nat := match b_err b with ENone => weight (b_c b) + 2 | _ => 1 end.

Lemma need_le_pot b : (need b <= pot b + 2)%nat.
Proof. unfold need, pot; destruct (b_err b); lia. Qed.

Lemma read_slice_spec fuel delim b :
  b_err b <> EBufFull -> (need b <= fuel)%nat ->
  exists line e b', read_slice fuel delim b = RsOk line e b' /\
    (pot b' + length line <= pot b)%nat /\
    (e = ENone -> line <> []) /\
    (e = EBufFull -> (BUFSZ <= length line)%nat /\ b_err b' = ENone) /\
    b_err b' <> EBufFull /\
    c_term (b_c b') = c_term (b_c b).
Proof.
  revert b; induction fuel as [|f IH]; intros b Hnf Hn.
  - unfold need in Hn; destruct (b_err b); lia.
  - cbn [read_slice]. destruct (find_idx delim (b_buf b)) as [i|] eqn:Ef.
    + apply find_idx_lt in Ef.
      eexists _, _, _; split; [reflexivity|]. unfold pot; cbn [b_buf b_c b_err].
      rewrite firstn_length, skipn_length. repeat split; auto; try congruence; try lia.
      intros _ Hc. apply (f_equal (@length N)) in Hc; rewrite firstn_length in Hc; cbn [length] in Hc; lia.
    + destruct (b_err b) eqn:Eb; try congruence;
        try (eexists _, _, _; split; [reflexivity|]; unfold pot; cbn [b_buf b_c b_err length];
             repeat split; auto; try congruence; lia).
      destruct (BUFSZ <=? length (b_buf b))%nat eqn:Efull.
      * apply Nat.leb_le in Efull.
        eexists _, _, _; split; [reflexivity|]; unfold pot; cbn [b_buf b_c b_err length].
        repeat split; auto; try congruence; lia.
      * destruct (fill_spec b) as (F1 & F2 & F3 & F4 & F5).
        assert (need (fill b) <= f)%nat as Hn'.
        { unfold need in *; rewrite Eb in Hn.
          destruct (b_err (fill b)) eqn:Ee; [specialize (F3 Eb eq_refl); lia|lia..]. }
        assert (b_err b <> EBufFull) as Hnf' by (rewrite Eb; congruence).
        destruct (IH (fill b) (F5 Hnf') Hn') as (line & e & b' & H & P1 & P2 & P3 & P4 & P5).
        exists line, e, b'; split; [exact H|].
        split; [lia|]. split; [exact P2|]. split; [exact P3|]. split; [exact P4|]. congruence.
Qed.

Lemma read_bytes_spec fuel delim acc b :
  b_err b <> EBufFull -> (pot b + 3 <= fuel)%nat ->
  exists line e b', read_bytes fuel delim acc b = RsOk line e b' /\
    (pot b' <= pot b)%nat /\ (e = ENone -> (pot b' < pot b)%nat) /\ e <> EBufFull /\
    b_err b' <> EBufFull /\ c_term (b_c b') = c_term (b_c b).
Proof.
  revert acc b; induction fuel as [|f IH]; intros acc b Hnf Hp; [lia|].
  cbn [read_bytes].
  destruct (read_slice_spec (S f) delim b Hnf) as (line & e & b1 & H & P1 & P2 & P3 & P4 & P5).
  { pose proof (need_le_pot b); lia. }
  rewrite H.
  assert (e = ENone -> (pot b1 < pot b)%nat) as Hstrict.
  { intros He; specialize (P2 He); destruct line; [congruence|cbn [length] in P1; lia]. }
  destruct e;
    try (exists (acc ++ line); eexists; exists b1; split; [reflexivity|];
         split; [lia|]; split; [exact Hstrict|]; split; [congruence|]; split; assumption).
  destruct (P3 eq_refl) as [Q1 Q2]. pose proof BUFSZ_pos.
  destruct (IH (acc ++ line) b1) as (l2 & e2 & b2 & H2 & R1 & R2 & R3 & R4 & R5); [congruence|lia|].
  exists l2, e2, b2; split; [exact H2|].
  split; [lia|]. split; [intros He; specialize (R2 He); lia|]. split; [exact R3|]. split; [exact R4|]. congruence.
Qed.

Lemma bwrite_pot b k : pot (bwrite b k) = pot b.
Proof. reflexivity. Qed.
Lemma bwrite_err b k : b_err (bwrite b k) = b_err b.
Proof. reflexivity. Qed.
Lemma bwrite_term b k : c_term (b_c (bwrite b k)) = c_term (b_c b).
Proof. reflexivity. Qed.
Lemma nwrites_pot k b : pot (nwrites k b) = pot b.
Proof. revert b; induction k; intros b; cbn [nwrites]; [reflexivity|]. rewrite IHk; apply bwrite_pot. Qed.
Lemma nwrites_err k b : b_err (nwrites k b) = b_err b.
Proof. revert b; induction k; intros b; cbn [nwrites]; [reflexivity|]. rewrite IHk; apply bwrite_err. Qed.

Lemma bread_spec b n d e b' :
  b_err b <> EBufFull -> bread b n = (d, e, b') ->
  (pot b' <= pot b)%nat /\ b_err b' <> EBufFull /\ c_term (b_c b') = c_term (b_c b).
Proof.
  intros Hnf; unfold bread, pot.
  destruct (b_buf b) as [|x buf] eqn:Eb.
  - destruct (b_err b) eqn:Ee; try congruence;
      try (intros H; inversion H; subst; cbn [b_buf b_c b_err length]; repeat split; try lia; congruence).
    destruct (BUFSZ <=? n)%nat.
    + destruct (cread (b_c b) n) as [[d0 e0] c'] eqn:E. intros H; inversion H; subst.
      pose proof (cread_weight _ _ _ _ _ E). pose proof (cread_term _ _ _ _ _ E).
      cbn [b_buf b_c b_err length]; repeat split; try lia; congruence.
    + destruct (cread (b_c b) BUFSZ) as [[d0 e0] c'] eqn:E.
      pose proof (cread_pot _ _ _ _ _ E). pose proof (cread_term _ _ _ _ _ E).
      pose proof (cread_err_kind _ _ _ _ _ E) as [? _].
      destruct d0; intros H'; inversion H'; subst; cbn [b_buf b_c b_err length] in *.
      * repeat split; try lia; congruence.
      * rewrite skipn_length; cbn [length]. repeat split; try lia; congruence.
  - intros H; inversion H; subst; cbn [b_buf b_c b_err].
    rewrite skipn_length. repeat split; auto; lia.
Qed.

Lemma discard_loop_spec fuel remain b :
  (0 < remain)%nat -> b_err b <> EBufFull -> (pot b + 1 <= fuel)%nat ->
  exists b', discard_loop fuel remain b = Some b' /\
    (pot b' <= pot b)%nat /\ b_err b' <> EBufFull /\ c_term (b_c b') = c_term (b_c b).
Proof.
  revert remain b; induction fuel as [|f IH]; intros remain b Hr Hnf Hp; [lia|].
  cbn [discard_loop].
  set (b1 := match b_buf b with [] => fill b | _ => b end).
  assert ((pot b1 <= pot b)%nat /\ b_err b1 <> EBufFull /\ c_term (b_c b1) = c_term (b_c b) /\
          (b_err b1 = ENone -> (length (b_buf b1) = 0)%nat -> (pot b1 < pot b)%nat \/ (pot b1 + 1 <= f)%nat)) as (A1 & A2 & A3 & A4).
  { subst b1; destruct (b_buf b) eqn:Eb.
    - destruct (fill_spec b) as (F1 & F2 & F3 & F4 & F5). repeat split; auto.
      intros He Hl. destruct (b_err b) eqn:Ee.
      + left. specialize (F3 eq_refl He). unfold pot in *; rewrite Eb, Hl in *; cbn [length] in *; lia.
      + exfalso; revert He; unfold fill; destruct (fill_loop MAX_EMPTY (b_buf b) (b_c b)) as [[? e] ?]; cbn [b_err]; rewrite Ee; destruct e; congruence.
      + exfalso; revert He; unfold fill; destruct (fill_loop MAX_EMPTY (b_buf b) (b_c b)) as [[? e] ?]; cbn [b_err]; rewrite Ee; destruct e; congruence.
      + exfalso; revert He; unfold fill; destruct (fill_loop MAX_EMPTY (b_buf b) (b_c b)) as [[? e] ?]; cbn [b_err]; rewrite Ee; destruct e; congruence.
      + congruence.
    - repeat split; auto. intros _ Hl; rewrite Eb in Hl; cbn in Hl; lia. }
  clearbody b1.
  set (skip := Nat.min (length (b_buf b1)) remain).
  destruct (remain - skip)%nat as [|r'] eqn:Er.
  - eexists; split; [reflexivity|]. unfold pot in *; cbn [b_buf b_c b_err]; rewrite skipn_length.
    repeat split; auto; lia.
  - cbn [b_err b_buf b_c].
    destruct (b_err b1) eqn:Ee;
      try (eexists; split; [reflexivity|]; unfold pot in *; cbn [b_buf b_c b_err]; rewrite skipn_length;
           repeat split; auto; try congruence; lia).
    assert (pot (mkBr (skipn skip (b_buf b1)) ENone (b_c b1)) + 1 <= f)%nat as Hp2.
    { unfold pot in *; cbn [b_buf b_c]; rewrite skipn_length.
      destruct (length (b_buf b1)) eqn:El.
      - destruct (A4 eq_refl eq_refl); lia.
      - subst skip; lia. }
    destruct (IH (S r') (mkBr (skipn skip (b_buf b1)) ENone (b_c b1))) as (b' & H & R1 & R2 & R3);
      [lia|cbn; congruence|exact Hp2|].
    exists b'; split; [exact H|]. unfold pot in *; cbn [b_buf b_c] in *; rewrite skipn_length in R1.
    repeat split; auto; try lia. rewrite R3; exact A3.
Qed.

Lemma discard_spec fuel n b :
  b_err b <> EBufFull -> (pot b + 1 <= fuel)%nat ->
  exists b', discard fuel n b = Some b' /\
    (pot b' <= pot b)%nat /\ b_err b' <> EBufFull /\ c_term (b_c b') = c_term (b_c b).
Proof.
  intros Hnf Hp; unfold discard. destruct (n <=? 0) eqn:E.
  - exists b; repeat split; auto.
  - apply discard_loop_spec; auto; lia.
Qed.
