(* C03, part "diff" - the property as a differential experiment on the implementation alone:
   a probe session B is run (a) alone on a fresh service instance, (b) alone again on another
   fresh instance in the same process, and (c) on a fresh instance together with arbitrary
   other sessions (before it and interleaved with it, finished or abandoned anywhere, other
   client and destination addresses, IPv4 and IPv6).  Per step of B the harness digests
   everything B received (volatile fields: data-port numbers, masked; ldap attribute order,
   sorted), plus one digest of the stream of events recorded under B's address.  All three
   digests of every step must be equal: (b) differs from (a) when something outlives the
   service instance (package-level state), (c) differs from (a) when other sessions matter. *)
From HT Require Import C03.Model.
Local Open Scope N_scope.

Record case := mkCase {
  c_id : N;
  c_svc : N;
  c_steps : list (N * N * N)    (* per probe step: digest alone, alone again, together *)
}.

Definition same_together (c : case) : bool :=
  forallb (fun p : N * N * N => fst (fst p) =? snd p) (c_steps c).
Definition same_again (c : case) : bool :=
  forallb (fun p : N * N * N => fst (fst p) =? snd (fst p)) (c_steps c).

(* there is no model in this part: the implementation is compared with itself *)
Definition mismatches (cs : list case) : list N := [].

(* signature = 10 * service + 1 (depends on other sessions) / 2 (depends on earlier instances) *)
Definition violations (cs : list case) : list (N * N) :=
  flat_map (fun c => (if same_together c then [] else [(c_id c, 10 * c_svc c + 1)]) ++
                     (if same_again c then [] else [(c_id c, 10 * c_svc c + 2)])) cs.

Definition tags (cs : list case) : list (N * N) := map (fun c => (c_id c, c_svc c)) cs.
