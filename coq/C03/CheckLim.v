(* C03, part "lim" - the real services.Limiter against the bucket model: a sequence of Allow
   calls with generated addresses (TCP / UDP / another address type; IPv4 in 4-byte and in
   16-byte v4-mapped form, IPv6, a nil IP) and the booleans it returned. *)
From HT Require Import C03.Model.
Local Open Scope N_scope.

(* kind: 1 *net.TCPAddr, 2 *net.UDPAddr, 3 any other net.Addr; ip: the bytes of the net.IP *)
Record addr := mkAddr { a_kind : N; a_ip : list N }.

(* be_value, is_v4mapped: C03.Model *)

(* the bucket key = net.IP.String(): an IPv4 address prints the same in its 4-byte and in its
   v4-mapped 16-byte form; every other 16-byte address prints as itself; a nil IP prints "<nil>".
   Keys as numbers: tag * 2^130 + value *)
Definition key_of (ip : list N) : N :=
  match length ip with
  | 4%nat => 2 ^ 130 + be_value 0 ip
  | 16%nat => if is_v4mapped ip then 2 ^ 130 + be_value 0 (skipn 12 ip) else 2 * 2 ^ 130 + be_value 0 ip
  | O => 3 * 2 ^ 130
  | _ => 4 * 2 ^ 130 + be_value 0 ip * 256 + N.of_nat (length ip)      (* "?" ++ hex: not generated *)
  end.

Fixpoint model_run (l : limiter) (calls : list addr) : list bool :=
  match calls with
  | [] => []
  | a :: r =>
      if a_kind a =? 3 then false :: model_run l r
      else let '(b, l') := lim_allow l (key_of (a_ip a)) in b :: model_run l' r
  end.

Record case := mkCase { c_id : N; c_calls : list addr; c_obs : list bool }.

Fixpoint list_eqb {A} (e : A -> A -> bool) (a b : list A) : bool :=
  match a, b with
  | [], [] => true
  | x :: a', y :: b' => e x y && list_eqb e a' b'
  | _, _ => false
  end.

Definition mismatches (cs : list case) : list N :=
  map c_id (filter (fun c => negb (list_eqb Bool.eqb (model_run [] (c_calls c)) (c_obs c))) cs).

(* the property on the observation: the j-th answer is "admitted" exactly when fewer than BURST
   earlier calls of the SAME client address were made (closed form of C03_limiter_independent +
   C03_limiter_burst) - calls of other clients must not matter *)
Fixpoint expected (seen : list N) (calls : list addr) : list bool :=
  match calls with
  | [] => []
  | a :: r =>
      if a_kind a =? 3 then false :: expected seen r
      else let k := key_of (a_ip a) in
           (N.of_nat (length (filter (N.eqb k) seen)) <? BURST) :: expected (k :: seen) r
  end.

Definition SIG_ALLOWANCE := 1.
Definition violations (cs : list case) : list (N * N) :=
  flat_map (fun c => if list_eqb Bool.eqb (expected [] (c_calls c)) (c_obs c) then [] else [(c_id c, SIG_ALLOWANCE)]) cs.

(* tag: 1 one client, 2 several clients, 3 several clients one of which exceeds its burst *)
Definition tags (cs : list case) : list (N * N) :=
  map (fun c => (c_id c,
    if existsb negb (c_obs c) then 3
    else match c_calls c with
         | a :: r => if forallb (fun b => key_of (a_ip b) =? key_of (a_ip a)) r then 1 else 2
         | [] => 1
         end)) cs.
