(* C03 - property theorems: connections are isolated; events name the connection that
   caused them.  Proved for ALL interleavings (at request/response granularity) and all
   histories of the modelled services; refuted, with witnesses, where the code keeps
   per-connection state on the shared service object (ldap; ftp working directory; smtp
   receive channel). *)
From HT Require Import C03.Model C03.Check C03.Proofs.
Open Scope N_scope.

(* The frame theorem.  If (1) a step of any other connection (behaving as [ok] allows)
   leaves connection i's own state and its view of the shared state unchanged and sends
   nothing to i / records nothing under i's address, and (2) a step of i depends on and
   changes nothing but i's own state and view, then in EVERY interleaving what i receives
   and what is recorded under i's address is what the session produces on its own. *)
Theorem C03_frame :
  forall (S C V : Type) (step : sys S C -> N -> input -> sys S C * outs) (i : N)
         (view : S -> V) (ok : N -> input -> Prop),
  (forall a j x, j <> i -> ok j x ->
     eqv S C V i view (fst (step a j x)) a /\
     on_conn i (fst (snd (step a j x))) = [] /\ on_conn i (snd (snd (step a j x))) = []) ->
  (forall a b x, eqv S C V i view a b ->
     eqv S C V i view (fst (step a i x)) (fst (step b i x)) /\
     on_conn i (fst (snd (step a i x))) = on_conn i (fst (snd (step b i x))) /\
     on_conn i (snd (snd (step a i x))) = on_conn i (snd (snd (step b i x)))) ->
  forall tr a b, eqv S C V i view a b ->
  Forall (fun p => fst p = i \/ ok (fst p) (snd p)) tr ->
  obs i (snd (run step a tr)) = obs i (snd (run step b (own i tr))).
Proof. exact frame. Qed.

(* every service whose Handle keeps its state in locals: all interleavings *)
Theorem C03_local_services_isolated :
  forall (C : Type) (lstep : C -> input -> C * list reply * list ev) (c0 : C) (i : N) (tr : list (N * input)),
  obs i (run_outs (lift lstep) tt c0 tr) = obs i (run_outs (lift lstep) tt c0 (own i tr)).
Proof. exact local_frame. Qed.

Theorem C03_telnet_isolated : forall i tr,
  obs i (svc_run SVC_TELNET tr) = obs i (svc_run SVC_TELNET (own i tr)).
Proof. exact (local_frame _ telnet_lstep (PH_NONE, 0, 0)). Qed.

Theorem C03_redis_isolated : forall i tr,
  obs i (svc_run SVC_REDIS tr) = obs i (svc_run SVC_REDIS (own i tr)).
Proof. exact (local_frame _ redis_lstep PH_NONE). Qed.

Theorem C03_memcached_isolated : forall i tr,
  obs i (svc_run SVC_MEMCACHED tr) = obs i (svc_run SVC_MEMCACHED (own i tr)).
Proof. exact (local_frame _ memcached_lstep PH_NONE). Qed.

Theorem C03_http_isolated : forall i tr,
  obs i (svc_run SVC_HTTP tr) = obs i (svc_run SVC_HTTP (own i tr)).
Proof. exact (local_frame _ http_lstep PH_NONE). Qed.

(* ... and every reply goes to, every event carries, the connection that took the step *)
Theorem C03_local_outputs_own :
  forall (C : Type) (lstep : C -> input -> C * list reply * list ev) tr st k j x o,
  nth_error tr k = Some (j, x) -> nth_error (snd (run (lift lstep) st tr)) k = Some o ->
  Forall (fun r => fst r = j) (fst o) /\ Forall (fun e => fst e = j) (snd o).
Proof. exact local_outputs_own. Qed.

(* sequential histories: any number of earlier sessions, finished or not *)
Theorem C03_earlier_sessions_irrelevant :
  forall (C : Type) (lstep : C -> input -> C * list reply * list ev) c0 i h p,
  Forall (fun q : N * input => fst q <> i) h -> Forall (fun q : N * input => fst q = i) p ->
  obs i (run_outs (lift lstep) tt c0 (h ++ p)) = obs i (run_outs (lift lstep) tt c0 p).
Proof. exact local_history_irrelevant. Qed.

(* tftp: limiter keyed by IP, upload buffers keyed by remote address - isolated from
   every client with another IP *)
Theorem C03_tftp_keyed_isolation : forall i tr,
  Forall (fun p : N * input => fst p = i \/ ip_of (fst p) <> ip_of i) tr ->
  obs i (svc_run SVC_TFTP tr) = obs i (svc_run SVC_TFTP (own i tr)).
Proof. exact tftp_frame. Qed.

Theorem C03_tftp_earlier_clients_irrelevant : forall i h p,
  Forall (fun q : N * input => ip_of (fst q) <> ip_of i) h -> Forall (fun q : N * input => fst q = i) p ->
  obs i (svc_run SVC_TFTP (h ++ p)) = obs i (svc_run SVC_TFTP p).
Proof. exact tftp_history_irrelevant. Qed.

(* the hypothesis is needed: clients behind one IP share the limiter (by design) *)
Theorem C03_tftp_same_ip_boundary :
  ip_of 32 = ip_of 33 /\
  obs 33 (run_outs tftp_step tftp_s0 tt tftp_w1) = ([], []) /\
  obs 33 (run_outs tftp_step tftp_s0 tt (own 33 tftp_w1)) = ([5001], [mkEv 1 2]).
Proof. exact tftp_same_ip_shares_limiter. Qed.

(* ftp: the command channel and its pump are per connection; what remains shared is the
   working directory.  Replies AND events are isolated as long as the other sessions do not
   change directory; smtp: the replies, always *)
Theorem C03_ftp_isolated_while_others_keep_directory : forall i tr,
  Forall (fun p : N * input => fst p = i \/ keeps_directory (snd p)) tr ->
  obs i (svc_run SVC_FTP tr) = obs i (svc_run SVC_FTP (own i tr)).
Proof. exact ftp_isolated. Qed.

Theorem C03_smtp_replies_isolated : forall i tr,
  replies_on i (svc_run SVC_SMTP tr) = replies_on i (svc_run SVC_SMTP (own i tr)).
Proof. exact smtp_replies_isolated. Qed.


(* ftp and tftp: every reply of a step goes to, every event of a step carries, the stepping
   connection (any state, any interleaving: ftp events name the connection that caused them);
   smtp: replies and input-line events likewise *)
Theorem C03_ftp_outputs_own : forall tr st k j x o,
  nth_error tr k = Some (j, x) -> nth_error (snd (run ftp_step st tr)) k = Some o ->
  Forall (fun r : N * reply => fst r = j) (fst o) /\ Forall (fun e : N * ev => fst e = j) (snd o).
Proof. exact ftp_outputs_own. Qed.

Theorem C03_smtp_replies_and_line_events_own : forall tr st k j x o,
  nth_error tr k = Some (j, x) -> nth_error (snd (run smtp_step st tr)) k = Some o ->
  Forall (fun r : N * reply => fst r = j) (fst o) /\
  Forall (fun e : N * ev => e_type (snd e) = 1 -> fst e = j) (snd o).
Proof. exact smtp_replies_and_line_events_own. Qed.

Theorem C03_tftp_outputs_own : forall tr st k j x o,
  nth_error tr k = Some (j, x) -> nth_error (snd (run tftp_step st tr)) k = Some o ->
  Forall (fun r : N * reply => fst r = j) (fst o) /\ Forall (fun e : N * ev => fst e = j) (snd o).
Proof. exact tftp_outputs_own. Qed.

(* smtp: an event is only ever carried by a connection that is open at that moment (state
   before the step neither "not accepted" nor "finished"); 0 = a choice the code cannot make *)
Theorem C03_smtp_only_open_connections_carry : forall tr k j x o c e,
  nth_error tr k = Some (j, x) -> nth_error (svc_run SVC_SMTP tr) k = Some o -> In (c, e) (snd o) ->
  c = 0 \/ smtp_live (conns (fst (run smtp_step (mkSys [] (fun _ => 0)) (firstn k tr))) c) = true.
Proof. exact (fun tr => smtp_only_open_connections_carry tr _ smtp_inv_initial). Qed.

(* ---- the full statement is refuted for ldap, ftp, smtp (defects of the code) ---- *)

(* ldap: B merely connects; the answer to A's next request is written to B's connection *)
Theorem C03_ldap_crosstalk_refuted :
  reply_elsewhere (svc_run SVC_LDAP ldap_w1) ldap_w1 3 17 34.
Proof. exact ldap_crosstalk. Qed.

(* ... A, bound as root, is answered as anonymous (result 53) and receives nothing itself *)
Theorem C03_ldap_login_reset_refuted :
  own 34 ldap_w1 = [(34, Open)] /\
  replies_on 17 (svc_run SVC_LDAP ldap_w1) = [1001000] /\
  replies_on 17 (svc_run SVC_LDAP (own 17 ldap_w1)) = [1001000; 2011000] /\
  replies_on 34 (svc_run SVC_LDAP ldap_w1) = [2011053].
Proof. exact ldap_login_reset. Qed.

(* ftp: A's CWD changes B's PWD; the directory even survives the session *)
Theorem C03_ftp_shared_cwd_refuted :
  replies_on 34 (svc_run SVC_FTP ftp_w2) = [220000; 331000; 230000; 257001] /\
  replies_on 34 (svc_run SVC_FTP (own 34 ftp_w2)) = [220000; 331000; 230000; 257000].
Proof. exact ftp_shared_cwd. Qed.

Theorem C03_ftp_cwd_survives_session_refuted :
  replies_on 34 (svc_run SVC_FTP ftp_w3) = [220000; 331000; 230000; 257003] /\
  replies_on 34 (svc_run SVC_FTP (own 34 ftp_w3)) = [220000; 331000; 230000; 257000].
Proof. exact ftp_cwd_survives_session. Qed.

(* smtp: B's mail is reported under the address of A, which is open and idle *)
Theorem C03_smtp_misattribution_refuted :
  picks_possible [] smtp_w1 = true /\
  conns (fst (run smtp_step (mkSys [] (fun _ => 0)) (firstn 6 smtp_w1))) 17 = 2 /\
  event_elsewhere (svc_run SVC_SMTP smtp_w1) smtp_w1 6 34 17.
Proof. exact smtp_misattribution. Qed.

(* ---- once the proposed repairs (fixes/C03-*.patch) are applied, ldap, ftp and smtp keep all
   session state per connection: their models become lifted local steps and the full
   statement holds for them as well (these models are validated against the patched code,
   and become the ones used by svc_run when the patches land) ---- *)
Theorem C03_ftp_session_isolated : forall i tr,
  obs i (run_outs (lift ftp_session_lstep) tt (ftp_c0, []) tr) =
  obs i (run_outs (lift ftp_session_lstep) tt (ftp_c0, []) (own i tr)).
Proof. exact (local_frame _ ftp_session_lstep (ftp_c0, [])). Qed.

Theorem C03_smtp_session_isolated : forall i tr,
  obs i (run_outs (lift smtp_session_lstep) tt 0 tr) = obs i (run_outs (lift smtp_session_lstep) tt 0 (own i tr)).
Proof. exact (local_frame _ smtp_session_lstep 0). Qed.

Theorem C03_ldap_session_isolated : forall i tr,
  obs i (run_outs (lift ldap_session_lstep) tt (PH_NONE, false) tr) =
  obs i (run_outs (lift ldap_session_lstep) tt (PH_NONE, false) (own i tr)).
Proof. exact (local_frame _ ldap_session_lstep (PH_NONE, false)). Qed.

(* ---- non-vacuity: interleaved sessions with observable output; the checker's own
   verdicts on model-generated observations ---- *)
Example C03_nonvacuous_telnet :
  let tr := [(17, Open); (34, Open); (17, Tok 1 0 0); (34, Tok 2 0 0); (17, Tok 1 0 0); (34, Tok 3 0 0); (17, Tok 2 0 0)] in
  obs 17 (svc_run SVC_TELNET tr) = ([1; 2; 3; 4], [mkEv 1 0; mkEv 2 17; mkEv 3 2]) /\
  obs 34 (svc_run SVC_TELNET tr) = ([1; 2; 3], [mkEv 1 0; mkEv 2 35]).
Proof. split; vm_compute; reflexivity. Qed.

Example C03_nonvacuous_tftp :
  let tr := [(17, Tok 2 1 0); (34, Tok 2 2 0); (17, Tok 3 1 0); (34, Tok 4 1 0); (17, Tok 4 2 0)] in
  Forall (fun p : N * input => fst p = 17 \/ ip_of (fst p) <> ip_of 17) tr /\
  obs 17 (svc_run SVC_TFTP tr) = ([4000; 4001; 4002], [mkEv 2 1; mkEv 3 100612]).
Proof.
  split; [|vm_compute; reflexivity].
  repeat (apply Forall_cons; [first [left; reflexivity | right; vm_compute; discriminate]|]); apply Forall_nil.
Qed.

(* the checker flags the ldap witness and passes a clean redis scenario *)
Example C03_checker_verdicts :
  let mk svc tr := mkCase 0 svc tr
        (map (fun o : outs => (fst o, map (fun e : N * ev => mkOE (fst e) (e_type (snd e)) (e_arg (snd e)) 0 (svc_port svc)) (snd o)))
             (svc_run svc tr)) in
  case_sigs (mk SVC_LDAP ldap_w1) = [SIG_REPLY_ELSEWHERE; SIG_REPLIES_DEPEND] /\
  case_sigs (mk SVC_SMTP smtp_w1) = [SIG_EVENT_ELSEWHERE] /\
  case_sigs (mk SVC_FTP ftp_w2) = [SIG_REPLIES_DEPEND] /\
  case_sigs (mk SVC_REDIS [(17, Open); (34, Open); (17, Tok 1 0 0); (34, Tok 2 0 0)]) = [].
Proof. repeat split; vm_compute; reflexivity. Qed.

Print Assumptions C03_frame.
Print Assumptions C03_local_services_isolated.
Print Assumptions C03_telnet_isolated.
Print Assumptions C03_redis_isolated.
Print Assumptions C03_memcached_isolated.
Print Assumptions C03_http_isolated.
Print Assumptions C03_local_outputs_own.
Print Assumptions C03_earlier_sessions_irrelevant.
Print Assumptions C03_tftp_keyed_isolation.
Print Assumptions C03_tftp_earlier_clients_irrelevant.
Print Assumptions C03_tftp_same_ip_boundary.
Print Assumptions C03_ftp_isolated_while_others_keep_directory.
Print Assumptions C03_smtp_replies_isolated.
Print Assumptions C03_ftp_outputs_own.
Print Assumptions C03_smtp_only_open_connections_carry.
Print Assumptions C03_smtp_replies_and_line_events_own.
Print Assumptions C03_tftp_outputs_own.
Print Assumptions C03_ldap_crosstalk_refuted.
Print Assumptions C03_ldap_login_reset_refuted.
Print Assumptions C03_ftp_shared_cwd_refuted.
Print Assumptions C03_ftp_cwd_survives_session_refuted.
Print Assumptions C03_smtp_misattribution_refuted.
Print Assumptions C03_ftp_session_isolated.
Print Assumptions C03_smtp_session_isolated.
Print Assumptions C03_ldap_session_isolated.
