(* C03 - property theorems: connections are isolated; events name the connection that
   caused them.  Proved for ALL interleavings (at request/response granularity), any number
   of connections and all histories, for the executable models of all eight services
   (ldap, ftp, smtp, telnet, redis, memcached, http: per-connection state only; tftp: maps
   keyed by client). *)
From HT Require Import C03.Model C03.CheckLim C03.Proofs C03.Check.
Open Scope N_scope.

(* The frame theorem.  If (1) a step of any other connection (behaving as [ok] allows)
   leaves connection i's own state and its view of the shared state unchanged and sends
   nothing to i / records nothing under i's address, and (2) a step of i depends on and
   changes nothing but i's own state and view, then in EVERY interleaving what i receives
   and what is recorded under i's address is what the session produces on its own. *)
Theorem C03_frame :
  forall (S C V : Type) (step : sys S C -> N -> input -> sys S C * outs) (i : N)
         (view : S -> V) (ok : N -> input -> Prop),
  (forall a j x, j <> i -> ok j x ->
     eqv S C V i view (fst (step a j x)) a /\
     on_conn i (fst (snd (step a j x))) = [] /\ on_conn i (snd (snd (step a j x))) = []) ->
  (forall a b x, eqv S C V i view a b ->
     eqv S C V i view (fst (step a i x)) (fst (step b i x)) /\
     on_conn i (fst (snd (step a i x))) = on_conn i (fst (snd (step b i x))) /\
     on_conn i (snd (snd (step a i x))) = on_conn i (snd (snd (step b i x)))) ->
  forall tr a b, eqv S C V i view a b ->
  Forall (fun p => fst p = i \/ ok (fst p) (snd p)) tr ->
  obs i (snd (run step a tr)) = obs i (snd (run step b (own i tr))).
Proof. exact frame. Qed.

(* every service whose Handle keeps its session state per connection (the step may depend on
   the connection's own identity, i.e. its addresses): all interleavings *)
Theorem C03_local_services_isolated :
  forall (C : Type) (lstep : N -> C -> input -> C * list reply * list ev) (c0 : C) (i : N) (tr : list (N * input)),
  obs i (run_outs (lift lstep) tt c0 tr) = obs i (run_outs (lift lstep) tt c0 (own i tr)).
Proof. exact local_frame. Qed.

(* the full statement, per service: replies AND events of connection i in any interleaving
   with any other connections = those of i's own traffic alone *)
Theorem C03_ldap_isolated : forall i tr,
  obs i (svc_run SVC_LDAP tr) = obs i (svc_run SVC_LDAP (own i tr)).
Proof. exact (local_frame _ (fun _ => ldap_lstep) (PH_NONE, false)). Qed.

Theorem C03_ftp_isolated : forall i tr,
  obs i (svc_run SVC_FTP tr) = obs i (svc_run SVC_FTP (own i tr)).
Proof. exact (local_frame _ ftp_lstep (ftp_c0, [])). Qed.

Theorem C03_smtp_isolated : forall i tr,
  obs i (svc_run SVC_SMTP tr) = obs i (svc_run SVC_SMTP (own i tr)).
Proof. exact (local_frame _ (fun _ => smtp_lstep) (0, None)). Qed.

(* two smtp services in one process (connections spread over both) *)
Theorem C03_smtp_two_services_isolated : forall i tr,
  obs i (svc_run SVC_SMTP2 tr) = obs i (svc_run SVC_SMTP2 (own i tr)).
Proof. exact (local_frame _ (fun _ => smtp_lstep) (0, None)). Qed.

Theorem C03_telnet_isolated : forall i tr,
  obs i (svc_run SVC_TELNET tr) = obs i (svc_run SVC_TELNET (own i tr)).
Proof. exact (local_frame _ (fun _ => telnet_lstep) (PH_NONE, 0, 0)). Qed.

Theorem C03_redis_isolated : forall i tr,
  obs i (svc_run SVC_REDIS tr) = obs i (svc_run SVC_REDIS (own i tr)).
Proof. exact (local_frame _ (fun _ => redis_lstep) PH_NONE). Qed.

Theorem C03_memcached_isolated : forall i tr,
  obs i (svc_run SVC_MEMCACHED tr) = obs i (svc_run SVC_MEMCACHED (own i tr)).
Proof. exact (local_frame _ (fun _ => memcached_lstep) PH_NONE). Qed.

Theorem C03_http_isolated : forall i tr,
  obs i (svc_run SVC_HTTP tr) = obs i (svc_run SVC_HTTP (own i tr)).
Proof. exact (local_frame _ (fun _ => http_lstep) PH_NONE). Qed.

(* responses are never delivered to another client, no event carries another connection's
   address: every reply goes to, every event carries, the connection that took the step *)
Theorem C03_local_outputs_own :
  forall (C : Type) (lstep : N -> C -> input -> C * list reply * list ev) tr st k j x o,
  nth_error tr k = Some (j, x) -> nth_error (snd (run (lift lstep) st tr)) k = Some o ->
  Forall (fun r => fst r = j) (fst o) /\ Forall (fun e => fst e = j) (snd o).
Proof. exact local_outputs_own. Qed.

(* login, working-directory, dialogue state never leaks: after any interleaving the state of
   connection i is the fold of i's own inputs over the initial state *)
Theorem C03_local_state_own :
  forall (C : Type) (lstep : N -> C -> input -> C * list reply * list ev) tr st i,
  conns (fst (run (lift lstep) st tr)) i = fold_left (lnext C lstep i) (map snd (own i tr)) (conns st i).
Proof. exact local_state_own. Qed.

(* sequential histories: any number of earlier sessions, finished or not *)
Theorem C03_earlier_sessions_irrelevant :
  forall (C : Type) (lstep : N -> C -> input -> C * list reply * list ev) c0 i h p,
  Forall (fun q : N * input => fst q <> i) h -> Forall (fun q : N * input => fst q = i) p ->
  obs i (run_outs (lift lstep) tt c0 (h ++ p)) = obs i (run_outs (lift lstep) tt c0 p).
Proof. exact local_history_irrelevant. Qed.

(* tftp: limiter keyed by IP, upload buffers keyed by remote address - isolated from
   every client with another IP *)
Theorem C03_tftp_keyed_isolation : forall i tr,
  Forall (fun p : N * input => fst p = i \/ ip_of (fst p) <> ip_of i) tr ->
  obs i (svc_run SVC_TFTP tr) = obs i (svc_run SVC_TFTP (own i tr)).
Proof. exact tftp_frame. Qed.

Theorem C03_tftp_earlier_clients_irrelevant : forall i h p,
  Forall (fun q : N * input => ip_of (fst q) <> ip_of i) h -> Forall (fun q : N * input => fst q = i) p ->
  obs i (svc_run SVC_TFTP (h ++ p)) = obs i (svc_run SVC_TFTP p).
Proof. exact tftp_history_irrelevant. Qed.

Theorem C03_tftp_outputs_own : forall tr st k j x o,
  nth_error tr k = Some (j, x) -> nth_error (snd (run tftp_step st tr)) k = Some o ->
  Forall (fun r : N * reply => fst r = j) (fst o) /\ Forall (fun e : N * ev => fst e = j) (snd o).
Proof. exact tftp_outputs_own. Qed.

(* ---- the ADDRESS dimension.  The limiter's key (net.IP.String) and the key of the tftp transfer
   table (RemoteAddr().String()) as the model has them are one-to-one: for ALL byte strings of
   length 4 and 16, all zones and all ports, two addresses have one key only if they are one
   host (equal after net.IP.To16), in the same zone, with the same port ... *)
Theorem C03_peer_key_injective :
  (forall a b, wfb a -> wfb b -> ip_len a -> ip_len b -> ip_key a = ip_key b -> to16 a = to16 b) /\
  (forall a b z1 z2 p1 p2,
     wfb a -> wfb b -> ip_len a -> ip_len b -> z1 < ZONES -> z2 < ZONES -> p1 < PORTS -> p2 < PORTS ->
     peer_key a z1 p1 = peer_key b z2 p2 -> to16 a = to16 b /\ z1 = z2 /\ p1 = p2).
Proof. split; [exact ip_key_injective|exact peer_key_injective]. Qed.

(* ... within one family (both 4 bytes or both 16 bytes) that is: the same bytes; and across the
   families the only identification is the one the unchanged code makes everywhere (limiter,
   transfer table, source-ip of events): a.b.c.d and ::ffff:a.b.c.d *)
Theorem C03_peer_key_injective_same_family :
  (forall a b z1 z2 p1 p2,
     wfb a -> wfb b -> ip_len a -> length a = length b -> z1 < ZONES -> z2 < ZONES -> p1 < PORTS -> p2 < PORTS ->
     peer_key a z1 p1 = peer_key b z2 p2 -> a = b /\ z1 = z2 /\ p1 = p2) /\
  (forall a b, length a = 4%nat -> length b = 16%nat -> to16 a = to16 b -> b = V4PREFIX ++ a).
Proof. split; [exact peer_key_same_family|exact to16_cross]. Qed.

(* the keys of the harness's connections: equal exactly when the addresses are *)
Theorem C03_connection_keys_faithful : forall i j,
  (ip_of i = ip_of j <-> to16 (ip_bytes i) = to16 (ip_bytes j)) /\
  (peer_of i = peer_of j <->
   to16 (ip_bytes i) = to16 (ip_bytes j) /\ zone_of i = zone_of j /\ port_of i = port_of j).
Proof. intros i j. split; [apply ip_of_faithful|apply peer_of_faithful]. Qed.

(* tftp, stated on the addresses themselves: a client is isolated from every client on another
   host - whatever the families, whether or not the source ports coincide, whether or not the low
   four bytes coincide *)
Theorem C03_tftp_isolated_from_other_hosts : forall i tr,
  Forall (fun p : N * input => fst p = i \/ to16 (ip_bytes (fst p)) <> to16 (ip_bytes i)) tr ->
  obs i (svc_run SVC_TFTP tr) = obs i (svc_run SVC_TFTP (own i tr)).
Proof.
  intros i tr H. apply tftp_frame. eapply Forall_impl; [|exact H].
  intros p [Hp|Hp]; [left; exact Hp|right]. intro E. apply Hp. apply ip_of_faithful. exact E.
Qed.

(* the rate limiter (services.Limiter as a model: one bucket per key): the answers a key gets
   are those it would get if no other key ever called - whatever the other keys do, however
   often - and they are: the first BURST = 4 calls admitted, the rest refused *)
Theorem C03_limiter_independent : forall ks l l' k,
  lim_used l k = lim_used l' k ->
  answers_for k l ks = lim_run l' (filter (fun h => h =? k) ks).
Proof. exact limiter_independent. Qed.

Theorem C03_limiter_burst : forall n l k,
  lim_run l (repeat k n) = map (fun j => lim_used l k + N.of_nat j <? BURST) (seq 0 n).
Proof. exact limiter_burst. Qed.

(* the closed form the "lim" checker judges the real Limiter with IS the bucket model *)
Theorem C03_limiter_checker_closed_form : forall calls, model_run [] calls = expected [] calls.
Proof. exact lim_checker_closed_form. Qed.

(* memcached over UDP: isolated from every client with another IP, however much the others send *)
Theorem C03_memcached_udp_keyed_isolation : forall i tr,
  Forall (fun p : N * input => fst p = i \/ ip_of (fst p) <> ip_of i) tr ->
  obs i (svc_run SVC_MCUDP tr) = obs i (svc_run SVC_MCUDP (own i tr)).
Proof. exact mcudp_frame. Qed.

(* the server: the service a connection is handed to is determined by the configuration and the
   connection's destination - characterised without reference to the order of the port table
   (the implementation walks a Go map) - whatever connections were served before *)
Theorem C03_route_spec : forall cfg d s,
  (exists e, In e cfg /\ pe_match d e = true) ->
  (forall e, In e cfg -> pe_match d e = true -> pe_svc e = s) ->
  route cfg d = Some s.
Proof. exact route_spec. Qed.

Theorem C03_route_none : forall cfg d,
  (forall e, In e cfg -> pe_match d e = false) -> route cfg d = None.
Proof. exact route_none. Qed.

Theorem C03_server_history_irrelevant : forall cfg h p,
  nth_error (srv_run cfg (h ++ [p])) (length h) = Some (route cfg p).
Proof. exact srv_history_irrelevant. Qed.

(* the hypothesis is needed: clients behind one IP share the rate limiter (by design) *)
Theorem C03_tftp_same_ip_boundary :
  ip_of 32 = ip_of 33 /\
  obs 33 (run_outs tftp_step tftp_s0 tt tftp_w1) = ([], []) /\
  obs 33 (run_outs tftp_step tftp_s0 tt (own 33 tftp_w1)) = ([5001], [mkEv 1 2]).
Proof. exact tftp_same_ip_shares_limiter. Qed.

(* ---- non-vacuity: interleaved sessions with observable output - among them the
   two-session schedules on which the code used to fail ---- *)
Example C03_nonvacuous_telnet :
  let tr := [(17, Open); (34, Open); (17, Tok 1 0 0); (34, Tok 2 0 0); (17, Tok 1 0 0); (34, Tok 3 0 0); (17, Tok 2 0 0)] in
  obs 17 (svc_run SVC_TELNET tr) = ([1; 2; 3; 4], [mkEv 1 0; mkEv 2 17; mkEv 3 2]) /\
  obs 34 (svc_run SVC_TELNET tr) = ([1; 2; 3], [mkEv 1 0; mkEv 2 35]).
Proof. split; vm_compute; reflexivity. Qed.

Example C03_nonvacuous_tftp :
  let tr := [(17, Tok 2 1 0); (34, Tok 2 2 0); (17, Tok 3 1 0); (34, Tok 4 1 0); (17, Tok 4 2 0)] in
  Forall (fun p : N * input => fst p = 17 \/ ip_of (fst p) <> ip_of 17) tr /\
  obs 17 (svc_run SVC_TFTP tr) = ([4000; 4001; 4002],
     [mkEv 2 1; mkEv 3 ((hash_fill (hash_fill 0 (fill_of 17) 512) (fill_of 17) 100 * 10 + 1) * 100000 + 612)]).
Proof.
  split; [|vm_compute; reflexivity].
  repeat (apply Forall_cons; [first [left; reflexivity | right; vm_compute; discriminate]|]); apply Forall_nil.
Qed.

(* addresses: two IPv6 clients with ONE source port (4117 = 2001:db8:9::101 : 40005,
   4133 = 2001:db8:9::102 : 40005) upload at the same time - WRQ(A) WRQ(B) DATA(A) DATA(B);
   each is acknowledged and each upload is recorded under its own address with its own file
   name, length and bytes.  21 = 10.9.0.1:40005 in 4 bytes and FAM+21 = ::ffff:10.9.0.1 : 40005
   are one peer; 3*FAM+21 = 2001:db8:9::a09:1 (the same low four bytes) is another host. *)
Example C03_nonvacuous_addresses :
  let tr := [(4117, Tok 2 1 0); (4133, Tok 2 2 0); (4117, Tok 4 1 0); (4133, Tok 4 1 0)] in
  Forall (fun p : N * input => fst p = 4117 \/ to16 (ip_bytes (fst p)) <> to16 (ip_bytes 4117)) tr /\
  port_of 4117 = port_of 4133 /\
  obs 4117 (svc_run SVC_TFTP tr) = obs 4117 (svc_run SVC_TFTP (own 4117 tr)) /\
  obs 4117 (svc_run SVC_TFTP tr) = ([4000; 4001], [mkEv 2 1; mkEv 3 ((hash_fill 0 (fill_of 4117) 100 * 10 + 1) * 100000 + 100)]) /\
  obs 4133 (svc_run SVC_TFTP tr) = ([4000; 4001], [mkEv 2 2; mkEv 3 ((hash_fill 0 (fill_of 4133) 100 * 10 + 2) * 100000 + 100)]) /\
  peer_of 21 = peer_of (FAM + 21) /\ ip_of 21 <> ip_of (3 * FAM + 21) /\
  peer_of (2 * FAM + 21) <> peer_of (2 * FAM + 37) /\ peer_of 21 <> peer_of 22.
Proof.
  split.
  { repeat (apply Forall_cons; [first [left; reflexivity | right; vm_compute; discriminate]|]); apply Forall_nil. }
  repeat split; vm_compute; try reflexivity; discriminate.
Qed.

(* what the theorem excludes: a key built from IP.To4() (4 bytes, zero for an IPv6 host) is not
   one-to-one - the two clients above would share a slot of the transfer table *)
Example C03_truncated_key_collides :
  let to4_key (ip : list N) (port : N) :=
    be_value 0 (if Nat.eqb (length ip) 4 then ip else if is_v4mapped ip then skipn 12 ip else [0;0;0;0]) * PORTS + port in
  to4_key (ip_bytes 4117) (port_of 4117) = to4_key (ip_bytes 4133) (port_of 4133) /\
  peer_of 4117 <> peer_of 4133.
Proof. split; vm_compute; [reflexivity|discriminate]. Qed.

(* ldap: A binds, B connects, A's delete is answered on A's connection, as the bound user *)
Example C03_ldap_former_witness :
  obs 17 (svc_run SVC_LDAP ldap_w1) = ([1001000; 2011000], [mkEv 1 1; mkEv 4 2]) /\
  obs 34 (svc_run SVC_LDAP ldap_w1) = ([], []).
Proof. split; vm_compute; reflexivity. Qed.

(* ftp: A's CWD a leaves B's PWD at / ; every command is reported under its own connection *)
Example C03_ftp_former_witness :
  replies_on 34 (svc_run SVC_FTP ftp_w2) = [220000; 331000; 230000; 257000] /\
  replies_on 17 (svc_run SVC_FTP ftp_w2) = [220000; 331000; 230000; 250001] /\
  events_of 34 (svc_run SVC_FTP ftp_w2) = [mkEv 1 17; mkEv 1 33; mkEv 1 48].
Proof. repeat split; vm_compute; reflexivity. Qed.

(* smtp: B's mail is reported under B's address while A idles *)
Example C03_smtp_former_witness :
  events_of 34 (svc_run SVC_SMTP smtp_w1) = [mkEv 1 1; mkEv 1 2; mkEv 1 4; mkEv 2 7006] /\
  events_of 17 (svc_run SVC_SMTP smtp_w1) = [mkEv 1 1].
Proof. split; vm_compute; reflexivity. Qed.

(* smtp: A leaves between two BDAT chunks; B's chunked mails consist of B's chunks only.
   ftp: PASV on two destination addresses - each client is told its own *)
Example C03_abandoned_transfers :
  let smtp_tr := [(17, Open); (17, Tok 1 0 0); (17, Tok 2 0 0); (17, Tok 10 4 0); (17, Close);
                  (34, Open); (34, Tok 1 0 0); (34, Tok 2 0 0); (34, Tok 12 9 0);
                  (34, Tok 2 0 0); (34, Tok 10 11 0); (34, Tok 11 0 0); (34, Tok 13 0 0)] in
  let ftp_tr := [(17, Open); (17, Tok 1 1 0); (17, Tok 2 1 0); (17, Tok 11 0 0);
                 (34, Open); (34, Tok 1 1 0); (34, Tok 2 1 0); (34, Tok 11 0 0)] in
  events_of 34 (svc_run SVC_SMTP smtp_tr) =
    [mkEv 1 1; mkEv 1 2; mkEv 1 12; mkEv 2 9004; mkEv 1 2; mkEv 1 10; mkEv 1 11; mkEv 1 13; mkEv 2 11012] /\
  replies_on 17 (svc_run SVC_FTP ftp_tr) = [220000; 331000; 230000; 227003] /\
  replies_on 34 (svc_run SVC_FTP ftp_tr) = [220000; 331000; 230000; 227002].
Proof. repeat split; vm_compute; reflexivity. Qed.

(* one port number under two protocols and two hosts *)
Example C03_route_example :
  let cfg := [mkPE false 1 5060 1; mkPE false 2 5060 2; mkPE true 0 5060 3] in
  srv_run cfg [mkDest true 9 5060; mkDest false 9 5060; mkDest false 2 5060; mkDest false 1 5060; mkDest false 1 80]
  = [Some 3; None; Some 2; Some 1; None].
Proof. vm_compute. reflexivity. Qed.

(* the checker still recognises each former defect from an observation that shows it *)
Example C03_checker_verdicts :
  let e c t a p := mkOE c t a 0 p in
  let ks := [(17, 0, 0); (34, 1, 1)] in
  let ldap_bad := mkCase 0 SVC_LDAP ldap_w1
        [([], []); ([(17, 1001000)], [e 17 1 1 389]); ([], []); ([(34, 2011053)], [e 17 4 2 389])] ks in
  let ftp_bad_cwd := mkCase 0 SVC_FTP ftp_w2
        [([(17, 220000)], []); ([(17, 331000)], [e 17 1 17 21]); ([(17, 230000)], [e 17 1 33 21]);
         ([(34, 220000)], []); ([(34, 331000)], [e 34 1 17 21]); ([(34, 230000)], [e 34 1 33 21]);
         ([(17, 250001)], [e 17 1 65 21]); ([(34, 257001)], [e 34 1 48 21])] ks in
  let smtp_bad := mkCase 0 SVC_SMTP smtp_w1
        [([(17, 220000)], []); ([(17, 250000)], [e 17 1 1 25]); ([(34, 220000)], []);
         ([(34, 250000)], [e 34 1 1 25]); ([(34, 250000)], [e 34 1 2 25]); ([(34, 354000)], [e 34 1 4 25]);
         ([(34, 250000)], [e 17 2 7006 25])] ks in
  let mk svc tr := mkCase 0 svc tr
        (map (fun o : outs => (fst o, map (fun x : N * ev => mkOE (fst x) (e_type (snd x)) (e_arg (snd x)) 0 (svc_port svc (fst x))) (snd o)))
             (svc_run svc tr)) ks in
  case_sigs ldap_bad = [SIG_REPLY_ELSEWHERE; SIG_REPLIES_DEPEND] /\
  case_sigs ftp_bad_cwd = [SIG_REPLIES_DEPEND] /\
  case_sigs smtp_bad = [SIG_EVENT_ELSEWHERE] /\
  model_ok ldap_bad = false /\ model_ok ftp_bad_cwd = false /\ model_ok smtp_bad = false /\
  case_sigs (mk SVC_LDAP ldap_w1) = [] /\ case_sigs (mk SVC_FTP ftp_w2) = [] /\
  case_sigs (mk SVC_SMTP smtp_w1) = [] /\ case_sigs (mk SVC_SMTP2 smtp_w1) = [] /\
  case_sigs (mk SVC_REDIS [(17, Open); (34, Open); (17, Tok 1 0 0); (34, Tok 2 0 0)]) = [] /\
  model_ok (mk SVC_LDAP ldap_w1) = true /\ model_ok (mk SVC_FTP ftp_w2) = true.
Proof. repeat split; vm_compute; reflexivity. Qed.

Print Assumptions C03_frame.
Print Assumptions C03_local_services_isolated.
Print Assumptions C03_ldap_isolated.
Print Assumptions C03_ftp_isolated.
Print Assumptions C03_smtp_isolated.
Print Assumptions C03_smtp_two_services_isolated.
Print Assumptions C03_telnet_isolated.
Print Assumptions C03_redis_isolated.
Print Assumptions C03_memcached_isolated.
Print Assumptions C03_http_isolated.
Print Assumptions C03_local_outputs_own.
Print Assumptions C03_local_state_own.
Print Assumptions C03_earlier_sessions_irrelevant.
Print Assumptions C03_tftp_keyed_isolation.
Print Assumptions C03_tftp_earlier_clients_irrelevant.
Print Assumptions C03_tftp_outputs_own.
Print Assumptions C03_peer_key_injective.
Print Assumptions C03_peer_key_injective_same_family.
Print Assumptions C03_connection_keys_faithful.
Print Assumptions C03_tftp_isolated_from_other_hosts.
Print Assumptions C03_limiter_independent.
Print Assumptions C03_limiter_burst.
Print Assumptions C03_limiter_checker_closed_form.
Print Assumptions C03_memcached_udp_keyed_isolation.
Print Assumptions C03_route_spec.
Print Assumptions C03_route_none.
Print Assumptions C03_server_history_irrelevant.
Print Assumptions C03_tftp_same_ip_boundary.
