(* C03, part "peek" - the real server with ONE port shared by two services that both have a
   protocol detector (CanHandle on the peeked first bytes), connections dispatched concurrently:
   A's first segment is peeked and A's service chosen, A's service waits a moment before its
   first read, meanwhile B (other first bytes) is dispatched; then A's service reads.  Every
   connection must reach the service its OWN first bytes select and that service must read
   exactly the bytes the connection's client sent. *)
From HT Require Import C03.Model.
Local Open Scope N_scope.

(* per connection: first byte sent, service whose Handle ran (0 none), bytes read = bytes sent *)
Record pconn := mkPC { p_first : N; p_svc : N; p_intact : bool }.
Record case := mkCase { c_id : N; c_conns : list pconn }.

(* detectors of the configuration: s1 accepts "AA...", s2 accepts "BB..." *)
Definition expected (first : N) : N := if first =? 65 then 1 else if first =? 66 then 2 else 0.

Definition mismatches (cs : list case) : list N := [].

Definition SIG_WRONG_SERVICE := 1.
Definition SIG_FOREIGN_BYTES := 2.
Definition violations (cs : list case) : list (N * N) :=
  flat_map (fun c =>
    (if forallb (fun p => p_svc p =? expected (p_first p)) (c_conns c) then [] else [(c_id c, SIG_WRONG_SERVICE)]) ++
    (if forallb p_intact (c_conns c) then [] else [(c_id c, SIG_FOREIGN_BYTES)])) cs.

Definition tags (cs : list case) : list (N * N) :=
  map (fun c => (c_id c, N.of_nat (length (c_conns c)))) cs.
