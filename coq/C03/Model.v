(* C03 - connections are isolated; events name the connection that caused them.
   Executable definitions only.

   One Servicer object serves every connection of a configured service
   (server/honeytrap.go: serviceList built once, `go hc.handle(conn)` per connection).
   A service is modelled as a transition system over
       sys = { shared : S ; conns : id -> C }
   S = what lives on the service object (or in a package global), C = what lives in the
   locals of one Handle invocation.  One step = one request of one client (request /
   response granularity).  A step returns the replies together with the connection
   they are WRITTEN TO and the events together with the connection whose address
   they CARRY.

   Connection ids are numbers; the harness gives connection n a client address of one of
   several families (IPv4 in 4-byte and in 16-byte form, IPv6 global / link-local with zone /
   with the low bytes of an IPv4 host) - see "client addresses" below: ip_bytes, port_of.  *)
From Coq Require Export List NArith Bool.
Export ListNotations.
Local Open Scope N_scope.

(* ---------- inputs / outputs, common to all services ---------- *)

(* Tok t a pick : request token [t] with argument [a] (vocabulary: harness/cmd/c03).
   [pick] used to resolve which of several goroutines blocked on one shared channel
   receives an item (ftp / smtp event pumps before /repo 9efeaf2, ed36195); the code leaves
   no such choice any more and every model ignores it.  The harness still reports the
   connection whose address the step's event carried there, for the replay files. *)
Inductive input := Open | Tok (t a pick : N) | Close.

Definition reply := N.                       (* canonical reply code; 0 = server closed the connection *)
Record ev := mkEv { e_type : N; e_arg : N }.
Definition outs := (list (N * reply) * list (N * ev))%type.
Definition no_outs : outs := ([], []).

Definition CLOSED : reply := 0.

(* ---------- generic system ---------- *)
Section Sys.
  Variables S C : Type.
  Record sys := mkSys { shared : S; conns : N -> C }.

  Definition upd (f : N -> C) (i : N) (c : C) : N -> C :=
    fun j => if j =? i then c else f j.

  Variable step : sys -> N -> input -> sys * outs.

  Fixpoint run (st : sys) (tr : list (N * input)) : sys * list outs :=
    match tr with
    | [] => (st, [])
    | (i, x) :: r =>
        let '(st1, o) := step st i x in
        let '(st2, os) := run st1 r in (st2, o :: os)
    end.
End Sys.
Arguments mkSys {S C}.
Arguments shared {S C}.
Arguments conns {S C}.
Arguments upd {C}.
Arguments run {S C}.

(* what connection i sees / what is recorded under connection i's address *)
Definition on_conn {A} (i : N) (l : list (N * A)) : list A :=
  map snd (filter (fun p => fst p =? i) l).
Definition replies_on (i : N) (os : list outs) : list reply := flat_map (fun o => on_conn i (fst o)) os.
Definition events_of (i : N) (os : list outs) : list ev := flat_map (fun o => on_conn i (snd o)) os.
Definition obs (i : N) (os : list outs) : list reply * list ev := (replies_on i os, events_of i os).

(* the connection's own traffic *)
Definition own (i : N) (tr : list (N * input)) : list (N * input) :=
  filter (fun p => fst p =? i) tr.

(* a service whose Handle keeps everything in locals: lifted from a per-connection step.
   The step may depend on the connection's identity (its own addresses), nothing else. *)
Section Local.
  Variable C : Type.
  Variable lstep : N -> C -> input -> C * list reply * list ev.
  Definition lift (st : sys unit C) (i : N) (x : input) : sys unit C * outs :=
    let '(c, rs, es) := lstep i (conns st i) x in
    (mkSys (shared st) (upd (conns st) i c), (map (pair i) rs, map (pair i) es)).
End Local.
Arguments lift {C}.

(* ---------- small helpers ---------- *)
Fixpoint memN (x : N) (l : list N) : bool :=
  match l with [] => false | y :: r => (x =? y) || memN x r end.

Fixpoint lookup {V} (k : N) (l : list (N * V)) : option V :=
  match l with [] => None | (k', v) :: r => if k =? k' then Some v else lookup k r end.
Fixpoint remove_key {V} (k : N) (l : list (N * V)) : list (N * V) :=
  match l with [] => [] | (k', v) :: r => if k =? k' then remove_key k r else (k', v) :: remove_key k r end.
Definition store {V} (k : N) (v : V) (l : list (N * V)) : list (N * V) := (k, v) :: remove_key k l.

(* ===================================================================================== *)
(* services whose Handle keeps its state in locals only                                   *)
(* ===================================================================================== *)

(* connection phase shared by the simple services: 0 not accepted yet, 1 being served,
   2 finished (Handle returned, the server closed the connection) *)
Definition PH_NONE := 0.
Definition PH_LIVE := 1.
Definition PH_DONE := 2.

(* ---- redis (services/redis/redis.go): scanner, parseRedisData, REDISHandler local ---- *)
(* tokens: 1 "*1 $4 INFO", 2 "*1 $4 PING", 3 "*2 $4 info $6 server", 4 empty line, 5 "?x"
   replies: 1 bulk string, 2 error string; event (1, command word: 1 info 2 ping)          *)
Definition redis_lstep (ph : N) (x : input) : N * list reply * list ev :=
  match x with
  | Open => if ph =? PH_NONE then (PH_LIVE, [], []) else (ph, [], [])
  | Close => if ph =? PH_LIVE then (PH_DONE, [], []) else (ph, [], [])
  | Tok t _ _ =>
      if negb (ph =? PH_LIVE) then (ph, [], [])
      else if (t =? 1) || (t =? 3) then (ph, [1], [mkEv 1 1])
      else if t =? 2 then (ph, [2], [mkEv 1 2])
      else if t =? 4 then (ph, [], [])
      else (PH_DONE, [CLOSED], [])                (* parse error: loop left, deferred Close *)
  end.

(* ---- memcached over TCP (services/memcached.go): bufio reader local; limiter only for UDP ---- *)
(* tokens: 1 flush_all, 2 stats, 3 "get k", 4 "set k 0 0 3"+payload (one write), 5 "set k 0 0"
   replies: 1 OK, 2 STAT.., 3 ERROR, 4 STORED; events (1, token) command, (2, bytes of the data
   block kept = the declared length when below 80) *)
Definition memcached_lstep (ph : N) (x : input) : N * list reply * list ev :=
  match x with
  | Open => if ph =? PH_NONE then (PH_LIVE, [], []) else (ph, [], [])
  | Close => if ph =? PH_LIVE then (PH_DONE, [], []) else (ph, [], [])
  | Tok t _ _ =>
      if negb (ph =? PH_LIVE) then (ph, [], [])
      else if t =? 1 then (ph, [1], [mkEv 1 1])
      else if t =? 2 then (ph, [2], [mkEv 1 2])
      else if t =? 4 then (ph, [4], [mkEv 1 4; mkEv 2 3])
      else if t =? 5 then (PH_DONE, [CLOSED], [mkEv 1 5])   (* "Invalid number of arguments": Handle returns *)
      else (ph, [3], [mkEv 1 t])
  end.

(* ---- http (services/http.go): session id, reader, request local ---- *)
(* tokens: 1 GET /a, 2 POST /b with body, 3 HEAD /c HTTP/1.0, 4 malformed request line
   replies: the status code; event (1, token)                                              *)
Definition http_lstep (ph : N) (x : input) : N * list reply * list ev :=
  match x with
  | Open => if ph =? PH_NONE then (PH_LIVE, [], []) else (ph, [], [])
  | Close => if ph =? PH_LIVE then (PH_DONE, [], []) else (ph, [], [])
  | Tok t _ _ =>
      if negb (ph =? PH_LIVE) then (ph, [], [])
      else if (1 <=? t) && (t <=? 3) then (ph, [200], [mkEv 1 t])
      else (PH_DONE, [CLOSED], [])
  end.

(* ---- telnet (services/telnet/telnet.go): session id, terminal, username local ---- *)
(* state: (phase, stage, username token); stage 0 wants the user name, 1 the password, 2 shell.
   tokens = one line: 1 "root", 2 "ls", 3 empty.
   replies: 1 banner, 2 "Username: ", 3 "Password: ", 4 "command not found"
   events: (1,0) connect, (2, 16*user+password) password-authentication, (3, token) session *)
Definition telnet_lstep (c : N * N * N) (x : input) : (N * N * N) * list reply * list ev :=
  let '(ph, stage, user) := c in
  match x with
  | Open => if ph =? PH_NONE then ((PH_LIVE, 0, 0), [1; 2], [mkEv 1 0]) else (c, [], [])
  | Close => if ph =? PH_LIVE then ((PH_DONE, stage, user), [], []) else (c, [], [])
  | Tok t _ _ =>
      if negb (ph =? PH_LIVE) then (c, [], [])
      else if stage =? 0 then ((ph, 1, t), [3], [])
      else if stage =? 1 then ((ph, 2, user), [], [mkEv 2 (16 * user + t)])
      else if t =? 3 then (c, [], [mkEv 3 t])
      else (c, [4], [mkEv 3 t])
  end.

(* ===================================================================================== *)
(* client addresses.  A connection id stands for a client address (harness/cmd/c03:       *)
(* remoteIP, remoteZone, remotePort):                                                      *)
(*   family f = id / 2^20, host h = (id mod 2^20) / 16, source port 40000 + id mod 16      *)
(*   f = 0, id < 4096 : 10.9.(h/256).(h mod 256) as a 4-byte net.IP                        *)
(*   f = 0, otherwise : 2001:db8:9::<h>                                                    *)
(*   f = 1            : the IPv4 host 10.9.x.y as a 16-byte net.IP, ::ffff:10.9.x.y        *)
(*   f = 2            : fe80::9:<h> with zone eth0 (link-local)                            *)
(*   f >= 3           : 2001:db8:9::a09:<h> - an IPv6 host whose low 4 bytes are 10.9.x.y  *)
(* ===================================================================================== *)
Fixpoint be_value (acc : N) (l : list N) : N :=
  match l with [] => acc | b :: r => be_value (acc * 256 + b) r end.

Definition V4PREFIX : list N := [0;0;0;0;0;0;0;0;0;0;255;255].
(* net.IP.To16: the 4-byte form of an IPv4 address and its 16-byte (v4-mapped) form are ONE host
   for everything that goes through net.IP.String / Equal (observed on the unchanged tree: the
   limiter bucket, the tftp transfer table, source-ip of the events) *)
Definition to16 (ip : list N) : list N :=
  match length ip with 4%nat => V4PREFIX ++ ip | _ => ip end.
Definition is_v4mapped (ip : list N) : bool :=
  match ip with
  | [0;0;0;0;0;0;0;0;0;0;255;255;_;_;_;_] => true
  | _ => false
  end.

(* keys as numbers.  ip_key = net.IP.String() (the limiter's key, source-ip of an event);
   peer_key = the String() of a net.UDPAddr / net.TCPAddr: "ip%zone:port" (the key of
   the tftp transfer table).  Zones are small codes (0 = none), ports are below 65536.
   Proofs.peer_key_injective: both are one-to-one on hosts resp. (host, zone, port) for ALL
   4- and 16-byte addresses. *)
Definition ZONES := 4.
Definition PORTS := 65536.
Definition ip_key (ip : list N) : N := be_value 0 (to16 ip).
Definition peer_key (ip : list N) (zone port : N) : N := (ip_key ip * ZONES + zone) * PORTS + port.

Definition FAM := 1048576.
Definition fam_of (i : N) : N := i / FAM.
Definition host_of (i : N) : N := (i mod FAM) / 16.
Definition hi_byte (h : N) : N := (h / 256) mod 256.
Definition lo_byte (h : N) : N := h mod 256.
Definition ip_bytes (i : N) : list N :=
  let h := host_of i in
  let f := fam_of i in
  if f =? 0 then
    if i mod FAM <? 4096 then [10; 9; hi_byte h; lo_byte h]
    else [32;1;13;184;0;9;0;0;0;0;0;0;0;0; hi_byte h; lo_byte h]
  else if f =? 1 then V4PREFIX ++ [10; 9; hi_byte h; lo_byte h]
  else if f =? 2 then [254;128;0;0;0;0;0;0;0;0;0;0;0;9; hi_byte h; lo_byte h]
  else [32;1;13;184;0;9;0;0;0;0;0;0;10;9; hi_byte h; lo_byte h].
Definition zone_of (i : N) : N := if fam_of i =? 2 then 1 else 0.
Definition port_of (i : N) : N := 40000 + i mod 16.

(* the client's host as the limiter and the events see it / the client as the transfer table sees it *)
Definition ip_of (i : N) : N := ip_key (ip_bytes i).
Definition peer_of (i : N) : N := peer_key (ip_bytes i) (zone_of i) (port_of i).

(* ===================================================================================== *)
(* tftp (services/tftp.go): one datagram = one Handle; shared: limiter (by IP), buffers   *)
(* (by remote address string)                                                              *)
(* ===================================================================================== *)
Definition BURST := 4.

(* services.Limiter: one token bucket per key (the client IP as printed by net.IP.String), burst 4,
   refill one token per 10 minutes (a scenario is far shorter: no refill).  State: key -> admitted *)
Definition limiter := list (N * N).
Definition lim_used (l : limiter) (k : N) : N := match lookup k l with Some n => n | None => 0 end.
Definition lim_allow (l : limiter) (k : N) : bool * limiter :=
  if BURST <=? lim_used l k then (false, l) else (true, store k (lim_used l k + 1) l).
(* the answers to a sequence of Allow calls *)
Fixpoint lim_run (l : limiter) (ks : list N) : list bool :=
  match ks with
  | [] => []
  | k :: r => let '(b, l') := lim_allow l k in b :: lim_run l' r
  end.

(* what a client uploads: every data byte of connection i is fill_of i, so the bytes of two
   clients never look alike; the digest of a file is the polynomial hash of its bytes *)
Definition HASHP := 999983.
Definition fill_of (i : N) : N := 1 + i mod 250.
Definition hash_fill (h b len : N) : N := N.iter len (fun x => (x * 31 + b) mod HASHP) h.

Record tftp_shared := mkTftp {
  t_used : limiter;                      (* ip key -> datagrams admitted by the limiter *)
  t_bufs : list (N * (N * N * N))        (* peer key -> (file, bytes received, digest of them) *)
}.
Definition tftp_s0 := mkTftp [] [].

Definition used_of (s : tftp_shared) (ip : N) : N := lim_used (t_used s) ip.

(* tokens: 1 RRQ file a, 2 WRQ file a, 3 DATA block a with 512 bytes, 4 DATA block a with
   100 bytes (final), 5 ACK, 6 unknown opcode, 7 DATA block a with no bytes (empty final block).
   replies: 5001 ERROR(1), 5004 ERROR(4), 4000+blk ACK;
   events: (1,file) read, (2,file) write, (3, (digest*10 + file)*100000 + bytes) write-file   *)
Definition data_len (t : N) : N := if t =? 3 then 512 else if t =? 4 then 100 else 0.
Definition tftp_step (st : sys tftp_shared unit) (i : N) (x : input) : sys tftp_shared unit * outs :=
  match x with
  | Tok t a _ =>
      let s := shared st in
      let ip := ip_of i in
      let pk := peer_of i in
      if BURST <=? used_of s ip then (st, no_outs)
      else
        let s1 := mkTftp (store ip (used_of s ip + 1) (t_used s)) (t_bufs s) in
        if t =? 1 then (mkSys s1 (conns st), ([(i, 5001)], [(i, mkEv 1 a)]))
        else if t =? 2 then
          (mkSys (mkTftp (t_used s1) (store pk (a, 0, 0) (t_bufs s1))) (conns st), ([(i, 4000)], [(i, mkEv 2 a)]))
        else if (t =? 3) || (t =? 4) || (t =? 7) then
          match lookup pk (t_bufs s1) with
          | None => (mkSys s1 (conns st), ([(i, 5004)], []))
          | Some (f, n, d) =>
              if t =? 3 then
                (mkSys (mkTftp (t_used s1) (store pk (f, n + 512, hash_fill d (fill_of i) 512) (t_bufs s1))) (conns st),
                 ([(i, 4000 + a)], []))
              else
                (mkSys (mkTftp (t_used s1) (remove_key pk (t_bufs s1))) (conns st),
                 ([(i, 4000 + a)],
                  [(i, mkEv 3 ((hash_fill d (fill_of i) (data_len t) * 10 + f) * 100000 + (n + data_len t)))]))
          end
        else (mkSys s1 (conns st), no_outs)
  | _ => (st, no_outs)
  end.

(* ===================================================================================== *)
(* memcached over UDP (services/memcached.go): one datagram = one Handle; the command is    *)
(* always recorded, it is answered only while the client's IP is within the limiter         *)
(* ===================================================================================== *)
(* tokens: 1 flush_all, 2 stats, 3 "get k"; replies as over TCP; event (1, token) *)
Definition mcudp_step (st : sys limiter unit) (i : N) (x : input) : sys limiter unit * outs :=
  match x with
  | Tok t _ _ =>
      let '(ok, l') := lim_allow (shared st) (ip_of i) in
      let r := if t =? 1 then 1 else if t =? 2 then 2 else 3 in
      (mkSys l' (conns st), (if ok then [(i, r)] else [], [(i, mkEv 1 t)]))
  | _ => (st, no_outs)
  end.

(* ===================================================================================== *)
(* ftp (services/ftp): Handle makes, per connection, the command channel with its event   *)
(* pump AND the driver (a copy of the Htfs: root, working directory); login state lives   *)
(* on the per-connection Conn object.  Nothing a command touches is shared.               *)
(* ===================================================================================== *)
(* directory tree used by the harness: /, /a, /b, /a/c ; component codes a=1 b=2 c=3,
   0 = "..", 9 = a name that does not exist *)
Definition path := list N.
Definition dirs : list path := [[]; [1]; [2]; [1; 3]].

Fixpoint path_eqb (p q : path) : bool :=
  match p, q with
  | [], [] => true
  | x :: p', y :: q' => (x =? y) && path_eqb p' q'
  | _, _ => false
  end.
Fixpoint dir_index_from (k : N) (ds : list path) (p : path) : option N :=
  match ds with [] => None | d :: r => if path_eqb d p then Some k else dir_index_from (k + 1) r p end.
Definition dir_index (p : path) : option N := dir_index_from 0 dirs p.

(* filepath.Clean on a rooted path: ".." pops, never above the root *)
Fixpoint clean_onto (acc_rev : path) (cs : path) : path :=
  match cs with
  | [] => rev acc_rev
  | c :: r => if c =? 0 then clean_onto (tl acc_rev) r else clean_onto (c :: acc_rev) r
  end.
(* CWD parameters: 1 a, 2 b, 3 c, 4 .., 5 /, 6 /a, 7 /b, 8 /a/c, 9 nope  -> (absolute?, components) *)
Definition cwd_param (a : N) : bool * path :=
  if a =? 1 then (false, [1]) else if a =? 2 then (false, [2]) else if a =? 3 then (false, [3])
  else if a =? 4 then (false, [0]) else if a =? 5 then (true, []) else if a =? 6 then (true, [1])
  else if a =? 7 then (true, [2]) else if a =? 8 then (true, [1; 3]) else (false, [9]).
(* Htfs.RealPath + ChangeDir: the new cwd, or None when the target is not a directory *)
Definition change_dir (cwd : path) (a : N) : option path :=
  let '(ab, cs) := cwd_param a in
  let target := if ab then clean_onto [] cs else clean_onto (rev cwd) cs in
  match dir_index target with Some _ => Some target | None => None end.
Definition dir_code (p : path) : N := match dir_index p with Some k => k | None => 99 end.

(* the destination (local) address of connection n is 192.0.2.(local_of n) *)
Definition local_of (i : N) : N := 1 + (i mod FAM) mod 3.

(* per connection: phase, logged in, reqUser (0 none, 1 anonymous, 2 other) *)
Record ftp_conn := mkFC { fc_ph : N; fc_user : bool; fc_req : N }.
Definition ftp_c0 := mkFC PH_NONE false 0.

(* tokens: 1 USER a (1 anonymous, 2 bob), 2 PASS a (1 anonymous, 2 wrong), 3 PWD, 4 CWD a,
   5 CDUP, 6 NOOP, 7 SYST, 8 QUIT, 9 unknown verb, 10 CWD without parameter, 11 PASV, 12 EPSV
   (passive socket opened, never used)
   replies: 1000*code + detail (PWD / CWD success: index of the directory named in the reply;
   227: last octet of the address the client is told to connect to = passiveListenIP, the
   destination address of THIS control connection as no public IP is configured)
   events: (1, 16*t + a) one per command line, sent by the connection's own pump          *)
Definition ftp_cmd (i : N) (cwd : path) (c : ftp_conn) (t a : N) : path * ftp_conn * list reply :=
  let deny := (cwd, c, [530000]) in
  if t =? 1 then (cwd, mkFC (fc_ph c) (fc_user c) a, [331000])
  else if t =? 2 then
    if (fc_req c =? 1) && (a =? 1) then (cwd, mkFC (fc_ph c) true 0, [230000]) else (cwd, c, [530000])
  else if t =? 3 then
    if fc_user c then (cwd, c, [257000 + dir_code cwd]) else deny
  else if (t =? 4) || (t =? 5) then
    if negb (fc_user c) then deny
    else match change_dir cwd (if t =? 5 then 4 else a) with
         | Some p => (p, c, [250000 + dir_code p])
         | None => (cwd, c, [550000])
         end
  else if t =? 6 then (cwd, c, [200000])
  else if t =? 7 then if fc_user c then (cwd, c, [215000]) else deny
  else if t =? 8 then (cwd, mkFC PH_DONE (fc_user c) (fc_req c), [221000; CLOSED])
  else if t =? 10 then (cwd, c, [553000])
  else if t =? 11 then if fc_user c then (cwd, c, [227000 + local_of i]) else deny
  else if t =? 12 then if fc_user c then (cwd, c, [425000]) else deny   (* no ':' in an IPv4 passiveListenIP *)
  else (cwd, c, [500000]).

Definition ftp_lstep (i : N) (c : ftp_conn * path) (x : input) : (ftp_conn * path) * list reply * list ev :=
  let '(fc, cwd) := c in
  match x with
  | Open => if fc_ph fc =? PH_NONE then ((mkFC PH_LIVE false 0, []), [220000], []) else (c, [], [])
  | Close => if fc_ph fc =? PH_LIVE then ((mkFC PH_DONE (fc_user fc) (fc_req fc), cwd), [], []) else (c, [], [])
  | Tok t a _ =>
      if negb (fc_ph fc =? PH_LIVE) then (c, [], [])
      else let '(cwd', fc', rs) := ftp_cmd i cwd fc t a in
           ((fc', cwd'), rs, [mkEv 1 (16 * t + a)])
  end.

(* ===================================================================================== *)
(* smtp (services/smtp): Handle makes, per connection, the command-line channel, the      *)
(* receive channel (handler bound to the connection: the package-level mux is no longer   *)
(* consulted) and the pump that ends with the connection.                                 *)
(* ===================================================================================== *)
(* conn state: 0 none, 1 helloState, 2 loopState, 3 mailFromState, 4 reading DATA, 5 done
   tokens: 1 HELO, 2 MAIL FROM, 3 RCPT TO, 4 DATA, 5 message a + "." (only generated in
   state 4), 6 NOOP, 7 RSET, 8 QUIT, 9 unknown verb
   replies: 1000*code; events: (1, token) input line, (2, ..) email - both by the own pump *)
Definition smtp_line (stt t : N) : N * list reply :=
  if stt =? 1 then
    if t =? 1 then (2, [250000]) else (5, [500000; CLOSED])
  else if stt =? 2 then
    if t =? 2 then (3, [250000])
    else if (t =? 6) || (t =? 7) then (2, [250000])
    else if t =? 8 then (5, [221000; CLOSED])
    else (2, [500000])
  else (* 3 mailFromState *)
    if t =? 7 then (2, [250000])
    else if t =? 3 then (3, [250000])
    else if t =? 4 then (4, [354000])
    else (2, [500000]).

(* per connection: dialogue state and what the BDAT chunk buffer (Message.Buffer) of the mail
   in progress holds: None = empty, Some (subject, body bytes) = header block of mail [subject]
   and that many body bytes.  The buffer is replaced by a fresh one after every completed mail,
   on RSET and when MAIL FROM starts a transaction (/repo a828b58); a failed command or leaving
   the mail state do not touch it.
   BDAT tokens (chunk sizes fixed: header chunk 22 bytes incl. 4 body bytes, body chunk 4):
   10 "BDAT 22"+header chunk of mail a, 11 "BDAT 4"+body chunk (only generated with a buffered
   header), 12 "BDAT 22 LAST"+header chunk of mail a, 13 "BDAT 4 LAST"+body chunk (only
   generated with a buffered header).  email event: (2, 1000*subject + body bytes)           *)
Definition HDR_CHUNK := 22.
Definition smtp_conn := (N * option (N * N))%type.

Definition smtp_lstep (c : smtp_conn) (x : input) : smtp_conn * list reply * list ev :=
  let '(stt, pend) := c in
  match x with
  | Open => if stt =? 0 then ((1, None), [220000], []) else (c, [], [])
  | Close => if (1 <=? stt) && (stt <=? 4) then ((5, pend), [], []) else (c, [], [])
  | Tok t a _ =>
      if (stt =? 0) || (stt =? 5) then (c, [], [])
      else if stt =? 4 then (if t =? 5 then ((2, None), [250000], [mkEv 2 (1000 * a + 6)]) else (c, [], []))
                                                 (* not generated: a command line inside DATA *)
      else if t =? 5 then (c, [], [])            (* not generated: message text outside DATA *)
      else if negb (stt =? 3) && (10 <=? t) && (t <=? 13) then (c, [], [])
                                                 (* not generated: BDAT outside the mail state (the chunk
                                                    would be read as command lines) *)
      else if (stt =? 3) && (10 <=? t) && (t <=? 13) then
        match pend, t with
        | None, 10 => ((3, Some (a, 4)), [250000], [mkEv 1 t])
        | Some (s, l), 10 => ((3, Some (s, l + HDR_CHUNK)), [250000], [mkEv 1 t])
        | Some (s, l), 11 => ((3, Some (s, l + 4)), [250000], [mkEv 1 t])
        | None, 12 => ((2, None), [250000], [mkEv 1 t; mkEv 2 (1000 * a + 4)])
        | Some (s, l), 12 => ((2, None), [250000], [mkEv 1 t; mkEv 2 (1000 * s + l + HDR_CHUNK)])
        | Some (s, l), 13 => ((2, None), [250000], [mkEv 1 t; mkEv 2 (1000 * s + l + 4)])
        | _, _ => (c, [], [])                    (* not generated: body chunk without a header *)
        end
      else let '(stt', rs) := smtp_line stt t in
           ((stt', if ((t =? 7) && negb (stt =? 1)) || ((t =? 2) && (stt =? 2)) then None else pend), rs, [mkEv 1 t])
  end.

(* ===================================================================================== *)
(* ldap (services/ldap): Handle builds a session object per connection (socket, reader,   *)
(* TLS and bind state, handlers bound to it) from the service's configuration.            *)
(* ===================================================================================== *)
(* per connection: (phase, bound?)
   tokens (a = message id): 1 bind cn=root/root, 2 bind cn=root/wrong, 3 anonymous bind,
   4 delete request (allowed only when bound), 6 unbind, 7 abandon
   replies: a*1000000 + 1000*response tag + result code;
   events: (request type: 1 bind, 4 delete, 6 unbind, 7 abandon ; a)                       *)
Definition ldap_evtype (t : N) : N := if t <=? 3 then 1 else t.
Definition ldap_reply (t a : N) (login : bool) : option reply :=
  if t =? 1 then Some (a * 1000000 + 1000)
  else if t =? 2 then Some (a * 1000000 + 1000 + 49)
  else if t =? 3 then Some (a * 1000000 + 1000)
  else if t =? 4 then Some (a * 1000000 + 11000 + (if login then 0 else 53))
  else None.

Definition ldap_lstep (c : N * bool) (x : input) : (N * bool) * list reply * list ev :=
  let '(ph, login) := c in
  match x with
  | Open => if ph =? PH_NONE then ((PH_LIVE, false), [], []) else (c, [], [])
  | Close => if ph =? PH_LIVE then ((PH_DONE, login), [], []) else (c, [], [])
  | Tok t a _ =>
      if negb (ph =? PH_LIVE) then (c, [], [])
      else if t =? 6 then ((PH_DONE, login), [CLOSED], [mkEv 6 a])
      else
        let login' := if t =? 1 then true else if t =? 3 then false else login in
        ((ph, login'), match ldap_reply t a login' with Some r => [r] | None => [] end, [mkEv (ldap_evtype t) a])
  end.

(* ===================================================================================== *)
(* the server: which port entry serves a connection (server/honeytrap.go: findService walks *)
(* hc.ports and keeps the entry whose address compareAddr matches the connection's local   *)
(* address: same protocol, same port, and the same IP unless the entry has none)            *)
(* ===================================================================================== *)
Record pentry := mkPE { pe_udp : bool; pe_ip : N (* 0 = any *); pe_port : N; pe_svc : N }.
Record dest := mkDest { d_udp : bool; d_ip : N; d_port : N }.
Definition pe_match (d : dest) (e : pentry) : bool :=
  Bool.eqb (pe_udp e) (d_udp d) && (pe_port e =? d_port d) && ((pe_ip e =? 0) || (pe_ip e =? d_ip d)).
(* hc.ports is a Go map: when several entries match, the one visited last wins - any of them.
   The model takes the first in list order; route_spec shows the order is immaterial when all
   matching entries name one service (the configurations generated are of that kind). *)
Definition route (cfg : list pentry) (d : dest) : option N :=
  match filter (pe_match d) cfg with [] => None | e :: _ => Some (pe_svc e) end.
(* the server keeps nothing between connections: the services that handle a sequence of them *)
Definition srv_run (cfg : list pentry) (ds : list dest) : list (option N) := map (route cfg) ds.

(* ---------- the machines behind one interface ---------- *)
Definition SVC_LDAP := 1.
Definition SVC_FTP := 2.
Definition SVC_SMTP := 3.
Definition SVC_TFTP := 4.
Definition SVC_TELNET := 5.
Definition SVC_REDIS := 6.
Definition SVC_MEMCACHED := 7.
Definition SVC_HTTP := 8.
Definition SVC_MCUDP := 10.    (* memcached over UDP *)
Definition SVC_SMTP2 := 9.     (* two smtp services in one process: even connection ids go to
                                  the second one; the instances share nothing *)

Definition run_outs {S C} (step : sys S C -> N -> input -> sys S C * outs) (s0 : S) (c0 : C)
           (tr : list (N * input)) : list outs :=
  snd (run step (mkSys s0 (fun _ => c0)) tr).

Definition svc_run (svc : N) (tr : list (N * input)) : list outs :=
  if svc =? SVC_LDAP then run_outs (lift (fun _ => ldap_lstep)) tt (PH_NONE, false) tr
  else if svc =? SVC_FTP then run_outs (lift ftp_lstep) tt (ftp_c0, []) tr
  else if svc =? SVC_SMTP then run_outs (lift (fun _ => smtp_lstep)) tt (0, None) tr
  else if svc =? SVC_TFTP then run_outs tftp_step tftp_s0 tt tr
  else if svc =? SVC_TELNET then run_outs (lift (fun _ => telnet_lstep)) tt (PH_NONE, 0, 0) tr
  else if svc =? SVC_REDIS then run_outs (lift (fun _ => redis_lstep)) tt PH_NONE tr
  else if svc =? SVC_MEMCACHED then run_outs (lift (fun _ => memcached_lstep)) tt PH_NONE tr
  else if svc =? SVC_HTTP then run_outs (lift (fun _ => http_lstep)) tt PH_NONE tr
  else if svc =? SVC_SMTP2 then run_outs (lift (fun _ => smtp_lstep)) tt (0, None) tr
  else if svc =? SVC_MCUDP then run_outs mcudp_step [] tt tr
  else [].
