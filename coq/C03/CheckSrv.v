(* C03, part "srv" - isolation at the level of the server: which configured service a connection
   is handed to (server/honeytrap.go findService over hc.ports with compareAddr) must depend on
   the configuration and on the connection's own destination address only - not on the
   connections served before.  Configurations in which one port number occurs under two
   protocols / two hosts with different services; the probe alone and after a history of
   connections to the other entries and to unconfigured addresses. *)
From HT Require Import C03.Model.
Local Open Scope N_scope.

Record case := mkCase {
  c_id : N;
  c_cfg : list pentry;
  c_hist : list dest;
  c_probe : dest;
  c_alone : N;          (* the service that handled the probe on a fresh server, 0 = none *)
  c_after : N;          (* ... on a fresh server after the history *)
  c_intact : bool       (* the handler read exactly the bytes the probe sent, both times *)
}.

Definition svc_of (o : option N) : N := match o with Some s => s | None => 0 end.

Definition mismatches (cs : list case) : list N :=
  map c_id (filter (fun c => negb ((svc_of (route (c_cfg c) (c_probe c)) =? c_alone c) &&
                                   (svc_of (route (c_cfg c) (c_probe c)) =? c_after c))) cs).

Definition SIG_HISTORY := 1.     (* the service depends on earlier connections *)
Definition SIG_STREAM := 2.      (* the service did not get the probe's bytes *)
Definition violations (cs : list case) : list (N * N) :=
  flat_map (fun c => (if c_alone c =? c_after c then [] else [(c_id c, SIG_HISTORY)]) ++
                     (if c_intact c then [] else [(c_id c, SIG_STREAM)])) cs.

(* tag: 1 no history, 2 history on other port numbers only, 3 history touches the probe's port number *)
Definition tags (cs : list case) : list (N * N) :=
  map (fun c => (c_id c,
    match c_hist c with
    | [] => 1
    | h => if existsb (fun d => d_port d =? d_port (c_probe c)) h then 3 else 2
    end)) cs.
