(* C03 - executable checks over the implementation's observations of one scenario:
   several scripted sessions of one service instance, interleaved at request/response
   granularity; per step the replies (with the connection they arrived on) and the
   events (with the connection whose address they carry). *)
From HT Require Import C03.Model.
Local Open Scope N_scope.

Record oev := mkOE { oe_conn : N; oe_type : N; oe_arg : N; oe_sid : N; oe_dport : N }.
Definition ostep := (list (N * N) * list oev)%type.

Record case := mkCase {
  c_id : N;
  c_svc : N;
  c_trace : list (N * input);      (* picks filled in from the observation *)
  c_obs : list ostep;
  (* the real library on the scenario's client addresses: (connection, class of its
     net.IP.String(), class of its RemoteAddr().String()) - two connections are in one class
     exactly when the strings are equal *)
  c_keys : list (N * N * N)
}.

(* compact constructors for the shards *)
Definition O (i : N) : N * input := (i, Open).
Definition X (i : N) : N * input := (i, Close).
Definition T (i t a p : N) : N * input := (i, Tok t a p).
Definition E := mkOE.

(* ---------- normal form of one step's outputs: stable sort by connection ---------- *)
Fixpoint insert_by {A} (key : A -> N) (x : A) (l : list A) : list A :=
  match l with
  | [] => [x]
  | y :: r => if key x <=? key y then x :: y :: r else y :: insert_by key x r
  end.
Definition sort_by {A} (key : A -> N) (l : list A) : list A :=
  fold_right (fun x acc => insert_by key x acc) [] l.
(* fold_right inserts earlier elements last, in front of equal keys: equal keys keep their order *)

Definition norm_outs (o : outs) : outs := (sort_by fst (fst o), sort_by fst (snd o)).

Definition ev_eqb (a b : ev) : bool := (e_type a =? e_type b) && (e_arg a =? e_arg b).
Fixpoint list_eqb {A} (e : A -> A -> bool) (a b : list A) : bool :=
  match a, b with
  | [], [] => true
  | x :: a', y :: b' => e x y && list_eqb e a' b'
  | _, _ => false
  end.
Definition rep_eqb (a b : N * N) : bool := (fst a =? fst b) && (snd a =? snd b).
Definition cev_eqb (a b : N * ev) : bool := (fst a =? fst b) && ev_eqb (snd a) (snd b).
Definition outs_eqb (a b : outs) : bool :=
  list_eqb rep_eqb (fst a) (fst b) && list_eqb cev_eqb (snd a) (snd b).

Definition obs_outs (c : case) : list outs :=
  map (fun s : ostep => (fst s, map (fun e => (oe_conn e, mkEv (oe_type e) (oe_arg e))) (snd s))) (c_obs c).

(* ---------- correspondence: the model (shared state and all) predicts every step ---------- *)
Fixpoint dedup (l : list N) : list N :=
  match l with [] => [] | x :: r => if memN x r then dedup r else x :: dedup r end.
Definition trace_ids (tr : list (N * input)) : list N := dedup (map fst tr).

(* the model's host key / peer key identify exactly the client addresses the library prints alike *)
Definition keys_ok (c : case) : bool :=
  forallb (fun i => memN i (map (fun p : N * N * N => fst (fst p)) (c_keys c))) (trace_ids (c_trace c)) &&
  forallb (fun p : N * N * N => forallb (fun q : N * N * N =>
     Bool.eqb (ip_of (fst (fst p)) =? ip_of (fst (fst q))) (snd (fst p) =? snd (fst q)) &&
     Bool.eqb (peer_of (fst (fst p)) =? peer_of (fst (fst q))) (snd p =? snd q)) (c_keys c)) (c_keys c).

Definition model_ok (c : case) : bool :=
  keys_ok c &&
  list_eqb outs_eqb (map norm_outs (svc_run (c_svc c) (c_trace c))) (map norm_outs (obs_outs c)).

Definition mismatches (cs : list case) : list N :=
  map c_id (filter (fun c => negb (model_ok c)) cs).

(* ---------- the property, judged on the observation ---------- *)
(* The signature kinds below stay although /repo no longer shows any of them: 11/13/14 were the
   ldap session-state-on-the-service-object defect, 22 the ftp shared command channel, 23 the
   ftp shared working directory, 32 the smtp shared receive channel (92, or a hang, with two
   smtp services).  A regression is reported under the same code with the scenario as replay. *)
Definition SIG_REPLY_ELSEWHERE := 1.   (* a reply to i's request arrived on another connection *)
Definition SIG_EVENT_ELSEWHERE := 2.   (* an event caused by i's request carries another connection's address *)
Definition SIG_REPLIES_DEPEND := 3.    (* what i received differs from what the same session receives alone *)
Definition SIG_EVENTS_DEPEND := 4.     (* the events under i's address differ from those of the session alone *)
Definition SIG_SESSION_ID := 5.        (* session ids and addresses do not correspond one to one *)
Definition SIG_ADDRESS := 6.           (* an event with an unknown source or a wrong destination *)

(* the destination port an event of connection [conn] must name *)
Definition svc_port (svc conn : N) : N :=
  if svc =? SVC_LDAP then 389 else if svc =? SVC_FTP then 21 else if svc =? SVC_SMTP then 25
  else if svc =? SVC_TFTP then 69 else if svc =? SVC_TELNET then 23 else if svc =? SVC_REDIS then 6379
  else if svc =? SVC_MEMCACHED then 11211 else if svc =? SVC_HTTP then 80 else if svc =? SVC_MCUDP then 11211
  else (* SVC_SMTP2 *) if N.even conn then 587 else 25.

(* the session alone: its own inputs, every scheduling choice resolved to itself *)
Definition alone (i : N) (tr : list (N * input)) : list (N * input) :=
  map (fun p : N * input => match snd p with Tok t a _ => (fst p, Tok t a i) | x => (fst p, x) end) (own i tr).

Definition step_reply_elsewhere (p : (N * input) * outs) : bool :=
  existsb (fun r : N * N => negb (fst r =? fst (fst p)) && negb (snd r =? CLOSED)) (fst (snd p)).
Definition step_event_elsewhere (p : (N * input) * outs) : bool :=
  existsb (fun e : N * ev => negb (fst e =? fst (fst p))) (snd (snd p)).

Definition reps_eqb := list_eqb N.eqb.
Definition evs_eqb := list_eqb ev_eqb.

(* for tftp and memcached/udp the limiter is keyed by IP on purpose: the session-alone comparison is made
   for clients whose IP no other client of the scenario shares *)
Definition comparable (svc : N) (tr : list (N * input)) (i : N) : bool :=
  if (svc =? SVC_TFTP) || (svc =? SVC_MCUDP)
  then forallb (fun j => (j =? i) || negb (ip_of j =? ip_of i)) (trace_ids tr)
  else true.

(* sid <-> connection: each connection at most one sid, each sid at most one connection *)
Definition sid_pairs (c : case) : list (N * N) :=
  flat_map (fun s : ostep => flat_map (fun e => if oe_sid e =? 0 then [] else [(oe_conn e, oe_sid e)]) (snd s)) (c_obs c).
Definition sid_ok (ps : list (N * N)) : bool :=
  forallb (fun p : N * N => forallb (fun q : N * N => Bool.eqb (fst p =? fst q) (snd p =? snd q)) ps) ps.

Definition addr_ok (c : case) : bool :=
  forallb (fun s : ostep => forallb (fun e =>
     (oe_dport e =? svc_port (c_svc c) (oe_conn e)) && memN (oe_conn e) (trace_ids (c_trace c))) (snd s)) (c_obs c).

Definition case_sigs (c : case) : list N :=
  let oo := obs_outs c in
  let steps := combine (c_trace c) oo in
  let ids := trace_ids (c_trace c) in
  let x1 := existsb step_reply_elsewhere steps in
  let x2 := existsb step_event_elsewhere steps in
  let cmp := filter (comparable (c_svc c) (c_trace c)) ids in
  let x3 := existsb (fun i => negb (reps_eqb (replies_on i oo)
                                          (replies_on i (svc_run (c_svc c) (alone i (c_trace c)))))) cmp in
  let x4 := negb x2 &&
            existsb (fun i => negb (evs_eqb (events_of i oo)
                                          (events_of i (svc_run (c_svc c) (alone i (c_trace c)))))) cmp in
  let x5 := negb (sid_ok (sid_pairs c)) in
  let x6 := negb (addr_ok c) in
  (if x1 then [SIG_REPLY_ELSEWHERE] else []) ++ (if x2 then [SIG_EVENT_ELSEWHERE] else []) ++
  (if x3 then [SIG_REPLIES_DEPEND] else []) ++ (if x4 then [SIG_EVENTS_DEPEND] else []) ++
  (if x5 then [SIG_SESSION_ID] else []) ++ (if x6 then [SIG_ADDRESS] else []).

(* signature code = 10 * service + kind *)
Definition violations (cs : list case) : list (N * N) :=
  flat_map (fun c => map (fun s => (c_id c, 10 * c_svc c + s)) (case_sigs c)) cs.

(* tag = 10 * service + shape: 1 one connection, 2 several connections one after the other,
   3 several connections interleaved *)
Fixpoint runs_of (last : N) (l : list N) : N :=
  match l with
  | [] => 0
  | x :: r => (if x =? last then 0 else 1) + runs_of x r
  end.
Definition tags (cs : list case) : list (N * N) :=
  map (fun c =>
    let ids := map fst (c_trace c) in
    let n := N.of_nat (length (dedup ids)) in
    (c_id c, 10 * c_svc c + (if n <=? 1 then 1 else if runs_of 0 ids <=? n then 2 else 3))) cs.
