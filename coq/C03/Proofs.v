(* C03 - proofs.  The frame (unwinding) theorem over all interleavings and its instances. *)
From Coq Require Import Lia ZifyBool ZifyN ZifyNat.
From HT Require Import C03.Model C03.CheckLim.
Open Scope N_scope.

(* ---------- basic facts ---------- *)
Lemma run_cons {S C} (step : sys S C -> N -> input -> sys S C * outs) st i x r :
  snd (run step st ((i, x) :: r)) = snd (step st i x) :: snd (run step (fst (step st i x)) r).
Proof.
  cbn [run]. destruct (step st i x) as [st1 o]. cbn [fst snd].
  destruct (run step st1 r) as [st2 os]. reflexivity.
Qed.

Lemma run_cons_state {S C} (step : sys S C -> N -> input -> sys S C * outs) st i x r :
  fst (run step st ((i, x) :: r)) = fst (run step (fst (step st i x)) r).
Proof.
  cbn [run]. destruct (step st i x) as [st1 o]. cbn [fst snd].
  destruct (run step st1 r) as [st2 os]. reflexivity.
Qed.

Lemma obs_cons i o os :
  obs i (o :: os) = (on_conn i (fst o) ++ fst (obs i os), on_conn i (snd o) ++ snd (obs i os)).
Proof. reflexivity. Qed.

Lemma on_conn_pair_eq {A} i (l : list A) : on_conn i (map (pair i) l) = l.
Proof.
  unfold on_conn. induction l as [|x l IH]; [reflexivity|].
  cbn [map filter fst snd]. rewrite N.eqb_refl. cbn [map snd]. now rewrite IH.
Qed.

Lemma on_conn_pair_ne {A} i j (l : list A) : j <> i -> on_conn i (map (pair j) l) = [].
Proof.
  intros H. unfold on_conn. induction l as [|x l IH]; [reflexivity|].
  cbn [map filter fst]. destruct (N.eqb_spec j i); [contradiction|]. exact IH.
Qed.

Lemma upd_same {C} (f : N -> C) i c : upd f i c i = c.
Proof. unfold upd. now rewrite N.eqb_refl. Qed.

Lemma upd_other {C} (f : N -> C) i j c : i <> j -> upd f j c i = f i.
Proof. unfold upd. intros H. destruct (N.eqb_spec i j); [contradiction|reflexivity]. Qed.

(* ---------- the frame theorem ---------- *)
Section Unwind.
  Variables S C V : Type.
  Variable step : sys S C -> N -> input -> sys S C * outs.
  Variable i : N.
  Variable view : S -> V.                 (* the part of the shared state connection i depends on *)
  Variable ok : N -> input -> Prop.       (* what the other connections are assumed to do *)

  Definition eqv (a b : sys S C) : Prop :=
    conns a i = conns b i /\ view (shared a) = view (shared b).

  (* a step of another connection leaves i's state and view alone and sends i nothing *)
  Hypothesis others_respect : forall a j x, j <> i -> ok j x ->
    eqv (fst (step a j x)) a /\
    on_conn i (fst (snd (step a j x))) = [] /\ on_conn i (snd (snd (step a j x))) = [].
  (* a step of i depends on, and changes, nothing but i's state and view *)
  Hypothesis own_consistent : forall a b x, eqv a b ->
    eqv (fst (step a i x)) (fst (step b i x)) /\
    on_conn i (fst (snd (step a i x))) = on_conn i (fst (snd (step b i x))) /\
    on_conn i (snd (snd (step a i x))) = on_conn i (snd (snd (step b i x))).

  Theorem frame : forall tr a b,
    eqv a b ->
    Forall (fun p => fst p = i \/ ok (fst p) (snd p)) tr ->
    obs i (snd (run step a tr)) = obs i (snd (run step b (own i tr))).
  Proof.
    induction tr as [|[j x] r IH]; intros a b Hab Hok.
    - reflexivity.
    - inversion Hok as [|p l Hp Hr]; subst. cbn [fst snd] in Hp.
      cbn [own filter fst]. destruct (N.eqb_spec j i) as [->|Hne].
      + rewrite !run_cons, !obs_cons.
        destruct (own_consistent a b x Hab) as (He & Hr1 & Hr2).
        fold (own i r). rewrite (IH _ _ He Hr), Hr1, Hr2. reflexivity.
      + destruct Hp as [Hp|Hp]; [contradiction|].
        rewrite run_cons, obs_cons.
        destruct (others_respect a j x Hne Hp) as (He & Hr1 & Hr2).
        assert (Hab' : eqv (fst (step a j x)) b).
        { destruct He as [E1 E2], Hab as [A1 A2]. split; congruence. }
        fold (own i r). rewrite (IH _ _ Hab' Hr), Hr1, Hr2. reflexivity.
  Qed.
End Unwind.

(* sequential histories: whatever sessions came before, complete or not *)
Lemma own_app i a b : own i (a ++ b) = own i a ++ own i b.
Proof. unfold own. apply filter_app. Qed.

Lemma own_none i h : Forall (fun p : N * input => fst p <> i) h -> own i h = [].
Proof.
  induction 1 as [|[j x] l H _ IH]; [reflexivity|].
  cbn [own filter fst] in *. destruct (N.eqb_spec j i); [contradiction|exact IH].
Qed.

Lemma own_all i p : Forall (fun q : N * input => fst q = i) p -> own i p = p.
Proof.
  induction 1 as [|[j x] l H _ IH]; [reflexivity|].
  cbn [own filter fst] in *. subst j. rewrite N.eqb_refl. f_equal. exact IH.
Qed.

(* ---------- services whose handler keeps its state in locals ---------- *)
Section LocalFrame.
  Variable C : Type.
  Variable lstep : N -> C -> input -> C * list reply * list ev.

  Lemma lift_others i (a : sys unit C) j x : j <> i ->
    eqv unit C unit i (fun _ => tt) (fst (lift lstep a j x)) a /\
    on_conn i (fst (snd (lift lstep a j x))) = [] /\ on_conn i (snd (snd (lift lstep a j x))) = [].
  Proof.
    intros H. unfold lift. destruct (lstep j (conns a j) x) as [[c rs] es]. cbn [fst snd].
    split; [split; [cbn [conns]; apply upd_other; congruence|reflexivity]|].
    split; apply on_conn_pair_ne; exact H.
  Qed.

  Lemma lift_own i (a b : sys unit C) x : eqv unit C unit i (fun _ => tt) a b ->
    eqv unit C unit i (fun _ => tt) (fst (lift lstep a i x)) (fst (lift lstep b i x)) /\
    on_conn i (fst (snd (lift lstep a i x))) = on_conn i (fst (snd (lift lstep b i x))) /\
    on_conn i (snd (snd (lift lstep a i x))) = on_conn i (snd (snd (lift lstep b i x))).
  Proof.
    intros [H _]. unfold lift. rewrite H. destruct (lstep i (conns b i) x) as [[c rs] es]. cbn [fst snd].
    split; [split; [cbn [conns]; now rewrite !upd_same|reflexivity]|]. split; reflexivity.
  Qed.

  Theorem local_frame : forall c0 i tr,
    obs i (run_outs (lift lstep) tt c0 tr) = obs i (run_outs (lift lstep) tt c0 (own i tr)).
  Proof.
    intros c0 i tr. unfold run_outs.
    apply (frame unit C unit (lift lstep) i (fun _ => tt) (fun _ _ => True)).
    - intros a j x Hne _. apply lift_others; exact Hne.
    - intros a b x H. apply lift_own; exact H.
    - split; reflexivity.
    - apply Forall_forall. intros; right; exact I.
  Qed.

  (* in every interleaving, everything a step produces is addressed to the connection
     that took the step *)
  Theorem local_outputs_own : forall tr st k j x o,
    nth_error tr k = Some (j, x) -> nth_error (snd (run (lift lstep) st tr)) k = Some o ->
    Forall (fun r => fst r = j) (fst o) /\ Forall (fun e => fst e = j) (snd o).
  Proof.
    induction tr as [|[j0 x0] r IH]; intros st k j x o Hk Ho.
    - destruct k; discriminate.
    - rewrite run_cons in Ho. destruct k as [|k].
      + cbn in Hk, Ho. inversion Hk; subst. inversion Ho; subst. clear.
        unfold lift. destruct (lstep j (conns st j) x) as [[c rs] es]. cbn [fst snd].
        split; apply Forall_forall; intros p Hp; apply in_map_iff in Hp;
          destruct Hp as (y & <- & _); reflexivity.
      + cbn in Hk, Ho. eapply IH; eassumption.
  Qed.
  (* login state, working directory, dialogue state ...: after ANY interleaving the state of
     connection i is the fold of its own inputs *)
  Definition lnext (i : N) (c : C) (x : input) : C := fst (fst (lstep i c x)).
  Theorem local_state_own : forall tr st i,
    conns (fst (run (lift lstep) st tr)) i = fold_left (lnext i) (map snd (own i tr)) (conns st i).
  Proof.
    induction tr as [|[j x] r IH]; intros st i; [reflexivity|].
    rewrite run_cons_state, IH. cbn [own filter fst].
    unfold lift. destruct (lstep j (conns st j) x) as [[c rs] es] eqn:E. cbn [fst conns].
    destruct (N.eqb_spec j i) as [->|Hne].
    - cbn [map snd fold_left]. fold (own i r). rewrite upd_same. unfold lnext. now rewrite E.
    - fold (own i r). rewrite upd_other by congruence. reflexivity.
  Qed.
End LocalFrame.

(* ---------- client addresses: the host key and the peer key are one-to-one ---------- *)
Definition wfb (l : list N) : Prop := Forall (fun b => b < 256) l.
Definition ip_len (ip : list N) : Prop := length ip = 4%nat \/ length ip = 16%nat.

Lemma be_value_inj : forall a b acc1 acc2, wfb a -> wfb b -> length a = length b ->
  be_value acc1 a = be_value acc2 b -> acc1 = acc2 /\ a = b.
Proof.
  induction a as [|x r IH]; intros [|y r'] acc1 acc2 Ha Hb Hl E; try discriminate.
  - split; [exact E|reflexivity].
  - cbn [be_value] in E. inversion Ha as [|? ? Hx Hr]; subst. inversion Hb as [|? ? Hy Hr']; subst.
    cbn [length] in Hl. injection Hl as Hl.
    destruct (IH r' _ _ Hr Hr' Hl E) as [E1 E2]. subst r'.
    assert (acc1 = acc2 /\ x = y) as [-> ->] by lia. split; reflexivity.
Qed.

Lemma V4PREFIX_wf : wfb V4PREFIX.
Proof. unfold wfb, V4PREFIX. repeat constructor. Qed.

Lemma to16_len4 ip : length ip = 4%nat -> to16 ip = V4PREFIX ++ ip.
Proof. intros H. unfold to16. rewrite H. reflexivity. Qed.
Lemma to16_len16 ip : length ip = 16%nat -> to16 ip = ip.
Proof. intros H. unfold to16. rewrite H. reflexivity. Qed.

Lemma to16_length ip : ip_len ip -> length (to16 ip) = 16%nat.
Proof.
  intros [H|H]; [rewrite (to16_len4 _ H), app_length, H|rewrite (to16_len16 _ H), H]; reflexivity.
Qed.

Lemma to16_wf ip : ip_len ip -> wfb ip -> wfb (to16 ip).
Proof.
  intros [H|H] W; [rewrite (to16_len4 _ H)|rewrite (to16_len16 _ H); exact W].
  apply Forall_app. split; [exact V4PREFIX_wf|exact W].
Qed.

(* net.IP.String as a key: two addresses (4 or 16 bytes, any bytes) have one key exactly when
   they are one host - equal after To16 *)
Theorem ip_key_injective : forall a b, wfb a -> wfb b -> ip_len a -> ip_len b ->
  ip_key a = ip_key b -> to16 a = to16 b.
Proof.
  intros a b Wa Wb La Lb E. unfold ip_key in E.
  apply (be_value_inj (to16 a) (to16 b) 0 0); auto using to16_wf.
  now rewrite !to16_length.
Qed.

(* "one host" is: the same bytes - or the 4-byte and the v4-mapped 16-byte spelling of one IPv4 host *)
Lemma to16_same_length : forall a b, ip_len a -> length a = length b -> to16 a = to16 b -> a = b.
Proof.
  intros a b [H|H] L E.
  - rewrite (to16_len4 _ H), (to16_len4 b) in E by congruence. apply app_inv_head in E. exact E.
  - rewrite (to16_len16 _ H), (to16_len16 b) in E by congruence. exact E.
Qed.

Lemma to16_cross : forall a b, length a = 4%nat -> length b = 16%nat -> to16 a = to16 b -> b = V4PREFIX ++ a.
Proof. intros a b Ha Hb E. rewrite (to16_len4 _ Ha), (to16_len16 _ Hb) in E. now symmetry. Qed.

(* the String() of a UDP/TCP address as a key: one-to-one on (host, zone, port) *)
Theorem peer_key_injective : forall a b z1 z2 p1 p2,
  wfb a -> wfb b -> ip_len a -> ip_len b -> z1 < ZONES -> z2 < ZONES -> p1 < PORTS -> p2 < PORTS ->
  peer_key a z1 p1 = peer_key b z2 p2 -> to16 a = to16 b /\ z1 = z2 /\ p1 = p2.
Proof.
  intros a b z1 z2 p1 p2 Wa Wb La Lb Hz1 Hz2 Hp1 Hp2 E.
  unfold peer_key, ZONES, PORTS in *.
  assert (ip_key a = ip_key b /\ z1 = z2 /\ p1 = p2) as (Ek & -> & ->) by lia.
  split; [apply ip_key_injective; assumption|split; reflexivity].
Qed.

Theorem peer_key_same_family : forall a b z1 z2 p1 p2,
  wfb a -> wfb b -> ip_len a -> length a = length b -> z1 < ZONES -> z2 < ZONES -> p1 < PORTS -> p2 < PORTS ->
  peer_key a z1 p1 = peer_key b z2 p2 -> a = b /\ z1 = z2 /\ p1 = p2.
Proof.
  intros a b z1 z2 p1 p2 Wa Wb La L Hz1 Hz2 Hp1 Hp2 E.
  assert (Lb : ip_len b) by (destruct La as [H|H]; [left|right]; congruence).
  destruct (peer_key_injective a b z1 z2 p1 p2 Wa Wb La Lb Hz1 Hz2 Hp1 Hp2 E) as (E1 & E2 & E3).
  split; [apply to16_same_length; assumption|split; assumption].
Qed.

(* the addresses the harness gives its connections are of this kind *)
Lemma ip_bytes_wf i : wfb (ip_bytes i).
Proof.
  unfold ip_bytes, wfb, V4PREFIX, hi_byte, lo_byte.
  repeat match goal with |- context [if ?c then _ else _] => destruct c end;
    cbn [app]; repeat constructor; apply N.mod_lt; discriminate.
Qed.

Lemma ip_bytes_len i : ip_len (ip_bytes i).
Proof.
  unfold ip_bytes, ip_len, V4PREFIX.
  repeat match goal with |- context [if ?c then _ else _] => destruct c end; cbn [app length]; auto.
Qed.

Lemma zone_of_lt i : zone_of i < ZONES.
Proof. unfold zone_of, ZONES. destruct (fam_of i =? 2); reflexivity. Qed.
Lemma port_of_lt i : port_of i < PORTS.
Proof. unfold port_of, PORTS. pose proof (N.mod_lt i 16). lia. Qed.

Theorem ip_of_faithful : forall i j, ip_of i = ip_of j <-> to16 (ip_bytes i) = to16 (ip_bytes j).
Proof.
  intros i j. unfold ip_of. split.
  - apply ip_key_injective; auto using ip_bytes_wf, ip_bytes_len.
  - intros E. unfold ip_key. now rewrite E.
Qed.

Theorem peer_of_faithful : forall i j,
  peer_of i = peer_of j <->
  to16 (ip_bytes i) = to16 (ip_bytes j) /\ zone_of i = zone_of j /\ port_of i = port_of j.
Proof.
  intros i j. unfold peer_of. split.
  - apply peer_key_injective; auto using ip_bytes_wf, ip_bytes_len, zone_of_lt, port_of_lt.
  - intros (E1 & E2 & E3). unfold peer_key, ip_key. now rewrite E1, E2, E3.
Qed.

Lemma peer_of_ip i j : peer_of i = peer_of j -> ip_of i = ip_of j.
Proof. intros E. apply ip_of_faithful. apply peer_of_faithful in E. tauto. Qed.

(* ---------- tftp: limiter keyed by IP, buffers keyed by remote address ---------- *)
Lemma lookup_store_same {V} k (v : V) l : lookup k (store k v l) = Some v.
Proof. unfold store. cbn [lookup]. now rewrite N.eqb_refl. Qed.

Lemma lookup_remove_ne {V} k k' (l : list (N * V)) : k <> k' -> lookup k (remove_key k' l) = lookup k l.
Proof.
  intros H. induction l as [|[a v] l IH]; [reflexivity|].
  cbn [remove_key lookup]. destruct (N.eqb_spec k' a) as [->|Hn].
  - destruct (N.eqb_spec k a); [contradiction|exact IH].
  - cbn [lookup]. destruct (N.eqb_spec k a); [reflexivity|exact IH].
Qed.

Lemma lookup_remove_same {V} k (l : list (N * V)) : lookup k (remove_key k l) = None.
Proof.
  induction l as [|[a v] l IH]; [reflexivity|].
  cbn [remove_key]. destruct (N.eqb_spec k a) as [->|Hn]; [exact IH|].
  cbn [lookup]. destruct (N.eqb_spec k a); [contradiction|exact IH].
Qed.

Lemma lookup_store_ne {V} k k' (v : V) l : k <> k' -> lookup k (store k' v l) = lookup k l.
Proof.
  intros H. unfold store. cbn [lookup]. destruct (N.eqb_spec k k'); [contradiction|].
  apply lookup_remove_ne; exact H.
Qed.

Definition tftp_view (i : N) (s : tftp_shared) : N * option (N * N * N) :=
  (used_of s (ip_of i), lookup (peer_of i) (t_bufs s)).

Lemma used_of_store_same s ip n b : used_of (mkTftp (store ip n (t_used s)) b) ip = n.
Proof. unfold used_of, lim_used. cbn [t_used]. now rewrite lookup_store_same. Qed.

Lemma used_of_store_ne s ip ip' n b : ip <> ip' -> used_of (mkTftp (store ip' n (t_used s)) b) ip = used_of s ip.
Proof. intros H. unfold used_of, lim_used. cbn [t_used]. now rewrite lookup_store_ne. Qed.

Lemma tftp_others i (a : sys tftp_shared unit) j x : j <> i -> ip_of j <> ip_of i ->
  eqv tftp_shared unit _ i (tftp_view i) (fst (tftp_step a j x)) a /\
  on_conn i (fst (snd (tftp_step a j x))) = [] /\ on_conn i (snd (snd (tftp_step a j x))) = [].
Proof.
  intros Hne Hip.
  assert (Hc : forall (f g : N -> unit), f i = g i) by (intros f g; destruct (f i), (g i); reflexivity).
  assert (Hn1 : forall A (y : A), on_conn i [(j, y)] = []).
  { intros A y. unfold on_conn. cbn [filter fst]. destruct (N.eqb_spec j i); [contradiction|reflexivity]. }
  assert (Hip' : ip_of i <> ip_of j) by congruence.
  assert (Hne' : i <> j) by congruence.
  assert (Hpk : peer_of i <> peer_of j) by (intro E; apply Hip'; apply peer_of_ip; exact E).
  unfold tftp_step. destruct x as [|t arg pick|]; try (split; [split; reflexivity|split; reflexivity]).
  destruct (BURST <=? used_of (shared a) (ip_of j)); [split; [split; reflexivity|split; reflexivity]|].
  unfold eqv, tftp_view.
  repeat match goal with
  | |- context [if ?c then _ else _] => destruct c
  | |- context [match lookup (peer_of j) ?l with _ => _ end] => destruct (lookup (peer_of j) l) as [[[? ?] ?]|]
  end; cbn [fst snd shared conns t_bufs t_used no_outs];
  rewrite ?used_of_store_ne, ?lookup_store_ne, ?lookup_remove_ne by assumption;
  (split; [split; [apply Hc|reflexivity]|]); rewrite ?Hn1; split; reflexivity.
Qed.

Lemma tftp_own i (a b : sys tftp_shared unit) x :
  eqv tftp_shared unit _ i (tftp_view i) a b ->
  eqv tftp_shared unit _ i (tftp_view i) (fst (tftp_step a i x)) (fst (tftp_step b i x)) /\
  on_conn i (fst (snd (tftp_step a i x))) = on_conn i (fst (snd (tftp_step b i x))) /\
  on_conn i (snd (snd (tftp_step a i x))) = on_conn i (snd (snd (tftp_step b i x))).
Proof.
  intros [_ Hv]. unfold tftp_view in Hv. inversion Hv as [[Hu Hb]]. clear Hv.
  assert (Hc : forall (f g : N -> unit), f i = g i) by (intros f g; destruct (f i), (g i); reflexivity).
  assert (Hsame : eqv tftp_shared unit _ i (tftp_view i) a b).
  { split; [apply Hc|unfold tftp_view; now rewrite Hu, Hb]. }
  unfold tftp_step. destruct x as [|t arg pick|]; cbv zeta; cbn [fst snd];
    try (split; [exact Hsame|split; reflexivity]).
  rewrite Hu.
  destruct (BURST <=? used_of (shared b) (ip_of i)); cbn [fst snd];
    [split; [exact Hsame|split; reflexivity]|].
  cbn [t_bufs t_used]. rewrite Hb.
  unfold eqv, tftp_view.
  repeat match goal with
  | |- context [if ?c then _ else _] => destruct c
  | |- context [match lookup (peer_of i) ?l with _ => _ end] => destruct (lookup (peer_of i) l) as [[[? ?] ?]|] eqn:?
  end; cbn [fst snd shared conns t_bufs t_used no_outs];
  rewrite ?used_of_store_same, ?lookup_store_same, ?lookup_remove_same;
  repeat match goal with H : lookup _ _ = _ |- _ => rewrite H end;
  (split; [split; [apply Hc|reflexivity]|]); split; reflexivity.
Qed.

Theorem tftp_frame : forall i tr,
  Forall (fun p : N * input => fst p = i \/ ip_of (fst p) <> ip_of i) tr ->
  obs i (run_outs tftp_step tftp_s0 tt tr) = obs i (run_outs tftp_step tftp_s0 tt (own i tr)).
Proof.
  intros i tr H. unfold run_outs.
  apply (frame tftp_shared unit _ tftp_step i (tftp_view i) (fun j _ => ip_of j <> ip_of i)).
  - intros a j x Hne Hip. apply tftp_others; assumption.
  - intros a b x Hab. apply tftp_own; exact Hab.
  - split; reflexivity.
  - exact H.
Qed.

(* ---------- sequential histories ---------- *)
Theorem local_history_irrelevant : forall C (lstep : N -> C -> input -> C * list reply * list ev) c0 i h p,
  Forall (fun q : N * input => fst q <> i) h -> Forall (fun q : N * input => fst q = i) p ->
  obs i (run_outs (lift lstep) tt c0 (h ++ p)) = obs i (run_outs (lift lstep) tt c0 p).
Proof.
  intros C lstep c0 i h p Hh Hp.
  rewrite local_frame, own_app, (own_none i h Hh), (own_all i p Hp). reflexivity.
Qed.

Theorem tftp_history_irrelevant : forall i h p,
  Forall (fun q : N * input => ip_of (fst q) <> ip_of i) h -> Forall (fun q : N * input => fst q = i) p ->
  obs i (run_outs tftp_step tftp_s0 tt (h ++ p)) = obs i (run_outs tftp_step tftp_s0 tt p).
Proof.
  intros i h p Hh Hp.
  assert (Hne : Forall (fun q : N * input => fst q <> i) h).
  { eapply Forall_impl; [|exact Hh]. intros q Hq E. apply Hq. now rewrite E. }
  rewrite tftp_frame, own_app, (own_none i h Hne), (own_all i p Hp); [reflexivity|].
  apply Forall_app. split.
  - eapply Forall_impl; [|exact Hh]. intros q Hq. right. exact Hq.
  - eapply Forall_impl; [|exact Hp]. intros q Hq. left. exact Hq.
Qed.

Definition tftp_w1 : list (N * input) :=
  [(32, Tok 1 1 0); (32, Tok 1 1 0); (32, Tok 1 1 0); (32, Tok 1 1 0); (33, Tok 1 2 0)].
Lemma tftp_same_ip_shares_limiter :
  ip_of 32 = ip_of 33 /\
  obs 33 (run_outs tftp_step tftp_s0 tt tftp_w1) = ([], []) /\
  obs 33 (run_outs tftp_step tftp_s0 tt (own 33 tftp_w1)) = ([5001], [mkEv 1 2]).
Proof. repeat split; vm_compute; reflexivity. Qed.

(* ---------- a property of every step holds at every position of every run ---------- *)
Section StepProperty.
  Variables S C : Type.
  Variable step : sys S C -> N -> input -> sys S C * outs.
  Variable P : N -> outs -> Prop.
  Hypothesis step_P : forall st j x, P j (snd (step st j x)).
  Lemma run_steps_P : forall tr st k j x o,
    nth_error tr k = Some (j, x) -> nth_error (snd (run step st tr)) k = Some o -> P j o.
  Proof.
    induction tr as [|[j0 x0] r IH]; intros st k j x o Hk Ho.
    - destruct k; discriminate.
    - rewrite run_cons in Ho. destruct k as [|k]; cbn in Hk, Ho.
      + inversion Hk; subst. inversion Ho; subst. apply step_P.
      + eapply IH; eassumption.
  Qed.
End StepProperty.

Definition all_own (j : N) (o : outs) : Prop :=
  Forall (fun r : N * reply => fst r = j) (fst o) /\ Forall (fun e : N * ev => fst e = j) (snd o).
Lemma Forall_map_pair {A} j (l : list A) : Forall (fun r : N * A => fst r = j) (map (pair j) l).
Proof. apply Forall_forall. intros p Hp. apply in_map_iff in Hp. destruct Hp as (y & <- & _). reflexivity. Qed.

Lemma tftp_step_all_own st j x : all_own j (snd (tftp_step st j x)).
Proof.
  unfold all_own, tftp_step. destruct x as [|t a pick|]; try (split; constructor).
  cbv zeta.
  repeat match goal with
  | |- context [if ?c then _ else _] => destruct c
  | |- context [match lookup (peer_of j) ?l with _ => _ end] => destruct (lookup (peer_of j) l) as [[[? ?] ?]|]
  end; cbn [fst snd no_outs]; split; repeat constructor.
Qed.

Theorem tftp_outputs_own : forall tr st k j x o,
  nth_error tr k = Some (j, x) -> nth_error (snd (run tftp_step st tr)) k = Some o -> all_own j o.
Proof. exact (run_steps_P _ _ tftp_step all_own tftp_step_all_own). Qed.

(* the former two-session witnesses of the ldap / ftp / smtp defects (kept as regression
   scenarios in the harness corpus) *)
Definition ldap_w1 : list (N * input) := [(17, Open); (17, Tok 1 1 17); (34, Open); (17, Tok 4 2 17)].
Definition ftp_w2 : list (N * input) :=
  [(17, Open); (17, Tok 1 1 17); (17, Tok 2 1 17); (34, Open); (34, Tok 1 1 34); (34, Tok 2 1 34);
   (17, Tok 4 1 17); (34, Tok 3 0 34)].
Definition smtp_w1 : list (N * input) :=
  [(17, Open); (17, Tok 1 0 17); (34, Open); (34, Tok 1 0 34); (34, Tok 2 0 34);
   (34, Tok 4 0 34); (34, Tok 5 7 17)].

(* ---------- the rate limiter: a key's allowance is independent of all other keys ---------- *)
Definition answers_for (k : N) (l : limiter) (ks : list N) : list bool :=
  map snd (filter (fun p : N * bool => fst p =? k) (combine ks (lim_run l ks))).

Lemma lim_allow_other l h k : h <> k -> lim_used (snd (lim_allow l h)) k = lim_used l k.
Proof.
  intros H. unfold lim_allow. destruct (BURST <=? lim_used l h); [reflexivity|].
  cbn [snd]. unfold lim_used at 1. rewrite lookup_store_ne by congruence. reflexivity.
Qed.

Lemma lim_allow_same l l' k : lim_used l k = lim_used l' k ->
  fst (lim_allow l k) = fst (lim_allow l' k) /\
  lim_used (snd (lim_allow l k)) k = lim_used (snd (lim_allow l' k)) k.
Proof.
  intros H. unfold lim_allow. rewrite H. destruct (BURST <=? lim_used l' k); cbn [fst snd].
  - split; [reflexivity|exact H].
  - split; [reflexivity|]. unfold lim_used at 1 3. now rewrite !lookup_store_same.
Qed.

Theorem limiter_independent : forall ks l l' k,
  lim_used l k = lim_used l' k ->
  answers_for k l ks = lim_run l' (filter (fun h => h =? k) ks).
Proof.
  induction ks as [|h r IH]; intros l l' k H; [reflexivity|].
  unfold answers_for in *. cbn [lim_run filter].
  destruct (lim_allow l h) as [b l1] eqn:E. cbn [combine filter fst].
  destruct (N.eqb_spec h k) as [->|Hne].
  - cbn [map snd lim_run]. destruct (lim_allow l' k) as [b' l1'] eqn:E'.
    destruct (lim_allow_same l l' k H) as [Hb Hu]. rewrite E, E' in Hb, Hu. cbn [fst snd] in Hb, Hu.
    subst b'. f_equal. apply IH. exact Hu.
  - apply IH. pose proof (lim_allow_other l h k Hne) as Ho. rewrite E in Ho. cbn [snd] in Ho. congruence.
Qed.

(* ... and is exactly: the first BURST calls of the key are admitted *)
Theorem limiter_burst : forall n l k,
  lim_run l (repeat k n) = map (fun j => lim_used l k + N.of_nat j <? BURST) (seq 0 n).
Proof.
  induction n as [|n IH]; intros l k; [reflexivity|].
  cbn [repeat lim_run seq map]. unfold lim_allow at 1.
  destruct (BURST <=? lim_used l k) eqn:E.
  - rewrite IH. f_equal.
    + cbn. rewrite N.add_0_r. apply N.leb_le in E. symmetry. apply N.ltb_ge. exact E.
    + rewrite <- seq_shift, map_map. apply map_ext_in. intros j _.
      apply N.leb_le in E. transitivity false; [apply N.ltb_ge; lia|symmetry; apply N.ltb_ge; lia].
  - rewrite IH. f_equal.
    + cbn. rewrite N.add_0_r. apply N.leb_gt in E. symmetry. apply N.ltb_lt. exact E.
    + rewrite <- seq_shift, map_map. apply map_ext_in. intros j _.
      unfold lim_used at 1. rewrite lookup_store_same. f_equal. lia.
Qed.

(* ---------- memcached over UDP: isolated from every client with another IP ---------- *)
Lemma mcudp_others i (a : sys limiter unit) j x : j <> i -> ip_of j <> ip_of i ->
  eqv limiter unit _ i (fun l => lim_used l (ip_of i)) (fst (mcudp_step a j x)) a /\
  on_conn i (fst (snd (mcudp_step a j x))) = [] /\ on_conn i (snd (snd (mcudp_step a j x))) = [].
Proof.
  intros Hne Hip.
  assert (Hc : forall (f g : N -> unit), f i = g i) by (intros f g; destruct (f i), (g i); reflexivity).
  assert (Hn1 : forall A (y : A), on_conn i [(j, y)] = []).
  { intros A y. unfold on_conn. cbn [filter fst]. destruct (N.eqb_spec j i); [contradiction|reflexivity]. }
  unfold mcudp_step. destruct x as [|t arg pick|]; try (split; [split; reflexivity|split; reflexivity]).
  pose proof (lim_allow_other (shared a) (ip_of j) (ip_of i) Hip) as Ho.
  destruct (lim_allow (shared a) (ip_of j)) as [ok l']. cbn [fst snd shared conns] in *.
  split; [split; [apply Hc|exact Ho]|]. split; [destruct ok; [apply Hn1|reflexivity]|apply Hn1].
Qed.

Lemma mcudp_own i (a b : sys limiter unit) x :
  eqv limiter unit _ i (fun l => lim_used l (ip_of i)) a b ->
  eqv limiter unit _ i (fun l => lim_used l (ip_of i)) (fst (mcudp_step a i x)) (fst (mcudp_step b i x)) /\
  on_conn i (fst (snd (mcudp_step a i x))) = on_conn i (fst (snd (mcudp_step b i x))) /\
  on_conn i (snd (snd (mcudp_step a i x))) = on_conn i (snd (snd (mcudp_step b i x))).
Proof.
  intros [_ Hv].
  assert (Hc : forall (f g : N -> unit), f i = g i) by (intros f g; destruct (f i), (g i); reflexivity).
  unfold mcudp_step. destruct x as [|t arg pick|]; try (split; [split; [apply Hc|exact Hv]|split; reflexivity]).
  destruct (lim_allow_same (shared a) (shared b) (ip_of i) Hv) as [Hb Hu].
  destruct (lim_allow (shared a) (ip_of i)) as [ok l1]. destruct (lim_allow (shared b) (ip_of i)) as [ok' l2].
  cbn [fst snd shared conns] in *. subst ok'.
  split; [split; [apply Hc|exact Hu]|split; reflexivity].
Qed.

Theorem mcudp_frame : forall i tr,
  Forall (fun p : N * input => fst p = i \/ ip_of (fst p) <> ip_of i) tr ->
  obs i (run_outs mcudp_step [] tt tr) = obs i (run_outs mcudp_step [] tt (own i tr)).
Proof.
  intros i tr H. unfold run_outs.
  apply (frame limiter unit _ mcudp_step i (fun l => lim_used l (ip_of i)) (fun j _ => ip_of j <> ip_of i)).
  - intros a j x Hne Hip. apply mcudp_others; assumption.
  - intros a b x Hab. apply mcudp_own; exact Hab.
  - split; reflexivity.
  - exact H.
Qed.

(* ---------- the closed form the "lim" checker judges with is the bucket model ---------- *)
Definition count_key (k : N) (seen : list N) : N := N.of_nat (length (filter (N.eqb k) seen)).

Lemma count_key_cons k k0 seen :
  count_key k (k0 :: seen) = (if k =? k0 then 1 else 0) + count_key k seen.
Proof.
  unfold count_key. cbn [filter]. destruct (k =? k0); cbn [length]; lia.
Qed.

Theorem lim_expected_is_model : forall calls l seen,
  (forall k, lim_used l k = N.min (count_key k seen) BURST) ->
  model_run l calls = expected seen calls.
Proof.
  induction calls as [|a r IH]; intros l seen Hinv; [reflexivity|].
  cbn [model_run expected]. destruct (a_kind a =? 3); [f_equal; apply IH; exact Hinv|].
  set (k0 := key_of (a_ip a)). unfold lim_allow. fold (count_key k0 seen).
  pose proof (Hinv k0) as H0. unfold BURST in *.
  destruct (4 <=? lim_used l k0) eqn:E.
  - apply N.leb_le in E. f_equal.
    + symmetry. apply N.ltb_ge. lia.
    + apply IH. intros k. rewrite count_key_cons, Hinv.
      destruct (N.eqb_spec k k0) as [->|Hne]; [lia|lia].
  - apply N.leb_gt in E. f_equal.
    + symmetry. apply N.ltb_lt. lia.
    + apply IH. intros k. rewrite count_key_cons. unfold lim_used.
      destruct (N.eqb_spec k k0) as [->|Hne].
      * rewrite lookup_store_same. fold (lim_used l k0). lia.
      * rewrite lookup_store_ne by exact Hne. fold (lim_used l k). rewrite Hinv. lia.
Qed.

Theorem lim_checker_closed_form : forall calls, model_run [] calls = expected [] calls.
Proof. intros calls. apply lim_expected_is_model. intros k. reflexivity. Qed.

(* ---------- the server: the service is a function of configuration and destination ---------- *)
Theorem route_spec : forall cfg d s,
  (exists e, In e cfg /\ pe_match d e = true) ->
  (forall e, In e cfg -> pe_match d e = true -> pe_svc e = s) ->
  route cfg d = Some s.
Proof.
  intros cfg d s [e [Hin Hm]] Hall. unfold route.
  destruct (filter (pe_match d) cfg) as [|e0 r] eqn:E.
  - assert (In e (filter (pe_match d) cfg)) by (apply filter_In; split; assumption). rewrite E in H. destruct H.
  - assert (In e0 (filter (pe_match d) cfg)) by (rewrite E; left; reflexivity).
    apply filter_In in H. destruct H as [H1 H2]. f_equal. apply Hall; assumption.
Qed.

Theorem route_none : forall cfg d,
  (forall e, In e cfg -> pe_match d e = false) -> route cfg d = None.
Proof.
  intros cfg d H. unfold route. destruct (filter (pe_match d) cfg) as [|e0 r] eqn:E; [reflexivity|].
  assert (In e0 (filter (pe_match d) cfg)) by (rewrite E; left; reflexivity).
  apply filter_In in H0. destruct H0 as [H1 H2]. rewrite (H e0 H1) in H2. discriminate.
Qed.

(* whatever connections came before (to the same port number under another protocol or host,
   to unconfigured addresses, any number), the probe is served by route cfg probe *)
Theorem srv_history_irrelevant : forall cfg h p,
  nth_error (srv_run cfg (h ++ [p])) (length h) = Some (route cfg p).
Proof.
  intros cfg h p. unfold srv_run. rewrite map_app. rewrite nth_error_app2; rewrite map_length; [|lia].
  replace (length h - length h)%nat with 0%nat by lia. reflexivity.
Qed.
