(* C03 - proofs.  The frame (unwinding) theorem over all interleavings, its instances,
   and the witnesses that refute the full statement for ldap, ftp and smtp. *)
From Coq Require Import Lia.
From HT Require Import C03.Model.
Open Scope N_scope.

(* ---------- basic facts ---------- *)
Lemma run_cons {S C} (step : sys S C -> N -> input -> sys S C * outs) st i x r :
  snd (run step st ((i, x) :: r)) = snd (step st i x) :: snd (run step (fst (step st i x)) r).
Proof.
  cbn [run]. destruct (step st i x) as [st1 o]. cbn [fst snd].
  destruct (run step st1 r) as [st2 os]. reflexivity.
Qed.

Lemma run_cons_state {S C} (step : sys S C -> N -> input -> sys S C * outs) st i x r :
  fst (run step st ((i, x) :: r)) = fst (run step (fst (step st i x)) r).
Proof.
  cbn [run]. destruct (step st i x) as [st1 o]. cbn [fst snd].
  destruct (run step st1 r) as [st2 os]. reflexivity.
Qed.

Lemma obs_cons i o os :
  obs i (o :: os) = (on_conn i (fst o) ++ fst (obs i os), on_conn i (snd o) ++ snd (obs i os)).
Proof. reflexivity. Qed.

Lemma on_conn_pair_eq {A} i (l : list A) : on_conn i (map (pair i) l) = l.
Proof.
  unfold on_conn. induction l as [|x l IH]; [reflexivity|].
  cbn [map filter fst snd]. rewrite N.eqb_refl. cbn [map snd]. now rewrite IH.
Qed.

Lemma on_conn_pair_ne {A} i j (l : list A) : j <> i -> on_conn i (map (pair j) l) = [].
Proof.
  intros H. unfold on_conn. induction l as [|x l IH]; [reflexivity|].
  cbn [map filter fst]. destruct (N.eqb_spec j i); [contradiction|]. exact IH.
Qed.

Lemma upd_same {C} (f : N -> C) i c : upd f i c i = c.
Proof. unfold upd. now rewrite N.eqb_refl. Qed.

Lemma upd_other {C} (f : N -> C) i j c : i <> j -> upd f j c i = f i.
Proof. unfold upd. intros H. destruct (N.eqb_spec i j); [contradiction|reflexivity]. Qed.

(* ---------- the frame theorem ---------- *)
Section Unwind.
  Variables S C V : Type.
  Variable step : sys S C -> N -> input -> sys S C * outs.
  Variable i : N.
  Variable view : S -> V.                 (* the part of the shared state connection i depends on *)
  Variable ok : N -> input -> Prop.       (* what the other connections are assumed to do *)

  Definition eqv (a b : sys S C) : Prop :=
    conns a i = conns b i /\ view (shared a) = view (shared b).

  (* a step of another connection leaves i's state and view alone and sends i nothing *)
  Hypothesis others_respect : forall a j x, j <> i -> ok j x ->
    eqv (fst (step a j x)) a /\
    on_conn i (fst (snd (step a j x))) = [] /\ on_conn i (snd (snd (step a j x))) = [].
  (* a step of i depends on, and changes, nothing but i's state and view *)
  Hypothesis own_consistent : forall a b x, eqv a b ->
    eqv (fst (step a i x)) (fst (step b i x)) /\
    on_conn i (fst (snd (step a i x))) = on_conn i (fst (snd (step b i x))) /\
    on_conn i (snd (snd (step a i x))) = on_conn i (snd (snd (step b i x))).

  Theorem frame : forall tr a b,
    eqv a b ->
    Forall (fun p => fst p = i \/ ok (fst p) (snd p)) tr ->
    obs i (snd (run step a tr)) = obs i (snd (run step b (own i tr))).
  Proof.
    induction tr as [|[j x] r IH]; intros a b Hab Hok.
    - reflexivity.
    - inversion Hok as [|p l Hp Hr]; subst. cbn [fst snd] in Hp.
      cbn [own filter fst]. destruct (N.eqb_spec j i) as [->|Hne].
      + rewrite !run_cons, !obs_cons.
        destruct (own_consistent a b x Hab) as (He & Hr1 & Hr2).
        fold (own i r). rewrite (IH _ _ He Hr), Hr1, Hr2. reflexivity.
      + destruct Hp as [Hp|Hp]; [contradiction|].
        rewrite run_cons, obs_cons.
        destruct (others_respect a j x Hne Hp) as (He & Hr1 & Hr2).
        assert (Hab' : eqv (fst (step a j x)) b).
        { destruct He as [E1 E2], Hab as [A1 A2]. split; congruence. }
        fold (own i r). rewrite (IH _ _ Hab' Hr), Hr1, Hr2. reflexivity.
  Qed.
End Unwind.

(* sequential histories: whatever sessions came before, complete or not *)
Lemma own_app i a b : own i (a ++ b) = own i a ++ own i b.
Proof. unfold own. apply filter_app. Qed.

Lemma own_none i h : Forall (fun p : N * input => fst p <> i) h -> own i h = [].
Proof.
  induction 1 as [|[j x] l H _ IH]; [reflexivity|].
  cbn [own filter fst] in *. destruct (N.eqb_spec j i); [contradiction|exact IH].
Qed.

Lemma own_all i p : Forall (fun q : N * input => fst q = i) p -> own i p = p.
Proof.
  induction 1 as [|[j x] l H _ IH]; [reflexivity|].
  cbn [own filter fst] in *. subst j. rewrite N.eqb_refl. f_equal. exact IH.
Qed.

(* ---------- services whose handler keeps its state in locals ---------- *)
Section LocalFrame.
  Variable C : Type.
  Variable lstep : C -> input -> C * list reply * list ev.

  Lemma lift_others i (a : sys unit C) j x : j <> i ->
    eqv unit C unit i (fun _ => tt) (fst (lift lstep a j x)) a /\
    on_conn i (fst (snd (lift lstep a j x))) = [] /\ on_conn i (snd (snd (lift lstep a j x))) = [].
  Proof.
    intros H. unfold lift. destruct (lstep (conns a j) x) as [[c rs] es]. cbn [fst snd].
    split; [split; [cbn [conns]; apply upd_other; congruence|reflexivity]|].
    split; apply on_conn_pair_ne; exact H.
  Qed.

  Lemma lift_own i (a b : sys unit C) x : eqv unit C unit i (fun _ => tt) a b ->
    eqv unit C unit i (fun _ => tt) (fst (lift lstep a i x)) (fst (lift lstep b i x)) /\
    on_conn i (fst (snd (lift lstep a i x))) = on_conn i (fst (snd (lift lstep b i x))) /\
    on_conn i (snd (snd (lift lstep a i x))) = on_conn i (snd (snd (lift lstep b i x))).
  Proof.
    intros [H _]. unfold lift. rewrite H. destruct (lstep (conns b i) x) as [[c rs] es]. cbn [fst snd].
    split; [split; [cbn [conns]; now rewrite !upd_same|reflexivity]|]. split; reflexivity.
  Qed.

  Theorem local_frame : forall c0 i tr,
    obs i (run_outs (lift lstep) tt c0 tr) = obs i (run_outs (lift lstep) tt c0 (own i tr)).
  Proof.
    intros c0 i tr. unfold run_outs.
    apply (frame unit C unit (lift lstep) i (fun _ => tt) (fun _ _ => True)).
    - intros a j x Hne _. apply lift_others; exact Hne.
    - intros a b x H. apply lift_own; exact H.
    - split; reflexivity.
    - apply Forall_forall. intros; right; exact I.
  Qed.

  (* in every interleaving, everything a step produces is addressed to the connection
     that took the step *)
  Theorem local_outputs_own : forall tr st k j x o,
    nth_error tr k = Some (j, x) -> nth_error (snd (run (lift lstep) st tr)) k = Some o ->
    Forall (fun r => fst r = j) (fst o) /\ Forall (fun e => fst e = j) (snd o).
  Proof.
    induction tr as [|[j0 x0] r IH]; intros st k j x o Hk Ho.
    - destruct k; discriminate.
    - rewrite run_cons in Ho. destruct k as [|k].
      + cbn in Hk, Ho. inversion Hk; subst. inversion Ho; subst. clear.
        unfold lift. destruct (lstep (conns st j) x) as [[c rs] es]. cbn [fst snd].
        split; apply Forall_forall; intros p Hp; apply in_map_iff in Hp;
          destruct Hp as (y & <- & _); reflexivity.
      + cbn in Hk, Ho. eapply IH; eassumption.
  Qed.
End LocalFrame.

(* ---------- tftp: limiter keyed by IP, buffers keyed by remote address ---------- *)
Lemma lookup_store_same {V} k (v : V) l : lookup k (store k v l) = Some v.
Proof. unfold store. cbn [lookup]. now rewrite N.eqb_refl. Qed.

Lemma lookup_remove_ne {V} k k' (l : list (N * V)) : k <> k' -> lookup k (remove_key k' l) = lookup k l.
Proof.
  intros H. induction l as [|[a v] l IH]; [reflexivity|].
  cbn [remove_key lookup]. destruct (N.eqb_spec k' a) as [->|Hn].
  - destruct (N.eqb_spec k a); [contradiction|exact IH].
  - cbn [lookup]. destruct (N.eqb_spec k a); [reflexivity|exact IH].
Qed.

Lemma lookup_remove_same {V} k (l : list (N * V)) : lookup k (remove_key k l) = None.
Proof.
  induction l as [|[a v] l IH]; [reflexivity|].
  cbn [remove_key]. destruct (N.eqb_spec k a) as [->|Hn]; [exact IH|].
  cbn [lookup]. destruct (N.eqb_spec k a); [contradiction|exact IH].
Qed.

Lemma lookup_store_ne {V} k k' (v : V) l : k <> k' -> lookup k (store k' v l) = lookup k l.
Proof.
  intros H. unfold store. cbn [lookup]. destruct (N.eqb_spec k k'); [contradiction|].
  apply lookup_remove_ne; exact H.
Qed.

Definition tftp_view (i : N) (s : tftp_shared) : N * option (N * N) :=
  (used_of s (ip_of i), lookup i (t_bufs s)).

Lemma used_of_store_same s ip n b : used_of (mkTftp (store ip n (t_used s)) b) ip = n.
Proof. unfold used_of. cbn [t_used]. now rewrite lookup_store_same. Qed.

Lemma used_of_store_ne s ip ip' n b : ip <> ip' -> used_of (mkTftp (store ip' n (t_used s)) b) ip = used_of s ip.
Proof. intros H. unfold used_of. cbn [t_used]. now rewrite lookup_store_ne. Qed.

Lemma tftp_others i (a : sys tftp_shared unit) j x : j <> i -> ip_of j <> ip_of i ->
  eqv tftp_shared unit _ i (tftp_view i) (fst (tftp_step a j x)) a /\
  on_conn i (fst (snd (tftp_step a j x))) = [] /\ on_conn i (snd (snd (tftp_step a j x))) = [].
Proof.
  intros Hne Hip.
  assert (Hc : forall (f g : N -> unit), f i = g i) by (intros f g; destruct (f i), (g i); reflexivity).
  assert (Hn1 : forall A (y : A), on_conn i [(j, y)] = []).
  { intros A y. unfold on_conn. cbn [filter fst]. destruct (N.eqb_spec j i); [contradiction|reflexivity]. }
  assert (Hip' : ip_of i <> ip_of j) by congruence.
  assert (Hne' : i <> j) by congruence.
  unfold tftp_step. destruct x as [|t arg pick|]; try (split; [split; reflexivity|split; reflexivity]).
  destruct (BURST <=? used_of (shared a) (ip_of j)); [split; [split; reflexivity|split; reflexivity]|].
  unfold eqv, tftp_view.
  repeat match goal with
  | |- context [if ?c then _ else _] => destruct c
  | |- context [match lookup j ?l with _ => _ end] => destruct (lookup j l) as [[? ?]|]
  end; cbn [fst snd shared conns t_bufs t_used no_outs];
  rewrite ?used_of_store_ne, ?lookup_store_ne, ?lookup_remove_ne by assumption;
  (split; [split; [apply Hc|reflexivity]|]); rewrite ?Hn1; split; reflexivity.
Qed.

Lemma tftp_own i (a b : sys tftp_shared unit) x :
  eqv tftp_shared unit _ i (tftp_view i) a b ->
  eqv tftp_shared unit _ i (tftp_view i) (fst (tftp_step a i x)) (fst (tftp_step b i x)) /\
  on_conn i (fst (snd (tftp_step a i x))) = on_conn i (fst (snd (tftp_step b i x))) /\
  on_conn i (snd (snd (tftp_step a i x))) = on_conn i (snd (snd (tftp_step b i x))).
Proof.
  intros [_ Hv]. unfold tftp_view in Hv. inversion Hv as [[Hu Hb]]. clear Hv.
  assert (Hc : forall (f g : N -> unit), f i = g i) by (intros f g; destruct (f i), (g i); reflexivity).
  assert (Hsame : eqv tftp_shared unit _ i (tftp_view i) a b).
  { split; [apply Hc|unfold tftp_view; now rewrite Hu, Hb]. }
  unfold tftp_step. destruct x as [|t arg pick|]; cbv zeta; cbn [fst snd];
    try (split; [exact Hsame|split; reflexivity]).
  rewrite Hu.
  destruct (BURST <=? used_of (shared b) (ip_of i)); cbn [fst snd];
    [split; [exact Hsame|split; reflexivity]|].
  cbn [t_bufs t_used]. rewrite Hb.
  unfold eqv, tftp_view.
  repeat match goal with
  | |- context [if ?c then _ else _] => destruct c
  | |- context [match lookup i ?l with _ => _ end] => destruct (lookup i l) as [[? ?]|] eqn:?
  end; cbn [fst snd shared conns t_bufs t_used no_outs];
  rewrite ?used_of_store_same, ?lookup_store_same, ?lookup_remove_same;
  repeat match goal with H : lookup _ _ = _ |- _ => rewrite H end;
  (split; [split; [apply Hc|reflexivity]|]); split; reflexivity.
Qed.

Theorem tftp_frame : forall i tr,
  Forall (fun p : N * input => fst p = i \/ ip_of (fst p) <> ip_of i) tr ->
  obs i (run_outs tftp_step tftp_s0 tt tr) = obs i (run_outs tftp_step tftp_s0 tt (own i tr)).
Proof.
  intros i tr H. unfold run_outs.
  apply (frame tftp_shared unit _ tftp_step i (tftp_view i) (fun j _ => ip_of j <> ip_of i)).
  - intros a j x Hne Hip. apply tftp_others; assumption.
  - intros a b x Hab. apply tftp_own; exact Hab.
  - split; reflexivity.
  - exact H.
Qed.

(* ---------- ftp: what is isolated (the replies, as long as the other sessions do not
   change directory) ---------- *)
Definition keeps_directory (x : input) : Prop :=
  match x with Tok t _ _ => t <> 4 /\ t <> 5 | _ => True end.

Lemma ftp_cmd_cwd_only s1 s2 c t a :
  f_cwd s1 = f_cwd s2 ->
  snd (fst (ftp_cmd s1 c t a)) = snd (fst (ftp_cmd s2 c t a)) /\
  snd (ftp_cmd s1 c t a) = snd (ftp_cmd s2 c t a) /\
  f_cwd (fst (fst (ftp_cmd s1 c t a))) = f_cwd (fst (fst (ftp_cmd s2 c t a))).
Proof.
  intros H. unfold ftp_cmd. rewrite H.
  repeat match goal with
  | |- context [if ?c then _ else _] => destruct c
  | |- context [match change_dir ?p ?q with _ => _ end] => destruct (change_dir p q)
  end; cbn [fst snd f_cwd]; auto.
Qed.

Lemma ftp_cmd_keeps s c t a : t <> 4 -> t <> 5 -> f_cwd (fst (fst (ftp_cmd s c t a))) = f_cwd s.
Proof.
  intros H4 H5. unfold ftp_cmd.
  destruct (N.eqb_spec t 4); [contradiction|]. destruct (N.eqb_spec t 5); [contradiction|].
  cbn [orb].
  repeat match goal with
  | |- context [if ?c then _ else _] => destruct c
  end; reflexivity.
Qed.

Definition ftp_quiet := erase_events ftp_step.

Lemma ftp_others i (a : sys ftp_shared ftp_conn) j x : j <> i -> keeps_directory x ->
  eqv _ _ _ i f_cwd (fst (ftp_quiet a j x)) a /\
  on_conn i (fst (snd (ftp_quiet a j x))) = [] /\ on_conn i (snd (snd (ftp_quiet a j x))) = [].
Proof.
  intros Hne Hk. assert (Hne' : i <> j) by congruence.
  unfold ftp_quiet, erase_events, ftp_step. destruct x as [|t arg pick|].
  - destruct (fc_ph (conns a j) =? PH_NONE); cbn [fst snd shared conns f_cwd].
    + split; [split; [apply upd_other; exact Hne'|reflexivity]|].
      split; [|reflexivity]. unfold on_conn. cbn [filter fst].
      destruct (N.eqb_spec j i); [contradiction|reflexivity].
    + split; [split; reflexivity|split; reflexivity].
  - destruct (negb (fc_ph (conns a j) =? PH_LIVE)); [split; [split; reflexivity|split; reflexivity]|].
    destruct Hk as [H4 H5]. pose proof (ftp_cmd_keeps (shared a) (conns a j) t arg H4 H5) as Hc.
    destruct (ftp_cmd (shared a) (conns a j) t arg) as [[s' c'] rs]. cbn [fst snd] in *.
    split; [split; [apply upd_other; exact Hne'|exact Hc]|].
    split; [apply on_conn_pair_ne; exact Hne|reflexivity].
  - destruct (fc_ph (conns a j) =? PH_LIVE); cbn [fst snd shared conns].
    + split; [split; [apply upd_other; exact Hne'|reflexivity]|split; reflexivity].
    + split; [split; reflexivity|split; reflexivity].
Qed.

Lemma ftp_own i (a b : sys ftp_shared ftp_conn) x : eqv _ _ _ i f_cwd a b ->
  eqv _ _ _ i f_cwd (fst (ftp_quiet a i x)) (fst (ftp_quiet b i x)) /\
  on_conn i (fst (snd (ftp_quiet a i x))) = on_conn i (fst (snd (ftp_quiet b i x))) /\
  on_conn i (snd (snd (ftp_quiet a i x))) = on_conn i (snd (snd (ftp_quiet b i x))).
Proof.
  intros [Hc Hv]. unfold ftp_quiet, erase_events, ftp_step. rewrite Hc. destruct x as [|t arg pick|].
  - destruct (fc_ph (conns b i) =? PH_NONE); cbn [fst snd shared conns f_cwd].
    + split; [split; [cbn [conns]; now rewrite !upd_same|exact Hv]|split; reflexivity].
    + split; [split; assumption|split; reflexivity].
  - destruct (negb (fc_ph (conns b i) =? PH_LIVE)); [split; [split; assumption|split; reflexivity]|].
    destruct (ftp_cmd_cwd_only (shared a) (shared b) (conns b i) t arg Hv) as (E1 & E2 & E3).
    destruct (ftp_cmd (shared a) (conns b i) t arg) as [[sa ca] ra].
    destruct (ftp_cmd (shared b) (conns b i) t arg) as [[sb cb] rb]. cbn [fst snd] in *. subst.
    split; [split; [cbn [conns]; now rewrite !upd_same|exact E3]|split; reflexivity].
  - destruct (fc_ph (conns b i) =? PH_LIVE); cbn [fst snd shared conns].
    + split; [split; [cbn [conns]; now rewrite !upd_same|exact Hv]|split; reflexivity].
    + split; [split; assumption|split; reflexivity].
Qed.

Theorem ftp_replies_frame : forall i tr,
  Forall (fun p : N * input => fst p = i \/ keeps_directory (snd p)) tr ->
  replies_on i (run_outs ftp_quiet ftp_s0 ftp_c0 tr) = replies_on i (run_outs ftp_quiet ftp_s0 ftp_c0 (own i tr)).
Proof.
  intros i tr H. unfold run_outs.
  pose proof (frame ftp_shared ftp_conn _ ftp_quiet i f_cwd (fun _ x => keeps_directory x)) as F.
  specialize (F (fun a j x Hne Hk => ftp_others i a j x Hne Hk) (fun a b x Hab => ftp_own i a b x Hab)).
  specialize (F tr (mkSys ftp_s0 (fun _ => ftp_c0)) (mkSys ftp_s0 (fun _ => ftp_c0)) (conj eq_refl eq_refl) H).
  exact (f_equal fst F).
Qed.

(* erasing the events does not change the replies *)
Lemma erase_replies {S C} (step : sys S C -> N -> input -> sys S C * outs) i : forall tr st,
  replies_on i (snd (run (erase_events step) st tr)) = replies_on i (snd (run step st tr)).
Proof.
  induction tr as [|[j x] r IH]; intros st; [reflexivity|].
  rewrite !run_cons. unfold replies_on in *. cbn [flat_map].
  unfold erase_events at 1 3. destruct (step st j x) as [st' o]. cbn [fst snd]. now rewrite IH.
Qed.

Theorem ftp_replies_isolated : forall i tr,
  Forall (fun p : N * input => fst p = i \/ keeps_directory (snd p)) tr ->
  replies_on i (run_outs ftp_step ftp_s0 ftp_c0 tr) = replies_on i (run_outs ftp_step ftp_s0 ftp_c0 (own i tr)).
Proof.
  intros i tr H. unfold run_outs.
  rewrite <- (erase_replies ftp_step i tr), <- (erase_replies ftp_step i (own i tr)).
  apply ftp_replies_frame; exact H.
Qed.

(* ---------- smtp: the replies never depend on other connections ---------- *)
Definition smtp_quiet := erase_events smtp_step.

Lemma erase_fst {S C} (step : sys S C -> N -> input -> sys S C * outs) a j x :
  fst (erase_events step a j x) = fst (step a j x).
Proof. unfold erase_events. destruct (step a j x); reflexivity. Qed.
Lemma erase_snd {S C} (step : sys S C -> N -> input -> sys S C * outs) a j x :
  snd (erase_events step a j x) = (fst (snd (step a j x)), []).
Proof. unfold erase_events. destruct (step a j x); reflexivity. Qed.

Lemma smtp_step_others i (a : sys (list N) N) j x : j <> i ->
  conns (fst (smtp_step a j x)) i = conns a i /\ on_conn i (fst (snd (smtp_step a j x))) = [].
Proof.
  intros Hne. assert (Hne' : i <> j) by congruence.
  assert (Hn1 : forall A (y : A), on_conn i [(j, y)] = []).
  { intros A y. unfold on_conn. cbn [filter fst]. destruct (N.eqb_spec j i); [contradiction|reflexivity]. }
  unfold smtp_step. destruct x as [|t arg pick|].
  - destruct (conns a j =? 0); cbn [fst snd conns]; [|split; reflexivity].
    split; [apply upd_other; exact Hne'|apply Hn1].
  - destruct ((conns a j =? 0) || (conns a j =? 5)); [split; reflexivity|].
    destruct (conns a j =? 4).
    + destruct (t =? 5); cbn [fst snd conns]; [|split; reflexivity].
      split; [apply upd_other; exact Hne'|apply Hn1].
    + destruct (t =? 5); [split; reflexivity|].
      destruct (smtp_line (conns a j) t) as [stt' rs]. cbn [fst snd conns].
      split; [apply upd_other; exact Hne'|apply on_conn_pair_ne; exact Hne].
  - destruct ((1 <=? conns a j) && (conns a j <=? 4)); cbn [fst snd conns]; [|split; reflexivity].
    split; [apply upd_other; exact Hne'|reflexivity].
Qed.

Lemma smtp_step_own i (a b : sys (list N) N) x : conns a i = conns b i ->
  conns (fst (smtp_step a i x)) i = conns (fst (smtp_step b i x)) i /\
  on_conn i (fst (snd (smtp_step a i x))) = on_conn i (fst (snd (smtp_step b i x))).
Proof.
  intros Hc. unfold smtp_step. rewrite Hc. destruct x as [|t arg pick|].
  - destruct (conns b i =? 0); cbn [fst snd conns]; [|split; [exact Hc|reflexivity]].
    split; [now rewrite !upd_same|reflexivity].
  - destruct ((conns b i =? 0) || (conns b i =? 5)); [split; [exact Hc|reflexivity]|].
    destruct (conns b i =? 4).
    + destruct (t =? 5); cbn [fst snd conns]; [|split; [exact Hc|reflexivity]].
      split; [now rewrite !upd_same|reflexivity].
    + destruct (t =? 5); [split; [exact Hc|reflexivity]|].
      destruct (smtp_line (conns b i) t) as [stt' rs]. cbn [fst snd conns].
      split; [now rewrite !upd_same|reflexivity].
  - destruct ((1 <=? conns b i) && (conns b i <=? 4)); cbn [fst snd conns]; [|split; [exact Hc|reflexivity]].
    split; [now rewrite !upd_same|reflexivity].
Qed.

Lemma smtp_others i (a : sys (list N) N) j x : j <> i ->
  eqv _ _ unit i (fun _ => tt) (fst (smtp_quiet a j x)) a /\
  on_conn i (fst (snd (smtp_quiet a j x))) = [] /\ on_conn i (snd (snd (smtp_quiet a j x))) = [].
Proof.
  intros Hne. unfold smtp_quiet. rewrite erase_fst, erase_snd. cbn [fst snd].
  destruct (smtp_step_others i a j x Hne) as [H1 H2].
  split; [split; [exact H1|reflexivity]|split; [exact H2|reflexivity]].
Qed.

Lemma smtp_own i (a b : sys (list N) N) x : eqv _ _ unit i (fun _ => tt) a b ->
  eqv _ _ unit i (fun _ => tt) (fst (smtp_quiet a i x)) (fst (smtp_quiet b i x)) /\
  on_conn i (fst (snd (smtp_quiet a i x))) = on_conn i (fst (snd (smtp_quiet b i x))) /\
  on_conn i (snd (snd (smtp_quiet a i x))) = on_conn i (snd (snd (smtp_quiet b i x))).
Proof.
  intros [Hc _]. unfold smtp_quiet. rewrite !erase_fst, !erase_snd. cbn [fst snd].
  destruct (smtp_step_own i a b x Hc) as [H1 H2].
  split; [split; [exact H1|reflexivity]|split; [exact H2|reflexivity]].
Qed.

Theorem smtp_replies_isolated : forall i tr,
  replies_on i (run_outs smtp_step [] 0 tr) = replies_on i (run_outs smtp_step [] 0 (own i tr)).
Proof.
  intros i tr. unfold run_outs.
  rewrite <- (erase_replies smtp_step i tr), <- (erase_replies smtp_step i (own i tr)).
  pose proof (frame (list N) N unit smtp_quiet i (fun _ => tt) (fun _ _ => True)) as F.
  specialize (F (fun a j x Hne _ => smtp_others i a j x Hne) (fun a b x Hab => smtp_own i a b x Hab)).
  specialize (F tr (mkSys [] (fun _ => 0)) (mkSys [] (fun _ => 0)) (conj eq_refl eq_refl)).
  assert (Hall : Forall (fun p : N * input => fst p = i \/ True) tr) by (apply Forall_forall; intros; right; exact I).
  specialize (F Hall). exact (f_equal fst F).
Qed.

(* ---------- sequential histories ---------- *)
Theorem local_history_irrelevant : forall C (lstep : C -> input -> C * list reply * list ev) c0 i h p,
  Forall (fun q : N * input => fst q <> i) h -> Forall (fun q : N * input => fst q = i) p ->
  obs i (run_outs (lift lstep) tt c0 (h ++ p)) = obs i (run_outs (lift lstep) tt c0 p).
Proof.
  intros C lstep c0 i h p Hh Hp.
  rewrite local_frame, own_app, (own_none i h Hh), (own_all i p Hp). reflexivity.
Qed.

Theorem tftp_history_irrelevant : forall i h p,
  Forall (fun q : N * input => ip_of (fst q) <> ip_of i) h -> Forall (fun q : N * input => fst q = i) p ->
  obs i (run_outs tftp_step tftp_s0 tt (h ++ p)) = obs i (run_outs tftp_step tftp_s0 tt p).
Proof.
  intros i h p Hh Hp.
  assert (Hne : Forall (fun q : N * input => fst q <> i) h).
  { eapply Forall_impl; [|exact Hh]. intros q Hq E. apply Hq. now rewrite E. }
  rewrite tftp_frame, own_app, (own_none i h Hne), (own_all i p Hp); [reflexivity|].
  apply Forall_app. split.
  - eapply Forall_impl; [|exact Hh]. intros q Hq. right. exact Hq.
  - eapply Forall_impl; [|exact Hp]. intros q Hq. left. exact Hq.
Qed.

(* ---------- the full statement fails for ldap, ftp, smtp: witnesses ---------- *)
(* "step k of the scenario was taken by connection a, and one of its replies / events
   went to / carries connection b" *)
Definition reply_elsewhere (os : list outs) (tr : list (N * input)) (k : nat) (a b : N) : Prop :=
  exists x o r, nth_error tr k = Some (a, x) /\ nth_error os k = Some o /\ In (b, r) (fst o) /\ r <> CLOSED /\ a <> b.
Definition event_elsewhere (os : list outs) (tr : list (N * input)) (k : nat) (a b : N) : Prop :=
  exists x o e, nth_error tr k = Some (a, x) /\ nth_error os k = Some o /\ In (b, e) (snd o) /\ a <> b.

(* every scheduling choice named in the scenario is one the code can make: the chosen pump
   belongs to a connection accepted earlier in the scenario *)
Fixpoint picks_possible (opened : list N) (tr : list (N * input)) : bool :=
  match tr with
  | [] => true
  | (i, Open) :: r => picks_possible (i :: opened) r
  | (_, Tok _ _ p) :: r => memN p opened && picks_possible opened r
  | (_, Close) :: r => picks_possible opened r
  end.

Definition ldap_w1 : list (N * input) := [(17, Open); (17, Tok 1 1 17); (34, Open); (17, Tok 4 2 17)].

Lemma ldap_crosstalk : reply_elsewhere (run_outs ldap_step ldap_s0 ldap_g0 ldap_w1) ldap_w1 3 17 34.
Proof.
  exists (Tok 4 2 17), ([(34, 2011053)], [(17, mkEv 4 2)]), 2011053.
  repeat split; try (vm_compute; reflexivity); try (left; reflexivity); discriminate.
Qed.

(* the other connection does nothing but connect; the bound session is treated as anonymous
   and its own connection receives no answer *)
Lemma ldap_login_reset :
  own 34 ldap_w1 = [(34, Open)] /\
  replies_on 17 (run_outs ldap_step ldap_s0 ldap_g0 ldap_w1) = [1001000] /\
  replies_on 17 (run_outs ldap_step ldap_s0 ldap_g0 (own 17 ldap_w1)) = [1001000; 2011000] /\
  replies_on 34 (run_outs ldap_step ldap_s0 ldap_g0 ldap_w1) = [2011053].
Proof. repeat split; vm_compute; reflexivity. Qed.

Definition ftp_w1 : list (N * input) :=
  [(17, Open); (17, Tok 1 1 17); (17, Close); (34, Open); (34, Tok 6 0 17)].

Lemma ftp_misattribution :
  picks_possible [] ftp_w1 = true /\
  event_elsewhere (run_outs ftp_step ftp_s0 ftp_c0 ftp_w1) ftp_w1 4 34 17.
Proof.
  split; [vm_compute; reflexivity|].
  exists (Tok 6 0 17), ([(34, 200000)], [(17, mkEv 1 96)]), (mkEv 1 96).
  repeat split; try (vm_compute; reflexivity); try (left; reflexivity); discriminate.
Qed.

Definition ftp_w2 : list (N * input) :=
  [(17, Open); (17, Tok 1 1 17); (17, Tok 2 1 17); (34, Open); (34, Tok 1 1 34); (34, Tok 2 1 34);
   (17, Tok 4 1 17); (34, Tok 3 0 34)].

Lemma ftp_shared_cwd :
  replies_on 34 (run_outs ftp_step ftp_s0 ftp_c0 ftp_w2) = [220000; 331000; 230000; 257001] /\
  replies_on 34 (run_outs ftp_step ftp_s0 ftp_c0 (own 34 ftp_w2)) = [220000; 331000; 230000; 257000].
Proof. split; vm_compute; reflexivity. Qed.

(* the working directory of a session that has ended is where the next session starts *)
Definition ftp_w3 : list (N * input) :=
  [(17, Open); (17, Tok 1 1 17); (17, Tok 2 1 17); (17, Tok 4 8 17); (17, Tok 8 0 17);
   (34, Open); (34, Tok 1 1 34); (34, Tok 2 1 34); (34, Tok 3 0 34)].
Lemma ftp_cwd_survives_session :
  replies_on 34 (run_outs ftp_step ftp_s0 ftp_c0 ftp_w3) = [220000; 331000; 230000; 257003] /\
  replies_on 34 (run_outs ftp_step ftp_s0 ftp_c0 (own 34 ftp_w3)) = [220000; 331000; 230000; 257000].
Proof. split; vm_compute; reflexivity. Qed.

Definition smtp_w1 : list (N * input) :=
  [(17, Open); (17, Tok 1 0 17); (17, Tok 8 0 17); (34, Open); (34, Tok 1 0 34); (34, Tok 2 0 34);
   (34, Tok 4 0 34); (34, Tok 5 8 17)].

(* the mail of connection 34 is reported under the address of connection 17, which has
   already said QUIT and been closed *)
Lemma smtp_misattribution :
  picks_possible [] smtp_w1 = true /\
  conns (fst (run smtp_step (mkSys [] (fun _ => 0)) smtp_w1)) 17 = 5 /\
  event_elsewhere (run_outs smtp_step [] 0 smtp_w1) smtp_w1 7 34 17.
Proof.
  split; [vm_compute; reflexivity|]. split; [vm_compute; reflexivity|].
  exists (Tok 5 8 17), ([(34, 250000)], [(17, mkEv 2 8)]), (mkEv 2 8).
  repeat split; try (vm_compute; reflexivity); try (left; reflexivity); discriminate.
Qed.

(* the hypothesis of tftp_frame is needed: two clients behind one IP share the limiter *)
Definition tftp_w1 : list (N * input) :=
  [(32, Tok 1 1 0); (32, Tok 1 1 0); (32, Tok 1 1 0); (32, Tok 1 1 0); (33, Tok 1 2 0)].
Lemma tftp_same_ip_shares_limiter :
  ip_of 32 = ip_of 33 /\
  obs 33 (run_outs tftp_step tftp_s0 tt tftp_w1) = ([], []) /\
  obs 33 (run_outs tftp_step tftp_s0 tt (own 33 tftp_w1)) = ([5001], [mkEv 1 2]).
Proof. repeat split; vm_compute; reflexivity. Qed.

(* ---------- replies never go to another client (ftp, smtp, tftp); smtp input-line events
   and all tftp events carry the stepping connection ---------- *)
Section StepProperty.
  Variables S C : Type.
  Variable step : sys S C -> N -> input -> sys S C * outs.
  Variable P : N -> outs -> Prop.
  Hypothesis step_P : forall st j x, P j (snd (step st j x)).
  Lemma run_steps_P : forall tr st k j x o,
    nth_error tr k = Some (j, x) -> nth_error (snd (run step st tr)) k = Some o -> P j o.
  Proof.
    induction tr as [|[j0 x0] r IH]; intros st k j x o Hk Ho.
    - destruct k; discriminate.
    - rewrite run_cons in Ho. destruct k as [|k]; cbn in Hk, Ho.
      + inversion Hk; subst. inversion Ho; subst. apply step_P.
      + eapply IH; eassumption.
  Qed.
End StepProperty.

Definition replies_own (j : N) (o : outs) : Prop := Forall (fun r : N * reply => fst r = j) (fst o).
Definition all_own (j : N) (o : outs) : Prop :=
  Forall (fun r : N * reply => fst r = j) (fst o) /\ Forall (fun e : N * ev => fst e = j) (snd o).
Definition smtp_own_outs (j : N) (o : outs) : Prop :=
  Forall (fun r : N * reply => fst r = j) (fst o) /\
  Forall (fun e : N * ev => e_type (snd e) = 1 -> fst e = j) (snd o).

Lemma Forall_map_pair {A} j (l : list A) : Forall (fun r : N * A => fst r = j) (map (pair j) l).
Proof. apply Forall_forall. intros p Hp. apply in_map_iff in Hp. destruct Hp as (y & <- & _). reflexivity. Qed.

Lemma ftp_step_replies_own st j x : replies_own j (snd (ftp_step st j x)).
Proof.
  unfold replies_own, ftp_step. destruct x as [|t a pick|].
  - destruct (fc_ph (conns st j) =? PH_NONE); cbn [fst snd no_outs]; repeat constructor.
  - destruct (negb (fc_ph (conns st j) =? PH_LIVE)); [constructor|].
    destruct (ftp_cmd (shared st) (conns st j) t a) as [[s' c'] rs]. cbn [fst snd]. apply Forall_map_pair.
  - destruct (fc_ph (conns st j) =? PH_LIVE); constructor.
Qed.

Lemma smtp_step_own_outs st j x : smtp_own_outs j (snd (smtp_step st j x)).
Proof.
  unfold smtp_own_outs, smtp_step. destruct x as [|t a pick|].
  - destruct (conns st j =? 0); cbn [fst snd no_outs]; split; repeat constructor.
  - destruct ((conns st j =? 0) || (conns st j =? 5)); [split; constructor|].
    destruct (conns st j =? 4).
    + destruct (t =? 5); cbn [fst snd no_outs]; split; repeat constructor.
      cbn [snd e_type]. discriminate.
    + destruct (t =? 5); [split; constructor|].
      destruct (smtp_line (conns st j) t) as [stt' rs]. cbn [fst snd].
      split; [apply Forall_map_pair|repeat constructor].
  - destruct ((1 <=? conns st j) && (conns st j <=? 4)); split; constructor.
Qed.

Lemma tftp_step_all_own st j x : all_own j (snd (tftp_step st j x)).
Proof.
  unfold all_own, tftp_step. destruct x as [|t a pick|]; try (split; constructor).
  cbv zeta.
  repeat match goal with
  | |- context [if ?c then _ else _] => destruct c
  | |- context [match lookup j ?l with _ => _ end] => destruct (lookup j l) as [[? ?]|]
  end; cbn [fst snd no_outs]; split; repeat constructor.
Qed.

Theorem ftp_replies_never_elsewhere : forall tr st k j x o,
  nth_error tr k = Some (j, x) -> nth_error (snd (run ftp_step st tr)) k = Some o -> replies_own j o.
Proof. exact (run_steps_P _ _ ftp_step replies_own ftp_step_replies_own). Qed.

Theorem smtp_replies_and_line_events_own : forall tr st k j x o,
  nth_error tr k = Some (j, x) -> nth_error (snd (run smtp_step st tr)) k = Some o -> smtp_own_outs j o.
Proof. exact (run_steps_P _ _ smtp_step smtp_own_outs smtp_step_own_outs). Qed.

Theorem tftp_outputs_own : forall tr st k j x o,
  nth_error tr k = Some (j, x) -> nth_error (snd (run tftp_step st tr)) k = Some o -> all_own j o.
Proof. exact (run_steps_P _ _ tftp_step all_own tftp_step_all_own). Qed.
