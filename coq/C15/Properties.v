(* C15 - property theorems: proxy services relay unchanged to the configured backend. *)
From HT Require Import Common.Bytes C15.Model C15.Proofs.
From Coq Require Import Permutation.
Open Scope Z_scope.

(* ---- the forward director ---- *)

(* every Dial goes to the configured backend: its host, and its port - the connection's
   own port only when the configured value has none; never anything else *)
Theorem C15_dial_only_backend : forall cfg k lport h po,
  spec_backend cfg = Some (h, po) -> k <> LOther -> (lport <= 65535)%N ->
  dial_model cfg k lport = DAddr k h (match po with Some n => n | None => lport end).
Proof. exact dial_only_backend. Qed.

(* whatever the configured value (even malformed): host and port handed to net.Dial are
   pieces of that value, or the value itself with the connection's local port; nothing
   the client sends or is can enter the address *)
Theorem C15_dial_address_from_config : forall cfg k lport k' h p,
  dial_target cfg k lport = Some (k', h, p) ->
  k' = k /\ ((h = cfg /\ p = dec lport) \/
             ((exists pre post, cfg = pre ++ h ++ post) /\ (exists pre, cfg = pre ++ p))).
Proof. exact dial_host_from_config. Qed.

Theorem C15_dial_unsupported_local_address : forall cfg lport, dial_model cfg LOther lport = DUnsupported.
Proof. exact dial_unsupported. Qed.

(* ---- http-proxy ---- *)

(* Requests that never share a write (lock-step clients, and clients that pipeline but
   write each request separately): for ALL segmentations of every request on the client
   leg and of every reply on the backend leg, the backend receives every request, the
   client every reply, in order, each exactly once (modulo the re-serialisation contract
   below), and Handle ends cleanly when the client closes. *)
Theorem C15_http_lockstep_relay : forall exs,
  exs_ok 0 exs ->
  exists s, run (flat_map items_of exs) (st0 (map x_rsegs exs)) = (s, EEof) /\
    rev (s_fwd s) = map (fun e => reser_req (x_req e)) exs /\
    rev (s_del s) = map (fun e => reser_resp (x_resp e)) exs /\
    s_recvd s = N.of_nat (length exs) /\ s_written s = N.of_nat (length exs) /\ s_broken s = false.
Proof. exact relay_aligned. Qed.

(* the hypotheses of the theorem hold of the concrete framing: a length-framed request /
   a length-framed or bodiless reply that parses as exactly itself is self-delimiting *)
Theorem C15_http_framing_self_delimiting_req : forall msg m,
  frame_req msg = QComplete (length msg) m -> r_chunked m = false -> sd_req msg m.
Proof. exact frame_req_sd. Qed.

Theorem C15_http_framing_self_delimiting_resp : forall h raw p,
  frame_resp h raw = PComplete (length raw) p ->
  (p_chunked p = false \/ h = true \/ no_body_status (p_status p) = true) -> sd_resp h raw p.
Proof. exact frame_resp_sd. Qed.

(* re-serialisation by net/http, as modelled: method, target, host, body and transfer
   coding unchanged; the header fields are a permutation of the client's - after the
   User-Agent rule (see C15_http_user_agent_refuted) and the Pragma rule (pragma_fix) *)
Theorem C15_http_reserialisation_contract : forall m,
  let m' := reser_req m in
  r_method m' = r_method m /\ r_target m' = r_target m /\ r_host m' = r_host m /\
  r_chunked m' = r_chunked m /\ r_body m' = r_body m /\
  Permutation (r_headers m') (ua_fix (pragma_fix (r_headers m))).
Proof. exact reser_req_contract. Qed.

(* a request with a non-empty User-Agent and without a lone "Pragma" keeps exactly its fields *)
Theorem C15_http_request_headers_kept : forall m v,
  hget S_UA (r_headers m) = Some v -> v <> [] ->
  hget S_PRAGMA (r_headers m) = None \/ hget S_CC (r_headers m) <> None ->
  Permutation (r_headers (reser_req m)) (r_headers m).
Proof. exact reser_req_same_headers. Qed.

(* ... and the permutation is order-preserving among fields of the same name (repeated
   Cookie / Set-Cookie / X-Forwarded-For lines keep their order): [named n h] = field h has name n *)
Theorem C15_http_repeated_fields_keep_order : forall n l,
  filter (named n) (sort_headers l) = filter (named n) l.
Proof. exact sort_headers_stable. Qed.

Theorem C15_http_reply_contract : forall p,
  let p' := reser_resp p in
  p_status p' = p_status p /\ p_chunked p' = p_chunked p /\ p_body p' = p_body p /\
  Permutation (p_headers p') (pragma_fix (p_headers p)).
Proof. exact reser_resp_contract. Qed.

(* defects of the unchanged code (the model is faithful to them) *)
Theorem C15_http_pipelined_refuted :
  exists a b ma mb reply p,
    sd_req a ma /\ sd_req b mb /\ sd_resp false reply p /\
    exists s, run [ISeg (a ++ b); IWait 2%N] (st0 [[reply]; [reply]]) = (s, EGaveUp) /\
              rev (s_fwd s) = [reser_req ma] /\ s_recvd s = 1%N.
Proof. exact pipelined_refuted. Qed.

(* the defect in general: whatever follows a (length-framed) request in the same write -
   a second request, part of one, anything - is read into the reader's buffer and dropped
   with it: the run is the same as if the write had ended with the request *)
Theorem C15_http_readahead_dropped : forall msg m x rest s,
  frame_req msg = QComplete (length msg) m -> r_chunked m = false -> s_buf s = [] ->
  run (ISeg (msg ++ x) :: rest) s = run (ISeg msg :: rest) s.
Proof. exact readahead_dropped_eq. Qed.

Theorem C15_http_user_agent_refuted :
  exists msg m, sd_req msg m /\ hget S_UA (r_headers m) = None /\
                hget S_UA (r_headers (reser_req m)) = Some S_GOUA.
Proof. exact user_agent_refuted. Qed.

Theorem C15_http_head_chunked_refuted :
  exists a b ma mb r1 p1 r2 p2,
    sd_req a ma /\ sd_req b mb /\ sd_resp true r1 p1 /\ sd_resp false r2 p2 /\
    exists s, run [ISeg a; IWait 1%N; ISeg b; IWait 2%N] (st0 [[r1]; [r2]]) = (s, EGaveUp) /\
              s_broken s = true /\ length (s_fwd s) = 2%nat /\ s_written s = 2%N /\ length (s_del s) = 1%nat.
Proof. exact head_chunked_refuted. Qed.

(* ---- copy, dns-proxy ---- *)

(* what the server hands to Handle is always its timeout wrapper: the type switch takes
   the default branch and nothing is relayed - for every connection and payload *)
Theorem C15_copy_behind_server_relays_nothing : forall peeked accepted segs reply,
  copy_model (server_wrap peeked accepted) segs reply = raw_nothing.
Proof. exact copy_behind_server. Qed.

Theorem C15_dns_behind_server_relays_nothing : forall peeked accepted d parses reply,
  dns_model (server_wrap peeked accepted) d parses reply = raw_nothing.
Proof. exact dns_behind_server. Qed.

Theorem C15_copy_relays_refuted :
  exists segs reply, concat segs <> [] /\
    w_backend (copy_model (server_wrap false KTcpConn) segs reply) = [] /\
    w_backend (copy_model (server_wrap false KDummyUdp) segs reply) = [].
Proof. exact copy_relays_refuted. Qed.

Theorem C15_dns_relays_refuted :
  exists d reply, d <> [] /\ w_backend (dns_model (server_wrap false KDummyUdp) d true (Some reply)) = [].
Proof. exact dns_relays_refuted. Qed.

(* outside the defect: given the accepted connection itself, both directions are
   relayed unchanged over one backend connection, with one event *)
Theorem C15_copy_unwrapped_relays : forall k segs reply, k = KTcpConn \/ k = KDummyUdp ->
  copy_model k segs reply = mkRaw 1 segs reply 1.
Proof. exact copy_bare. Qed.

Theorem C15_dns_unwrapped_relays : forall d reply,
  dns_model KDummyUdp d true (Some reply) = mkRaw 1 [d] [reply] 1.
Proof. exact dns_bare. Qed.

(* ---- ssh-proxy (message level) ---- *)

(* credentials reach the backend as presented, attempt by attempt, up to and including
   the first one the backend accepts *)
Theorem C15_ssh_auth_forwarded_as_presented : forall accepts attempts,
  let '(tried, ok) := auth_run accepts attempts in
  exists rest, attempts = tried ++ rest /\
    if ok then exists pre c, tried = pre ++ [c] /\ accepts c = true /\ Forall (fun x => accepts x = false) pre
    else rest = [] /\ Forall (fun x => accepts x = false) tried.
Proof. exact auth_run_spec. Qed.

(* for every interleaving of the request-relaying and the data-relaying goroutine: the
   backend receives the channel requests in order and unchanged, the data stream in order
   and unchanged, and nothing is lost or duplicated *)
Theorem C15_ssh_relay_order : forall msgs sched,
  reqs_of (ssh_relay msgs sched) = reqs_of msgs /\
  data_of (ssh_relay msgs sched) = data_of msgs /\
  Permutation (ssh_relay msgs sched) msgs.
Proof. exact ssh_relay_order. Qed.

(* but the order between a request and the data around it is not kept *)
Theorem C15_ssh_cross_order_refuted : exists msgs sched, ssh_relay msgs sched <> msgs.
Proof. exact ssh_cross_order_refuted. Qed.

(* closing a channel: whichever goroutine wins, what the other side receives is a prefix of
   what was sent (nothing altered or reordered); complete when the copier is not pre-empted;
   but the closing goroutine can pre-empt it (defect: truncated output) *)
Theorem C15_ssh_early_close_delivers_prefix : forall chunks sched,
  exists rest, concat chunks = relay_until_close chunks sched ++ rest.
Proof. exact relay_until_close_prefix. Qed.

Theorem C15_ssh_no_early_close_delivers_all : forall chunks sched,
  (length chunks <= length sched)%nat -> Forall (fun b => b = true) sched ->
  relay_until_close chunks sched = concat chunks.
Proof. exact relay_until_close_complete. Qed.

Theorem C15_ssh_early_close_refuted : exists chunks sched, relay_until_close chunks sched <> concat chunks.
Proof. exact early_close_refuted. Qed.

(* non-vacuity *)
Example C15_lockstep_hypotheses_satisfiable : exs_ok 0 EXS.
Proof. exact exs_example_ok. Qed.

Example C15_pipelined_one_write_each_is_relayed :
  exists s, run [ISeg W_REQ_A; ISeg W_REQ_B; IWait 2%N] (st0 [[W_REPLY]; [W_REPLY]]) = (s, EEof) /\
            rev (s_fwd s) = [reser_req (parsed_req W_REQ_A); reser_req (parsed_req W_REQ_B)] /\ s_recvd s = 2%N.
Proof. exact pipelined_aligned_example. Qed.

Example C15_dial_examples :
  dial_model [49;50;55;46;48;46;48;46;49;58;56;48]%N LTcp 22 = DAddr LTcp [49;50;55;46;48;46;48;46;49]%N 80 /\
  dial_model [49;50;55;46;48;46;48;46;50]%N LUdp 53 = DAddr LUdp [49;50;55;46;48;46;48;46;50]%N 53 /\
  dial_model [91;58;58;49;93;58;50;50]%N LTcp 80 = DAddr LTcp [58;58;49]%N 22 /\
  dial_model [58;58;49]%N LTcp 80 = DAddr LTcp [58;58;49]%N 80.
Proof. vm_compute. repeat split. Qed.

Print Assumptions C15_dial_only_backend.
Print Assumptions C15_dial_address_from_config.
Print Assumptions C15_dial_unsupported_local_address.
Print Assumptions C15_http_lockstep_relay.
Print Assumptions C15_http_framing_self_delimiting_req.
Print Assumptions C15_http_framing_self_delimiting_resp.
Print Assumptions C15_http_reserialisation_contract.
Print Assumptions C15_http_request_headers_kept.
Print Assumptions C15_http_reply_contract.
Print Assumptions C15_http_pipelined_refuted.
Print Assumptions C15_http_user_agent_refuted.
Print Assumptions C15_http_head_chunked_refuted.
Print Assumptions C15_copy_behind_server_relays_nothing.
Print Assumptions C15_dns_behind_server_relays_nothing.
Print Assumptions C15_copy_relays_refuted.
Print Assumptions C15_dns_relays_refuted.
Print Assumptions C15_copy_unwrapped_relays.
Print Assumptions C15_dns_unwrapped_relays.
Print Assumptions C15_ssh_auth_forwarded_as_presented.
Print Assumptions C15_ssh_relay_order.
Print Assumptions C15_ssh_cross_order_refuted.
Print Assumptions C15_ssh_early_close_delivers_prefix.
Print Assumptions C15_ssh_no_early_close_delivers_all.
Print Assumptions C15_ssh_early_close_refuted.
Print Assumptions C15_http_readahead_dropped.
Print Assumptions C15_http_repeated_fields_keep_order.
