(* C15 - property theorems: proxy services relay unchanged to the configured backend.
   The model is of the repaired code (http-proxy: one reader per leg, no added User-Agent,
   no stray CRLF after a HEAD reply; copy/dns-proxy: dispatch on the local address;
   dns-proxy: length-framed messages over a stream, every forwarded datagram recorded;
   ssh-proxy: the request goroutine closes nothing, a close waits for a reply in flight, the
   client's EOF is forwarded; copy relays until both directions have ended). *)
From HT Require Import Common.Bytes C15.Model C15.Proofs.
From Coq Require Import Permutation.
Open Scope Z_scope.

(* ---- the forward director ---- *)

(* every Dial goes to the configured backend: its host, and its port - the connection's
   own port only when the configured value has none; never anything else *)
Theorem C15_dial_only_backend : forall cfg k lport h po,
  spec_backend cfg = Some (h, po) -> k <> LOther -> (lport <= 65535)%N ->
  dial_model cfg k lport = DAddr k h (match po with Some n => n | None => lport end).
Proof. exact dial_only_backend. Qed.

(* whatever the configured value (even malformed): host and port handed to net.Dial are
   pieces of that value, or the value itself with the connection's local port; nothing
   the client sends or is can enter the address *)
Theorem C15_dial_address_from_config : forall cfg k lport k' h p,
  dial_target cfg k lport = Some (k', h, p) ->
  k' = k /\ ((h = cfg /\ p = dec lport) \/
             ((exists pre post, cfg = pre ++ h ++ post) /\ (exists pre, cfg = pre ++ p))).
Proof. exact dial_host_from_config. Qed.

(* one director shared by several services and listening ports: the target dialled for a
   connection follows from the configuration and that connection's own local address,
   whatever connections came before or come after (so with a port-less host every listening
   port reaches the backend port of its own) *)
Theorem C15_dial_shared_director_independent : forall cfg pre c post,
  nth (length pre) (dial_seq cfg (pre ++ c :: post)) DError = dial_model cfg (fst c) (snd c).
Proof. exact dial_seq_independent. Qed.

Theorem C15_dial_unsupported_local_address : forall cfg lport, dial_model cfg LOther lport = DUnsupported.
Proof. exact dial_unsupported. Qed.

(* ---- http-proxy ---- *)

(* For ALL segmentations of the client's byte stream - requests cut anywhere, several
   requests or parts of them in one write (pipelining), waits wherever the client is
   entitled to one - and ALL segmentations of every reply on the backend leg: the requests
   reaching the backend are the requests sent, the replies reaching the client are the
   replies sent, in order, each once (modulo the re-serialisation contract below), and
   Handle ends cleanly when the client closes. *)
Theorem C15_http_relay_all_segmentations : forall exs its,
  Forall ex_ok exs -> stream_of its = stream exs -> waits_ok (lens_of exs) 0 its ->
  exists s, run its (st0 (map x_rsegs exs)) = (s, EEof) /\
    rev (s_fwd s) = fwd_of exs /\ rev (s_del s) = del_of exs /\ s_recvd s = N.of_nat (length exs).
Proof. exact relay_all_segmentations. Qed.

(* every reply the backend gave for a complete request reaches the client, whole and in
   order, whatever follows those requests in the client's stream (from a write of its own
   on): more requests, a malformed one, an incomplete one, nothing ... *)
Theorem C15_http_replies_survive_failing_next_request : forall exs its tail,
  Forall ex_ok exs -> stream_of its = stream exs -> waits_ok (lens_of exs) 0 its ->
  exists more_f more_d,
    rev (s_fwd (fst (run (its ++ tail) (st0 (map x_rsegs exs))))) = fwd_of exs ++ more_f /\
    rev (s_del (fst (run (its ++ tail) (st0 (map x_rsegs exs))))) = del_of exs ++ more_d.
Proof. exact replies_survive_failing_next. Qed.

(* ... and in general, from any state and for any continuation (backend closed or answering
   garbage, client gone): what has been forwarded and delivered is only ever extended *)
Theorem C15_http_relayed_stays_relayed : forall its s,
  exists mf md, s_fwd (fst (run its s)) = mf ++ s_fwd s /\ s_del (fst (run its s)) = md ++ s_del s.
Proof. exact run_monotone. Qed.

(* once the backend has closed its connection the next request ends the relay without
   touching what the client has been sent *)
Theorem C15_http_backend_closed_ends_relay : forall f s n m,
  frame_req (s_buf s) = QComplete n m -> s_bclosed s = true -> drain (S f) s = (s, Some EBackendClosed).
Proof. exact backend_closed_keeps_replies. Qed.

(* the loop's fuel never runs out *)
Theorem C15_http_fuel_suffices : forall fuel s,
  (length (s_buf s) < fuel)%nat -> snd (drain fuel s) <> Some EFuel.
Proof. exact drain_fuel_suffices. Qed.

(* the hypotheses hold of the concrete framing: whatever follows a request that parses as
   exactly itself, it is framed the same (chunked or not); a length-framed request and a
   length-framed or bodiless reply have no complete proper prefix *)
Theorem C15_http_framing_extension_stable : forall msg m x,
  frame_req msg = QComplete (length msg) m -> frame_req (msg ++ x) = QComplete (length msg) m.
Proof. exact frame_req_extend. Qed.

Theorem C15_http_framing_self_delimiting_req : forall msg m,
  frame_req msg = QComplete (length msg) m -> r_chunked m = false -> sd_req msg m.
Proof. exact frame_req_sd. Qed.

Theorem C15_http_framing_self_delimiting_resp : forall h raw p,
  frame_resp h raw = PComplete (length raw) p ->
  (p_chunked p = false \/ h = true \/ no_body_status (p_status p) = true) -> sd_resp h raw p.
Proof. exact frame_resp_sd. Qed.

(* re-serialisation by net/http, as modelled: method, target, host, body and transfer
   coding unchanged; the header fields are a permutation of the client's after the
   parser's Pragma rule (pragma_fix) ... *)
Theorem C15_http_reserialisation_contract : forall m,
  let m' := reser_req m in
  r_method m' = r_method m /\ r_target m' = r_target m /\ r_host m' = r_host m /\
  r_chunked m' = r_chunked m /\ r_body m' = r_body m /\
  Permutation (r_headers m') (pragma_fix (r_headers m)).
Proof. exact reser_req_contract. Qed.

(* ... so a request without a lone "Pragma" keeps exactly its fields *)
Theorem C15_http_request_headers_kept : forall m,
  hget S_PRAGMA (r_headers m) = None \/ hget S_CC (r_headers m) <> None ->
  Permutation (r_headers (reser_req m)) (r_headers m).
Proof. exact reser_req_same_headers. Qed.

(* ... and the permutation is order-preserving among fields of the same name (repeated
   Cookie / Set-Cookie / X-Forwarded-For lines keep their order): [named n h] = field h has name n *)
Theorem C15_http_repeated_fields_keep_order : forall n l,
  filter (named n) (sort_headers l) = filter (named n) l.
Proof. exact sort_headers_stable. Qed.

Theorem C15_http_reply_contract : forall p,
  let p' := reser_resp p in
  p_status p' = p_status p /\ p_chunked p' = p_chunked p /\ p_body p' = p_body p /\
  Permutation (p_headers p') (pragma_fix (p_headers p)).
Proof. exact reser_resp_contract. Qed.

(* what remains a defect (net/http's parser, the model is faithful to it): a message that
   only says "Pragma: no-cache" arrives with an added "Cache-Control: no-cache" *)
Theorem C15_http_pragma_refuted :
  exists msg m, sd_req msg m /\ hget S_CC (r_headers m) = None /\
                hget S_CC (r_headers (reser_req m)) = Some S_NOCACHE.
Proof. exact pragma_refuted. Qed.

(* ---- copy, dns-proxy ---- *)

(* the dispatch looks at the connection's local address, which the server's timeout and
   peek wrappers pass through: behind them it is what it is for the accepted connection *)
Theorem C15_switch_sees_through_server_wrappers : forall peeked accepted,
  type_switch (server_wrap peeked accepted) = type_switch accepted.
Proof. exact switch_behind_server. Qed.

(* copy behind the server: a stream is relayed unchanged in both directions, a datagram is
   forwarded and one reply returned; one backend connection, one event *)
Theorem C15_copy_stream_relayed : forall peeked accepted segs reply, local_kind accepted = ATcp ->
  copy_model (server_wrap peeked accepted) segs reply = mkRaw 1 segs reply 1.
Proof. exact copy_stream_behind_server. Qed.

(* (a datagram is read until the datagram connection reports its end: whole, also on a port
   shared with a detector service, where the peek wrapper hands it out in two Reads) *)
Theorem C15_datagram_read_whole : forall k d, dgram_read k d = d.
Proof. exact dgram_read_whole. Qed.

Theorem C15_copy_datagram_relayed : forall peeked accepted d reply more, local_kind accepted = AUdp ->
  copy_model (server_wrap peeked accepted) [d] (reply :: more) = mkRaw 1 [d] [reply] 1.
Proof. exact copy_datagram_behind_server. Qed.

Example C15_long_datagram_on_shared_port :
  w_backend (copy_model (server_wrap true KDummyUdp) [repeat 7%N 1025] [[1]%N]) = [repeat 7%N 1025].
Proof. exact long_datagram_on_shared_port. Qed.

(* dns-proxy behind the server: a datagram is forwarded, its answer returned, one event -
   whether or not it unpacks as a DNS message (one that does not is recorded with its payload) *)
Theorem C15_dns_datagram_relayed : forall peeked accepted d parses reply more, local_kind accepted = AUdp ->
  dns_model (server_wrap peeked accepted) [d] parses (reply :: more) = mkRaw 1 [d] [reply] 1.
Proof. exact dns_datagram_behind_server. Qed.

(* io.ReadFull / readMsg over any segmentation: a length-framed message is read whole and
   what follows it stays *)
Theorem C15_dns_read_msg_all_segmentations : forall segs q x,
  concat segs = pfx (length q) ++ q ++ x ->
  exists rest, read_msg segs = Some (q, rest) /\ concat rest = x.
Proof. exact read_msg_framed. Qed.

(* dns-proxy over a stream behind the server (RFC 1035 4.2.2 framing): for ALL
   segmentations of a length-framed DNS query and of the length-framed answer, the backend
   receives the framed query and the client the framed answer; one backend connection,
   one event *)
Theorem C15_dns_stream_relayed : forall peeked accepted csegs bsegs q a x y, local_kind accepted = ATcp ->
  (N.of_nat (length q) < 65536)%N -> (N.of_nat (length a) < 65536)%N ->
  concat csegs = pfx (length q) ++ q ++ x -> concat bsegs = pfx (length a) ++ a ++ y ->
  dns_model (server_wrap peeked accepted) csegs true bsegs =
  mkRaw 1 [pfx (length q) ++ q] [pfx (length a) ++ a] 1.
Proof. exact dns_stream_behind_server. Qed.

(* a framed message that does not unpack, or a stream that ends inside the message: no
   backend connection is opened at all *)
Theorem C15_dns_stream_rejects_non_dns : forall peeked accepted csegs bsegs, local_kind accepted = ATcp ->
  dns_model (server_wrap peeked accepted) csegs false bsegs = raw_nothing.
Proof. exact dns_stream_rejects. Qed.

(* concurrent connections on one service object do not interfere: for every interleaving
   of the segments of any number of connections, each connection is served as if it were
   alone (no state is shared between Handle calls; the run projected to one connection is
   that connection's run) *)
Theorem C15_concurrent_connections_independent : forall l i k parses reply,
  dns_model k (arrive_all (fun _ => []) l i) parses reply = dns_model k (own i l) parses reply /\
  copy_model k (arrive_all (fun _ => []) l i) reply = copy_model k (own i l) reply.
Proof. exact concurrent_raw_no_interference. Qed.

(* ---- both directions, with half-close (copy over a stream; ssh channels) ---- *)

(* for every schedule of writes and ends of direction, and either relay policy: exactly what
   was written before the relay stops is delivered, in both directions ... *)
Theorem C15_duplex_delivers_until_stop : forall p l,
  d_up (duplex_run p l) = ups (until_stop p false false l) /\
  d_down (duplex_run p l) = downs (until_stop p false false l).
Proof. exact duplex_spec. Qed.

(* ... hence never anything but a prefix of what was written *)
Theorem C15_duplex_delivers_prefix : forall p l,
  (exists x, ups l = d_up (duplex_run p l) ++ x) /\ (exists y, downs l = d_down (duplex_run p l) ++ y).
Proof. exact duplex_prefix. Qed.

(* copy: whatever the order in which the two directions end - the client first and the
   backend answering only afterwards, late, at length; or the backend first while the client
   is still sending - everything the client wrote reaches the backend and everything the
   backend wrote reaches the client ([sched_ok]: a side writes nothing after its own end) *)
Theorem C15_copy_both_directions_complete : forall l, sched_ok false false l ->
  d_up (copy_duplex l) = ups l /\ d_down (copy_duplex l) = downs l.
Proof. exact copy_duplex_complete. Qed.

(* copy: the relay stops exactly when both directions have ended *)
Theorem C15_copy_stops_when_both_directions_ended : forall l, sched_ok false false l ->
  d_alive (copy_duplex l) = negb (existsb is_ceof l && existsb is_beof l).
Proof. exact copy_stops_when_both_ended. Qed.

(* ssh-proxy: the client's end of input is passed on as such and the session goes on until
   the backend's direction ends: everything the backend writes - also after the client's
   EOF - reaches the client ... *)
Theorem C15_ssh_backend_data_after_client_eof_delivered : forall l, sched_ok false false l ->
  d_down (ssh_duplex l) = downs l.
Proof. exact ssh_duplex_down_complete. Qed.

(* ... and the backend everything the client wrote before the backend's direction ended *)
Theorem C15_ssh_client_data_before_backend_end_delivered : forall l, c_done_before_beof l ->
  d_up (ssh_duplex l) = ups l.
Proof. exact ssh_duplex_up_complete. Qed.

(* ---- ssh-proxy (message level) ---- *)

(* credentials reach the backend as presented, attempt by attempt, up to and including
   the first one the backend accepts *)
Theorem C15_ssh_auth_forwarded_as_presented : forall accepts attempts,
  let '(tried, ok) := auth_run accepts attempts in
  exists rest, attempts = tried ++ rest /\
    if ok then exists pre c, tried = pre ++ [c] /\ accepts c = true /\ Forall (fun x => accepts x = false) pre
    else rest = [] /\ Forall (fun x => accepts x = false) tried.
Proof. exact auth_run_spec. Qed.

(* authentication dialogues of ANY length on one client connection (the initial none
   request, public-key offers - refused by the proxy itself and recorded -, passwords): as
   long as the loop has no limit on failed requests (the proxy configures -1) the backend
   is presented every password the client sends, in order, exactly once; the client is
   told the backend's verdict for each; every public-key offer is recorded; and the
   connection stays open until the client is accepted or stops by itself - from any
   count of earlier failures *)
Theorem C15_ssh_auth_relayed_all : forall max oracle user reqs fails, max <= 0 ->
  let o := auth_dialogue max oracle user fails reqs in
  let sent := client_sends oracle user reqs in
  au_saw o = creds_of user sent /\
  au_verdicts o = map (backend_verdict oracle user) sent /\
  au_pk o = pubs_of sent /\
  au_open o = true.
Proof. intros max oracle user reqs fails H. exact (auth_dialogue_relays_all max oracle user reqs H fails). Qed.

(* ... which is the value the proxy hands to x/crypto/ssh *)
Theorem C15_ssh_auth_proxy_has_no_limit : PROXY_MAX_AUTH_TRIES <= 0.
Proof. discriminate. Qed.

(* a dialogue of passwords only is the attempt-by-attempt run of the theorem above *)
Theorem C15_ssh_auth_dialogue_of_passwords : forall max oracle user pws fails, max <= 0 ->
  au_saw (auth_dialogue max oracle user fails (map APw pws)) = fst (auth_run oracle (map (pair user) pws)) /\
  existsb (fun v => match v with VOk => true | _ => false end)
          (au_verdicts (auth_dialogue max oracle user fails (map APw pws))) = snd (auth_run oracle (map (pair user) pws)).
Proof. intros max oracle user pws fails H. exact (auth_dialogue_passwords max oracle user pws H fails). Qed.

(* non-vacuity, and what the hypothesis max <= 0 buys: seven rejected passwords and then
   the accepted one on one connection - all eight reach the backend with the proxy's
   setting; with a limit of six the seventh and eighth reach nobody *)
Example C15_ssh_auth_eight_attempts :
  let reqs := ANone :: map PW [1;2;3;4;5;6;7;8]%N in
  client_sends ORACLE_LAST [114]%N reqs = reqs /\
  au_saw (auth_dialogue PROXY_MAX_AUTH_TRIES ORACLE_LAST [114]%N 0 reqs) = creds_of [114]%N reqs /\
  au_saw (auth_dialogue 6 ORACLE_LAST [114]%N 0 reqs) = creds_of [114]%N (firstn 7 reqs) /\
  au_verdicts (auth_dialogue 6 ORACLE_LAST [114]%N 0 reqs) = [VFail; VFail; VFail; VFail; VFail; VFail; VFail; VClosed; VClosed] /\
  au_open (auth_dialogue 6 ORACLE_LAST [114]%N 0 reqs) = false.
Proof. exact auth_limit_example. Qed.

(* for every interleaving of the request-relaying and the data-relaying goroutine: the
   backend receives the channel requests in order and unchanged, the data stream in order
   and unchanged, and nothing is lost or duplicated *)
Theorem C15_ssh_relay_order : forall msgs sched,
  reqs_of (ssh_relay msgs sched) = reqs_of msgs /\
  data_of (ssh_relay msgs sched) = data_of msgs /\
  Permutation (ssh_relay msgs sched) msgs.
Proof. exact ssh_relay_order. Qed.

(* the order between a request and the data around it is not kept (not part of the
   property: requests and data are two ordered streams) *)
Theorem C15_ssh_cross_order_not_kept : exists msgs sched, ssh_relay msgs sched <> msgs.
Proof. exact ssh_cross_order_refuted. Qed.

(* closing a channel: everything written before the close is delivered, for every
   interleaving of the data copier with the end of the request goroutine *)
Theorem C15_ssh_close_delivers_all : forall chunks sched,
  relay_until_close chunks sched = concat chunks.
Proof. exact relay_until_close_all. Qed.

(* non-vacuity *)
Example C15_relay_hypotheses_satisfiable :
  Forall ex_ok EXS /\ stream_of EXS_ITEMS = stream EXS /\ waits_ok (lens_of EXS) 0 EXS_ITEMS.
Proof. exact exs_example_ok. Qed.

Example C15_pipelined_in_one_write_is_relayed :
  exists s, run [ISeg (W_REQ_A ++ W_REQ_B); IWait 2%N] (st0 [[W_REPLY]; [W_REPLY]]) = (s, EEof) /\
            rev (s_fwd s) = [reser_req (parsed_req W_REQ_A); reser_req (parsed_req W_REQ_B)] /\ s_recvd s = 2%N.
Proof. exact pipelined_example. Qed.

Example C15_dial_examples :
  dial_model [49;50;55;46;48;46;48;46;49;58;56;48]%N LTcp 22 = DAddr LTcp [49;50;55;46;48;46;48;46;49]%N 80 /\
  dial_model [49;50;55;46;48;46;48;46;50]%N LUdp 53 = DAddr LUdp [49;50;55;46;48;46;48;46;50]%N 53 /\
  dial_model [91;58;58;49;93;58;50;50]%N LTcp 80 = DAddr LTcp [58;58;49]%N 22 /\
  dial_model [58;58;49]%N LTcp 80 = DAddr LTcp [58;58;49]%N 80.
Proof. vm_compute. repeat split. Qed.

Print Assumptions C15_dial_only_backend.
Print Assumptions C15_dial_address_from_config.
Print Assumptions C15_dial_unsupported_local_address.
Print Assumptions C15_http_relay_all_segmentations.
Print Assumptions C15_http_fuel_suffices.
Print Assumptions C15_http_framing_extension_stable.
Print Assumptions C15_http_framing_self_delimiting_req.
Print Assumptions C15_http_framing_self_delimiting_resp.
Print Assumptions C15_http_reserialisation_contract.
Print Assumptions C15_http_request_headers_kept.
Print Assumptions C15_http_repeated_fields_keep_order.
Print Assumptions C15_http_reply_contract.
Print Assumptions C15_http_pragma_refuted.
Print Assumptions C15_switch_sees_through_server_wrappers.
Print Assumptions C15_copy_stream_relayed.
Print Assumptions C15_copy_datagram_relayed.
Print Assumptions C15_dns_datagram_relayed.
Print Assumptions C15_dns_read_msg_all_segmentations.
Print Assumptions C15_dns_stream_relayed.
Print Assumptions C15_dns_stream_rejects_non_dns.
Print Assumptions C15_ssh_auth_forwarded_as_presented.
Print Assumptions C15_ssh_auth_relayed_all.
Print Assumptions C15_ssh_auth_proxy_has_no_limit.
Print Assumptions C15_ssh_auth_dialogue_of_passwords.
Print Assumptions C15_ssh_relay_order.
Print Assumptions C15_ssh_cross_order_not_kept.
Print Assumptions C15_ssh_close_delivers_all.
Print Assumptions C15_concurrent_connections_independent.
Print Assumptions C15_duplex_delivers_until_stop.
Print Assumptions C15_duplex_delivers_prefix.
Print Assumptions C15_copy_both_directions_complete.
Print Assumptions C15_copy_stops_when_both_directions_ended.
Print Assumptions C15_ssh_backend_data_after_client_eof_delivered.
Print Assumptions C15_ssh_client_data_before_backend_end_delivered.
Print Assumptions C15_datagram_read_whole.
Print Assumptions C15_http_replies_survive_failing_next_request.
Print Assumptions C15_http_relayed_stays_relayed.
Print Assumptions C15_http_backend_closed_ends_relay.
Print Assumptions C15_dial_shared_director_independent.
