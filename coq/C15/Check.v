(* C15 - executable checkers over observations of the implementation, one module per
   part of the harness (dial / http / raw / ssh).  Each exports case, mismatches,
   violations, tags. *)
From HT Require Import Common.Bytes C15.Model.
From Coq Require Uint63.
Open Scope Z_scope.

(* digest of a byte string: FNV-1a with 63-bit arithmetic (primitive integers: a 64 KiB
   body is digested in milliseconds).  Bodies are compared by length and digest. *)
Definition hash := Uint63.int.
Definition byte63 (x : N) : hash := Uint63.of_Z (Z.of_N x).
Definition FNV_PRIME : hash := Eval vm_compute in Uint63.of_Z 1099511628211.
Definition FNV_OFFSET : hash := Eval vm_compute in Uint63.of_Z 5472609002491880229.   (* 0xcbf29ce484222325 mod 2^63 *)
Definition fnv (l : bytes) : hash :=
  fold_left (fun h x => Uint63.mul (Uint63.lxor h (byte63 x)) FNV_PRIME) l FNV_OFFSET.
Definition eqh (a b : hash) : bool := Uint63.eqb a b.

Definition eqb_lkind (a b : lkind) : bool :=
  match a, b with LTcp, LTcp | LUdp, LUdp | LOther, LOther => true | _, _ => false end.

Fixpoint nodup_pairs (l : list (N * N)) : list (N * N) :=
  match l with
  | [] => []
  | x :: r => if existsb (fun y => (fst x =? fst y)%N && (snd x =? snd y)%N) r then nodup_pairs r else x :: nodup_pairs r
  end.

(* ================================================================== *)
Module DialCheck.

Inductive outcome := OConnected | ORefused | OUnsupported | OError.

Record case := mkD {
  d_id : N;
  d_cfg : bytes;            (* the director's configured host value *)
  d_kind : lkind;           (* type of the connection's local address *)
  d_lport : N;              (* its port *)
  d_out : outcome;          (* what Dial did *)
  d_net : lkind; d_ip : bytes; d_port : N   (* address of the returned connection / of the dial error *)
}.

Definition resolve_tab := list (bytes * list bytes).

Fixpoint resolve (t : resolve_tab) (h : bytes) : option (list bytes) :=
  match t with
  | [] => None
  | (n, ips) :: r => if eqb_bytes n h then Some ips else resolve r h
  end.

Definition reached (c : case) : bool :=
  match d_out c with OConnected | ORefused => true | _ => false end.

Definition at_addr (t : resolve_tab) (c : case) (k : lkind) (h : bytes) (port : N) : bool :=
  match resolve t h with
  | Some ips => reached c && eqb_lkind (d_net c) k && existsb (eqb_bytes (d_ip c)) ips && (d_port c =? port)%N
  | None => match d_out c with OError => true | _ => false end
  end.

Definition agrees (t : resolve_tab) (c : case) : bool :=
  match dial_model (d_cfg c) (d_kind c) (d_lport c) with
  | DUnsupported => match d_out c with OUnsupported => true | _ => false end
  | DError => match d_out c with OError => true | _ => false end
  | DAddr k h n => at_addr t c k h n
  end.

Definition mismatches_with (t : resolve_tab) (cs : list case) : list N :=
  map d_id (filter (fun c => negb (agrees t c)) cs).

Definition SIG_OTHER_ADDRESS := 1%N.
Definition SIG_NOT_DIALLED := 2%N.

(* the property on the implementation's own observation: a connection attempt goes to
   the configured backend (its port, or the connection's port if it has none) and
   nowhere else; with a tcp/udp connection and a resolvable backend it is made *)
Definition case_sig (t : resolve_tab) (c : case) : N :=
  match spec_backend (d_cfg c) with
  | None => 0
  | Some (h, po) =>
      let port := match po with Some n => n | None => d_lport c end in
      match d_kind c with
      | LOther => if reached c then SIG_OTHER_ADDRESS else 0
      | k =>
          match resolve t h with
          | None => if reached c then SIG_OTHER_ADDRESS else 0
          | Some ips =>
              if reached c then
                if eqb_lkind (d_net c) k && existsb (eqb_bytes (d_ip c)) ips && (d_port c =? port)%N
                then 0 else SIG_OTHER_ADDRESS
              else SIG_NOT_DIALLED
          end
      end
  end%N.

Definition violations_with (t : resolve_tab) (cs : list case) : list (N * N) :=
  flat_map (fun c => let s := case_sig t c in if (s =? 0)%N then [] else [(d_id c, s)]) cs.

(* 1 = configured port used, 2 = port taken from the connection, 4 = malformed
   configuration value, 8 = unsupported local address *)
Definition tags (cs : list case) : list (N * N) :=
  map (fun c => (d_id c,
    match d_kind c with
    | LOther => 8
    | _ => match spec_backend (d_cfg c) with
           | Some (_, Some _) => 1
           | Some (_, None) => 2
           | None => 4
           end
    end)%N) cs.

End DialCheck.

(* ================================================================== *)
Module HttpCheck.

Inductive item := CSeg (n : N) | CWait (k : N).

Record sreq := mkSReq {
  q_method : bytes; q_target : bytes; q_host : bytes;
  q_headers : list (bytes * bytes);      (* lower-cased names, stably sorted by name, no framing headers / Host *)
  q_chunked : bool; q_blen : N; q_bh : hash;  (* body: length and digest *)
  q_rawlen : N; q_rawh : hash }.              (* the serialised request as the backend read it *)

Record sresp := mkSResp { a_status : N; a_headers : list (bytes * bytes); a_blen : N; a_bh : hash }.

Record sevent := mkSEv { e_method : bytes; e_url : bytes; e_cl : Z; e_plen : N; e_ph : hash; e_attr : bool }.

Record case := mkH {
  h_id : N;
  h_msgs : list bytes;                 (* the client's messages; its stream is their concatenation *)
  h_items : list item;                 (* how it writes the stream and when it waits for replies *)
  h_replies : list (bytes * list N);   (* backend reply to the k-th request it receives, with its write sizes *)
  h_closes : list bool;                (* the backend closes (or resets) its connection after the k-th reply *)
  h_breqs : list sreq;                 (* observed: requests the backend received *)
  h_bconns : N; h_bgarbage : bool; h_bpeers : bool;
  h_cresps : list sresp;               (* observed: replies the client parsed *)
  h_cgarbage : bool;                   (* the client received bytes that are not a reply *)
  h_events : list sevent               (* observed: http-proxy events carrying the client's address *)
}.

Fixpoint citems (its : list item) (stream : bytes) : list citem :=
  match its with
  | [] => []
  | CSeg n :: r => ISeg (firstn (N.to_nat n) stream) :: citems r (skipn (N.to_nat n) stream)
  | CWait k :: r => IWait k :: citems r stream
  end.

Definition eqb_headers (a b : list (bytes * bytes)) : bool :=
  (length a =? length b)%nat &&
  forallb (fun p => eqb_bytes (fst (fst p)) (fst (snd p)) && eqb_bytes (snd (fst p)) (snd (snd p))) (combine a b).

(* a request as the model/spec has it against the backend's observation; headers given *)
Definition req_core_matches (m : sem_req) (q : sreq) : bool :=
  eqb_bytes (r_method m) (q_method q) && eqb_bytes (r_target m) (q_target q) && eqb_bytes (r_host m) (q_host q) &&
  Bool.eqb (r_chunked m) (q_chunked q) && (N.of_nat (length (r_body m)) =? q_blen q)%N && eqh (fnv (r_body m)) (q_bh q).

Definition req_matches (m : sem_req) (q : sreq) : bool :=
  req_core_matches m q && eqb_headers (r_headers m) (q_headers q).

Definition resp_matches (p : sem_resp) (a : sresp) : bool :=
  (p_status p =? a_status a)%N && eqb_headers (p_headers p) (a_headers a) &&
  (N.of_nat (length (p_body p)) =? a_blen a)%N && eqh (fnv (p_body p)) (a_bh a).

Fixpoint all2 {A B} (f : A -> B -> bool) (a : list A) (b : list B) : bool :=
  match a, b with
  | [], [] => true
  | x :: a', y :: b' => f x y && all2 f a' b'
  | _, _ => false
  end.

Definition model_run (c : case) : st * endk :=
  run (citems (h_items c) (concat (h_msgs c)))
      (st0c (map (fun r => cut (snd r) (fst r)) (h_replies c)) (h_closes c)).

Definition ev_matches (m : sem_req) (e : sevent) : bool :=
  eqb_bytes (r_method m) (e_method e) && eqb_bytes (r_target m) (e_url e) &&
  (e_cl e =? (if r_chunked m then -1 else Z.of_nat (length (r_body m)))) && e_attr e.

Definition req_head_matches (m : sem_req) (q : sreq) : bool :=
  eqb_bytes (r_method m) (q_method q) && eqb_bytes (r_target m) (q_target q) && eqb_bytes (r_host m) (q_host q) &&
  Bool.eqb (r_chunked m) (q_chunked q) && eqb_headers (r_headers m) (q_headers q).

Definition agrees (c : case) : bool :=
  let '(s, e) := model_run c in
  let fwd := rev (s_fwd s) in
  let n := length fwd in
  all2 resp_matches (rev (s_del s)) (h_cresps c) &&
  negb (h_cgarbage c) &&
  (all2 ev_matches fwd (h_events c) ||
   (* the request after which the proxy finds the backend gone: the event is sent once the request
      has been written, which on a connection the peer has closed succeeds or not (timing) *)
   (match e with EBackendClosed => all2 ev_matches fwd (removelast (h_events c)) | _ => false end)) &&
  match partial_forward s e with
  | None =>
      (all2 req_matches fwd (h_breqs c) ||
       (* the proxy closes the backend connection while backend bytes are still unread (it gave up on a
          reply it cannot parse, or the backend had written more than its replies): the kernel resets the
          connection, and whether the backend had already read the request just forwarded is a race *)
       ((match e with EBadReply => true | _ => false end || negb (match s_bbuf s ++ concat (s_bq s) with [] => true | _ => false end))
        && all2 req_matches (removelast fwd) (h_breqs c))) &&
      negb (h_bgarbage c) &&
      (h_bconns c =? (match h_breqs c with [] => 0 | _ => 1 end))%N
  | Some m =>
      (* the header block of a request whose body never completed went out as well *)
      all2 req_matches fwd (firstn n (h_breqs c)) &&
      all2 req_head_matches [m] (skipn n (h_breqs c)) && h_bgarbage c && (h_bconns c =? 1)%N
  end.

Definition mismatches (cs : list case) : list N := map h_id (filter (fun c => negb (agrees c)) cs).

(* ---- the property, judged on the observation ---- *)

Definition SIG_REQUEST_LOST := 1%N.          (* a lock-step request did not reach the backend *)
Definition SIG_PIPELINED_LOST := 2%N.        (* a request written before the previous reply arrived did not reach the backend *)
Definition SIG_UA_ADDED := 3%N.              (* backend saw net/http's own User-Agent on a request that had none - nothing else differs (repaired: c6a9515) *)
Definition SIG_REQUEST_CHANGED := 4%N.
Definition SIG_REPLY_LOST := 5%N.
Definition SIG_REPLY_CHANGED := 6%N.
Definition SIG_STRAY_AFTER_HEAD := 7%N.      (* reply to HEAD with Transfer-Encoding: chunked: stray bytes follow it (repaired: 5ae535b) *)
Definition SIG_CLIENT_GARBAGE := 8%N.
Definition SIG_EVENT := 9%N.                 (* not exactly one attributed event per relayed request, or its fields/payload differ *)
Definition SIG_BACKEND_GARBAGE := 10%N.
Definition SIG_PEERS := 11%N.
Definition SIG_UNREQUESTED := 12%N.          (* the backend received a request the client did not send *)
Definition SIG_CC_ADDED := 13%N.             (* "Cache-Control: no-cache" added to a message that only had "Pragma: no-cache" *)

(* how the former defects showed, kept so that a regression is reported under its own name *)
Definition ua_fix (hs : list header) : list header :=
  match hget S_UA hs with None => (S_UA, S_GOUA) :: hs | Some _ => hs end.
Definition stray_after (to_head : bool) (p : sem_resp) : bool := to_head && p_chunked p.
Definition old_reser_req (m : sem_req) : sem_req :=
  mkReq (r_method m) (r_target m) (r_host m) (sort_headers (ua_fix (pragma_fix (r_headers m)))) (r_chunked m) (r_body m).

Definition added_sigs (hs : list header) : list N :=
  (if eqb_headers (ua_fix hs) hs then [] else [SIG_UA_ADDED]) ++
  (if eqb_headers (pragma_fix hs) hs then [] else [SIG_CC_ADDED]).

(* the well-formed requests the client sends: a message that frames exactly as itself *)
Definition intended_req (msg : bytes) : option sem_req :=
  match frame_req msg with
  | QComplete n m => if (n =? length msg)%nat then Some m else None
  | _ => None
  end.

Fixpoint intended_prefix (msgs : list bytes) : list sem_req :=
  match msgs with
  | [] => []
  | x :: r => match intended_req x with Some m => m :: intended_prefix r | None => [] end
  end.

Definition intended_reply (to_head : bool) (raw : bytes) : option sem_resp :=
  match frame_resp to_head raw with
  | PComplete n p => if (n =? length raw)%nat then Some p else None
  | _ => None
  end.

Definition spec_headers (m : sem_req) : sem_req :=
  mkReq (r_method m) (r_target m) (r_host m) (sort_headers (r_headers m)) (r_chunked m) (r_body m).

(* lock-step: no segment crosses a message boundary, and a new message is begun only
   after the replies to all earlier ones have been awaited *)
Fixpoint bounds (acc : N) (lens : list N) : list N :=
  match lens with [] => [] | n :: r => (acc + n)%N :: bounds (acc + n)%N r end.

Fixpoint lockstep_items (its : list item) (bs : list N) (sent waited : N) : bool :=
  match its with
  | [] => true
  | CWait k :: r => lockstep_items r bs sent (N.max waited k)
  | CSeg n :: r =>
      let done := N.of_nat (length (filter (fun b => (b <=? sent)%N) bs)) in
      let next := match filter (fun b => (sent <? b)%N) bs with [] => sent | b :: _ => b end in
      (done <=? waited)%N && (sent + n <=? next)%N && lockstep_items r bs (sent + n)%N waited
  end.

Definition lockstep (c : case) : bool :=
  lockstep_items (h_items c) (bounds 0 (map (fun m => N.of_nat (length m)) (h_msgs c))) 0 0.

Definition default_resp : bytes := match DEFAULT_REPLY with x :: _ => x | [] => [] end.

(* walk the intended requests against the observations; [stray] = an earlier intended
   exchange was HEAD with a chunked reply *)
Fixpoint walk (ls wf : bool) (closes : list bool) (reqs : list sem_req) (reps : list (bytes * list N))
              (breqs : list sreq) (cresps : list sresp) (stray : bool) : list N :=
  match reqs with
  | [] => match breqs with
          | [] => []
          | _ => if wf then [if ls then SIG_UNREQUESTED else SIG_PIPELINED_LOST] else []   (* after a malformed message: no requirement *)
          end
  | m :: reqs' =>
      match breqs with
      | [] => [if ls then (if stray then SIG_STRAY_AFTER_HEAD else SIG_REQUEST_LOST) else SIG_PIPELINED_LOST]
      | q :: breqs' =>
          let s1 :=
            if req_matches (spec_headers m) q then []
            else if req_matches (reser_req m) q then [SIG_CC_ADDED]
            else if req_matches (old_reser_req m) q then added_sigs (r_headers m)
            else [if ls then SIG_REQUEST_CHANGED else SIG_PIPELINED_LOST] in   (* a reader that starts inside a pipelined request forwards a mangled one *)
          let raw := match reps with r :: _ => fst r | [] => default_resp end in
          match intended_reply (is_head m) raw with
          | None => s1                                   (* the backend's reply is itself not a reply: no requirement *)
          | Some p =>
              let stray' := stray || stray_after (is_head m) p in
              match cresps with
              | [] => s1 ++ [if stray then SIG_STRAY_AFTER_HEAD else SIG_REPLY_LOST]
              | a :: cresps' =>
                  s1 ++ (if resp_matches (mkResp (p_status p) (sort_headers (p_headers p)) (p_chunked p) (p_body p)) a
                         then []
                         else if resp_matches (reser_resp p) a then [SIG_CC_ADDED]
                         else [SIG_REPLY_CHANGED])
                     ++ (if match closes with b :: _ => b | [] => false end
                         then []        (* the backend closed its connection after this reply: no requirement for what the client sends next *)
                         else walk ls wf (tl closes) reqs' (tl reps) breqs' cresps' stray')
              end
          end
      end
  end.

Fixpoint replies_exact (reqs : list sem_req) (reps : list (bytes * list N)) : bool :=
  match reqs with
  | [] => true
  | m :: r =>
      (match reps with
       | x :: _ => match intended_reply (is_head m) (fst x) with Some _ => true | None => false end
       | [] => true
       end) && replies_exact r (tl reps)
  end.

Fixpoint any_stray (reqs : list sem_req) (reps : list (bytes * list N)) : bool :=
  match reqs with
  | [] => false
  | m :: r =>
      (match frame_resp (is_head m) (match reps with x :: _ => fst x | [] => default_resp end) with
       | PComplete _ p => stray_after (is_head m) p       (* the first reply in what the backend wrote *)
       | _ => false
       end) || any_stray r (tl reps)
  end.

(* events: one per request the backend received, same method/target/length, payload =
   the bytes the backend read for that request, attributed to the client *)
Definition ev_ok (q : sreq) (e : sevent) : bool :=
  eqb_bytes (q_method q) (e_method e) && eqb_bytes (q_target q) (e_url e) &&
  (e_cl e =? (if q_chunked q then -1 else Z.of_N (q_blen q))) &&
  (e_plen e =? q_rawlen q)%N && eqh (e_ph e) (q_rawh q) && e_attr e.

Definition case_sigs (c : case) : list N :=
  let reqs := intended_prefix (h_msgs c) in
  let wf := (length reqs =? length (h_msgs c))%nat in
  walk (lockstep c) wf (h_closes c) reqs (h_replies c) (h_breqs c) (h_cresps c) false
  ++ (if h_cgarbage c then [if any_stray reqs (h_replies c) then SIG_STRAY_AFTER_HEAD else SIG_CLIENT_GARBAGE] else [])
  ++ (if all2 ev_ok (firstn (length (h_events c)) (h_breqs c)) (firstn (length (h_breqs c)) (h_events c)) &&
         ((length (h_events c) =? length (h_breqs c))%nat
          || (h_bgarbage c && (S (length (h_events c)) =? length (h_breqs c))%nat)     (* a request cut short by the client is not recorded *)
          || ((negb (replies_exact reqs (h_replies c)) || existsb (fun b => b) (h_closes c)) && (length (h_events c) =? S (length (h_breqs c)))%nat))
                      (* a backend that writes more than the reply: the proxy may give up and close before the backend has read the last request *)
      then [] else [SIG_EVENT])
  ++ (if h_bgarbage c && wf then [SIG_BACKEND_GARBAGE] else [])
  ++ (if h_bpeers c && (h_bconns c <=? 1)%N then [] else [SIG_PEERS]).

Definition violations (cs : list case) : list (N * N) :=
  nodup_pairs (flat_map (fun c => map (fun s => (h_id c, s)) (case_sigs c)) cs).

(* 1 = one lock-step request, 2 = several lock-step requests, 4 = pipelined,
   8 = a malformed message in the stream; +16 when a chunked body occurs *)
Definition tags (cs : list case) : list (N * N) :=
  map (fun c =>
    let reqs := intended_prefix (h_msgs c) in
    let base :=
      if negb (length reqs =? length (h_msgs c))%nat then 8
      else if lockstep c then (match reqs with [_] => 1 | _ => 2 end) else 4 in
    (h_id c, base + (if existsb r_chunked reqs then 16 else 0)))%N cs.

End HttpCheck.

(* ================================================================== *)
Module RawCheck.

Inductive svc := SCopy | SDns.

Record case := mkR {
  w_id : N;
  w_svc : svc;
  w_kind : conn_kind;          (* concrete type of the connection Handle was given *)
  w_segs : list bytes;         (* the client's writes (datagram services: one datagram) *)
  w_reply : list bytes;        (* the backend's reply writes (datagram: at most one) *)
  w_parses : bool;             (* oracle (miekg/dns): the datagram / the length-framed message unpacks as a DNS message *)
  o_dials : N;                 (* observed: connections the backend saw *)
  o_backend : bytes;           (* observed: everything the backend received *)
  o_client : bytes;            (* observed: everything the client received *)
  o_events : N;                (* observed: events of the service's category attributed to the client's address *)
  o_evpayload : bool           (* observed: the event of a datagram that is not DNS carries exactly the datagram as payload *)
}.

Definition model (c : case) : raw_out :=
  match w_svc c with
  | SCopy => copy_model (w_kind c) (w_segs c) (w_reply c)
  | SDns => dns_model (w_kind c) (w_segs c) (w_parses c) (w_reply c)
  end.

Definition agrees (c : case) : bool :=
  let m := model c in
  (w_dials m =? o_dials c)%N && eqb_bytes (concat (w_backend m)) (o_backend c) &&
  eqb_bytes (concat (w_client m)) (o_client c) && (w_events m =? o_events c)%N && o_evpayload c.

Definition mismatches (cs : list case) : list N := map w_id (filter (fun c => negb (agrees c)) cs).

Definition SIG_COPY_NOTHING := 1%N.     (* copy relayed nothing although handed the connection the server hands it (repaired: 5e72194) *)
Definition SIG_DNS_NOTHING := 2%N.      (* dns-proxy likewise *)
Definition SIG_CHANGED := 3%N.          (* relayed bytes differ from what was sent / replied *)
Definition SIG_EVENT := 4%N.            (* relayed, but not exactly one event *)
Definition SIG_DIALS := 5%N.            (* more than one backend connection for one client connection *)
Definition SIG_DNS_NO_EVENT := 6%N.     (* dns-proxy relayed a datagram that is not a DNS message without recording it / its payload (repaired: ca56d6d) *)
Definition SIG_DNS_TCP := 7%N.          (* dns-proxy over a stream: a length-framed query or answer is not relayed whole (repaired: 4e8ef85) *)

Definition SIG_DGRAM_CUT := 8%N.        (* a datagram longer than the server's 1024-byte peek, on a port shared with a detector service: only the peeked part is relayed (repaired: 7028cca) *)

Definition wrapped (k : conn_kind) : bool := match k with KTimeout _ => true | _ => false end.

(* the property: the backend receives the client's bytes, the client the backend's
   reply, one event per relayed exchange, one backend connection.  For dns-proxy over a
   stream the requirement is for a stream that IS a length-framed DNS message (and an
   answer that is length-framed); anything else is a malformed stream without requirement *)
Definition case_sigs (c : case) : list N :=
  let sent := concat (w_segs c) in
  let datagram := match local_kind (w_kind c) with AUdp => true | _ => false end in
  let reply := if datagram then concat (first_of (w_reply c)) else concat (w_reply c) in
  let dns_tcp := match w_svc c, local_kind (w_kind c) with SDns, ATcp => true | _, _ => false end in
  match sent with
  | [] => []
  | _ =>
      if dns_tcp then
        match read_msg [sent] with
        | Some (q, _) =>
            if w_parses c then
              let want_c := match read_msg [reply] with Some (a, _) => pfx (length a) ++ a | None => [] end in
              if eqb_bytes (o_backend c) (pfx (length q) ++ q) && eqb_bytes (o_client c) want_c &&
                 (o_events c =? 1)%N && (o_dials c =? 1)%N
              then [] else [SIG_DNS_TCP]
            else []
        | None => []
        end
      else if match o_backend c with [] => true | _ => false end then
        [if wrapped (w_kind c)
         then (match w_svc c with SCopy => SIG_COPY_NOTHING | SDns => SIG_DNS_NOTHING end)
         else SIG_CHANGED]
      else
        (if eqb_bytes (o_backend c) sent && eqb_bytes (o_client c) reply then []
         else if datagram && has_peek (w_kind c) && eqb_bytes (o_backend c) (firstn PEEK sent) && eqb_bytes (o_client c) reply
              then [SIG_DGRAM_CUT] else [SIG_CHANGED])
        ++ (if (o_events c =? 1)%N && o_evpayload c then []
            else [match w_svc c with SDns => if w_parses c then SIG_EVENT else SIG_DNS_NO_EVENT | _ => SIG_EVENT end])
        ++ (if (o_dials c <=? 1)%N then [] else [SIG_DIALS])
  end.

Definition violations (cs : list case) : list (N * N) :=
  nodup_pairs (flat_map (fun c => map (fun s => (w_id c, s)) (case_sigs c)) cs).

(* 1 = default branch of the switch (nothing relayed), 2 = stream branch, 4 = datagram
   branch, +8 a message that is not DNS, +16 (stream dns) not a complete length-framed message *)
Definition tags (cs : list case) : list (N * N) :=
  map (fun c => (w_id c,
    (match type_switch (w_kind c) with BDefault => 1 | BTcp => 2 | BUdp => 4 end)
    + (match w_svc c with SDns => if w_parses c then 0 else 8 | _ => 0 end)
    + (match w_svc c, type_switch (w_kind c), read_msg (w_segs c) with SDns, BTcp, None => 16 | _, _, _ => 0 end))%N) cs.

End RawCheck.

(* ================================================================== *)
Module SshCheck.

Record case := mkS {
  z_id : N;
  z_user : bytes;
  z_passwords : list bytes;       (* the client's plan: presented in this order on one connection, until one is accepted *)
  z_pubkeys : N;                  (* distinct public keys the client offers before its passwords (after the initial none request) *)
  z_accept : bytes;               (* the password the backend accepts for the user *)
  z_reqs : list smsg;             (* channel requests the client sends, in order *)
  z_data : list bytes;            (* channel data the client writes *)
  z_reply : list bytes;           (* channel data the backend writes, then it closes the channel *)
  z_texty : bool;
  z_halfclose : bool;             (* the client ends its direction (EOF) after its data; the backend writes its reply only then *)
  o_ok : bool;                    (* observed: the client was authenticated *)
  o_pksent : N;                   (* observed: public-key offers the client made *)
  o_sent : N;                     (* observed: passwords the client sent (a prefix of its plan) *)
  o_verdicts : list N;            (* observed: what the client was told per password sent: 0 failure, 1 success, 2 nothing (the connection was ended) *)
  o_end : N;                      (* observed: 0 authenticated, 1 the client was out of credentials and stopped by itself (told failure for
                                     each, asked for more), 2 the peer ended the connection while the client had more to send *)
  o_bauth : list (bytes * bytes); (* observed: (user, password) attempts at the backend *)
  o_bconns : N;
  o_breqs : list smsg; o_bdata : bytes; o_cdata : bytes;
  o_replies : list bool;          (* what the client was told for its want-reply requests *)
  o_evpk : N;                     (* observed: publickey-authentication events attributed to the client *)
  o_evpw : list (bytes * bytes); o_evreqs : list bytes; o_evchan : N; o_evsess : N;
  o_rec : bytes; o_attr : bool
}.

Definition eqb_cred (a b : bytes * bytes) : bool := eqb_bytes (fst a) (fst b) && eqb_bytes (snd a) (snd b).
Definition eqb_smsg (a b : smsg) : bool :=
  match a, b with
  | MReq t w p, MReq t' w' p' => eqb_bytes t t' && Bool.eqb w w' && eqb_bytes p p'
  | MData d, MData d' => eqb_bytes d d'
  | _, _ => false
  end.

Fixpoint eqb_list {A} (f : A -> A -> bool) (a b : list A) : bool :=
  match a, b with
  | [], [] => true
  | x :: a', y :: b' => f x y && eqb_list f a' b'
  | _, _ => false
  end.

Fixpoint prefix_list {A} (f : A -> A -> bool) (a b : list A) : bool :=
  match a, b with
  | [], _ => true
  | x :: a', y :: b' => f x y && prefix_list f a' b'
  | _ :: _, [] => false
  end.

Definition attempts (c : case) : list cred := map (fun p => (z_user c, p)) (z_passwords c).
Definition accepts (c : case) (x : cred) : bool := eqb_bytes (snd x) (z_accept c).

(* the harness backend's policy for want-reply requests: env, pty-req, shell, exec succeed *)
Definition OK_TYPES : list bytes :=
  [[101;110;118]; [112;116;121;45;114;101;113]; [115;104;101;108;108]; [101;120;101;99]]%N.
Definition policy (ty : bytes) : bool := existsb (eqb_bytes ty) OK_TYPES.

Definition want_replies (l : list smsg) : list bool :=
  flat_map (fun m => match m with MReq t true _ => [policy t] | _ => [] end) l.
Definition req_types (l : list smsg) : list bytes :=
  flat_map (fun m => match m with MReq t _ _ => [t] | _ => [] end) l.

Definition client_msgs (c : case) : list smsg := z_reqs c ++ map MData (z_data c).

(* the session's two directions as a schedule for the duplex model *)
Definition sched (c : case) : list dev :=
  map DC (z_data c) ++ (if z_halfclose c then [DCEof] else []) ++ map DB (z_reply c) ++ [DBEof].

(* the client's plan as a dialogue: the initial none request, the public-key offers, the passwords *)
Definition plan (c : case) : list areq :=
  ANone :: repeat APub (N.to_nat (z_pubkeys c)) ++ map APw (z_passwords c).
Definition dialogue (c : case) : auth_obs :=
  auth_dialogue PROXY_MAX_AUTH_TRIES (accepts c) (z_user c) 0 (plan c).
Definition verdict_code (v : averdict) : N := match v with VFail => 0 | VOk => 1 | VClosed => 2 end%N.
(* the verdicts on the passwords (the plan's requests after none and the offers) *)
Definition pw_verdicts (c : case) (d : auth_obs) : list N :=
  map verdict_code (skipn (S (N.to_nat (z_pubkeys c))) (au_verdicts d)).
Definition has_code (x : N) (l : list N) : bool := existsb (N.eqb x) l.

Definition agrees (c : case) : bool :=
  let '(tried, ok) := auth_run (accepts c) (attempts c) in
  let d := dialogue c in
  Bool.eqb ok (o_ok c) && eqb_list eqb_cred tried (o_bauth c) && (o_bconns c =? N.of_nat (length tried))%N &&
  eqb_list eqb_cred tried (o_evpw c) && o_attr c &&
  (* the dialogue request by request *)
  eqb_list eqb_cred (au_saw d) (o_bauth c) && (o_sent c =? N.of_nat (length (au_saw d)))%N &&
  eqb_list N.eqb (pw_verdicts c d) (o_verdicts c) && Bool.eqb (has_code 1 (pw_verdicts c d)) (o_ok c) &&
  (o_pksent c =? z_pubkeys c)%N && (o_evpk c =? au_pk d)%N && au_open d &&
  (o_end c =? (if ok then 0 else 1))%N &&
  if ok then
    let relayed := ssh_relay (client_msgs c) [] in
    eqb_list eqb_smsg (reqs_of relayed) (o_breqs c) && eqb_bytes (data_of relayed) (o_bdata c) &&
    eqb_bytes (o_cdata c) (d_down (ssh_duplex (sched c))) && eqb_bytes (o_bdata c) (d_up (ssh_duplex (sched c))) &&
    eqb_list Bool.eqb (o_replies c) (want_replies (z_reqs c)) &&
    eqb_list eqb_bytes (req_types (z_reqs c)) (o_evreqs c) && (o_evchan c =? 1)%N && (o_evsess c =? 1)%N &&
    (if z_texty c && eqb_bytes (o_cdata c) (concat (z_reply c)) then eqb_bytes (o_rec c) (sanitize (concat (z_reply c))) else true)
  else
    match o_breqs c, o_bdata c, o_cdata c, o_evreqs c with
    | [], [], [], [] => (o_evchan c =? 0)%N && (o_evsess c =? 0)%N
    | _, _, _, _ => false
    end.

Definition mismatches (cs : list case) : list N := map z_id (filter (fun c => negb (agrees c)) cs).

Definition SIG_CRED := 1%N.
Definition SIG_REQS := 2%N.
Definition SIG_UP := 3%N.
Definition SIG_DOWN := 4%N.
Definition SIG_EVENT := 5%N.
Definition SIG_CONNS := 6%N.
Definition SIG_STATUS := 7%N.
Definition SIG_REPLY_RACE := 9%N.     (* the client was never told the outcome of a request the backend answered right before closing the channel (repaired: e6ccfa1) *)
Definition SIG_HALFCLOSE := 10%N.     (* the client ended its direction, what the backend wrote afterwards (or requests it had sent before) did not arrive (repaired: 3aa99de) *)
Definition SIG_AUTH_LOST := 11%N.     (* a credential the client sent on its connection was never presented to the backend *)
Definition SIG_AUTH_VERDICT := 12%N.  (* the client was told something else than the backend's verdict on the credential *)
Definition SIG_AUTH_CLOSED := 13%N.   (* the proxy ended the connection while the client was still authenticating: an attempt without
                                         a verdict, or the client cut off before it was accepted or had stopped by itself *)
Definition SIG_TRUNCATED := 8%N.      (* the client received only a proper prefix of the backend's channel data / request replies (repaired: fc51d79) *)

(* the property on the observation: the backend sees the credentials the client SENT (the
   prefix of its plan that it got to send), attempt by attempt, in order, once - however
   many there are; the client is told the backend's verdict on each; the connection is not
   ended under a client that has more to try; then requests and data as sent, the
   backend's data reaches the client; one event per attempt / offer / request / channel /
   session *)
Definition case_sigs (c : case) : list N :=
  let att := attempts c in
  let n := length (o_bauth c) in
  let sent := firstn (N.to_nat (o_sent c)) att in
  let backend_says := map (fun x => if accepts c x then 1 else 0)%N sent in
  (* what the backend saw is what was presented, unchanged and in order, and nothing the client did not send *)
  (if eqb_list eqb_cred (firstn n att) (o_bauth c) && (n <=? length sent)%nat then [] else [SIG_CRED])
  (* ... and all of it *)
  ++ (if (n <? length sent)%nat then [SIG_AUTH_LOST] else [])
  ++ (if eqb_list N.eqb (o_verdicts c) backend_says then []
      else if has_code 2 (o_verdicts c) then [SIG_AUTH_CLOSED] else [SIG_AUTH_VERDICT])
  ++ (if (o_end c =? 2)%N then [SIG_AUTH_CLOSED] else [])
  ++ (if Bool.eqb (o_ok c) (o_end c =? 0)%N && Bool.eqb (o_ok c) (has_code 1 (o_verdicts c)) then [] else [SIG_AUTH_VERDICT])
  ++ (if (o_bconns c =? N.of_nat n)%N then [] else [SIG_CONNS])
  ++ (if eqb_list eqb_cred (o_bauth c) (o_evpw c) && (o_evpk c =? o_pksent c)%N && o_attr c then [] else [SIG_EVENT])
  ++ (if o_ok c then
        (if eqb_list eqb_smsg (z_reqs c) (o_breqs c) then []
         else if z_halfclose c && prefix_list eqb_smsg (o_breqs c) (z_reqs c) then [SIG_HALFCLOSE] else [SIG_REQS])
        ++ (if eqb_bytes (concat (z_data c)) (o_bdata c) then [] else [SIG_UP])
        ++ (if eqb_bytes (o_cdata c) (concat (z_reply c)) then []
            else if is_prefix (o_cdata c) (concat (z_reply c)) then [if z_halfclose c then SIG_HALFCLOSE else SIG_TRUNCATED] else [SIG_DOWN])
        ++ (if eqb_list Bool.eqb (want_replies (z_reqs c)) (o_replies c) then []
            else if prefix_list Bool.eqb (o_replies c) (want_replies (z_reqs c)) then [SIG_REPLY_RACE] else [SIG_STATUS])
        ++ (if eqb_list eqb_bytes (req_types (o_breqs c)) (o_evreqs c) && (o_evchan c =? 1)%N && (o_evsess c =? 1)%N
            then [] else [SIG_EVENT])
      else []).

Definition violations (cs : list case) : list (N * N) :=
  nodup_pairs (flat_map (fun c => map (fun s => (z_id c, s)) (case_sigs c)) cs).

(* 1 = rejected, 2 = first password accepted, 4 = accepted after rejected attempts;
   +8 channel requests, +16 more than 16 KiB in one direction, +32 more than five refused
   authentication requests on the connection, +64 public-key offers before the passwords *)
Definition tags (cs : list case) : list (N * N) :=
  map (fun c =>
    let '(tried, ok) := auth_run (accepts c) (attempts c) in
    (z_id c,
     (if ok then (match tried with [_] => 2 | _ => 4 end) else 1)
     + (match z_reqs c with [] => 0 | _ => 8 end)
     + (if (16384 <? N.of_nat (length (concat (z_data c))))%N || (16384 <? N.of_nat (length (concat (z_reply c))))%N then 16 else 0)
     + (if (5 <? z_pubkeys c + N.of_nat (length (filter (fun x => negb (accepts c x)) tried)))%N then 32 else 0)
     + (if (0 <? z_pubkeys c)%N then 64 else 0))%N) cs.

End SshCheck.

(* ================================================================== *)
Module DuplexCheck.

(* copy over a stream, both directions with half-close, scripted at the granularity of
   writes and ends of direction.  Large chunks are given as (byte, length) and observations
   as (length, digest). *)
Inductive ev := XC (b : N) (n : N) | XCLit (d : bytes) | XCEof | XB (b : N) (n : N) | XBLit (d : bytes) | XBEof.

Definition dev_of (e : ev) : dev :=
  match e with
  | XC b n => DC (repeat b (N.to_nat n))
  | XCLit d => DC d
  | XCEof => DCEof
  | XB b n => DB (repeat b (N.to_nat n))
  | XBLit d => DB d
  | XBEof => DBEof
  end.

Record case := mkX {
  x_id : N;
  x_sched : list ev;
  o_uplen : N; o_uph : hash;        (* observed: what the backend received *)
  o_downlen : N; o_downh : hash;    (* observed: what the client received *)
  o_beof : bool;                    (* observed: the backend saw the end of the client's direction *)
  o_ceof : bool;                    (* observed: the client saw the end of the backend's direction *)
  o_events : N; o_dials : N
}.

Definition same (d : bytes) (n : N) (h : hash) : bool := (N.of_nat (length d) =? n)%N && eqh (fnv d) h.

Definition agrees (c : case) : bool :=
  let s := copy_duplex (map dev_of (x_sched c)) in
  same (d_up s) (o_uplen c) (o_uph c) && same (d_down s) (o_downlen c) (o_downh c) &&
  Bool.eqb (d_beof s) (o_beof c) && Bool.eqb (d_ceof s) (o_ceof c) && (o_events c =? 1)%N && (o_dials c =? 1)%N.

Definition mismatches (cs : list case) : list N := map x_id (filter (fun c => negb (agrees c)) cs).

Definition SIG_DOWN_LOST := 1%N.    (* what the backend wrote did not all reach the client (the client's direction had ended / was slow) *)
Definition SIG_UP_LOST := 2%N.      (* what the client wrote did not all reach the backend (the backend's direction had ended; repaired: 79a1675) *)
Definition SIG_CHANGED := 3%N.
Definition SIG_EVENT := 4%N.
Definition SIG_EOF_NOT_FORWARDED := 5%N.   (* the client ended its direction, the backend never saw it *)

(* the property: each side receives everything the other wrote before ending its own
   direction, whatever the order in which the directions end *)
Definition case_sigs (c : case) : list N :=
  let l := map dev_of (x_sched c) in
  (if same (downs l) (o_downlen c) (o_downh c) then []
   else if (o_downlen c <? N.of_nat (length (downs l)))%N then [SIG_DOWN_LOST] else [SIG_CHANGED])
  ++ (if same (ups l) (o_uplen c) (o_uph c) then []
      else if (o_uplen c <? N.of_nat (length (ups l)))%N then [SIG_UP_LOST] else [SIG_CHANGED])
  ++ (if existsb (fun e => match e with XCEof => true | _ => false end) (x_sched c) && negb (o_beof c) then [SIG_EOF_NOT_FORWARDED] else [])
  ++ (if (o_events c =? 1)%N && (o_dials c =? 1)%N then [] else [SIG_EVENT]).

Definition violations (cs : list case) : list (N * N) :=
  nodup_pairs (flat_map (fun c => map (fun s => (x_id c, s)) (case_sigs c)) cs).

(* 1 = the client ends its direction first, 2 = the backend does, 4 = only one side ends *)
Fixpoint first_end (l : list ev) : N :=
  match l with [] => 4 | XCEof :: _ => 1 | XBEof :: _ => 2 | _ :: r => first_end r end.
Definition tags (cs : list case) : list (N * N) := map (fun c => (x_id c, first_end (x_sched c))) cs.

End DuplexCheck.
