(* C15 - lemmas. *)
From HT Require Import Common.Bytes C15.Model.
From Coq Require Import Permutation.
Open Scope Z_scope.

(* ------------------------------------------------------------------ *)
(* splitting                                                           *)

Lemma has_app c a b : has c (a ++ b) = has c a || has c b.
Proof. induction a as [|x a IH]; cbn [has app]; [reflexivity|]. rewrite IH, orb_assoc; reflexivity. Qed.

Lemma split_first_spec c l a b :
  split_first c l = Some (a, b) -> l = a ++ c :: b /\ has c a = false.
Proof.
  revert a b; induction l as [|x l IH]; intros a b H; cbn [split_first] in H; [discriminate|].
  destruct (x =? c)%N eqn:E.
  - inversion H; subst. apply N.eqb_eq in E; subst. split; reflexivity.
  - destruct (split_first c l) as [[a' b']|] eqn:S; [|discriminate].
    inversion H; subst. destruct (IH _ _ eq_refl) as [-> Hn].
    split; [reflexivity|]. cbn [has]. rewrite E, Hn; reflexivity.
Qed.

Lemma split_first_app c a b : has c a = false -> split_first c (a ++ c :: b) = Some (a, b).
Proof.
  induction a as [|x a IH]; intros H; cbn [app split_first].
  - rewrite N.eqb_refl; reflexivity.
  - cbn [has] in H. apply orb_false_iff in H as [Hx Ha]. rewrite Hx, (IH Ha); reflexivity.
Qed.

Lemma split_first_none c l : has c l = false -> split_first c l = None.
Proof.
  induction l as [|x l IH]; intros H; cbn [split_first]; [reflexivity|].
  cbn [has] in H. apply orb_false_iff in H as [Hx Hl]. rewrite Hx, (IH Hl); reflexivity.
Qed.

Lemma split_last_none c l : has c l = false -> split_last c l = None.
Proof.
  induction l as [|x l IH]; intros H; cbn [split_last]; [reflexivity|].
  cbn [has] in H. apply orb_false_iff in H as [Hx Hl]. rewrite (IH Hl), Hx; reflexivity.
Qed.

Lemma split_last_app c a b : has c b = false -> split_last c (a ++ c :: b) = Some (a, b).
Proof.
  intros Hb. induction a as [|x a IH]; cbn [app split_last].
  - rewrite (split_last_none _ _ Hb), N.eqb_refl; reflexivity.
  - rewrite IH; reflexivity.
Qed.

Lemma split_last_none_inv c l : split_last c l = None -> has c l = false.
Proof.
  induction l as [|y l IH]; intros S; [reflexivity|]. cbn [split_last] in S. cbn [has].
  destruct (split_last c l) as [[? ?]|]; [discriminate|].
  destruct (y =? c)%N; [discriminate|]. cbn [orb]. apply IH; reflexivity.
Qed.

Lemma split_last_spec c l a b :
  split_last c l = Some (a, b) -> l = a ++ c :: b /\ has c b = false.
Proof.
  revert a b; induction l as [|x l IH]; intros a b H; cbn [split_last] in H; [discriminate|].
  destruct (split_last c l) as [[a' b']|] eqn:S.
  - inversion H; subst. destruct (IH _ _ eq_refl) as [-> Hn]. split; [reflexivity|exact Hn].
  - destruct (x =? c)%N eqn:E; [|discriminate]. inversion H; subst a b.
    apply N.eqb_eq in E; subst x. split; [reflexivity|]. apply split_last_none_inv, S.
Qed.

(* digits contain neither colon nor bracket *)
Lemma digits_has c p : all_digits p = true -> (c <? 48)%N || (57 <? c)%N = true -> has c p = false.
Proof.
  intros Hd Hc. induction p as [|x p IH]; [reflexivity|].
  cbn [all_digits forallb] in Hd. apply andb_true_iff in Hd as [Hx Hp].
  cbn [has]. rewrite (IH Hp), orb_false_r. unfold is_digit in Hx.
  apply N.eqb_neq. intros ->. lia.
Qed.

(* ------------------------------------------------------------------ *)
(* (a) dial                                                            *)

Lemma split_join_plain h p :
  has COLON h = false -> has 37%N h = false -> has LBR h = false -> has RBR h = false ->
  has COLON p = false -> has LBR p = false -> has RBR p = false ->
  split_host_port (join_host_port h p) = Some (h, p).
Proof.
  intros H1 H2 H3 H4 H5 H6 H7. unfold join_host_port. rewrite H1, H2. cbn [orb].
  unfold split_host_port. rewrite (split_last_app _ _ _ H5).
  destruct h as [|x h'].
  - rewrite H6, H7; reflexivity.
  - assert (Hx : (x =? LBR)%N = false) by (cbn [has] in H3; apply orb_false_iff in H3; tauto).
    rewrite Hx, H1, H3, H4, H6, H7. reflexivity.
Qed.

Lemma split_join_bracket h p :
  has LBR h = false -> has RBR h = false ->
  has COLON p = false -> has LBR p = false -> has RBR p = false ->
  split_host_port (LBR :: h ++ RBR :: COLON :: p) = Some (h, p).
Proof.
  intros H3 H4 H5 H6 H7. unfold split_host_port.
  replace (LBR :: h ++ RBR :: COLON :: p) with ((LBR :: h ++ [RBR]) ++ COLON :: p)
    by (cbn [app]; rewrite <- app_assoc; reflexivity).
  rewrite (split_last_app _ _ _ H5). cbn [app]. rewrite N.eqb_refl.
  rewrite (split_first_app RBR h [] H4). rewrite H3, H6, H7. reflexivity.
Qed.

Lemma split_join h p :
  has LBR h = false -> has RBR h = false ->
  has COLON p = false -> has LBR p = false -> has RBR p = false ->
  split_host_port (join_host_port h p) = Some (h, p).
Proof.
  intros H3 H4 H5 H6 H7.
  destruct (has COLON h || has 37%N h) eqn:E.
  - unfold join_host_port; rewrite E. apply split_join_bracket; assumption.
  - apply orb_false_iff in E as [E1 E2]. apply split_join_plain; assumption.
Qed.

(* decimal printing and reading back *)
Lemma dec_fuel_spec fuel : forall n acc, (n < 10 ^ N.of_nat fuel)%N -> (0 < fuel)%nat ->
  exists d, dec_fuel fuel n acc = d ++ acc /\ all_digits d = true /\ d <> [] /\
            forall a, parse_dec_acc a (d ++ acc) = parse_dec_acc (a * 10 ^ N.of_nat (length d) + n)%N acc.
Proof.
  induction fuel as [|f IH]; intros n acc Hn Hf; [lia|].
  cbn [dec_fuel]. destruct (n <? 10)%N eqn:E.
  - exists [(48 + n mod 10)%N]. apply N.ltb_lt in E.
    rewrite (N.mod_small n 10 E).
    split; [reflexivity|]. split.
    { cbn [all_digits forallb]. unfold is_digit. rewrite andb_true_r. apply andb_true_iff; split; apply N.leb_le; lia. }
    split; [discriminate|]. intros a. cbn [app parse_dec_acc length].
    assert (Hd : is_digit (48 + n)%N = true) by (unfold is_digit; apply andb_true_iff; split; apply N.leb_le; lia).
    rewrite Hd. f_equal. change (N.of_nat 1) with 1%N. lia.
  - apply N.ltb_ge in E.
    destruct f as [|f'].
    { change (10 ^ N.of_nat 1)%N with 10%N in Hn. lia. }
    assert (Hq : (n / 10 < 10 ^ N.of_nat (S f'))%N).
    { apply N.div_lt_upper_bound; [lia|]. rewrite <- N.pow_succ_r'. 
      replace (N.succ (N.of_nat (S f'))) with (N.of_nat (S (S f'))) by lia. exact Hn. }
    destruct (IH (n / 10)%N ((48 + n mod 10)%N :: acc) Hq ltac:(lia)) as (d & Hd & Hdig & Hne & Hp).
    exists (d ++ [(48 + n mod 10)%N]). rewrite Hd, <- app_assoc. cbn [app].
    split; [reflexivity|]. split.
    { unfold all_digits in *. rewrite forallb_app, Hdig. cbn [forallb andb]. rewrite andb_true_r.
      unfold is_digit. pose proof (N.mod_lt n 10 ltac:(lia)). apply andb_true_iff; split; apply N.leb_le; lia. }
    split; [intros C; apply app_eq_nil in C; destruct C; discriminate|].
    intros a. rewrite Hp. cbn [parse_dec_acc].
    pose proof (N.mod_lt n 10 ltac:(lia)) as Hm.
    assert (Hd2 : is_digit (48 + n mod 10)%N = true) by (unfold is_digit; apply andb_true_iff; split; apply N.leb_le; lia).
    rewrite Hd2. f_equal. rewrite app_length. cbn [length].
    replace (N.of_nat (length d + 1)) with (N.succ (N.of_nat (length d))) by lia.
    rewrite N.pow_succ_r'. pose proof (N.div_mod n 10 ltac:(lia)). 
    replace (48 + n mod 10 - 48)%N with (n mod 10)%N by lia. nia.
Qed.

Lemma dec_spec n : (n <= 65535)%N ->
  all_digits (dec n) = true /\ dec n <> [] /\ parse_port (dec n) = Some n.
Proof.
  intros Hn. unfold dec.
  destruct (dec_fuel_spec 40 n [] ltac:(change (10 ^ N.of_nat 40)%N with 10000000000000000000000000000000000000000%N; lia) ltac:(lia))
    as (d & Hd & Hdig & Hne & Hp).
  rewrite app_nil_r in Hd. rewrite Hd. split; [exact Hdig|]. split; [exact Hne|].
  unfold parse_port, parse_dec. destruct d as [|x d']; [congruence|].
  specialize (Hp 0%N). rewrite app_nil_r in Hp. rewrite Hp. cbn [parse_dec_acc].
  replace (0 * 10 ^ N.of_nat (length (x :: d')) + n)%N with n by lia.
  destruct (n <=? 65535)%N eqn:E; [reflexivity|]. apply N.leb_gt in E. lia.
Qed.

Lemma digits_no_special p : all_digits p = true ->
  has COLON p = false /\ has LBR p = false /\ has RBR p = false.
Proof. intros H. repeat split; apply digits_has; auto. Qed.

Lemma has_split c h x p : has c (h ++ x :: p) = false -> has c h = false /\ (x =? c)%N = false /\ has c p = false.
Proof.
  rewrite has_app. cbn [has]. intros H. apply orb_false_iff in H as [H1 H2].
  apply orb_false_iff in H2 as [H2 H3]. auto.
Qed.

Lemma dial_only_backend cfg k lport h po :
  spec_backend cfg = Some (h, po) -> k <> LOther -> (lport <= 65535)%N ->
  dial_model cfg k lport = DAddr k h (match po with Some n => n | None => lport end).
Proof.
  intros Hs Hk Hl. unfold spec_backend in Hs.
  destruct (dec_spec lport Hl) as (Dd & Dne & Dp).
  destruct (digits_no_special _ Dd) as (Dc & Dl & Dr).
  assert (Htgt : forall h' p', split_host_port cfg = Some (h', p') -> dial_target cfg k lport = Some (k, h', p')).
  { intros h' p' E. unfold dial_target. rewrite E. destruct k; congruence. }
  assert (Hnone : split_host_port cfg = None -> dial_target cfg k lport = Some (k, cfg, dec lport)).
  { intros E. unfold dial_target. rewrite E. destruct k; congruence. }
  destruct (has LBR cfg || has RBR cfg) eqn:Ebr.
  - (* "[h]:p" *)
    destruct cfg as [|x r]; [discriminate|].
    destruct (x =? LBR)%N eqn:Ex; [|discriminate]. apply N.eqb_eq in Ex; subst x.
    destruct (split_first RBR r) as [[h1 rest]|] eqn:Sf; [|discriminate].
    destruct rest as [|y p]; [discriminate|].
    destruct ((y =? COLON)%N && negb (has LBR h1) && nonempty h1 && all_digits p && nonempty p) eqn:Ec; [|discriminate].
    repeat (apply andb_true_iff in Ec; destruct Ec as [Ec ?]).
    destruct (parse_port p) as [n|] eqn:Pp; [|discriminate]. inversion Hs; subst h po.
    apply N.eqb_eq in Ec; subst y. apply negb_true_iff in H2.
    destruct (split_first_spec _ _ _ _ Sf) as [-> Hrb].
    destruct (digits_no_special _ H0) as (Pc & Pl & Pr).
    unfold dial_model. rewrite (Htgt h1 p (split_join_bracket h1 p H2 Hrb Pc Pl Pr)).
    rewrite (split_join h1 p H2 Hrb Pc Pl Pr), Pp. reflexivity.
  - apply orb_false_iff in Ebr as [El Er].
    destruct (split_first COLON cfg) as [[h1 p]|] eqn:Sf.
    + destruct (split_first_spec _ _ _ _ Sf) as [-> Hch].
      destruct (has_split _ _ _ _ El) as (Hl1 & _ & Hl2).
      destruct (has_split _ _ _ _ Er) as (Hr1 & _ & Hr2).
      destruct (has COLON p) eqn:Ecp.
      * (* bare IPv6 *)
        inversion Hs; subst h po.
        assert (Hn : split_host_port (h1 ++ COLON :: p) = None).
        { unfold split_host_port.
          destruct (split_last COLON (h1 ++ COLON :: p)) as [[a b]|] eqn:Sl; [|reflexivity].
          destruct (split_last_spec _ _ _ _ Sl) as [Eab Hb].
          destruct (has COLON a) eqn:Ea.
          - destruct a as [|x a']; [discriminate|].
            assert (Hx : (x =? LBR)%N = false).
            { rewrite Eab in El. cbn [app has] in El. apply orb_false_iff in El; tauto. }
            rewrite Hx. reflexivity.
          - exfalso. pose proof (split_first_app COLON a b Ea) as Sf'. rewrite <- Eab, Sf in Sf'.
            inversion Sf'; subst. congruence. }
        unfold dial_model. rewrite (Hnone Hn).
        assert (Hc : has COLON (h1 ++ COLON :: p) = true).
        { rewrite has_app. cbn [has]. rewrite N.eqb_refl, orb_true_r. reflexivity. }
        rewrite (split_join _ _ El Er Dc Dl Dr), Dp. reflexivity.
      * destruct (nonempty h1 && nonempty p && all_digits p) eqn:Ec; [|discriminate].
        repeat (apply andb_true_iff in Ec; destruct Ec as [Ec ?]).
        destruct (parse_port p) as [n|] eqn:Pp; [|discriminate]. inversion Hs; subst h po.
        assert (Hsp : split_host_port (h1 ++ COLON :: p) = Some (h1, p)).
        { unfold split_host_port. rewrite (split_last_app _ _ _ Ecp).
          destruct h1 as [|x h']; [discriminate|].
          assert (Hx : (x =? LBR)%N = false) by (cbn [has] in Hl1; apply orb_false_iff in Hl1; tauto).
          rewrite Hx, Hch, Hl1, Hl2, Hr1, Hr2. reflexivity. }
        unfold dial_model. rewrite (Htgt _ _ Hsp), (split_join _ _ Hl1 Hr1 Ecp Hl2 Hr2), Pp. reflexivity.
    + destruct (nonempty cfg) eqn:Ene; [|discriminate]. inversion Hs; subst h po.
      assert (Hn : split_host_port cfg = None).
      { unfold split_host_port.
        destruct (split_last COLON cfg) as [[a b]|] eqn:Sl; [|reflexivity].
        destruct (split_last_spec _ _ _ _ Sl) as [Eab _]. exfalso.
        destruct (has COLON a) eqn:Ea.
        - assert (has COLON cfg = true) by (rewrite Eab, has_app, Ea; reflexivity).
          clear -Sf H. induction cfg as [|x l IH]; [discriminate|].
          cbn [split_first] in Sf. cbn [has] in H. destruct (x =? COLON)%N; [discriminate|].
          destruct (split_first COLON l) as [[? ?]|]; [discriminate|]. apply IH; auto.
        - rewrite Eab, (split_first_app COLON a b Ea) in Sf. discriminate. }
      unfold dial_model. rewrite (Hnone Hn), (split_join _ _ El Er Dc Dl Dr), Dp. reflexivity.
Qed.

Lemma split_host_port_shape cfg h p :
  split_host_port cfg = Some (h, p) ->
  exists a, cfg = a ++ COLON :: p /\ (h = a \/ a = LBR :: h ++ [RBR]).
Proof.
  unfold split_host_port. destruct (split_last COLON cfg) as [[a b]|] eqn:Sl; [|discriminate].
  destruct (split_last_spec _ _ _ _ Sl) as [-> _]. intros E.
  destruct a as [|x a'].
  - destruct (has LBR b || has RBR b); inversion E; subst. exists []; auto.
  - destruct (x =? LBR)%N eqn:Ex.
    + apply N.eqb_eq in Ex; subst x.
      destruct (split_first RBR a') as [[h1 rest]|] eqn:Sf; [|discriminate].
      destruct rest; [|discriminate].
      destruct (has LBR h1 || has LBR b || has RBR b); inversion E; subst.
      destruct (split_first_spec _ _ _ _ Sf) as [-> _]. exists (LBR :: h ++ [RBR]); auto.
    + destruct (has COLON (x :: a') || has LBR (x :: a') || has LBR b || has RBR (x :: a') || has RBR b);
        inversion E; subst. exists (x :: a'); auto.
Qed.

(* whatever the configuration value: the host handed to net.Dial is the value itself or
   a contiguous part of it, the port is a suffix of it or the connection's own port *)
Lemma dial_host_from_config cfg k lport k' h p :
  dial_target cfg k lport = Some (k', h, p) ->
  k' = k /\ ((h = cfg /\ p = dec lport) \/
             ((exists pre post, cfg = pre ++ h ++ post) /\ (exists pre, cfg = pre ++ p))).
Proof.
  unfold dial_target. destruct k; try discriminate.
  all: destruct (split_host_port cfg) as [[h' p']|] eqn:E; intros H; inversion H; subst; split; auto; right.
  all: destruct (split_host_port_shape _ _ _ E) as (a & -> & [-> | ->]).
  all: split; [|eexists (_ ++ [COLON]); rewrite <- app_assoc; reflexivity].
  all: try (exists [], (COLON :: p); reflexivity).
  all: exists [LBR], (RBR :: COLON :: p); cbn [app]; rewrite <- app_assoc; reflexivity.
Qed.

Lemma dial_unsupported cfg lport : dial_model cfg LOther lport = DUnsupported.
Proof. reflexivity. Qed.
